#!/venv/bin/python
"""Runs the repository's test-suite (xdist) and compares the set of passing tests
with the stable baseline of /root/.vp/BASELINE.json.  Exit 0 iff every stable_pass test passes."""
import json, subprocess, sys, os, tempfile, xml.etree.ElementTree as ET
repo = sys.argv[1] if len(sys.argv) > 1 else "/repo"
base = json.load(open("/root/.vp/BASELINE.json"))
stable = set(base["stable_pass"])
tmp = tempfile.mkdtemp(prefix="asbl")
junit = os.path.join(tmp, "j.xml")
env = dict(os.environ, PYTHONDONTWRITEBYTECODE="1")
env.pop("ANTISMASH_VERIF", None)
subprocess.run(["/venv/bin/python", "-m", "pytest", "-q", "-p", "no:cacheprovider", "--timeout=900",
                "--continue-on-collection-errors", "-n", "16", f"--junitxml={junit}"],
               cwd=repo, env=env, stdout=subprocess.DEVNULL, stderr=subprocess.DEVNULL)
passed = set()
for tc in ET.parse(junit).getroot().iter("testcase"):
    if not any(ch.tag in ("failure", "error", "skipped") for ch in tc):
        passed.add(f"{tc.get('classname')}::{tc.get('name')}")
missing = sorted(stable - passed)
print(f"stable={len(stable)} passed={len(passed)} stable_missing={len(missing)}")
for m in missing[:40]:
    print("  MISSING", m)
import shutil; shutil.rmtree(tmp)
sys.exit(1 if missing else 0)
