#!/venv/bin/python
"""Queue worker for confirming freshly written seeded changes from a snapshot of /verif (vp run): takes job files
<queue>/<name>.job = JSON {"dir": seed dir, "name": "Cnn-seedK", "checks": "C05,C17"}, runs tools/seedtest.py --keep --scratch on
each (kept under SEED_KEEP_ROOT), writes <queue>/../results/<name>.json, stops when <queue>/STOP exists and the queue is empty."""
import json, os, subprocess, sys, time
VERIF = os.path.dirname(os.path.dirname(os.path.abspath(__file__)))
queue = sys.argv[1]
results = os.path.join(os.path.dirname(queue.rstrip("/")), "results")
os.makedirs(results, exist_ok=True)
while True:
    jobs = sorted(f for f in os.listdir(queue) if f.endswith(".job"))
    if not jobs:
        if os.path.exists(os.path.join(queue, "STOP")):
            break
        time.sleep(20)
        continue
    mine = os.path.join(queue, jobs[0] + f".run{os.getpid()}")
    try:
        os.rename(os.path.join(queue, jobs[0]), mine)
    except OSError:
        continue
    job = json.load(open(mine))
    cmd = [os.path.join(VERIF, "tools", "seedtest.py"), job["dir"], job["name"], "--keep", "--scratch", "--checks", job["checks"]]
    out = subprocess.run(cmd, stdout=subprocess.PIPE, stderr=subprocess.STDOUT, text=True, cwd=VERIF).stdout
    with open(os.path.join(results, job["name"] + ".json"), "w") as handle:
        handle.write(out)
    os.rename(mine, mine.replace(".job.run", ".done"))
    print(job["name"], "done", flush=True)
