#!/venv/bin/python
"""Merges a builder copy /tmp/vb/Cnn/verif into /verif: coq/Cnn/*.v, harness/cnn.py, notes, dispatch lines, known findings."""
import json, os, re, shutil, sys
prop = sys.argv[1]
num = int(prop[1:])
src = f"/tmp/vb/{prop}/verif"
dst = "/verif"
os.makedirs(f"{dst}/coq/{prop}", exist_ok=True)
for name in os.listdir(f"{src}/coq/{prop}"):
    if name.endswith(".v") and not name.startswith("."):
        shutil.copy(f"{src}/coq/{prop}/{name}", f"{dst}/coq/{prop}/{name}")
shutil.copy(f"{src}/harness/{prop.lower()}.py", f"{dst}/harness/{prop.lower()}.py")
os.makedirs(f"{dst}/notes", exist_ok=True)
for name in (f"notes_{prop}.md", f"fixes_{prop}.diff", f"known_findings_{prop}.json"):
    if os.path.exists(f"{src}/{name}"):
        shutil.copy(f"{src}/{name}", f"{dst}/notes/{name}")
# extra harness modules the builder created
for name in os.listdir(f"{src}/harness"):
    if name.endswith(".py") and not os.path.exists(f"{dst}/harness/{name}"):
        shutil.copy(f"{src}/harness/{name}", f"{dst}/harness/{name}")
        print("extra harness module", name)
# _CoqProject: take the builder's lines for this property, in its order
proj_src = open(f"{src}/coq/_CoqProject").read().splitlines()
lines = [l for l in proj_src if l.startswith(f"{prop}/")]
proj = open(f"{dst}/coq/_CoqProject").read().splitlines()
proj = [l for l in proj if not l.startswith(f"{prop}/")]
idx = proj.index("Run.v")
proj[idx:idx] = lines
open(f"{dst}/coq/_CoqProject", "w").write("\n".join(proj) + "\n")
run = open(f"{dst}/coq/Run.v").read()
if f"From ASV.{prop} Require Model." not in run:
    run = run.replace("\nDefinition run ", f"From ASV.{prop} Require Model.\n\nDefinition run ", 1).replace("\n\nFrom ASV", "\nFrom ASV")
    run = run.replace("    | _ => bad_input\n    end\n  | _ => bad_input", f"    | {num} => {prop}.Model.run_{prop} fn payload\n    | _ => bad_input\n    end\n  | _ => bad_input")
    open(f"{dst}/coq/Run.v", "w").write(run)
print("merged", prop, lines)
for name in ("translator/tables_defs.py", "translator/tables.py", "harness/common.py"):
    a, b = open(f"{src}/{name}").read(), open(f"{dst}/{name}").read()
    if a != b:
        print("DIFFERS:", name)
