#!/venv/bin/python
"""tools/fingerprint.py --update : rewrite anchors.lock.json from /repo's working tree (run after every commit to /repo,
once all checks are silent on it);  tools/fingerprint.py : show the drift of every property against the lock."""
import os, sys
sys.path.insert(0, os.path.join(os.path.dirname(os.path.dirname(os.path.abspath(__file__))), "harness"))
import drift
if "--update" in sys.argv:
    doc = drift.write_lock("/repo")
    print("lock written for", len(doc["properties"]), "properties at", doc["repo_commit"][:8])
else:
    import json
    for prop in sorted(json.load(open(drift.LOCK))["properties"]):
        changes = drift.diff(prop, os.environ.get("VERIF_REPO", "/repo"))
        print(prop, len(changes), changes[:5])
