#!/venv/bin/python
"""Merges a deepen copy /tmp/vd/Cnn/verif (or a builder copy with --builder) into /verif: coq/Cnn/*.v, harness/cnn.py,
notes/*Cnn*, and appends new known-finding entries (renaming ids that clash)."""
import json, os, shutil, sys, glob
prop = sys.argv[1]
src = f"/tmp/vd/{prop}/verif"
dst = "/verif"
for path in glob.glob(f"{src}/coq/{prop}/*.v"):
    shutil.copy(path, f"{dst}/coq/{prop}/")
shutil.copy(f"{src}/harness/{prop.lower()}.py", f"{dst}/harness/{prop.lower()}.py")
os.makedirs(f"{dst}/notes", exist_ok=True)
for path in glob.glob(f"{src}/notes/*{prop}*"):
    shutil.copy(path, f"{dst}/notes/")
# _CoqProject: additional files of the property
proj_src = [l for l in open(f"{src}/coq/_CoqProject").read().splitlines() if l.startswith(f"{prop}/")]
proj = open(f"{dst}/coq/_CoqProject").read().splitlines()
if [l for l in proj if l.startswith(f"{prop}/")] != proj_src:
    first = min(i for i, l in enumerate(proj) if l.startswith(f"{prop}/"))
    proj = [l for l in proj if not l.startswith(f"{prop}/")]
    proj[first:first] = proj_src
    open(f"{dst}/coq/_CoqProject", "w").write("\n".join(proj) + "\n")
    print("updated _CoqProject", proj_src)
for name in ("coq/Common/Base.v", "coq/Common/Loc.v", "harness/common.py", "harness/detect_util.py", "coq/Run.v"):
    if open(f"{src}/{name}").read() != open(f"{dst}/{name}").read():
        print("DIFFERS (not merged):", name)
def merge_findings(prop, path):
    if not os.path.exists(path):
        return
    d = json.load(open(f"{dst}/known_findings.json"))
    have = {(f["property"], f["class"]) for f in d["findings"]}
    ids = {f["id"] for f in d["findings"]}
    srcd = json.load(open(path))
    for f in (srcd["findings"] if isinstance(srcd, dict) else srcd):
        if (f["property"], f["class"]) in have:
            continue
        while f["id"] in ids:
            f["id"] = f["id"] + "x"
        ids.add(f["id"]); d["findings"].append(f); print("added finding", f["id"], f["property"], f["class"])
    json.dump(d, open(f"{dst}/known_findings.json", "w"), indent=1)
merge_findings(prop, f"{dst}/notes/known_findings_{prop}.json")
print("merged", prop)
