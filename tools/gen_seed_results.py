#!/venv/bin/python
"""Keeps seeded/RESULTS.md complete: rows of the last full sweep stay as they are, a row is added for every kept change that
has none yet (from its meta.json: checks run when it was confirmed, which check reported it, what was strengthened)."""
import glob, json, os, re
V = os.path.dirname(os.path.dirname(os.path.abspath(__file__)))
path = os.path.join(V, "seeded", "RESULTS.md")
lines = open(path).read().split("\n")
head = [l for l in lines if not l.startswith("| C")]
rows = {l.split(":")[0].strip("| ").strip(): l for l in lines if l.startswith("| C")}
for d in sorted(glob.glob(os.path.join(V, "seeded", "C*-seed*"))):
    name = os.path.basename(d)
    meta = json.load(open(os.path.join(d, "meta.json")))
    checks = ",".join(meta.get("checks_run", {}).keys())
    caught = (meta.get("confirmed") or {}).get("caught_by", [])
    kinds = {c: r.get("kind") for c, r in meta.get("checks_run", {}).items()}
    if meta.get("strengthened"):
        st = meta["strengthened"]
        res = f"missed at first; after strengthening: caught by {', '.join(st['caught_by'])} ({st['kind']})"
    elif caught:
        res = "caught by " + ", ".join(f"{c} ({kinds.get(c)})" for c in caught)
    else:
        res = "MISSED"
    if name not in rows or ("MISSED" in rows[name] and res != "MISSED"):
        rows[name] = f"| {name}: {(meta.get('summary') or '')[:160].replace('|', '/')} | {checks} | {res} |"
ordered = sorted(rows.values(), key=lambda l: (l.split("-seed")[0], int(re.search(r"-seed(\d+)", l).group(1))))
body = [l for l in head if l.strip()]
open(path, "w").write("\n".join(body[:1]) + "\n\n" + "\n".join(body[1:]) + "\n" + "\n".join(ordered) + "\n")
print(len(ordered), "rows;", sum("MISSED" in l for l in ordered), "missed")
