#!/usr/bin/env python3
"""Writes /verif/MANIFEST.json from tools/manifest_data.py (one entry per claimed property)."""
import json, os, sys
HERE = os.path.dirname(os.path.abspath(__file__))
sys.path.insert(0, HERE)
from manifest_data import CLAIMED, NOT_APPLICABLE_REASONS, FIX_COMMITS, ADDENDA
ALL = [f"C{i:02d}" for i in range(1, 21)]
import re
def notes_level_text(pid):
    """ level text written by the builder of the property, section (a) of notes/notes_Cnn.md """
    path = os.path.join(HERE, "..", "notes", f"notes_{pid}.md")
    if not os.path.exists(path):
        return None
    text = open(path).read()
    m = re.search(r"^#+[^\n]*level_text[^\n]*\n(.*?)(?=^#+ )", text, flags=re.S | re.M)
    if not m:
        return None
    body = re.sub(r"\s+", " ", m.group(1)).strip().strip("`")
    return body
for pid in ALL:
    if os.path.exists(os.path.join(HERE, "..", "harness", pid.lower() + ".py")):
        body = notes_level_text(pid)
        if body:
            # the notes of the most recent (deepening) pass describe the current state
            entry = CLAIMED.setdefault(pid, {})
            entry["text"] = body
            entry["note"] = (entry.get("note", "") + " Details, theorem list and mutation results: notes/notes_%s.md." % pid).strip()
TRUST = ("Trusted: Coq 8.16.1 kernel (full .vo build; vm_compute only over finite generated tables and for the evaluator cross-check; "
         "no native_compute); every theorem is reported 'Closed under the global context' by Print Assumptions (no axioms) unless the "
         "evidence file names one; extraction (ExtrOcamlBasic directives only) + 15-line OCaml driver, cross-checked against vm_compute "
         "each run; translator/tables.py; the Python harness (generators, adapters, canonicalisers).  The Python functions are MODELLED "
         "by hand-written Gallina, not verified: the claim about the code is theorem-about-model + observed model/implementation agreement "
         "on the generated inputs of each run. ")
sys.path.insert(0, os.path.join(HERE, "..", "translator"))
import kernels_defs
_KF = json.load(open(os.path.join(os.path.dirname(os.path.dirname(os.path.abspath(__file__))), 'known_findings.json')))['findings']
_FIXES = sorted({c for f in _KF if f.get('status') == 'fixed' for c in str(f.get('commit', '')).replace('+', ' ').split() if c})
FIX_SUMMARY = f"{len(_FIXES)} fix: commits for {sum(1 for f in _KF if f.get('status') == 'fixed')} repaired findings, {sum(1 for f in _KF if f.get('status') == 'known')} findings recorded as known (not repaired)"
def kernel_text(pid):
    groups = [g for g, props in kernels_defs.PROPS.items() if pid in props]
    if not groups:
        return ""
    names = [f"{k['name']} <- {k['func']}" for k in kernels_defs.KERNELS if k["group"] in groups]
    return (" REGENERATED FROM SOURCE on every run (translator/kernels.py, fail closed per kernel): "
            + "; ".join(names) + ". The lemmas of " + ", ".join(f"coq/Tie/Tie_{g}.v" for g in groups)
            + " prove for all arguments that the model's definitions are these generated terms (by arithmetic, not by syntax: "
            "a meaning-preserving rewrite of the source still checks, a changed comparison / operand / constant does not); "
            "a tie that no longer checks is reported as a broken obligation and the correspondence run then looks for the failing input.")
checks = []
for pid in ALL:
    if pid not in CLAIMED:
        continue
    c = CLAIMED[pid]
    if pid in ADDENDA:
        c["text"] = c["text"] + " " + ADDENDA[pid]
    if kernel_text(pid):
        c["text"] = c["text"] + kernel_text(pid)
        c.setdefault("technique", "machine-checked proof in Coq 8.16.1 about a hand-written Gallina model + differential correspondence run against the implementation")
        c["technique"] += " + arithmetic/decision kernels regenerated from the current source by a translator and tied to the model by kernel-checked lemmas"
    checks.append({
        "property_id": pid,
        "quick_cmd": f"./check {pid} --tier quick",
        "thorough_cmd": f"./check {pid} --tier thorough",
        "evidence_file": f"/verif/evidence/{pid}.json",
        "replay_cmd_template": f"./check {pid} --replay {{path}}",
        "engine": "coq-model+correspondence",
        "level_claimed": {"category": "proof", "text": c["text"], "design_ref": c.get("design_ref", f"DESIGN.md section 6 ({pid}) and section 11")},
        "level_note": TRUST + c.get("note", ""),
        "technique": c.get("technique", "machine-checked proof in Coq 8.16.1 about a hand-written Gallina model + differential correspondence run against the implementation"),
    })
manifest = {
    "version": 1,
    "setup_cmd": "make -C /verif setup",
    "hooks": {
        "guard": "ANTISMASH_VERIF",
        "enable": "no source hooks: the checks import /repo's working tree directly (PYTHONPATH=/repo, PYTHONDONTWRITEBYTECODE=1) and set ANTISMASH_VERIF=1, which nothing in /repo reads",
        "baseline_off_cmd": "cd /repo && /venv/bin/python -m pytest -ra -q -p no:cacheprovider --timeout=900 --continue-on-collection-errors",
        "source_commits": [],
        "add_only": True,
    },
    "engines": [{
        "name": "coq-model+correspondence", "path": "/verif/check",
        "serves_properties": [c["property_id"] for c in checks],
        "kind_free_text": "Coq 8.16.1 development (coq/), theorems audited with Print Assumptions on every run; model extracted to OCaml and run against the real Python functions on generated inputs",
    }],
    "checks": checks,
    "notes": "fix: commits in /repo (genuine defects repaired): every entry of known_findings.json with status fixed names its "
             "commit; " + FIX_SUMMARY,
    "not_applicable": [{"property_id": pid, "reason": NOT_APPLICABLE_REASONS.get(pid, "check not built yet in this development; planned approach in DESIGN.md section 6")}
                       for pid in ALL if pid not in CLAIMED],
}
json.dump(manifest, open(os.path.join(HERE, "..", "MANIFEST.json"), "w"), indent=1)
print("claimed:", [c["property_id"] for c in checks])
