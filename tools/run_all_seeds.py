#!/venv/bin/python
"""Applies every kept seeded change (seeded/<name>/patch.diff) to /repo in turn, runs the check(s) of its property
(plus extra checks listed in EXTRA), undoes it, and writes seeded/RESULTS.md.  Usage: tools/run_all_seeds.py [name-prefix ...]"""
import json, os, subprocess, sys
VERIF = os.path.dirname(os.path.dirname(os.path.abspath(__file__)))
EXTRA = {"C03": ["C07"], "C07": ["C03", "C04", "C05"], "C09": ["C10", "C12"], "C08": ["C06"], "C10": ["C12", "C04"], "C11": ["C14"], "C14": ["C11"], "C17": ["C13", "C05"]}
claimed = {c["property_id"] for c in json.load(open(os.path.join(VERIF, "MANIFEST.json")))["checks"]}
rows = []
out_name = "RESULTS.md"
if "--out" in sys.argv:
    i = sys.argv.index("--out"); out_name = sys.argv[i + 1]; del sys.argv[i:i + 2]
names = sorted(os.listdir(os.path.join(VERIF, "seeded")))
for name in names:
    d = os.path.join(VERIF, "seeded", name)
    if not os.path.isdir(d) or name == "retired" or (sys.argv[1:] and not any(name.startswith(p) for p in sys.argv[1:])):
        continue
    prop = name.split("-")[0]
    checks = [c for c in [prop] + EXTRA.get(prop, []) if c in claimed]
    if not checks:
        rows.append((name, "-", "no check claimed")); continue
    out = subprocess.run([os.path.join(VERIF, "tools", "seedtest.py"), d, name, "--skip-confirm", "--scratch", "--checks", ",".join(checks)],
                         stdout=subprocess.PIPE, stderr=subprocess.STDOUT, text=True).stdout
    try:
        rep = json.loads(out[out.index("{"):])
        caught = rep["caught_by"]
        kinds = {c: r.get("kind") for c, r in rep["checks"].items() if r["exit"] == 1}
        rows.append((name, ",".join(checks), "caught by " + ", ".join(f"{c} ({kinds[c]})" for c in caught) if caught else "MISSED"))
    except Exception as exc:
        rows.append((name, ",".join(checks), f"error: {exc} {out[-200:]}"))
    print(rows[-1], flush=True)
with open(os.path.join(VERIF, "seeded", out_name), "w") as handle:
    handle.write("| seeded change | checks run | result |\n|---|---|---|\n")
    for row in rows:
        meta = json.load(open(os.path.join(VERIF, "seeded", row[0], "meta.json")))
        handle.write(f"| {row[0]}: {(meta.get('summary') or '')[:160].replace('|', '/')} | {row[1]} | {row[2]} |\n")
