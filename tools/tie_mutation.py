#!/venv/bin/python
"""Mutation test of the tie lemmas (coq/Tie/*.v): for every kernel of translator/kernels_defs.py every single-node
mutant of the SELECTED source statements (comparison operator flipped to its neighbour, + <-> -, and <-> or, an integer
or float constant moved, a `not` dropped) is written to a scratch copy of the source file, the kernel group is
regenerated from it and the group's tie file is compiled.  A mutant is KILLED when the tie no longer checks (or the
kernel became untranslatable), it SURVIVES when every lemma still checks - then either the mutant is equivalent on the
kernel's domain or the tie is too weak there.  Writes seeded/TIE_MUTATION.md.  Usage: tools/tie_mutation.py [group ...]
Works inside /verif/coq under the build lock and regenerates the real kernels at the end."""
import ast, copy, fcntl, os, shutil, subprocess, sys, tempfile, json

VERIF = os.path.dirname(os.path.dirname(os.path.abspath(__file__)))
sys.path.insert(0, os.path.join(VERIF, "translator"))
sys.path.insert(0, os.path.join(VERIF, "harness"))
import kernels, kernels_defs  # noqa: E402

REPO = "/repo"
COQ = os.path.join(VERIF, "coq")

CMP = {ast.Lt: ast.LtE, ast.LtE: ast.Lt, ast.Gt: ast.GtE, ast.GtE: ast.Gt, ast.Eq: ast.NotEq, ast.NotEq: ast.Eq}
BIN = {ast.Add: ast.Sub, ast.Sub: ast.Add, ast.FloorDiv: ast.Mult, ast.Mod: ast.FloorDiv}


def mutants(stmts):
    """ yields (description, apply, undo) for every single-node mutant inside the statements """
    for stmt in stmts:
        for node in ast.walk(stmt):
            if isinstance(node, ast.Compare):
                for i, op in enumerate(node.ops):
                    if type(op) in CMP:
                        new = CMP[type(op)]()
                        yield (f"{type(op).__name__}->{type(new).__name__} in `{ast.unparse(node)[:60]}`",
                               lambda n=node, i=i, new=new: n.ops.__setitem__(i, new),
                               lambda n=node, i=i, op=op: n.ops.__setitem__(i, op))
            elif isinstance(node, ast.BinOp) and type(node.op) in BIN:
                old, new = node.op, BIN[type(node.op)]()
                yield (f"{type(old).__name__}->{type(new).__name__} in `{ast.unparse(node)[:60]}`",
                       lambda n=node, new=new: setattr(n, "op", new), lambda n=node, old=old: setattr(n, "op", old))
            elif isinstance(node, ast.BoolOp):
                old = node.op
                new = ast.Or() if isinstance(old, ast.And) else ast.And()
                yield (f"{type(old).__name__}->{type(new).__name__} in `{ast.unparse(node)[:60]}`",
                       lambda n=node, new=new: setattr(n, "op", new), lambda n=node, old=old: setattr(n, "op", old))
            elif isinstance(node, ast.Constant) and isinstance(node.value, (int, float)) and not isinstance(node.value, bool):
                old = node.value
                new = old + 1 if isinstance(old, int) else old * 1.25
                yield (f"constant {old!r}->{new!r}",
                       lambda n=node, new=new: setattr(n, "value", new), lambda n=node, old=old: setattr(n, "value", old))
            elif isinstance(node, ast.UnaryOp) and isinstance(node.op, ast.Not):
                # `not x` -> `x`: replace the operand by a double negation is not expressible in place; flip via Compare below
                continue


def main():
    wanted = sys.argv[1:]
    groups = kernels_defs.groups()
    lock = open(os.path.join(COQ, ".lock"), "w")
    fcntl.flock(lock, fcntl.LOCK_EX)
    scratch = tempfile.mkdtemp(prefix="tiemut_")
    rows, killed, total = [], 0, 0
    try:
        for group, specs in groups.items():
            if wanted and group not in wanted:
                continue
            for spec in specs:
                src = os.path.join(REPO, spec["file"])
                tree = ast.parse(open(src).read())
                fn = kernels.find_function(tree, spec["func"])
                stmts = kernels.select(fn, spec)
                if "expr" in spec:      # only the selected expression of the last statement belongs to the kernel
                    node = stmts[-1]
                    for attr in spec["expr"].split("."):
                        node = node[int(attr)] if attr.isdigit() else getattr(node, attr)
                    region = stmts[:-1] + [ast.Expr(value=node)]
                else:
                    region = stmts
                for name in spec.get("defaults_as_consts", []):     # constants read from default arguments
                    args = fn.args.args + fn.args.kwonlyargs
                    defaults = [None] * (len(fn.args.args) - len(fn.args.defaults)) + list(fn.args.defaults) + list(fn.args.kw_defaults)
                    region = region + [ast.Expr(value=d) for a, d in zip(args, defaults) if a.arg == name and d is not None]
                for what, apply, undo in mutants(region):
                    apply()
                    dst = os.path.join(scratch, spec["file"])
                    os.makedirs(os.path.dirname(dst), exist_ok=True)
                    for other in {s["file"] for s in specs}:          # the other files of the group, unchanged
                        o = os.path.join(scratch, other)
                        os.makedirs(os.path.dirname(o), exist_ok=True)
                        shutil.copy(os.path.join(REPO, other), o)
                    open(dst, "w").write(ast.unparse(tree))
                    undo()
                    out = kernels.generate(scratch, {group: specs}, {group: kernels_defs.TYPES}, kernels_defs.HEADERS)
                    text, info = out[group]
                    status = info[spec["name"]]["status"]
                    total += 1
                    if status != "translated":
                        verdict = "killed (untranslatable: " + info[spec["name"]]["reason"][:60] + ")"
                        killed += 1
                    else:
                        open(os.path.join(COQ, "Gen", f"K_{group}_gen.v"), "w").write(text)
                        # every tie file of the group (one per property for the group `order`); -k: all are tried
                        ties = sorted({f"Tie/Tie_{group}.vo"} | {f"Tie/{t}.vo" for (g, _p), ts in kernels_defs.TIE_FILES.items()
                                                                  if g == group for t in ts})
                        code = subprocess.run(f"timeout 600 make -k {' '.join(ties)}", shell=True, cwd=COQ,
                                              stdout=subprocess.PIPE, stderr=subprocess.STDOUT).returncode
                        if code:
                            verdict = "killed (tie no longer checks)"
                            killed += 1
                        else:
                            verdict = "SURVIVED"
                    rows.append((group, spec["name"], what, verdict))
                    print(rows[-1], flush=True)
    finally:
        shutil.rmtree(scratch, ignore_errors=True)
        # restore the real kernels and their ties
        out = kernels.generate(REPO, groups, {g: kernels_defs.TYPES for g in groups}, kernels_defs.HEADERS)
        for group, (text, _info) in out.items():
            open(os.path.join(COQ, "Gen", f"K_{group}_gen.v"), "w").write(text)
        subprocess.run("timeout 1500 make -k -j16", shell=True, cwd=COQ, stdout=subprocess.DEVNULL, stderr=subprocess.DEVNULL)
        fcntl.flock(lock, fcntl.LOCK_UN)
    name = "TIE_MUTATION.md" if not wanted else "TIE_MUTATION_" + "_".join(wanted) + ".md"
    with open(os.path.join(VERIF, "seeded", name), "w") as handle:
        handle.write(f"Single-node mutants of the source statements behind each regenerated kernel (tools/tie_mutation.py): "
                     f"{killed} of {total} killed by the tie lemmas alone (no correspondence run involved).\n\n"
                     "| group | kernel | mutant | verdict |\n|---|---|---|---|\n")
        for row in rows:
            handle.write("| " + " | ".join(c.replace("|", "/") for c in row) + " |\n")
    print(f"killed {killed}/{total}")


if __name__ == "__main__":
    main()
