#!/venv/bin/python
"""Merges a fix copy /tmp/vf/Cnn/verif into /verif: coq/Cnn/*.v, harness/cnn.py, notes/notes_Cnn.md, extra files given on the
command line (relative paths), and marks known-finding entries fixed.  usage: merge_fix.py Cnn class=commit [class=commit ...] [-- extra files]"""
import json, os, shutil, sys, glob
prop = sys.argv[1]
rest = sys.argv[2:]
extra = []
if "--" in rest:
    extra = rest[rest.index("--") + 1:]
    rest = rest[:rest.index("--")]
commits = dict(a.split("=") for a in rest)
src, dst = f"/tmp/vf/{prop}/verif", "/verif"
for path in glob.glob(f"{src}/coq/{prop}/*.v"):
    shutil.copy(path, f"{dst}/coq/{prop}/")
shutil.copy(f"{src}/harness/{prop.lower()}.py", f"{dst}/harness/{prop.lower()}.py")
for path in glob.glob(f"{src}/notes/*{prop}*"):
    shutil.copy(path, f"{dst}/notes/")
for rel in extra:
    shutil.copy(f"{src}/{rel}", f"{dst}/{rel}"); print("extra", rel)
d = json.load(open(f"{dst}/known_findings.json"))
s = {(f["property"], f["class"]): f for f in json.load(open(f"{src}/known_findings.json"))["findings"]}
for f in d["findings"]:
    if f["property"] == prop and f["class"] in commits:
        new = s.get((prop, f["class"]), f)
        f["status"] = "fixed"; f["commit"] = commits[f["class"]]
        what = new.get("what_fails", f["what_fails"]).replace("PENDING", commits[f["class"]])
        if not what.startswith("fixed:"):
            what = f"fixed: property={prop} {commits[f['class']]} " + what
        f["what_fails"] = what
        print("fixed", f["id"], f["class"], f["commit"])
json.dump(d, open(f"{dst}/known_findings.json", "w"), indent=1)
