#!/venv/bin/python
"""Confirms a seeded change and runs the checks against it.

usage: tools/seedtest.py <seed dir with patch.diff demo.py meta.json> <name> [--checks C04,C07] [--tier quick] [--keep]

 1. scratch worktree of /repo HEAD (under /tmp): demo passes clean, fails with the patch, baseline suite still passes
 2. applies the patch to /repo, runs ./check <prop> for every listed check, and undoes it (git checkout -- .)
 3. with --keep copies patch.diff, demo.py, meta.json (extended with what was run) to /verif/seeded/<name>/
"""
import argparse
import json
import os
import shutil
import subprocess
import sys

VERIF = os.path.dirname(os.path.dirname(os.path.abspath(__file__)))
BASE = os.environ.get("SEED_BASE_COMMIT", "HEAD")  # the commit of /repo the seeded change is applied to


def sh(cmd, cwd=None, timeout=3600):
    proc = subprocess.run(cmd, shell=True, cwd=cwd, stdout=subprocess.PIPE, stderr=subprocess.STDOUT, text=True, timeout=timeout)
    return proc.returncode, proc.stdout


def main():
    ap = argparse.ArgumentParser()
    ap.add_argument("seed_dir")
    ap.add_argument("name")
    ap.add_argument("--checks", default=None)
    ap.add_argument("--tier", default="quick")
    ap.add_argument("--keep", action="store_true")
    ap.add_argument("--skip-confirm", action="store_true")
    ap.add_argument("--scratch", action="store_true", help="apply the patch to a scratch worktree and point the checks at it (VERIF_REPO)")
    args = ap.parse_args()
    seed = os.path.abspath(args.seed_dir)
    meta = json.load(open(os.path.join(seed, "meta.json")))
    prop = meta.get("property", args.name.split("-")[0])
    checks = args.checks.split(",") if args.checks else [prop]
    patch = os.path.join(seed, "patch.diff")
    report = {"property": prop, "name": args.name}
    if not args.skip_confirm:
        scratch = f"/tmp/seedconfirm_{args.name}"
        sh(f"git -C /repo worktree remove --force {scratch}")
        code, out = sh(f"git -C /repo worktree add --detach {scratch} {BASE}")
        assert code == 0, out
        try:
            shutil.copytree(seed, os.path.join(scratch, "seedX"))
            env = "PYTHONDONTWRITEBYTECODE=1 PYTHONHASHSEED=0"
            code, out = sh(f"{env} /venv/bin/python seedX/demo.py", cwd=scratch, timeout=900)
            report["demo_clean_exit"] = code
            code, out = sh(f"git apply {patch}", cwd=scratch)
            if code:
                print("PATCH DOES NOT APPLY", out)
                report["applies"] = False
                print(json.dumps(report))
                return 2
            code, out = sh(f"{env} /venv/bin/python seedX/demo.py", cwd=scratch, timeout=900)
            report["demo_patched_exit"] = code
            report["demo_patched_tail"] = out[-300:]
            code, out = sh(f"/venv/bin/python {VERIF}/tools/baseline.py {scratch}", timeout=3600)
            report["baseline_with_patch"] = out.strip().splitlines()[-1] if code == 0 else out[-500:]
            report["baseline_ok"] = code == 0
        finally:
            sh(f"git -C /repo worktree remove --force {scratch}")
    # run the checks with the patch applied: against /repo itself (default), or - with --scratch - against a scratch
    # worktree through VERIF_REPO so that other work reading /repo is not disturbed
    results = {}
    if args.scratch:
        target = f"/tmp/seedrun_{args.name}"
        sh(f"git -C /repo worktree remove --force {target}")
        code, out = sh(f"git -C /repo worktree add --detach {target} {BASE}")
        assert code == 0, out
        env = f"VERIF_REPO={target} "
    else:
        target = "/repo"
        env = ""
        code, out = sh("git -C /repo status --porcelain --untracked-files=no")
        assert out.strip() == "", "/repo has uncommitted changes: " + out
    code, out = sh(f"git -C {target} apply {patch}")
    assert code == 0, out
    try:
        for chk in checks:
            code, out = sh(f"{env}./check {chk} --tier {args.tier}", cwd=VERIF, timeout=7200)
            lines = [l for l in out.splitlines() if l.startswith(("VIOLATION", "OK ", "# "))]
            results[chk] = {"exit": code, "lines": lines[-3:]}
            rp = [l for l in lines if l.startswith("VIOLATION")]
            if rp and "replay=" in rp[0]:
                path = rp[0].split("replay=")[1].split()[0]
                if os.path.exists(path):
                    doc = json.load(open(path))
                    results[chk]["kind"] = doc.get("kind")
                    results[chk]["what"] = doc.get("what")
    finally:
        if args.scratch:
            sh(f"git -C /repo worktree remove --force {target}")
        else:
            sh("git -C /repo checkout -- .")
    report["checks"] = results
    report["caught_by"] = [c for c, r in results.items() if r["exit"] == 1]
    print(json.dumps(report, indent=1))
    if args.keep:
        dest = os.path.join(os.environ.get("SEED_KEEP_ROOT", os.path.join(VERIF, "seeded")), args.name)
        os.makedirs(dest, exist_ok=True)
        for name in ("patch.diff", "demo.py"):
            if os.path.abspath(seed) != os.path.abspath(dest):
                shutil.copy(os.path.join(seed, name), os.path.join(dest, name))
        meta["confirmed"] = {k: v for k, v in report.items() if k != "checks"}
        meta["checks_run"] = results
        meta["what_was_run"] = (f"tools/seedtest.py: demo on clean scratch worktree (exit {report.get('demo_clean_exit')}), demo with patch "
                                f"(exit {report.get('demo_patched_exit')}), tools/baseline.py with patch ({report.get('baseline_with_patch')}), "
                                f"then `git apply patch.diff` on {'a scratch worktree (VERIF_REPO)' if args.scratch else '/repo'}, ./check {','.join(checks)} --tier {args.tier}, `git -C /repo checkout -- .`")
        json.dump(meta, open(os.path.join(dest, "meta.json"), "w"), indent=1)
    return 0


if __name__ == "__main__":
    sys.exit(main())
