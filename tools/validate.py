#!/usr/bin/env python3
import json, glob, sys
import jsonschema
ok = True
try:
    jsonschema.validate(json.load(open('/verif/MANIFEST.json')), json.load(open('/root/.vp/MANIFEST.schema.json')))
except Exception as e:
    ok = False; print("MANIFEST invalid:", str(e)[:300])
sch = json.load(open('/root/.vp/EVIDENCE.schema.json'))
for f in sorted(glob.glob('/verif/evidence/*.json')):
    try:
        d = json.load(open(f)); jsonschema.validate(d, sch)
        c = d["coverage"]
        if d["level"] == "proof" and c["obligations"] != c["discharged"]:
            print(f, "obligations != discharged"); ok = False
    except Exception as e:
        ok = False; print(f, "invalid:", str(e)[:300])
# every finding recorded in a property's notes must be in known_findings.json with the same status (merges have lost entries before)
main = {(f["property"], f["class"]): f for f in json.load(open('/verif/known_findings.json'))["findings"]}
ids = [f["id"] for f in json.load(open('/verif/known_findings.json'))["findings"]]
if len(ids) != len(set(ids)):
    ok = False; print("known_findings.json: duplicate ids", sorted(i for i in set(ids) if ids.count(i) > 1))
for path in sorted(glob.glob('/verif/notes/known_findings_C*.json')):
    doc = json.load(open(path)); doc = doc["findings"] if isinstance(doc, dict) else doc
    for f in doc:
        got = main.get((f["property"], f["class"]))
        if got is None:
            ok = False; print("known_findings.json lacks", f["property"], f["class"], "of", path)
        elif got["status"] == "known" and f["status"] == "fixed":
            ok = False; print("known_findings.json has", f["property"], f["class"], "as known, notes say fixed")
import subprocess
lock = json.load(open('/verif/anchors.lock.json'))
head = subprocess.run("git -C /repo rev-parse HEAD", shell=True, stdout=subprocess.PIPE, text=True).stdout.strip()
if lock["repo_commit"] != head:
    ok = False; print("anchors.lock.json is for", lock["repo_commit"][:8], "but /repo HEAD is", head[:8], "- run tools/fingerprint.py --update once all checks are silent")
print("valid" if ok else "INVALID")
sys.exit(0 if ok else 1)
