#!/usr/bin/env python3
import json, glob, sys
import jsonschema
ok = True
try:
    jsonschema.validate(json.load(open('/verif/MANIFEST.json')), json.load(open('/root/.vp/MANIFEST.schema.json')))
except Exception as e:
    ok = False; print("MANIFEST invalid:", str(e)[:300])
sch = json.load(open('/root/.vp/EVIDENCE.schema.json'))
for f in sorted(glob.glob('/verif/evidence/*.json')):
    try:
        d = json.load(open(f)); jsonschema.validate(d, sch)
        c = d["coverage"]
        if d["level"] == "proof" and c["obligations"] != c["discharged"]:
            print(f, "obligations != discharged"); ok = False
    except Exception as e:
        ok = False; print(f, "invalid:", str(e)[:300])
print("valid" if ok else "INVALID")
sys.exit(0 if ok else 1)
