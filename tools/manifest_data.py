FIX_COMMITS = ["see known_findings.json: every entry with status fixed names its commit (21 fix: commits, 69b3d933 .. 9c8ccb81)"]
NOT_APPLICABLE_REASONS = {}
CLAIMED = {
 "C04": {
  "text": ("Proof about a faithful Gallina transcription of secmet.locations + Record.extend_location (Common/Loc.v). Proved for all inputs, "
           "all record lengths (C04/Theorems.v): overlap <-> share a base (+symmetry); contains <-> part-wise inclusion (+ bases subset); "
           "distance = 0 on overlap, otherwise the number of bases between the closest pair of parts, on a line and the shorter way round on a ring; "
           "linear connect of single-part locations = exact hull (covers, tight); offset of a single part on a ring rotates exactly its bases, keeps "
           "length and strand, result well-formed with at most two parts; linear extend = clipped interval. NOT yet proved (covered by the "
           "correspondence run only): ring connect_locations (cover/shortest/idempotence), ring extend, multi-part offset, text codec, ordering. "
           "The correspondence run executes every public function of secmet.locations and Record.extend_location against the extracted model on "
           "30k (quick) / 600k (thorough) structured random inputs incl. origin-spanning and multi-exon locations of all strands."),
  "note": "Biopython's FeatureLocation/CompoundLocation semantics (start=min, end=max, strand=common or None, int membership half-open) are assumptions of the model, re-checked by the tie.",
 },
 "C14": {
  "text": ("Proof about a faithful Gallina transcription of module_identification.py (Component predicates from class tables REGENERATED from the "
           "source on every run, Module.add_component/ensure_suitable incl. look-ahead acceptance, build_modules_for_cds, combine_modules, "
           "from_json o to_json). Proved for every finite domain sequence (C14/Theorems.v): build_modules_for_cds never fails (no "
           "IncompatibleComponentError escapes and no assertion is reachable - by an invariant tying the look-ahead counter to the remaining input "
           "and table facts checked by vm_compute), its modules are non-empty and their concatenated components are exactly the stably sorted "
           "non-docking domains (in order, no loss, no duplication); is_complete <-> starter+loader+carrier (not loader-only in non-first position) "
           "or trans-AT+carrier; shape of a successful combine_modules (all domains of head and tail in order, only for incomplete head, only if "
           "complete, lists untouched otherwise). NOT yet proved (correspondence only): per-module layout invariants, totality of combine_modules, "
           "reload identity. Correspondence: 20k (quick) / 300k (thorough) random and assembly-line-shaped genes and gene pairs, comparing "
           "components, the six state slots and seven derived flags of every module, for build, build+reload and combine."),
  "note": "HMMResult objects are built by the harness (no HMMER); KS subtypes are injected as internal hits.",
 },
 "C15": {
  "text": ("Proof about a faithful Gallina transcription of all_orfs.scan_orfs and find_intergenic_areas (codon tables REGENERATED from the "
           "source on every run). Proved for every DNA string, frame, minimum, offset and record length (C15/Theorems.v): the scanning loop "
           "reports (s,e) IFF s is a start codon, e the next in-frame stop codon, and every earlier start codon is followed by a stop before s "
           "(C15_scan_sound_complete_kinds: sound and complete, position-only statement, by induction over the codon list with a pending-start "
           "invariant); no ORF twice; with the length filter exactly those ORFs with last-first >= minimum are kept (C15_scan_sound_complete_partial) "
           "- the property's 'at least the minimum length' is REFUTED for length exactly = minimum (C15_exact_minimum_refuted, known finding F23, the "
           "existing suite pins it); coordinates: linear forward/mirrored reverse formula, and on a ring for every offset incl. negative: parts inside "
           "the record, non-empty, same strand, at most two split at the origin with reverse-strand parts in transcription order, total length = ORF "
           "length (C15_coordinates_ring); result sorted by position (C15_sorted); find_intergenic_areas: for every gene list ordered by start, incl. "
           "nested and staggered genes, every area is inside the range, >= min_length, and overlaps no gene by more than the padding "
           "(C15_intergenic_sound, loop invariant). NOT proved (correspondence + Biopython extraction oracle only): that the location extracts to the "
           "ORF's text, find_all_orfs/_find_cross_origin_intergenic glue, completeness (maximality) of intergenic areas, translation/labels. "
           "Correspondence: 30k (quick) / 500k (thorough) windows of codon-structured genomes, both strands, windows starting before the origin, and "
           "gene layouts; every reported location is also extracted from the genome with Biopython and checked to be start..stop without inner stop."),
  "note": "Biopython Seq.extract is used by the implementation-side oracle only.",
 },
 "C01": {
  "text": ("Proof about a faithful Gallina transcription of the condition evaluator of rule_parser.py (Details.possibilities/in_range incl. the "
           "truthiness test on circular_origin, ConditionMet, Conditions.is_satisfied/are_subconditions_satisfied, AndCondition, MinimumCondition, "
           "CDSCondition, SingleCondition, ScoreCondition, DetectionRule.detect) returning met, the reason profiles and the ancillary hits. Proved "
           "for EVERY condition tree (nested inductive type: all five kinds, negation anywhere, arbitrary nesting), every hit/score layout, every "
           "gene and both local/non-local modes, under the only hypothesis that genes with hits are known genes (C01/Theorems.v): C01_met / "
           "C01_detect: the evaluator's truth value equals the documented boolean meaning `holds` (name: hits the gene or a gene with dist < cutoff; "
           "cds: one single gene in range satisfies the inner formula locally; minimum: count over gene + genes in range >= k; minscore: score >= s "
           "on the gene or in range; not/and/or plain) - structural induction with a hand-rolled principle for the nested lists; "
           "C01_neg_is_negation; C01_reasons_hit_gene_partial: every reported reason profile hits the evaluated gene itself; C01_anchor: an anchor "
           "implies formula true and an own reason.  'dist < cutoff' is the distance of the location model whose meaning is given by the C04 "
           "theorems (line and ring).  NOT proved (correspondence only): completeness of the reasons (exactly the rule's profiles hitting the gene, "
           "with the cds/minscore provisos), content of ancillary hits.  Correspondence: DetectionRule.detect (or Conditions.get_satisfied when the "
           "rule class refuses a tree without positive condition) on 25k (quick) / 400k (thorough) (tree, layout, gene) triples: trees built through "
           "the class constructors, genes on lines and rings with gaps on {cutoff-1, cutoff, cutoff+1} also across the origin, origin-spanning genes, "
           "scores on the thresholds; met, reasons and ancillary hits compared."),
  "note": "Hits are ProfileHit objects built by the harness; genes are stand-ins carrying only a secmet location (the evaluator reads nothing else).",
 },
 "C03": {
  "text": ("Partial. Proof about a Gallina model of protocluster formation ON LINEAR RECORDS for rules without extenders/superiors "
           "(cluster_prediction.find_protoclusters: Feature ordering (start, length), the sweep that extends the previous core by the cutoff, "
           "clips it to the record and tests cds.overlaps_with, hull update, neighbourhood extension with clipping). Proved for every record "
           "length, cutoff and multiset of anchoring genes incl. nested/overlapping ones in any input order (C03/Theorems.v): C03_chain_linear - "
           "the groups formed are exactly the maximal chains of genes closer than the cutoff: every anchor in exactly one group (permutation), no "
           "empty group, members of a group connected through pairs closer than the cutoff, members of different groups never closer than the "
           "cutoff (strict <), core = tight hull of its group; C03_neighbourhood_linear - extent = core +- neighbourhood clipped to the record, "
           "contains the core. The proof shows the literal two-sided overlap test equals 'starts before hull end + cutoff' under the sweep "
           "invariant. NOT modelled/proved: circular records (wrap merge, merge_over_origin, _extend_area_location caps), extenders, superior "
           "removal, anchors from rule evaluation (C01 covers the evaluator; the tie uses single-profile rules so that anchors = genes hit) - "
           "those are exercised only by the metamorphic runs of C07. Correspondence: the REAL pipeline detect_protoclusters_and_signatures (rules "
           "parsed by the real parser, dynamic profiles) on 4k (quick) / 60k (thorough) linear records with gaps on {cutoff-1, cutoff, cutoff+1}; "
           "cores and extents compared with the model, and an independent union-find oracle of the proximity components is evaluated on the "
           "implementation's output so that a violation comes with a failing input."),
  "note": "On a linear record connect_locations = hull and extend_location = clipped interval are the C04 theorems C04_connect_line and the linear extend theorem; the C03 model carries cores as (start, end) on that basis.",
 },
 "C07": {
  "text": ("Partial. (1) Rule order: abstract model of the per-gene, per-cutoff cache of apply_cluster_rules, proved for every rule list, "
           "information function and detector: each rule is evaluated on the information of its own cutoff (C07_cache_transparent), results are "
           "permutation-equivariant (C07_rule_order) and unaffected by sub-selection (C07_rule_subselection). (2) Rotation: primitive-level "
           "theorem C07_rotation_distance_partial (distance between parts is invariant when both move by the same amount, line and ring of any "
           "length; with C01_met the truth of every condition is frame independent for genes not cut by the origin) and the image of an area "
           "under rotation is the Coq model of offset_location (C04_offset_simple_ring: same bases rotated). The full statement (same "
           "protoclusters/candidates/regions for every rotation with regions < N/2) is NOT proved: it is decided on each run by a metamorphic "
           "correspondence - the real pipeline (real parser, dynamic profiles, 9 condition shapes incl. cds/minimum/not, own cutoffs and "
           "neighbourhoods) is run on a circular record and on up to 6 rotations per record placed on gene/core/neighbourhood boundaries +-1 "
           "(no gene cut), and the protoclusters must equal the Coq-rotated protoclusters of the base run (800 records quick / 12k thorough); "
           "every admissible permutation of 2-3 rules incl. SUPERIORS must give identical protoclusters and definition domains. Rules with "
           "SUPERIORS are excluded from the rotation runs: known finding F38 (rotation_superior_partial_overlap), reproduced on every run."),
  "note": "The metamorphic runs are testing of the implementation (failing-input search), not proof; gene coordinates are rotated by the harness, area images by the extracted Coq model.",
  "technique": "machine-checked proof in Coq 8.16.1 (cache transparency, distance invariance) + metamorphic correspondence run of the real pipeline against the Coq rotation model",
 },
 "C06": {
  "text": ("Partial. Proof about a Gallina model of Record.create_regions for records whose areas do not span the origin (every linear record, "
           "circular records without origin-spanning areas): CDSCollection ordering (start, -length), the sweep joining an area to the running "
           "section when it overlaps the section's location (hull), the first/last fix-up, one region per section. The sweep is C03's with cutoff 0, "
           "so the C03 invariant proof is reused. Proved for every record length and every multiset of areas (nested, chained, touching) in any "
           "supply order (C06/Theorems.v): C06_components_linear - sections are exactly the connected components of the share-a-base graph (each "
           "area in exactly one, none empty, members chained through overlapping pairs, areas of different sections never share a base; "
           "C06_share_base_meaning ties the relation to 'exists a common base'), section location = tight hull; C06_regions_disjoint_sorted - "
           "region locations pairwise disjoint and increasing (so add_region never refuses) and the first/last fix-up never fires; "
           "C06_numbering_inv - for every history of additions (insert at any admissible index, renumber from it) and clears, every feature in "
           "the list carries the number position+1 (numbers are 1..n in location order and identify the feature). NOT modelled/proved: "
           "origin-spanning areas (known finding F12 origin_spanning_area, witness reproduced on every run; the generator stays away from the "
           "class), parent links (checked on the implementation by oracles on every run: no area/gene links to a region no longer in the record "
           "after clear_regions / clear_subregions / re-creation, a linked region contains the gene, every area has a parent when regions exist). Correspondence: histories on a "
           "REAL Record with real SubRegion / Protocluster+CandidateCluster / CDS objects: areas added in random order, create_regions, then one of "
           "{clear+recreate, clear_subregions, add+clear+recreate}; regions (location + member areas) compared with the model after every create; "
           "add_subregion/clear_subregions histories compared with the numbering model (insertion index observed, numbers and get_subregion(number) "
           "identity checked); 2.5k + 0.8k histories quick / 40k + 13k thorough."),
  "note": "Candidate clusters are single-protocluster DummyCandidateCluster objects of the repo's test helpers; Region/SubRegion/Record are the real classes.",
 },
}


# additions after the level texts of the notes were written (appended to the level text by gen_manifest.py)
ADDENDA = {
    "C01": "Since round 5/6: the specification is also evaluated on the WHOLE record (not only on the neighbourhood the implementation hands to rule.detect); pipeline histories mix HMMer and dynamic profiles on one gene and check that every hit reaches the rule evaluation.",
    "C02": "The witness of every recorded finding (F02b included) is replayed on every run.",
    "C05": "Generator ring_singles (neighbouring groups around an origin-crossing single).",
    "C06": "Link histories include Record.create_candidate_clusters (model LFormCands / l_form, C06_no_stale_parents over such histories, C06_form_without_relink_refuted; repair e5074b2a).",
    "C07": "The rule-independence runs on real rulesets go through the real find_hmmer_hits (only run_hmmsearch replaced; weak hits; equivalence groups of the shipped file); directed single-rule selections.",
    "C08": "Look-up cases are built with earlier look-ups and get_cds_features() between the insertions.",
    "C09": "Prepeptide model with an explicit slack (location longer than the sections, i.e. with the stop codon; repair 2b510ca7, residual F15e known); second conversion after the sections were moved through the setters.",
    "C10": "Records converted once before their last modules are added; witness of C10-F71 replayed.",
    "C11": "HmmerResults.refilter judged against the fresh-run predicate of build_hits (FC11b known: repair rejected by existing tests). RREFinderResults save/regenerate cycles are judged by the clauses of the property on the real code only (a test, no Gallina model of that module).",
    "C12": "Witness of FC12b (codon_start gene on a region edge) replayed on every run.",
    "C13": "fn 8: the real find_hmmer_hits (filter_results then filter_result_multiple), model find_hits_filters, C13_find_hits_filters_spec, swapped order refuted, oracle on every output.",
    "C14": "fn 5: the real generate_domains loop (model generate_modules / gd_step, C14_generate_* theorems, adjacency oracle).",
    "C17": "fn 20: get_ruleset limited to rule names across hash seeds (select_rules); fn 21: SecMetQualifier.add_domains over several calls (add_domains_history).",
    "C18": "Fault kind StopIteration (repair fab50e8f, C18-K3).",
}
