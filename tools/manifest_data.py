FIX_COMMITS = ["4bfb28a9 (C04 distance of multi-part locations)", "cc9a0c1b (C04 offset_location end on wrap point)"]
NOT_APPLICABLE_REASONS = {}
CLAIMED = {
 "C04": {
  "text": ("Proof about a faithful Gallina transcription of secmet.locations + Record.extend_location (Common/Loc.v). Proved for all inputs, "
           "all record lengths (C04/Theorems.v): overlap <-> share a base (+symmetry); contains <-> part-wise inclusion (+ bases subset); "
           "distance = 0 on overlap, otherwise the number of bases between the closest pair of parts, on a line and the shorter way round on a ring; "
           "linear connect of single-part locations = exact hull (covers, tight); offset of a single part on a ring rotates exactly its bases, keeps "
           "length and strand, result well-formed with at most two parts; linear extend = clipped interval. NOT yet proved (covered by the "
           "correspondence run only): ring connect_locations (cover/shortest/idempotence), ring extend, multi-part offset, text codec, ordering. "
           "The correspondence run executes every public function of secmet.locations and Record.extend_location against the extracted model on "
           "30k (quick) / 600k (thorough) structured random inputs incl. origin-spanning and multi-exon locations of all strands."),
  "note": "Biopython's FeatureLocation/CompoundLocation semantics (start=min, end=max, strand=common or None, int membership half-open) are assumptions of the model, re-checked by the tie.",
 },
}
