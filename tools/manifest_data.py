FIX_COMMITS = ["69b3d933 (C14 combine_modules trailing KR)", "4bfb28a9 (C04 distance of multi-part locations)", "cc9a0c1b (C04 offset_location end on wrap point)"]
NOT_APPLICABLE_REASONS = {}
CLAIMED = {
 "C04": {
  "text": ("Proof about a faithful Gallina transcription of secmet.locations + Record.extend_location (Common/Loc.v). Proved for all inputs, "
           "all record lengths (C04/Theorems.v): overlap <-> share a base (+symmetry); contains <-> part-wise inclusion (+ bases subset); "
           "distance = 0 on overlap, otherwise the number of bases between the closest pair of parts, on a line and the shorter way round on a ring; "
           "linear connect of single-part locations = exact hull (covers, tight); offset of a single part on a ring rotates exactly its bases, keeps "
           "length and strand, result well-formed with at most two parts; linear extend = clipped interval. NOT yet proved (covered by the "
           "correspondence run only): ring connect_locations (cover/shortest/idempotence), ring extend, multi-part offset, text codec, ordering. "
           "The correspondence run executes every public function of secmet.locations and Record.extend_location against the extracted model on "
           "30k (quick) / 600k (thorough) structured random inputs incl. origin-spanning and multi-exon locations of all strands."),
  "note": "Biopython's FeatureLocation/CompoundLocation semantics (start=min, end=max, strand=common or None, int membership half-open) are assumptions of the model, re-checked by the tie.",
 },
 "C14": {
  "text": ("Proof about a faithful Gallina transcription of module_identification.py (Component predicates from class tables REGENERATED from the "
           "source on every run, Module.add_component/ensure_suitable incl. look-ahead acceptance, build_modules_for_cds, combine_modules, "
           "from_json o to_json). Proved for every finite domain sequence (C14/Theorems.v): build_modules_for_cds never fails (no "
           "IncompatibleComponentError escapes and no assertion is reachable - by an invariant tying the look-ahead counter to the remaining input "
           "and table facts checked by vm_compute), its modules are non-empty and their concatenated components are exactly the stably sorted "
           "non-docking domains (in order, no loss, no duplication); is_complete <-> starter+loader+carrier (not loader-only in non-first position) "
           "or trans-AT+carrier; shape of a successful combine_modules (all domains of head and tail in order, only for incomplete head, only if "
           "complete, lists untouched otherwise). NOT yet proved (correspondence only): per-module layout invariants, totality of combine_modules, "
           "reload identity. Correspondence: 20k (quick) / 300k (thorough) random and assembly-line-shaped genes and gene pairs, comparing "
           "components, the six state slots and seven derived flags of every module, for build, build+reload and combine."),
  "note": "HMMResult objects are built by the harness (no HMMER); KS subtypes are injected as internal hits.",
 },
}
