"""Fail-closed translator of arithmetic / decision KERNELS of the current /repo source into Gallina.

For every kernel of translator/kernels_defs.py the function named there is located in the current source tree with
`ast`, the statements named by the kernel's selection are translated, and one `Definition` per kernel is written to
coq/Gen/K_<group>_gen.v.  The hand-written models are tied to these definitions by the lemmas of coq/Tie/Tie_<group>.v
(`forall arguments, generated kernel = the model's definition`), which are re-checked on every run: an edit of the
source (`<` for `<=`, a dropped `- 1`, another operand) changes the generated term and the tie lemma of that kernel no
longer checks.

Supported Python (anything else makes THAT kernel untranslatable; its definition is then replaced by a comment and
the tie lemma that names it fails, i.e. the translator fails closed per kernel):
  expressions  integer / float / bool literals, names, attribute access through a per-type table, subscripts of
               declared function-like mappings, + - * // % / unary -, abs min max len int, chained comparisons,
               and or not, x in <location>, conditional expressions, any()/all()/min()/max() over one generator,
               declared calls / methods / constructors
  statements   assignment and augmented assignment to local names, if / elif / else with or without return,
               return, assert (-> Err E_Assert in mode "res", otherwise it must be listed in `drop_asserts`),
               raise (mode "res"), `for x in xs` without break/continue/return (-> fold_left over the assigned names)
Floats never enter Gallina: an expression involving a float literal or a true division is carried as a fraction
num/den with a denominator that is a positive literal or declared positive by the kernel, and a comparison of
fractions is cross-multiplied (the rational reading of the float comparison: DESIGN C13, trusted).
Every statement of the function that is skipped in front of the selection is PINNED: its `ast.unparse` text is
recorded in the kernel definition and must still be there, literally.
"""
import ast
import hashlib
import os
from fractions import Fraction


class KernelError(Exception):
    pass


PINS_PATH = os.path.join(os.path.dirname(os.path.abspath(__file__)), "kernels_pins.json")
PINS = {}
PIN_UPDATE = False
if os.path.exists(PINS_PATH):
    import json
    PINS = json.load(open(PINS_PATH))


# ----------------------------------------------------------------------------------------------- typed expressions
class E:
    """ a Gallina term with the type it was translated at """
    def __init__(self, text, typ):
        self.text = text
        self.typ = typ


class F:
    """ a fraction num / den of two Z terms; den is known to be positive """
    typ = "Q"

    def __init__(self, num, den):
        self.num = num
        self.den = den


def par(text):
    text = text.strip()
    if text.replace("_", "").replace("'", "").isalnum():
        return text
    return "(" + text + ")"


def zlit(value):
    return str(value) if value >= 0 else f"({value})"


def mul(a, b):
    if a == "1":
        return b
    if b == "1":
        return a
    return f"{par(a)} * {par(b)}"


def as_frac(x):
    if isinstance(x, F):
        return x
    if x.typ != "Z":
        raise KernelError(f"arithmetic on a value of type {x.typ}")
    return F(x.text, "1")


RESERVED_ERR = {"ValueError": "E_Value", "AssertionError": "E_Assert", "IndexError": "E_Index", "KeyError": "E_Key",
                "TypeError": "E_Type", "RuntimeError": "E_Runtime", "AttributeError": "E_Attribute",
                "IncompatibleComponentError": "E_Incompatible"}


def tuple_items(typ):
    """ the component types of a flat product type "(A * B * ...)", else None """
    if not (typ.startswith("(") and typ.endswith(")")) or " * " not in typ:
        return None
    inner = typ[1:-1]
    if "(" in inner or ")" in inner:
        return None
    return inner.split(" * ")


class Translator:
    def __init__(self, spec, types):
        self.spec = spec
        self.types = types          # type name -> {"attrs": {attr: (coq fn, type)}, "contains_int": fn, "len": fn, "eqb": fn}
        self.mode = spec.get("mode", "plain")
        self.monadic = self.mode == "resm"     # "resm": like "res", plus calls that may raise (bound with match) and
        if self.monadic:                       # if-joins through `res` (an arm may end in Err)
            self.mode = "res"
        self.assume = spec.get("assume", {})
        self.positive = set(spec.get("positive", ()))
        self.calls = spec.get("calls", {})
        self.drop_asserts = set(spec.get("drop_asserts", ()))
        self.consts = dict(spec.get("consts", {}))
        self.alias = spec.get("alias", {})
        self.used_alias = set()
        self.used_assume = set()
        self.used_drop = set()
        self.used_nested = set()
        self.loop_depth = 0
        self.expect_list_type = None

    # ---- names
    @staticmethod
    def var(name):
        return "v_" + name

    # ---- expressions
    def expr(self, node, env):
        if not isinstance(node, (ast.Constant, ast.Name)):
            text = ast.unparse(node)
            if text in self.alias:
                self.used_alias.add(text)
                name, typ = self.alias[text]
                if typ == "Q":      # a rational parameter (a float of the source): numerator and positive denominator
                    self.positive.add(name + "_d")
                    return F(name + "_n", name + "_d")
                return E(name, typ)
        if isinstance(node, ast.List) and not node.elts and self.expect_list_type:
            return E("[]", self.expect_list_type)     # `name = []` for a name whose element type the kernel declares
        if isinstance(node, ast.List):
            items = [self.expr(e, env) for e in node.elts]
            if not items or any(isinstance(i, F) for i in items) or len({i.typ for i in items}) != 1:
                raise KernelError("list display that is empty, mixed or holds fractions")
            return E("[" + "; ".join(i.text for i in items) + "]", "list " + items[0].typ)
        if isinstance(node, ast.Constant):
            v = node.value
            if isinstance(v, bool):
                return E("true" if v else "false", "bool")
            if isinstance(v, int):
                return E(zlit(v), "Z")
            if isinstance(v, float):
                fr = Fraction(repr(v))
                if fr <= 0 and fr != 0:
                    raise KernelError("negative float literal")
                return F(zlit(fr.numerator), zlit(fr.denominator))
            if isinstance(v, str) and v in self.spec.get("strings", {}):
                return E(zlit(self.spec["strings"][v]), "Z")      # a message / label the kernel declares a code for
            if v is None and "none" in self.spec:
                return E(zlit(self.spec["none"]), "Z")
            raise KernelError(f"literal {v!r}")
        if isinstance(node, ast.Name):
            if node.id in env:
                return env[node.id]
            if node.id in self.consts:
                text, typ = self.consts[node.id]
                return E(text, typ)
            raise KernelError(f"free variable {node.id} is not a declared parameter")
        if isinstance(node, ast.Attribute):
            base = self.expr(node.value, env)
            if isinstance(base, F):
                raise KernelError("attribute of a number")
            table = self.types.get(base.typ, {}).get("attrs", {})
            if node.attr not in table:
                raise KernelError(f"attribute .{node.attr} of type {base.typ} is not mapped")
            fn, typ = table[node.attr]
            return E(f"{fn} {par(base.text)}" if fn else base.text, typ)
        if isinstance(node, ast.Subscript):
            base = self.expr(node.value, env)
            if not isinstance(base, F) and base.typ.startswith("list "):
                # x[0], x[-1], x[1:] on a list: head, last element, tail (the element type declares the value an empty
                # list would give, which the tie lemmas never reach)
                elem = base.typ[5:]
                index = node.slice
                if isinstance(index, ast.Slice):
                    if index.upper is None and index.step is None and isinstance(index.lower, ast.Constant) and index.lower.value == 1:
                        return E(f"tl {par(base.text)}", base.typ)
                    raise KernelError(f"slice {ast.unparse(node)}")
                default = "0" if elem == "Z" else self.types.get(elem, {}).get("default")
                if default is None:
                    raise KernelError(f"element type {elem} declares no default for indexing")
                text = ast.unparse(index)
                if text == "0":
                    return E(f"hd {par(default)} {par(base.text)}", elem)
                if text == "-1":
                    return E(f"last {par(base.text)} {par(default)}", elem)
                raise KernelError(f"list index {text}")
            if not isinstance(base, F) and tuple_items(base.typ) and len(tuple_items(base.typ)) == 2 \
                    and ast.unparse(node.slice) in ("0", "1"):
                k = int(ast.unparse(node.slice))
                return E(f"{'fst' if k == 0 else 'snd'} {par(base.text)}", tuple_items(base.typ)[k])
            if isinstance(base, F) or not base.typ.startswith("map:"):
                raise KernelError(f"subscript of {getattr(base, 'typ', '?')}")
            key = self.expr(node.slice, env)
            if isinstance(key, F):
                raise KernelError("fraction as a key")
            return E(f"{base.text} {par(key.text)}", base.typ[4:])
        if isinstance(node, ast.UnaryOp):
            if isinstance(node.op, ast.Not):
                return E(f"negb {par(self.truth(node.operand, env))}", "bool")
            if isinstance(node.op, ast.USub):
                x = self.expr(node.operand, env)
                if isinstance(x, F):
                    return F(f"- {par(x.num)}", x.den)
                if x.typ != "Z":
                    raise KernelError("negation of a non-integer")
                return E(f"- {par(x.text)}", "Z")
            raise KernelError("unary operator")
        if isinstance(node, ast.BinOp):
            return self.binop(node, env)
        if isinstance(node, ast.BoolOp):
            op = " && " if isinstance(node.op, ast.And) else " || "
            return E(op.join(par(self.truth(v, env)) for v in node.values), "bool")
        if isinstance(node, ast.Compare):
            return self.compare(node, env)
        if isinstance(node, ast.IfExp):
            test = self.static_test(node.test)
            if test is not None:
                return self.expr(node.body if test else node.orelse, env)
            a, b = self.expr(node.body, env), self.expr(node.orelse, env)
            if isinstance(a, F) or isinstance(b, F) or a.typ != b.typ:
                raise KernelError("conditional expression with differently typed arms")
            return E(f"if {self.truth(node.test, env)} then {a.text} else {b.text}", a.typ)
        if isinstance(node, ast.Call):
            return self.call(node, env)
        if isinstance(node, ast.Tuple):
            items = [self.expr(e, env) for e in node.elts]
            if any(isinstance(i, F) for i in items):
                raise KernelError("fraction inside a tuple")
            return E("(" + ", ".join(i.text for i in items) + ")", "(" + " * ".join(i.typ for i in items) + ")")
        raise KernelError(f"unsupported expression {type(node).__name__}: {ast.unparse(node)[:80]}")

    def binop(self, node, env):
        a, b = self.expr(node.left, env), self.expr(node.right, env)
        op = node.op
        if isinstance(op, ast.Div):
            fa, fb = as_frac(a), as_frac(b)
            # (n1/d1) / (n2/d2) = n1*d2 / (d1*n2): n2 must be known positive
            if fb.num not in self.positive and not fb.num.isdigit():
                raise KernelError(f"division by {fb.num}, which is not declared positive")
            return F(mul(fa.num, fb.den), mul(fa.den, fb.num))
        if isinstance(a, F) or isinstance(b, F):
            fa, fb = as_frac(a), as_frac(b)
            if isinstance(op, ast.Mult):
                return F(mul(fa.num, fb.num), mul(fa.den, fb.den))
            if isinstance(op, (ast.Add, ast.Sub)):
                sign = "+" if isinstance(op, ast.Add) else "-"
                if fa.den == fb.den:
                    return F(f"{par(fa.num)} {sign} {par(fb.num)}", fa.den)
                return F(f"{par(mul(fa.num, fb.den))} {sign} {par(mul(fb.num, fa.den))}", mul(fa.den, fb.den))
            raise KernelError("operator on a fraction")
        if a.typ != "Z" or b.typ != "Z":
            raise KernelError(f"arithmetic on {a.typ} and {b.typ}")
        table = {ast.Add: "+", ast.Sub: "-", ast.Mult: "*", ast.FloorDiv: "/", ast.Mod: "mod"}
        for cls, sym in table.items():
            if isinstance(op, cls):
                return E(f"{par(a.text)} {sym} {par(b.text)}", "Z")
        raise KernelError(f"operator {type(op).__name__}")

    def cmp_z(self, op, a, b):
        if isinstance(op, ast.Lt):
            return f"{par(a)} <? {par(b)}"
        if isinstance(op, ast.LtE):
            return f"{par(a)} <=? {par(b)}"
        if isinstance(op, ast.Gt):
            return f"{par(b)} <? {par(a)}"
        if isinstance(op, ast.GtE):
            return f"{par(b)} <=? {par(a)}"
        if isinstance(op, ast.Eq):
            return f"{par(a)} =? {par(b)}"
        if isinstance(op, ast.NotEq):
            return f"negb ({par(a)} =? {par(b)})"
        raise KernelError(f"comparison {type(op).__name__}")

    def cmp_tuple(self, op, a, b, n):
        """ Python's lexicographic comparison of two tuples of n integers """
        names_a = [f"ta{i}__" for i in range(n)]
        names_b = [f"tb{i}__" for i in range(n)]

        def lex(i, strict_op, last_op):
            if i == n - 1:
                return self.cmp_z(last_op, names_a[i], names_b[i])
            return (f"({self.cmp_z(strict_op, names_a[i], names_b[i])}) || "
                    f"(({names_a[i]} =? {names_b[i]}) && ({lex(i + 1, strict_op, last_op)}))")
        if isinstance(op, (ast.Eq, ast.NotEq)):
            body = " && ".join(f"({x} =? {y})" for x, y in zip(names_a, names_b))
            if isinstance(op, ast.NotEq):
                body = f"negb ({body})"
        elif isinstance(op, ast.Lt):
            body = lex(0, ast.Lt(), ast.Lt())
        elif isinstance(op, ast.LtE):
            body = lex(0, ast.Lt(), ast.LtE())
        elif isinstance(op, ast.Gt):
            body = lex(0, ast.Gt(), ast.Gt())
        elif isinstance(op, ast.GtE):
            body = lex(0, ast.Gt(), ast.GtE())
        else:
            raise KernelError(f"comparison {type(op).__name__} of tuples")
        return f"let '({', '.join(names_a)}) := {a} in let '({', '.join(names_b)}) := {b} in {body}"

    def compare(self, node, env):
        operands = [node.left] + list(node.comparators)
        parts = []
        for op, left, right in zip(node.ops, operands, operands[1:]):
            if isinstance(op, (ast.In, ast.NotIn)):
                x, container = self.expr(left, env), self.expr(right, env)
                if isinstance(x, F) or isinstance(container, F) or x.typ != "Z":
                    raise KernelError("`in` needs an integer on the left")
                fn = self.types.get(container.typ, {}).get("contains_int")
                if not fn:
                    raise KernelError(f"`in` on type {container.typ}")
                text = f"{fn} {par(x.text)} {par(container.text)}"
                parts.append(text if isinstance(op, ast.In) else f"negb ({text})")
                continue
            if isinstance(op, (ast.Is, ast.IsNot)):
                raise KernelError(f"identity test `{ast.unparse(node)}` must be decided by `assume`")
            a, b = self.expr(left, env), self.expr(right, env)
            if isinstance(a, F) or isinstance(b, F):
                fa, fb = as_frac(a), as_frac(b)
                parts.append(self.cmp_z(op, mul(fa.num, fb.den), mul(fb.num, fa.den)))
            elif a.typ == "Z" and b.typ == "Z":
                parts.append(self.cmp_z(op, a.text, b.text))
            elif a.typ == b.typ and tuple_items(a.typ) and all(t == "Z" for t in tuple_items(a.typ)):
                parts.append(self.cmp_tuple(op, a.text, b.text, len(tuple_items(a.typ))))
            elif a.typ == b.typ and isinstance(op, (ast.Eq, ast.NotEq)):
                eqb = "Bool.eqb" if a.typ == "bool" else self.types.get(a.typ, {}).get("eqb")
                if not eqb:
                    raise KernelError(f"== on type {a.typ}")
                text = f"{eqb} {par(a.text)} {par(b.text)}"
                parts.append(text if isinstance(op, ast.Eq) else f"negb ({text})")
            else:
                raise KernelError(f"comparison of {a.typ} with {b.typ}")
        return E(" && ".join(par(p) for p in parts) if len(parts) > 1 else parts[0], "bool")

    def nary(self, fn, items):
        out = items[0]
        for item in items[1:]:
            out = f"{fn} {par(out)} {par(item)}"
        return out

    def call(self, node, env):
        if node.keywords and not all(k.arg for k in node.keywords):
            raise KernelError("** arguments")
        key = None
        if ast.unparse(node.func) == "math.floor" and len(node.args) == 1 and not node.keywords:
            x = self.expr(node.args[0], env)     # floor of an exact fraction with a positive denominator
            if isinstance(x, F):
                return E(f"{par(x.num)} / {par(x.den)}", "Z")
            if x.typ == "Z":
                return x
            raise KernelError("math.floor of a non-number")
        if ast.unparse(node.func) == "list" and len(node.args) == 1 and not node.keywords and isinstance(node.args[0], ast.Call) \
                and ast.unparse(node.args[0].func) == "filter" and len(node.args[0].args) == 2 \
                and isinstance(node.args[0].args[0], ast.Lambda) and len(node.args[0].args[0].args.args) == 1:
            # list(filter(lambda x: test, seq))
            lam, seq_node = node.args[0].args
            seq = self.expr(seq_node, env)
            if isinstance(seq, F) or not seq.typ.startswith("list "):
                raise KernelError("filter over a non-list")
            inner = dict(env)
            name = lam.args.args[0].arg
            inner[name] = E(self.var(name), seq.typ[5:])
            return E(f"filter (fun {self.var(name)} => {self.truth(lam.body, inner)}) {par(seq.text)}", seq.typ)
        if isinstance(node.func, ast.Name):
            key = node.func.id
        elif isinstance(node.func, ast.Attribute):
            base = self.expr(node.func.value, env)
            if isinstance(base, F):
                raise KernelError("method of a number")
            key = f"{base.typ}.{node.func.attr}"
        if key in self.calls:
            target = self.calls[key]
            if target.get("res") and not getattr(self, "_res_call_ok", False):
                pass        # checked by the caller: only `name = call(...)` statements reach here in mode resm
            args = []
            if isinstance(node.func, ast.Attribute):
                args.append(self.expr(node.func.value, env))
            args += [self.expr(a, env) for a in node.args]
            kw = {k.arg: self.expr(k.value, env) for k in node.keywords}
            order = target.get("kwargs", [])
            for name in order:
                if name in kw:
                    val = kw.pop(name)
                    wrap = target.get("kwwrap", {}).get(name)
                    if wrap:
                        if isinstance(val, F):
                            raise KernelError("fraction as a keyword argument")
                        val = E(f"{wrap[0]} {par(val.text)}", wrap[1])
                    args.append(val)
                elif name in target.get("defaults", {}):
                    args.append(E(target["defaults"][name][0], target["defaults"][name][1]))
            if kw:
                raise KernelError(f"keyword argument(s) {sorted(kw)} of {key} not mapped")
            want = target.get("args")
            if want is not None:
                if len(want) != len(args):
                    raise KernelError(f"{key}: {len(args)} argument(s) given, {len(want)} mapped")
                for arg, typ in zip(args, want):
                    if isinstance(arg, F) or arg.typ != typ:
                        raise KernelError(f"{key}: argument of type {getattr(arg, 'typ', 'Q')} where {typ} is mapped")
            return E(" ".join([target["coq"]] + [par(a.text) for a in args]), target["ret"])
        if key in ("abs", "int", "len", "min", "max", "any", "all", "bool", "sum"):
            if node.keywords:
                raise KernelError("keyword arguments of a builtin")
            if key in ("any", "all", "min", "max", "sum") and len(node.args) == 1 and isinstance(node.args[0], ast.GeneratorExp):
                return self.generator(key, node.args[0], env)
            if key == "sum":
                raise KernelError("sum of something that is not a generator")
            if key in ("min", "max") and len(node.args) == 1 and not isinstance(node.args[0], (ast.List, ast.Tuple)):
                x = self.expr(node.args[0], env)
                if isinstance(x, F) or x.typ != "list Z":
                    raise KernelError("min/max of something that is not a list of integers")
                return E(f"{'lmin' if key == 'min' else 'lmax'} {par(x.text)}", "Z")
            if key in ("min", "max"):
                items = node.args
                if len(items) == 1 and isinstance(items[0], (ast.List, ast.Tuple)):
                    items = items[0].elts
                vals = [self.expr(i, env) for i in items]
                if len(vals) < 2 or any(isinstance(v, F) or v.typ != "Z" for v in vals):
                    raise KernelError("min/max needs two or more integers")
                return E(self.nary("Z.min" if key == "min" else "Z.max", [v.text for v in vals]), "Z")
            if len(node.args) != 1:
                raise KernelError(f"{key} with {len(node.args)} arguments")
            x = self.expr(node.args[0], env)
            if key == "abs":
                if isinstance(x, F) or x.typ != "Z":
                    raise KernelError("abs of a non-integer")
                return E(f"Z.abs {par(x.text)}", "Z")
            if key == "int":
                if isinstance(x, F):
                    # int() of a float truncates towards zero: Z.quot of the exact fraction (positive denominator)
                    return E(f"Z.quot {par(x.num)} {par(x.den)}", "Z")
                if x.typ != "Z":
                    raise KernelError("int() of a non-integer")
                return x
            if key == "bool":
                return E(self.truth(node.args[0], env), "bool")
            if key == "len":
                if isinstance(x, F):
                    raise KernelError("len of a number")
                if x.typ.startswith("list "):
                    return E(f"zlen {par(x.text)}", "Z")
                fn = self.types.get(x.typ, {}).get("len")
                if not fn:
                    raise KernelError(f"len of type {x.typ}")
                return E(f"{fn} {par(x.text)}", "Z")
        raise KernelError(f"call of {ast.unparse(node.func)} is not mapped")

    def generator(self, key, gen, env):
        inner = dict(env)
        binders = []
        for comp in gen.generators:
            if comp.ifs or comp.is_async or not isinstance(comp.target, ast.Name):
                raise KernelError("generator with conditions or a pattern")
            seq = self.expr(comp.iter, inner)
            if isinstance(seq, F) or not seq.typ.startswith("list "):
                raise KernelError(f"iteration over {getattr(seq, 'typ', 'Q')}")
            inner[comp.target.id] = E(self.var(comp.target.id), seq.typ[5:])
            binders.append((self.var(comp.target.id), seq.text))
        if key in ("any", "all"):
            body = self.truth(gen.elt, inner)
            fn = "existsb" if key == "any" else "forallb"
            for name, seq in reversed(binders):
                body = f"{fn} (fun {name} => {body}) {par(seq)}"
            return E(body, "bool")
        elt = self.expr(gen.elt, inner)
        if isinstance(elt, F) or elt.typ != "Z":
            raise KernelError("min/max over non-integers")
        body = None
        for depth, (name, seq) in enumerate(reversed(binders)):
            if depth == 0:
                body = f"map (fun {name} => {elt.text}) {par(seq)}"
            else:
                body = f"flat_map (fun {name} => {body}) {par(seq)}"
        if key == "sum":
            return E(f"fold_right Z.add 0 {par(body)}", "Z")
        return E(f"{'lmin' if key == 'min' else 'lmax'} {par(body)}", "Z")

    def static_test(self, node):
        text = ast.unparse(node)
        if text in self.assume:
            self.used_assume.add(text)
            return self.assume[text]
        return None

    def truth(self, node, env):
        """ the Python truth value of an expression, as a Gallina bool """
        x = self.expr(node, env)
        if isinstance(x, F):
            raise KernelError("truth value of a fraction")
        if x.typ == "bool":
            return x.text
        if x.typ == "Z":
            return f"negb ({par(x.text)} =? 0)"
        if x.typ.startswith("list "):
            return f"nonempty {par(x.text)}"
        raise KernelError(f"truth value of type {x.typ}")

    # ---- statements
    def assigned(self, stmts):
        names = []
        for stmt in stmts:
            if isinstance(stmt, ast.Assign):
                for tgt in stmt.targets:
                    for n in (tgt.elts if isinstance(tgt, ast.Tuple) else [tgt]):
                        if isinstance(n, ast.Subscript) and isinstance(n.value, ast.Name):
                            n = n.value
                        if isinstance(n, ast.Name) and n.id not in names:
                            names.append(n.id)
            elif self.append_target(stmt):
                if self.append_target(stmt) not in names:
                    names.append(self.append_target(stmt))
            elif isinstance(stmt, ast.AugAssign) and isinstance(stmt.target, ast.Name):
                if stmt.target.id not in names:
                    names.append(stmt.target.id)
            elif isinstance(stmt, ast.If):
                for n in self.assigned(stmt.body) + self.assigned(stmt.orelse):
                    if n not in names:
                        names.append(n)
            elif isinstance(stmt, ast.For):
                for n in self.assigned(stmt.body):
                    if n not in names:
                        names.append(n)
        return names

    @staticmethod
    def append_target(stmt):
        """ `name.append(x)` as a statement -> name """
        if isinstance(stmt, ast.Expr) and isinstance(stmt.value, ast.Call) and isinstance(stmt.value.func, ast.Attribute) \
                and stmt.value.func.attr == "append" and isinstance(stmt.value.func.value, ast.Name) \
                and len(stmt.value.args) == 1 and not stmt.value.keywords:
            return stmt.value.func.value.id
        return None

    def res_call(self, node):
        """ the mapped call target when `node` is a call of a function declared as raising (`"res": True`) """
        if not isinstance(node, ast.Call):
            return None
        key = node.func.id if isinstance(node.func, ast.Name) else None
        if key is None and isinstance(node.func, ast.Attribute):
            for name, target in self.calls.items():       # a method: "<type>.<name>" of a mapped raising call
                if target.get("res") and name.endswith("." + node.func.attr):
                    return target
            return None
        target = self.calls.get(key)
        return target if target and target.get("res") else None

    def terminates(self, stmts):
        if not stmts:
            return False
        last = stmts[-1]
        if isinstance(last, (ast.Return, ast.Raise)) or (isinstance(last, ast.Continue) and self.loop_depth):
            return True
        if isinstance(last, ast.If):
            test = self.assume.get(ast.unparse(last.test))
            if test is True:
                return self.terminates(last.body)
            if test is False:
                return self.terminates(last.orelse)
            return self.terminates(last.body) and self.terminates(last.orelse)
        return False

    def bind(self, name, value, env):
        """ `let` for one Python name; returns (text of the binding, new env) """
        env = dict(env)
        v = self.var(name)
        if isinstance(value, F):
            if value.den.isdigit() or value.den in self.positive:
                env[name] = F(v + "_n", value.den)
                return f"let {v}_n := {value.num} in\n", env
            env[name] = F(v + "_n", v + "_d")
            self.positive.add(v + "_d")
            return f"let {v}_n := {value.num} in\nlet {v}_d := {value.den} in\n", env
        env[name] = E(v, value.typ)
        return f"let {v} := {value.text} in\n", env

    def pack(self, names, env):
        items = []
        for n in names:
            x = env[n]
            if isinstance(x, F):
                items += [x.num, x.den]
            else:
                items.append(x.text)
        return "(" + ", ".join(items) + ")" if len(items) != 1 else items[0]

    def unpack(self, names, env_types, env):
        """ pattern and env after `let '(pattern) := ...` for the given names with the given value shapes """
        env = dict(env)
        pats = []
        for n in names:
            v = self.var(n)
            if isinstance(env_types[n], F):
                env[n] = F(v + "_n", v + "_d")
                self.positive.add(v + "_d")
                pats += [v + "_n", v + "_d"]
            else:
                env[n] = E(v, env_types[n].typ)
                pats.append(v)
        return ("'(" + ", ".join(pats) + ")" if len(pats) != 1 else pats[0]), env

    def block(self, stmts, env, tail):
        """ tail(env) gives the term for falling off the end of the block """
        if not stmts:
            return tail(env)
        stmt, rest = stmts[0], stmts[1:]
        if isinstance(stmt, ast.Expr) and isinstance(stmt.value, ast.Constant) and isinstance(stmt.value.value, str):
            return self.block(rest, env, tail)
        if isinstance(stmt, ast.Pass):
            return self.block(rest, env, tail)
        if isinstance(stmt, ast.Continue):
            # inside the body of a translated for loop: this pass ends here with the state as it is
            if not self.loop_depth:
                raise KernelError("continue outside a translated loop")
            if rest:
                raise KernelError("statements after continue")
            return tail(env)
        if isinstance(stmt, ast.FunctionDef):
            # a nested function is translated as a kernel of its own; here its calls must be mapped to that kernel
            if stmt.name not in self.calls:
                raise KernelError(f"nested function {stmt.name} is not mapped to a kernel")
            self.used_nested.add(stmt.name)
            return self.block(rest, env, tail)
        if isinstance(stmt, ast.Return):
            if rest:
                raise KernelError("statements after return")
            if stmt.value is not None and self.monadic and self.res_call(stmt.value):
                value = self.expr(stmt.value, env)       # `return f(...)` of a function that may raise: its result as it is
                self.ret_types.append(value.typ)
                return value.text
            if stmt.value is None:
                if not self.spec.get("unit"):
                    raise KernelError("bare return")
                self.ret_types.append("unit")
                return "Ok tt" if self.mode == "res" else "tt"
            return self.ret(self.expr(stmt.value, env))
        if isinstance(stmt, ast.Raise):
            if self.mode != "res":
                raise KernelError("raise outside mode res")
            exc = stmt.exc.func.id if isinstance(stmt.exc, ast.Call) and isinstance(stmt.exc.func, ast.Name) else None
            if exc not in RESERVED_ERR:
                raise KernelError(f"raise of {ast.unparse(stmt.exc)[:40]}")
            return f"Err {RESERVED_ERR[exc]}"
        if isinstance(stmt, ast.Assert):
            text = ast.unparse(stmt.test)
            if self.mode == "res":
                return f"if {self.truth(stmt.test, env)} then\n{self.block(rest, env, tail)}\nelse Err E_Assert"
            if text not in self.drop_asserts:
                raise KernelError(f"assert {text} is not listed in drop_asserts")
            self.used_drop.add(text)
            return self.block(rest, env, tail)
        if self.append_target(stmt):
            name = self.append_target(stmt)
            if name not in env or isinstance(env[name], F) or not env[name].typ.startswith("list "):
                raise KernelError(f"append to {name}, which is not a list local")
            item = self.expr(stmt.value.args[0], env)
            if isinstance(item, F) or item.typ != env[name].typ[5:]:
                raise KernelError(f"append of {getattr(item, 'typ', 'Q')} to {env[name].typ}")
            text, env2 = self.bind(name, E(f"{par(env[name].text)} ++ [{item.text}]", env[name].typ), env)
            return text + self.block(rest, env2, tail)
        if isinstance(stmt, ast.Assign) and len(stmt.targets) == 1 and isinstance(stmt.targets[0], ast.Subscript) \
                and isinstance(stmt.targets[0].value, ast.Name) and ast.unparse(stmt.targets[0].slice) == "-1":
            # name[-1] = value on a list local: the last element is replaced
            name = stmt.targets[0].value.id
            if name not in env or isinstance(env[name], F) or not env[name].typ.startswith("list "):
                raise KernelError(f"{name}[-1] = ..., but {name} is not a list local")
            item = self.expr(stmt.value, env)
            if isinstance(item, F) or item.typ != env[name].typ[5:]:
                raise KernelError(f"{name}[-1] = a value of type {getattr(item, 'typ', 'Q')}")
            text, env2 = self.bind(name, E(f"removelast {par(env[name].text)} ++ [{item.text}]", env[name].typ), env)
            return text + self.block(rest, env2, tail)
        if isinstance(stmt, (ast.Assign, ast.AnnAssign)):
            targets = stmt.targets if isinstance(stmt, ast.Assign) else [stmt.target]
            if len(targets) != 1 or stmt.value is None:
                raise KernelError("chained assignment")
            tgt = targets[0]
            if self.res_call(stmt.value) and isinstance(tgt, ast.Name):
                if not self.monadic:
                    raise KernelError("call of a raising function outside mode resm")
                value = self.expr(stmt.value, env)       # typ = the type of the value inside Ok
                env2 = dict(env)
                env2[tgt.id] = E(self.var(tgt.id), value.typ)
                return (f"match {value.text} with\n| Err k__ => Err k__\n| Ok {self.var(tgt.id)} =>\n"
                        f"{self.block(rest, env2, tail)}\nend")
            if isinstance(tgt, ast.Name):
                self.expect_list_type = self.spec.get("empty_lists", {}).get(tgt.id)
                try:
                    value = self.expr(stmt.value, env)
                finally:
                    self.expect_list_type = None
                text, env2 = self.bind(tgt.id, value, env)
                return text + self.block(rest, env2, tail)
            if isinstance(tgt, ast.Tuple) and isinstance(stmt.value, ast.Tuple) and len(tgt.elts) == len(stmt.value.elts) \
                    and all(isinstance(e, ast.Name) for e in tgt.elts):
                values = [self.expr(v, env) for v in stmt.value.elts]   # all evaluated in the OLD environment
                text, env2 = "", dict(env)
                tmp_env = dict(env)
                for i, (e, v) in enumerate(zip(tgt.elts, values)):
                    t, tmp_env = self.bind(f"tmp{i}__", v, tmp_env)
                    text += t
                for i, e in enumerate(tgt.elts):
                    t, env2 = self.bind(e.id, tmp_env[f"tmp{i}__"], env2)
                    text += t
                return text + self.block(rest, env2, tail)
            if isinstance(tgt, ast.Tuple) and all(isinstance(e, ast.Name) for e in tgt.elts):
                value = self.expr(stmt.value, env)          # e.g. `_, head = split(...)`: a call that returns a pair
                items = None if isinstance(value, F) else tuple_items(value.typ)
                if not items or len(items) != len(tgt.elts):
                    raise KernelError(f"unpacking of {getattr(value, 'typ', 'Q')} into {len(tgt.elts)} names")
                env2 = dict(env)
                pats = []
                for e, typ in zip(tgt.elts, items):
                    if e.id == "_":
                        pats.append("_")
                    else:
                        env2[e.id] = E(self.var(e.id), typ)
                        pats.append(self.var(e.id))
                return f"let '({', '.join(pats)}) := {value.text} in\n" + self.block(rest, env2, tail)
            raise KernelError(f"assignment target {ast.unparse(tgt)}")
        if isinstance(stmt, ast.AugAssign):
            if not isinstance(stmt.target, ast.Name):
                raise KernelError("augmented assignment to a non-name")
            value = self.binop(ast.BinOp(left=ast.Name(id=stmt.target.id, ctx=ast.Load()), op=stmt.op, right=stmt.value), env)
            text, env2 = self.bind(stmt.target.id, value, env)
            return text + self.block(rest, env2, tail)
        if isinstance(stmt, ast.If):
            static = self.static_test(stmt.test)
            if static is not None:
                chosen = stmt.body if static else stmt.orelse
                # a chosen arm that always returns makes what follows unreachable in this case of the kernel
                return self.block(chosen if self.terminates(chosen) else chosen + rest, env, tail)
            test = self.truth(stmt.test, env)
            t_body, t_else = self.terminates(stmt.body), self.terminates(stmt.orelse)
            if t_body and t_else:
                if rest:
                    raise KernelError("statements after an if that always returns")
                return f"if {test} then\n{self.block(stmt.body, env, tail)}\nelse\n{self.block(stmt.orelse, env, tail)}"
            if t_body:
                return f"if {test} then\n{self.block(stmt.body, env, tail)}\nelse\n{self.block(stmt.orelse + rest, env, tail)}"
            if t_else:
                return f"if {test} then\n{self.block(stmt.body + rest, env, tail)}\nelse\n{self.block(stmt.orelse, env, tail)}"
            names = self.assigned(stmt.body + stmt.orelse)
            # a name that only one arm assigns and that has no value before the `if` is local to that arm (using it
            # afterwards is a free variable and stops the translation there)
            both = set(self.assigned(stmt.body)) & set(self.assigned(stmt.orelse))
            names = [n for n in names if n in env or n in both]
            if not names:
                has_return = any(isinstance(sub, (ast.Return, ast.Raise) + ((ast.Assert,) if self.mode == "res" else ()))
                                 for sub in ast.walk(ast.Module(body=stmt.body + stmt.orelse, type_ignores=[])))
                if not has_return:
                    raise KernelError("if without effect")
                # `if a: if b: return x` and the like: both arms continue with the rest of the block
                return (f"if {test} then\n{self.block(stmt.body + rest, env, tail)}\nelse\n"
                        f"{self.block(stmt.orelse + rest, env, tail)}")
            shapes = {}

            def pack_tail(names=names, shapes=shapes):
                def inner(e):
                    for n in names:
                        if n not in e:
                            raise KernelError(f"{n} is assigned in one branch only and not before the if")
                        if n in shapes and type(shapes[n]) is not type(e[n]):
                            raise KernelError(f"{n} has different types in the two branches")
                        if n in shapes and not isinstance(e[n], F) and shapes[n].typ != e[n].typ:
                            raise KernelError(f"{n} has different types in the two branches")
                        shapes.setdefault(n, e[n])
                    # fractions are packed with explicit denominators
                    items = []
                    for n in names:
                        x = e[n]
                        items += [x.num, x.den] if isinstance(x, F) else [x.text]
                    return "(" + ", ".join(items) + ")" if len(items) != 1 else items[0]
                return inner
            if self.monadic:
                ok = pack_tail()
                a = self.block(stmt.body, env, lambda e: "Ok " + par(ok(e)))
                b = self.block(stmt.orelse, env, lambda e: "Ok " + par(ok(e)))
                pattern, env2 = self.unpack(names, shapes, env)
                return (f"match (if {test} then\n{a}\n  else\n{b}) with\n| Err k__ => Err k__\n| Ok {pattern.lstrip(chr(39))} =>\n"
                        f"{self.block(rest, env2, tail)}\nend")
            a = self.block(stmt.body, env, pack_tail())
            b = self.block(stmt.orelse, env, pack_tail())
            pattern, env2 = self.unpack(names, shapes, env)
            return f"let {pattern} :=\n  if {test} then\n{a}\n  else\n{b} in\n" + self.block(rest, env2, tail)
        if isinstance(stmt, ast.For) and not stmt.orelse and isinstance(stmt.target, ast.Name) and len(stmt.body) == 1 \
                and isinstance(stmt.body[0], ast.If) and not stmt.body[0].orelse and len(stmt.body[0].body) == 2 \
                and isinstance(stmt.body[0].body[1], ast.Break) and isinstance(stmt.body[0].body[0], ast.Assign) \
                and len(stmt.body[0].body[0].targets) == 1 and isinstance(stmt.body[0].body[0].targets[0], ast.Name) \
                and isinstance(stmt.body[0].body[0].value, ast.Constant) and stmt.body[0].body[0].value.value is True:
            # `for x in seq: if test(x): flag = True; break`  ->  flag = flag or any(test(x) for x in seq)
            flag = stmt.body[0].body[0].targets[0].id
            if flag not in env or isinstance(env[flag], F) or env[flag].typ != "bool":
                raise KernelError(f"flag {flag} of a search loop is not a boolean local")
            seq = self.expr(stmt.iter, env)
            if isinstance(seq, F) or not seq.typ.startswith("list "):
                raise KernelError("for over a non-list")
            inner = dict(env)
            inner[stmt.target.id] = E(self.var(stmt.target.id), seq.typ[5:])
            test = self.truth(stmt.body[0].test, inner)
            value = E(f"{par(env[flag].text)} || existsb (fun {self.var(stmt.target.id)} => {test}) {par(seq.text)}", "bool")
            text, env2 = self.bind(flag, value, env)
            return text + self.block(rest, env2, tail)
        if isinstance(stmt, ast.For):
            if stmt.orelse or not isinstance(stmt.target, ast.Name):
                raise KernelError("for with else or a pattern target")
            for sub in ast.walk(ast.Module(body=stmt.body, type_ignores=[])):
                if isinstance(sub, (ast.Break, ast.Return, ast.Raise)):
                    raise KernelError("break / return / raise inside a for loop")
                if isinstance(sub, (ast.For, ast.While)) and any(isinstance(x, ast.Continue) for x in ast.walk(sub)):
                    raise KernelError("continue inside a nested loop")
            seq = self.expr(stmt.iter, env)
            if isinstance(seq, F) or not seq.typ.startswith("list "):
                raise KernelError("for over a non-list")
            # a name the body assigns that has no value before the loop is local to one pass (using it after the loop is a
            # free variable and stops the translation there)
            names = [n for n in self.assigned(stmt.body) if n in env]
            if not names:
                raise KernelError("for without effect")
            shapes = {n: env[n] for n in names}
            pattern, env_in = self.unpack(names, shapes, env)
            env_in[stmt.target.id] = E(self.var(stmt.target.id), seq.typ[5:])

            def loop_tail(e, names=names, shapes=shapes):
                for n in names:
                    if type(shapes[n]) is not type(e[n]) or (not isinstance(e[n], F) and shapes[n].typ != e[n].typ):
                        raise KernelError(f"{n} changes its type inside the loop")
                items = []
                for n in names:
                    x = e[n]
                    items += [x.num, x.den] if isinstance(x, F) else [x.text]
                return "(" + ", ".join(items) + ")" if len(items) != 1 else items[0]
            self.loop_depth += 1
            try:
                body = self.block(stmt.body, env_in, loop_tail)
            finally:
                self.loop_depth -= 1
            init = loop_tail(env)
            pattern2, env2 = self.unpack(names, shapes, env)
            return (f"let {pattern2} :=\n  fold_left (fun {par(pattern) if not pattern.startswith(chr(39)) else pattern} "
                    f"{self.var(stmt.target.id)} =>\n{body})\n  {par(seq.text)} {init} in\n") + self.block(rest, env2, tail)
        raise KernelError(f"unsupported statement {type(stmt).__name__}: {ast.unparse(stmt)[:80]}")

    def ret(self, value):
        if isinstance(value, F):
            raise KernelError("a fraction is returned")
        self.ret_types.append(value.typ)
        return f"Ok {par(value.text)}" if self.mode == "res" else value.text


# ----------------------------------------------------------------------------------------------- locating the code
def find_function(tree, qualname):
    body = tree.body
    parts = qualname.split(".")
    for depth, name in enumerate(parts):
        for node in body:
            if isinstance(node, (ast.FunctionDef, ast.ClassDef)) and node.name == name:
                if depth == len(parts) - 1:
                    if not isinstance(node, ast.FunctionDef):
                        raise KernelError(f"{qualname} is not a function")
                    return node
                body = node.body
                break
        else:
            raise KernelError(f"{qualname} not found")
    raise KernelError(f"{qualname} not found")


def strip_doc(stmts):
    if stmts and isinstance(stmts[0], ast.Expr) and isinstance(stmts[0].value, ast.Constant) \
            and isinstance(stmts[0].value.value, str):
        return stmts[1:]
    return stmts


def navigate(stmts, path):
    """ path: list of (class name, k, branch) - the k-th statement of that class in the block, then into its branch """
    for step in path:
        cls, k = step[0], step[1]
        branch = step[2] if len(step) > 2 else "body"
        found = [s for s in stmts if type(s).__name__ == cls]
        if k >= len(found):
            raise KernelError(f"no {cls} statement number {k} in the block")
        stmts = getattr(found[k], branch)
    return stmts


def select(fn, spec):
    stmts = strip_doc(fn.body)
    stmts = navigate(stmts, spec.get("path", []))
    stmts = strip_doc(stmts)
    if "skip_n" in spec:
        n = spec["skip_n"]
        if len(stmts) < n:
            raise KernelError("fewer statements than skip_n")
        sha = hashlib.sha256("\n".join(ast.unparse(st) for st in stmts[:n]).encode()).hexdigest()[:16]
        if PIN_UPDATE:
            PINS[spec["name"]] = sha
        elif PINS.get(spec["name"]) != sha:
            raise KernelError(f"the {n} pinned statement(s) in front of the selection changed (or were never pinned)")
        stmts = stmts[n:]
    for pinned in spec.get("skip", []):
        if not stmts:
            raise KernelError("pinned statement missing: " + pinned[:60])
        text = ast.unparse(stmts[0])
        if text != pinned:
            raise KernelError(f"pinned statement changed: expected `{pinned[:70]}`, found `{text[:70]}`")
        stmts = stmts[1:]
    if "pick" in spec:
        cls, k = spec["pick"]
        found = [i for i, st in enumerate(stmts) if type(st).__name__ == cls]
        if k >= len(found):
            raise KernelError(f"no {cls} statement number {k} in the block")
        return [stmts[found[k]]]
    if "take" in spec:
        if len(stmts) < spec["take"]:
            raise KernelError("fewer statements than `take`")
        after = stmts[spec["take"]:]
        stmts = stmts[:spec["take"]]
        for pinned, stmt in zip(spec.get("then", []), after):
            if ast.unparse(stmt).split("\n")[0] != pinned:
                raise KernelError(f"statement after the selection changed: expected `{pinned[:70]}`")
    return stmts


def translate(repo, spec, types, cache):
    path = os.path.join(repo, spec["file"])
    if path not in cache:
        cache[path] = ast.parse(open(path).read(), filename=path)
    fn = find_function(cache[path], spec["func"])
    stmts = select(fn, spec)
    tr = Translator(spec, types)
    tr.ret_types = []
    env = {}
    binders = []
    for name, typ in spec["params"]:
        if typ == "Q":      # a rational parameter: numerator and positive denominator
            env[name] = F(tr.var(name) + "_n", tr.var(name) + "_d")
            tr.positive.add(tr.var(name) + "_d")
            binders.append(f"({tr.var(name)}_n {tr.var(name)}_d : Z)")
            continue
        env[name] = E(name if typ.startswith("raw:") else tr.var(name), typ[4:] if typ.startswith("raw:") else typ)
        binders.append(f"({tr.var(name)} : {coq_type(typ)})")
    for name in spec.get("defaults_as_consts", []):
        args = fn.args.args + fn.args.kwonlyargs
        defaults = [None] * (len(fn.args.args) - len(fn.args.defaults)) + list(fn.args.defaults) + list(fn.args.kw_defaults)
        found = [d for a, d in zip(args, defaults) if a.arg == name and d is not None]
        if not found:
            raise KernelError(f"parameter {name} has no default any more")
        env[name] = tr.expr(found[0], {})
    if "expr" in spec:
        if not stmts:
            raise KernelError("no statement to take the expression from")
        node = stmts[-1]
        for attr in spec["expr"].split("."):    # e.g. "test", "value", "value.slice.upper", "value.keywords.0.value.body"
            if attr.isdigit():
                node = node[int(attr)] if isinstance(node, list) and int(attr) < len(node) else None
            else:
                node = getattr(node, attr, None)
            if node is None:
                raise KernelError(f"statement has no .{spec['expr']}")

        def expr_tail(e):
            if spec.get("truth") or spec["expr"] == "test":
                tr.ret_types.append("bool")
                return tr.truth(node, e)
            value = tr.expr(node, e)
            if isinstance(value, F):
                raise KernelError("the selected expression is a fraction")
            tr.ret_types.append(value.typ)
            return value.text
        body = tr.block(stmts[:-1], env, expr_tail)
        ret_typ = tr.ret_types[-1]
    else:
        outputs = spec.get("outputs")

        def tail(e):
            if not outputs and spec.get("unit"):
                tr.ret_types.append("unit")
                return "Ok tt" if tr.mode == "res" else "tt"
            if not outputs:
                raise KernelError("the selection can end without return and no outputs are declared")
            for n in outputs:
                if n not in e:
                    raise KernelError(f"output {n} is not assigned")
            vals = [e[n] for n in outputs]
            if any(isinstance(v, F) for v in vals):
                raise KernelError("a fraction is an output")
            typ = vals[0].typ if len(vals) == 1 else "(" + " * ".join(v.typ for v in vals) + ")"
            tr.ret_types.append(typ)
            text = tr.pack(outputs, e)
            return f"Ok {par(text)}" if tr.mode == "res" else text
        body = tr.block(stmts, env, tail)
        kinds = set(tr.ret_types)
        if len(kinds) != 1:
            raise KernelError(f"return types differ: {sorted(kinds)}")
        ret_typ = kinds.pop()
        if tr.mode == "res":
            ret_typ = f"res {par(coq_type(ret_typ))}"
    unused = set(tr.alias) - tr.used_alias
    if unused:
        raise KernelError(f"aliased expression(s) no longer in the code: {sorted(unused)}")
    unused = set(tr.assume) - tr.used_assume
    if unused:
        raise KernelError(f"assumed test(s) no longer in the code: {sorted(unused)}")
    unused = tr.drop_asserts - tr.used_drop
    if unused:
        raise KernelError(f"dropped assert(s) no longer in the code: {sorted(unused)}")
    want = spec.get("returns")
    if want and coq_type(want) != coq_type(ret_typ):
        raise KernelError(f"the kernel returns {ret_typ}, declared {want}")
    return f"Definition {spec['name']} {' '.join(binders)} : {coq_type(ret_typ)} :=\n{indent(body)}.\n"


def coq_type(typ):
    if typ.startswith("map:"):
        return "Z -> " + coq_type(typ[4:])
    return typ


def indent(text):
    return "\n".join("  " + line for line in text.split("\n"))


def generate(repo, groups, types_by_group, headers):
    """ returns {group: (text, info)}; info lists every kernel with its status """
    out = {}
    cache = {}
    for group, specs in groups.items():
        chunks = ["(* GENERATED by translator/kernels.py from the current source tree - do not edit *)\n",
                  headers[group], "\n"]
        info = {}
        for spec in specs:
            where = f"{spec['file']}:{spec['func']}"
            try:
                text = translate(repo, spec, types_by_group[group], cache)
                chunks.append(f"(* {where} *)\n{text}\n")
                info[spec["name"]] = {"source": where, "status": "translated",
                                      "sha": hashlib.sha256(text.encode()).hexdigest()[:12]}
            except (KernelError, OSError, SyntaxError) as exc:
                chunks.append(f"(* {where}: NOT TRANSLATABLE any more - {str(exc)[:300].replace('*)', '* )')} *)\n\n")
                info[spec["name"]] = {"source": where, "status": "untranslatable", "reason": str(exc)[:300]}
        out[group] = ("".join(chunks), info)
    return out


if __name__ == "__main__":      # helper: prints the unparsed statements of a block, for writing `skip` pins
    import sys
    tree = ast.parse(open(os.path.join("/repo", sys.argv[1])).read())
    block = navigate(strip_doc(find_function(tree, sys.argv[2]).body), eval(sys.argv[3]) if len(sys.argv) > 3 else [])
    for i, st in enumerate(strip_doc(block)):
        print(i, type(st).__name__, repr(ast.unparse(st)))
