"""The kernels regenerated from /repo on every run (see kernels.py).  One entry per kernel:
   name, group, file, func, selection (path / skip_n / take / pick / expr), params (Python name, type), plus the
   kernel's own tables (assume, alias, calls, drop_asserts, positive, defaults_as_consts, mode, outputs).
   The tie lemmas are in coq/Tie/Tie_<group>.v; PROPS says which checks depend on which group."""

LOC = "antismash/common/secmet/locations.py"
HMM = "antismash/common/hmmscan_refinement.py"
ORF = "antismash/common/all_orfs.py"
RULE = "antismash/common/hmm_rule_parser/rule_parser.py"
CP = "antismash/common/hmm_rule_parser/cluster_prediction.py"
PACK = "antismash/outputs/html/area_packing.py"
RECPROC = "antismash/common/record_processing.py"
RECORD = "antismash/common/secmet/record.py"
SUBP = "antismash/common/subprocessing/base.py"
RHELP = "antismash/common/secmet/features/region/helpers.py"
FORM = "antismash/common/secmet/features/candidate_cluster/formation.py"
COLL = "antismash/common/secmet/features/cdscollection.py"
FEAT = "antismash/common/secmet/features/feature.py"

TYPES = {
    "part": {"attrs": {"start": ("ps", "Z"), "end": ("pe", "Z"), "strand": ("pst", "Z")}, "contains_int": "in_part"},
    "loc": {"attrs": {"start": ("lstart", "Z"), "end": ("lend", "Z"), "strand": ("lstrand", "Z"), "parts": ("", "list part")},
            "contains_int": "in_loc", "len": "llen"},
    "hit": {"attrs": {"hit_id": ("prof", "Z"), "query_start": ("st", "Z"), "query_end": ("en", "Z"),
                      "evalue": ("ev", "Z"), "bitscore": ("sc", "Z")}, "len": "hlen"},
    "fhit": {"attrs": {"hit_start": ("f_hs", "Z"), "hit_end": ("f_he", "Z")}},
    "row": {"attrs": {"start": ("r_start", "Z"), "end": ("r_end", "Z"), "_contents": ("r_contents", "list feat")}},
    "feat": {"attrs": {"start": ("fstart", "Z"), "end": ("fend", "Z")}},
    "rdata": {"attrs": {"start": ("rstart", "Z"), "end": ("rend", "Z")}},
    "carea": {"attrs": {"location": ("cloc", "loc")}},
    "cregion": {"attrs": {"location": ("rloc", "loc")}},
    "area": {"attrs": {"neighbouring_start": ("a_ns", "Z"), "neighbouring_end": ("a_ne", "Z"),
                       "start": ("a_start", "Z"), "end": ("a_end", "Z")}},
}

HEADERS = {
    "loc": "From ASV Require Import Base Loc.\nOpen Scope Z_scope.\n",
    "hmm": "From ASV Require Import Base.\nFrom ASV.C13 Require Import Model.\nOpen Scope Z_scope.\n",
    "orf": "From ASV Require Import Base Loc.\nOpen Scope Z_scope.\n",
    "rule": "From ASV Require Import Base Loc.\nOpen Scope Z_scope.\n",
    "detect": "From ASV Require Import Base Loc.\nOpen Scope Z_scope.\n",
    "ids": "From ASV Require Import Base.\nOpen Scope Z_scope.\n",
    "cand": "From ASV Require Import Base Loc.\nOpen Scope Z_scope.\n",
    "regiongbk": "From ASV Require Import Base Loc.\nFrom ASV.C12 Require Import Model.\nOpen Scope Z_scope.\n",
    "par": "From ASV Require Import Base.\nOpen Scope Z_scope.\n",
    "link": "From ASV Require Import Base.\nOpen Scope Z_scope.\n",
    "hmm11": "From ASV Require Import Base.\nFrom ASV.C13 Require Import Model.\nOpen Scope Z_scope.\n",
    "conv": "From ASV Require Import Base Loc.\nOpen Scope Z_scope.\n",
    "pack": "From ASV Require Import Base Loc.\nFrom ASV.C19 Require Import Model.\nOpen Scope Z_scope.\n",
    # split_origin_bridging_location returns (lower, upper) or raises ValueError; the comparators are only tied for
    # locations on which it does not raise (hypothesis of the tie lemmas), so the pair of the error case is arbitrary
    "regions": "From ASV Require Import Base Loc.\nFrom ASV.C06 Require Import Model.\nOpen Scope Z_scope.\n",
    "order": ("From ASV Require Import Base Loc.\nOpen Scope Z_scope.\n"
              "Definition split_pair (l : loc) : list part * list part :=\n"
              "  match split_bridging l with Ok p => p | Err _ => ([], []) end.\n"),
}

# which checks re-check which tie file (a broken tie of the group is a broken obligation of these properties)
PROPS = {
    "loc": ["C04", "C01", "C03"],
    "conv": ["C09"],
    "hmm": ["C13"],
    "hmm11": ["C11"],
    "rule": ["C01"],
    "detect": ["C03"],
    "ids": ["C16"],
    "link": ["C08"],
    "par": ["C18"],
    "regiongbk": ["C12"],
    "cand": ["C05"],
    "orf": ["C15"],
    "pack": ["C19"],
    "order": ["C04", "C05", "C06", "C08", "C15", "C19"],
    "regions": ["C06"],
}

ORDER_CALLS = {
    "location_bridges_origin": {"coq": "bridges", "args": ["loc"], "ret": "bool"},
    "loc.crosses_origin": {"coq": "bridges", "args": ["loc"], "ret": "bool"},
    "loc.contains": {"coq": "contains", "args": ["loc", "loc"], "ret": "bool"},
    "split_origin_bridging_location": {"coq": "split_pair", "args": ["loc"], "ret": "(list part * list part)"},
}

# tie files of a group that belong to one property only (default: Tie_<group>.v for every property of the group)
TIE_FILES = {("order", prop): [f"Tie_order_{prop}"] for prop in ["C04", "C05", "C06", "C08", "C15", "C19"]}

KERNELS = [
    # ------------------------------------------------------------------------------------------------ locations
    dict(name="k_locations_overlap_simple", group="loc", file=LOC, func="locations_overlap", skip_n=2,
         params=[("first", "part"), ("second", "part")], returns="bool"),
    dict(name="k_location_contains_simple", group="loc", file=LOC, func="location_contains_other", skip_n=2,
         params=[("outer", "part"), ("inner", "part")], returns="bool"),
    dict(name="k_distance_simple_nowrap", group="loc", file=LOC, func="get_distance_between_locations", skip_n=2,
         params=[("first", "part"), ("second", "part")], returns="Z",
         consts={"wrap_point": ("0", "Z")}, assume={"wrap_point": False}, drop_asserts=["distance >= 0"]),
    dict(name="k_distance_simple_wrap", group="loc", file=LOC, func="get_distance_between_locations", skip_n=2,
         params=[("first", "part"), ("second", "part"), ("wrap_point", "Z")], returns="Z",
         assume={"wrap_point": True}, drop_asserts=["distance >= 0"],
         calls={"get_distance_between_locations": {"coq": "pdist_line", "args": ["part", "part"], "ret": "Z"}}),
    dict(name="k_distance_compound_test", group="loc", file=LOC, func="get_distance_between_locations", skip_n=1,
         take=1, expr="test", params=[("first", "loc"), ("second", "loc")], returns="bool"),
    dict(name="k_wrapping_shorter_step", group="loc", file=LOC, func="_is_wrapping_shorter", path=[("For", 0)],
         take=1, expr="test", params=[("first", "loc"), ("second", "loc"), ("wrap_point", "Z")], returns="bool"),
    dict(name="k_convert_protein_head", group="conv", file=LOC, func="convert_protein_position_to_dna", take=2, mode="res",
         outputs=["dna_start", "dna_end"], params=[("start", "Z"), ("end", "Z"), ("location", "loc")]),
    dict(name="k_convert_protein_simple", group="conv", file=LOC, func="convert_protein_position_to_dna",
         path=[("If", 2, "body")], mode="res",
         params=[("location", "loc"), ("dna_start", "Z"), ("dna_end", "Z")]),
    dict(name="k_convert_protein_step", group="conv", file=LOC, func="convert_protein_position_to_dna",
         path=[("For", 0)], skip=["if start_found and end_found:\n    break"],
         outputs=["gap", "last_end", "start_found", "end_found", "dna_start", "dna_end"],
         params=[("part", "part"), ("gap", "Z"), ("last_end", "Z"), ("start_found", "bool"), ("end_found", "bool"),
                 ("dna_start", "Z"), ("dna_end", "Z")]),
    dict(name="k_convert_protein_tail", group="conv", file=LOC, func="convert_protein_position_to_dna", skip_n=9,
         mode="res", params=[("location", "loc"), ("start_found", "bool"), ("end_found", "bool"),
                             ("dna_start", "Z"), ("dna_end", "Z")]),
    # ------------------------------------------------------------------------------------------------ hmmscan refinement
    dict(name="k_hit_len", group="hmm", file=HMM, func="HMMResult.__len__", params=[("self", "hit")], returns="Z"),
    dict(name="k_hit_merge", group="hmm", file=HMM, func="HMMResult.merge", params=[("self", "hit"), ("other", "hit")],
         drop_asserts=["self.hit_id == other.hit_id"], returns="hit",
         calls={"HMMResult": {"coq": "mkHit", "args": ["Z", "Z", "Z", "Z", "Z"], "ret": "hit"}}),
    dict(name="k_hit_overlaps_with", group="hmm11", file=HMM, func="HMMResult.overlaps_with", skip_n=1,
         params=[("self", "hit"), ("other", "hit")], returns="bool"),
    dict(name="k_ro_overlap_test", group="hmm", file=HMM, func="_remove_overlapping", path=[("For", 0)],
         skip=["previous = non_overlapping[-1]"], take=2, expr="test",
         params=[("hmm_lengths", "map:Z"), ("result", "hit"), ("previous", "hit")], returns="bool"),
    dict(name="k_ro_replace_test", group="hmm", file=HMM, func="_remove_overlapping",
         path=[("For", 0), ("If", 0, "body")], take=1, expr="test",
         params=[("result", "hit"), ("previous", "hit")], returns="bool"),
    dict(name="k_mn_other_profile_test", group="hmm", file=HMM, func="_merge_immediate_neigbours", path=[("For", 0)],
         take=1, expr="test", alias={"result[-1]": ("v_last", "hit")},
         params=[("domain", "hit"), ("last", "hit")], returns="bool"),
    dict(name="k_mn_span_test", group="hmm", file=HMM, func="_merge_immediate_neigbours", path=[("For", 0)],
         skip_n=1, take=1, expr="test", alias={"result[-1]": ("v_last", "hit")},
         params=[("hmm_lengths", "map:Z"), ("domain", "hit"), ("last", "hit")], returns="bool"),
    dict(name="k_incomplete_test", group="hmm", file=HMM, func="remove_incomplete", path=[("For", 0)],
         take=2, expr="test", defaults_as_consts=["threshold"],
         params=[("hmm_lengths", "map:Z"), ("domain", "hit")], returns="bool"),
    dict(name="k_longest_test", group="hmm", file=HMM, func="remove_incomplete", path=[("For", 1)],
         take=3, expr="test", positive=["v_domain_length"],
         params=[("hmm_lengths", "map:Z"), ("domain", "hit"), ("longest", "Q")], returns="bool"),
    dict(name="k_fallback_test", group="hmm", file=HMM, func="remove_incomplete", pick=("If", 1), expr="test",
         defaults_as_consts=["fallback"], params=[("longest", "Q")], returns="bool"),
    dict(name="k_fallback_le_threshold", group="hmm", file=HMM, func="remove_incomplete", pick=("Assert", 0), expr="test",
         defaults_as_consts=["fallback", "threshold"], params=[], returns="bool"),
    dict(name="k_hsp_overlap_size", group="hmm", file=CP, func="hsp_overlap_size", mode="res",
         params=[("first", "fhit"), ("second", "fhit")]),
    # ------------------------------------------------------------------------------------------------ scan_orfs
    dict(name="k_orf_end", group="orf", file=ORF, func="scan_orfs", path=[("For", 0), ("For", 0), ("If", 1, "body")],
         skip=["if start is None:\n    continue"], take=1, outputs=["end"], params=[("i", "Z")], returns="Z"),
    dict(name="k_orf_too_short", group="orf", file=ORF, func="scan_orfs", path=[("For", 0), ("For", 0), ("If", 1, "body")],
         skip_n=2, take=1, expr="test", params=[("start", "Z"), ("end", "Z"), ("minimum_length", "Z")], returns="bool"),
    dict(name="k_orf_coords_line", group="orf", file=ORF, func="scan_orfs", path=[("For", 0), ("For", 0), ("If", 1, "body")],
         skip_n=3, take=2, outputs=["loc_start", "loc_end"], assume={"record_length is not None": False},
         params=[("start", "Z"), ("end", "Z"), ("direction", "Z"), ("offset", "Z"), ("seq_len", "Z")]),
    dict(name="k_orf_coords_ring", group="orf", file=ORF, func="scan_orfs", path=[("For", 0), ("For", 0), ("If", 1, "body")],
         skip_n=3, take=2, outputs=["loc_start", "loc_end"], assume={"record_length is not None": True},
         params=[("start", "Z"), ("end", "Z"), ("direction", "Z"), ("offset", "Z"), ("seq_len", "Z"), ("record_length", "Z")]),
    dict(name="k_orf_wraps_test", group="orf", file=ORF, func="scan_orfs", path=[("For", 0), ("For", 0), ("If", 1, "body")],
         skip_n=5, take=1, expr="test", params=[("loc_start", "Z"), ("loc_end", "Z")], returns="bool"),
    dict(name="k_orf_reverse_parts_test", group="orf", file=ORF, func="scan_orfs",
         path=[("For", 0), ("For", 0), ("If", 1, "body"), ("If", 4, "body")],
         skip_n=1, take=1, expr="test", params=[("direction", "Z")], returns="bool"),
    # ------------------------------------------------------------------------------------------------ rule conditions
    dict(name="k_in_range", group="rule", file=RULE, func="Details.in_range", returns="bool",
         alias={"self.circular_origin": ("v_origin", "Z"), "self.cutoff": ("v_cutoff", "Z")},
         params=[("cds", "loc"), ("other", "loc"), ("origin", "Z"), ("cutoff", "Z")],
         calls={"get_distance_between_locations": {"coq": "dist", "kwargs": ["wrap_point"], "ret": "Z",
                                                   "defaults": {"wrap_point": ("None", "option Z")},
                                                   "kwwrap": {"wrap_point": ("Some", "option Z")}}}),
    dict(name="k_score_test", group="rule", file=RULE, func="ScoreCondition.is_satisfied",
         path=[("If", 0, "body"), ("For", 0)], take=1, expr="test",
         alias={"result.query_id": ("v_query_id", "Z"), "self.name": ("v_name", "Z"),
                "result.bitscore": ("v_bitscore", "Z"), "self.score": ("v_score", "Z")},
         params=[("query_id", "Z"), ("name", "Z"), ("bitscore", "Z"), ("score", "Z")], returns="bool"),
    dict(name="k_minimum_count_test", group="rule", file=RULE, func="MinimumCondition.is_satisfied",
         pick=("If", 0), expr="test", alias={"self.count": ("v_count", "Z")},
         params=[("hit_count", "Z"), ("count", "Z")], returns="bool"),
    dict(name="k_minimum_count_test_after", group="rule", file=RULE, func="MinimumCondition.is_satisfied",
         pick=("If", 1), expr="test", alias={"self.count": ("v_count", "Z")},
         params=[("hit_count", "Z"), ("count", "Z")], returns="bool"),
    # ------------------------------------------------------------------------------------------------ detection
    dict(name="k_extend_area_distance", group="detect", file=CP, func="_extend_area_location", path=[("If", 0, "body")],
         skip_n=2, take=1, outputs=["distance"], alias={"len(record)": ("v_N", "Z")},
         params=[("location", "loc"), ("distance", "Z"), ("N", "Z")], returns="Z"),
    dict(name="k_extend_area_mid", group="detect", file=CP, func="_extend_area_location", path=[("If", 3, "body")],
         take=4, outputs=["mid"],
         alias={"location.parts[0].start": ("v_first_start", "Z"), "location.parts[-1].end": ("v_last_end", "Z")},
         params=[("first_start", "Z"), ("last_end", "Z")], returns="Z"),
    dict(name="k_first_last_test", group="detect", file=CP, func="find_protoclusters", path=[("For", 0)],
         pick=("If", 0), expr="test",
         alias={"record.is_circular()": ("v_circular", "bool"), "first is not last": ("v_distinct", "bool"),
                "first.location.parts[0].start": ("v_first_part_start", "Z"), "last.location.start": ("v_last_start", "Z")},
         params=[("circular", "bool"), ("distinct", "bool"), ("first_part_start", "Z"), ("last_start", "Z")], returns="bool"),
    dict(name="k_first_last_close_test", group="detect", file=CP, func="find_protoclusters",
         path=[("For", 0), ("If", 0, "body")], take=1, expr="test",
         alias={"record.get_distance_between_features(first, last)": ("v_distance", "Z")},
         params=[("distance", "Z"), ("cutoff", "Z")], returns="bool"),
    # ------------------------------------------------------------------------------------------------ identifiers
    dict(name="k_ids_no_room_test", group="ids", file=RECPROC, func="fix_record_name_id._shorten_ids",
         pick=("If", 3), expr="test", alias={"len(number)": ("v_numlen", "Z")},
         params=[("numlen", "Z")], returns="bool"),
    dict(name="k_ids_too_long_test", group="ids", file=RECPROC, func="fix_record_name_id",
         pick=("If", 0), expr="test", alias={"len(record.id)": ("v_idlen", "Z")},
         params=[("idlen", "Z"), ("allow_long_names", "bool")], returns="bool"),
    # ------------------------------------------------------------------------------------------------ gene-to-region link
    dict(name="k_link_first", group="link", file=RECORD, func="Record._link_cds_to_parent", skip_n=3, take=1,
         outputs=["first"], params=[("left", "Z")], returns="Z"),
    dict(name="k_link_stop", group="link", file=RECORD, func="Record._link_cds_to_parent", skip_n=4, take=1,
         expr="value.slice.upper", params=[("right", "Z")], returns="Z"),
    dict(name="k_link_origin_region_test", group="link", file=RECORD, func="Record._link_cds_to_parent", skip_n=5, take=1,
         expr="test", alias={"self._regions[0].crosses_origin()": ("v_first_region_crosses", "bool")},
         params=[("first", "Z"), ("first_region_crosses", "bool")], returns="bool"),
    # ------------------------------------------------------------------------------------------------ candidate formation
    dict(name="k_hybrid_index", group="cand", file=FORM, func="_find_hybrids", path=[("For", 1)], skip_n=1, take=2,
         outputs=["index"],
         alias={"bisect.bisect_left([cluster.core_start for cluster in clusters], core.start)": ("v_pos", "Z")},
         params=[("pos", "Z")], returns="Z"),
    dict(name="k_hybrid_break_test", group="cand", file=FORM, func="_find_hybrids", path=[("For", 1), ("For", 0)],
         take=1, expr="test", alias={"cluster.location": ("v_cluster_loc", "loc")},
         params=[("core", "loc"), ("cluster_loc", "loc")], returns="bool"),
    dict(name="k_hybrid_second_scan_test", group="cand", file=FORM, func="_find_hybrids", path=[("For", 1)],
         pick=("If", 0), expr="test", params=[("core", "loc")], returns="bool"),
    dict(name="k_hybrid_break_test2", group="cand", file=FORM, func="_find_hybrids",
         path=[("For", 1), ("If", 0, "body"), ("For", 0)], take=1, expr="test",
         alias={"cluster.location": ("v_cluster_loc", "loc"), "core.parts[-1].end": ("v_last_end", "Z")},
         params=[("cluster_loc", "loc"), ("last_end", "Z")], returns="bool"),
    # ------------------------------------------------------------------------------------------------ feature orderings
    dict(name="k_coll_comparator", group="order", file=COLL, func="CDSCollection.__lt__.get_comparator",
         params=[("loc", "loc")], returns="(Z * Z)", calls=dict(ORDER_CALLS)),
    dict(name="k_coll_lt", group="order", file=COLL, func="CDSCollection.__lt__", skip_n=1,
         alias={"self.location": ("v_self_loc", "loc")},
         params=[("self_loc", "loc"), ("location", "loc")], returns="bool",
         calls=dict(ORDER_CALLS, get_comparator={"coq": "k_coll_comparator", "args": ["loc"], "ret": "(Z * Z)"})),
    dict(name="k_feat_comparator", group="order", file=FEAT, func="Feature.__lt__.get_comparator",
         params=[("loc", "loc")], returns="(Z * Z)", calls=dict(ORDER_CALLS)),
    dict(name="k_feat_lt", group="order", file=FEAT, func="Feature.__lt__", skip_n=1,
         alias={"self.location": ("v_self_loc", "loc"), "self.type == 'source'": ("v_is_source", "bool")},
         params=[("self_loc", "loc"), ("location", "loc"), ("is_source", "bool")], returns="bool",
         calls=dict(ORDER_CALLS, get_comparator={"coq": "k_feat_comparator", "args": ["loc"], "ret": "(Z * Z)"})),
    # ------------------------------------------------------------------------------------------------ region creation
    dict(name="k_sweep_step", group="regions", file=RECORD, func="Record.create_regions", path=[("For", 0)], mode="resm",
         outputs=["sections", "location", "included_areas"],
         params=[("area", "carea"), ("location", "loc"), ("included_areas", "list carea"),
                 ("sections", "list (loc * list carea)"), ("wrap_point", "option Z")],
         calls={"carea.overlaps_with": {"coq": "(fun a l => overlap (cloc a) l)", "args": ["carea", "loc"], "ret": "bool"},
                "connect_locations": {"coq": "connect_locations", "kwargs": ["wrap_point"], "args": ["list loc", "option Z"],
                                      "ret": "loc", "res": True}}),
    dict(name="k_fixup_needed", group="regions", file=RECORD, func="Record.create_regions", pick=("Assign", 2),
         outputs=["merged"], params=[("sections", "list (loc * list carea)")], returns="bool"),
    dict(name="k_fixup_overlap_test", group="regions", file=RECORD, func="Record.create_regions",
         path=[("While", 0), ("For", 0)], skip_n=1, take=1, expr="test.operand",
         calls={"locations_overlap": {"coq": "overlap", "args": ["loc", "loc"], "ret": "bool"}},
         params=[("first_location", "loc"), ("other_location", "loc")], returns="bool"),
    dict(name="k_add_region_start_ok", group="regions", file=RECORD, func="Record.add_region", pick=("Assert", 1),
         expr="test", params=[("region", "cregion")], returns="bool"),
    dict(name="k_add_region_end_ok", group="regions", file=RECORD, func="Record.add_region", pick=("Assert", 2),
         expr="test", alias={"len(self)": ("v_N", "Z")}, params=[("region", "cregion"), ("N", "Z")], returns="bool"),
    dict(name="k_add_region_overlap_test", group="regions", file=RECORD, func="Record.add_region", path=[("For", 0)],
         take=1, expr="test",
         calls={"cregion.overlaps_with": {"coq": "(fun a b => overlap (rloc a) (rloc b))", "args": ["cregion", "cregion"],
                                          "ret": "bool"}},
         params=[("region", "cregion"), ("existing_region", "cregion")], returns="bool"),
    # ------------------------------------------------------------------------------------------------ region GenBank files
    dict(name="k_region_crosses_origin", group="regiongbk", file=RHELP, func="RegionData.crosses_origin",
         params=[("self", "rdata")], returns="bool"),
    dict(name="k_linearise_whole_ring_test", group="regiongbk", file=RHELP, func="_linearise_location", take=1, expr="test",
         params=[("location", "loc"), ("record_length", "Z")], returns="bool"),
    dict(name="k_in_wrapped_region", group="regiongbk", file=RHELP, func="_build_record_from_cross_origin",
         path=[("For", 1), ("If", 0, "body")], take=1, expr="test.operand",
         alias={"feature.location.parts": ("v_parts", "list part")},
         params=[("region", "rdata"), ("parts", "list part")], returns="bool"),
    # ------------------------------------------------------------------------------------------------ parallel_function
    dict(name="k_parallel_default_cpus", group="par", file=SUBP, func="parallel_function", take=1, outputs=["cpus"],
         alias={"get_config().cpus": ("v_cfg_cpus", "Z")}, params=[("cpus", "Z"), ("cfg_cpus", "Z")], returns="Z"),
    dict(name="k_parallel_inprocess_test", group="par", file=SUBP, func="parallel_function", skip_n=1, take=1, expr="test",
         alias={"timeout is None": ("v_no_timeout", "bool")}, params=[("cpus", "Z"), ("no_timeout", "bool")], returns="bool"),
    # ------------------------------------------------------------------------------------------------ area packing
    dict(name="k_row_can_fit", group="pack", file=PACK, func="Row.can_fit", params=[("self", "row"), ("area", "feat")],
         returns="bool",
         calls={"feat.crosses_origin": {"coq": "fcrosses", "args": ["feat"], "ret": "bool"},
                "feat.overlaps_with": {"coq": "(fun a b => overlap (floc a) (floc b))", "args": ["feat", "feat"], "ret": "bool"}}),
    dict(name="k_area_crosses_origin", group="pack", file=PACK, func="Area.crosses_origin", params=[("self", "area")],
         returns="bool"),
]


def groups():
    out = {}
    for spec in KERNELS:
        out.setdefault(spec["group"], []).append(spec)
    return out
