"""The individual tables read from the source (registered with tables.table)."""
from tables import table, _module, _find_assign, _literal, coq_string_list, coq_z_list, codes, TableError


# ---------------------------------------------------------------- C14: NRPS/PKS domain classes
C14_SETS = ["ADENYLATIONS", "ACYLTRANSFERASES", "CONDENSATIONS", "ENDS", "KETOSYNTHASES", "MODIFIERS",
            "CARRIER_PROTEINS", "ALTERNATE_STARTERS", "NON_MODULE", "OTHER", "SPECIAL"]
# labels the code names by literal; the model refers to them through these constants
C14_NAMED = ["CAL_domain", "PKS_KR", "Trans-AT_docking", "Thioesterase", "TD", "Condensation_Starter",
             "Epimerization", "PKS_DH", "PKS_DH2", "PKS_DHt", "PKS_ER", "nMT", "cMT", "oMT"]


def c14_tables(repo):
    tree = _module(repo, "antismash/detection/nrps_pks_domains/module_identification.py")
    env = {}
    for name in C14_SETS:
        val = _literal(_find_assign(tree, name), env)
        if not isinstance(val, (set, frozenset)) or not all(isinstance(v, str) for v in val):
            raise TableError(f"{name} is not a set of strings")
        env[name] = set(val)
    fused = _literal(_find_assign(tree, "FUSED_STARTERS"), env)
    classifications = _find_assign(tree, "CLASSIFICATIONS")
    import ast
    if not isinstance(classifications, ast.Dict):
        raise TableError("CLASSIFICATIONS is not a dict display")
    class_order = []
    for key, val in zip(classifications.keys, classifications.values):
        if not (isinstance(val, ast.Name) and val.id in env):
            raise TableError("CLASSIFICATIONS value is not one of the known sets")
        class_order.append((ast.literal_eval(key), val.id))
    doubles = _literal(_find_assign(tree, "DOUBLE_TRANSPORTER_CASES"), env)
    doubles = sorted(tuple(case) for case in doubles)
    labels = sorted(set().union(*env.values()) | set(fused) | {l for case in doubles for l in case} | set(C14_NAMED))
    index = {lab: i for i, lab in enumerate(labels)}
    out = ["(* --- C14: antismash/detection/nrps_pks_domains/module_identification.py --- *)\n"]
    out.append(coq_string_list("c14_labels", labels))
    for name in C14_SETS:
        out.append(coq_z_list("c14_" + name.lower(), sorted(index[l] for l in env[name])))
    out.append(coq_z_list("c14_fused_starters", sorted(index[l] for l in fused)))
    out.append("Definition c14_classification_order : list (list Z) := [" +
               "; ".join("c14_" + setname.lower() for _key, setname in class_order) + "].\n")
    out.append("Definition c14_double_transporter_cases : list (list Z) := [" +
               "; ".join("[" + "; ".join(str(index[l]) for l in case) + "]" for case in doubles) + "].\n")
    out.append(coq_z_list("c14_pks_prefixed", sorted(index[l] for l in labels if l.startswith("PKS"))))
    for lab in C14_NAMED:
        ident = "c14_L_" + lab.replace("-", "_")
        out.append(f"Definition {ident} : Z := {index[lab]}.\n")
    out.append("\n")
    info = {"c14_labels": len(labels), "c14_class_order": [k for k, _ in class_order],
            "c14_double_transporter_cases": [list(c) for c in doubles]}
    return "".join(out), info


table(c14_tables)


def c14_label_index(repo):
    """ used by the harness: label -> index, identical to the generated table """
    tree = _module(repo, "antismash/detection/nrps_pks_domains/module_identification.py")
    env = {}
    for name in C14_SETS:
        env[name] = set(_literal(_find_assign(tree, name), env))
    fused = _literal(_find_assign(tree, "FUSED_STARTERS"), env)
    doubles = _literal(_find_assign(tree, "DOUBLE_TRANSPORTER_CASES"), env)
    labels = sorted(set().union(*env.values()) | set(fused) | {l for case in doubles for l in case} | set(C14_NAMED))
    return labels, env


# ---------------------------------------------------------------- C15: codon tables
def c15_tables(repo):
    tree = _module(repo, "antismash/common/all_orfs.py")
    out = ["(* --- C15: antismash/common/all_orfs.py --- *)\n"]
    info = {}
    for name in ("START_CODONS", "STOP_CODONS"):
        val = _literal(_find_assign(tree, name))
        if not isinstance(val, (tuple, list, set)) or not all(isinstance(v, str) and len(v) == 3 for v in val):
            raise TableError(f"{name} is not a collection of 3-letter strings")
        vals = sorted(val)
        out.append(f"Definition c15_{name.lower()} : list (list Z) := [" +
                   "; ".join("[" + "; ".join(str(ord(ch)) for ch in codon) + "]" for codon in vals) + "].\n")
        info["c15_" + name.lower()] = vals
    out.append("\n")
    return "".join(out), info


table(c15_tables)


# ---------------------------------------------------------------- C16: illegal character sets
def _find_local_assign(tree, func, name):
    """ the value assigned to `name` inside the module-level function `func` (exactly one assignment) """
    import ast
    for node in tree.body:
        if isinstance(node, ast.FunctionDef) and node.name == func:
            found = [sub.value for sub in ast.walk(node) if isinstance(sub, ast.Assign)
                     and any(isinstance(t, ast.Name) and t.id == name for t in sub.targets)]
            if len(found) != 1:
                raise TableError(f"{func}: expected exactly one assignment to {name}, found {len(found)}")
            return found[0]
    raise TableError(f"function {func} not found")


def c16_char_sets(repo):
    """ (illegal characters of fix_record_name_id, illegal characters of _sanitise_id_value), as sorted code lists """
    out = []
    for rel, func in (("antismash/common/record_processing.py", "fix_record_name_id"),
                      ("antismash/common/secmet/features/cds_feature.py", "_sanitise_id_value")):
        val = _literal(_find_local_assign(_module(repo, rel), func, "illegal_chars"))
        if not isinstance(val, (set, frozenset)) or not all(isinstance(v, str) and len(v) == 1 for v in val):
            raise TableError(f"{func}.illegal_chars is not a set of single characters")
        out.append(sorted(ord(c) for c in val))
    return out


def c16_tables(repo):
    record_chars, gene_chars = c16_char_sets(repo)
    out = ["(* --- C16: antismash/common/record_processing.py, antismash/common/secmet/features/cds_feature.py --- *)\n",
           coq_z_list("c16_illegal_chars", record_chars),
           coq_z_list("c16_sanitise_chars", gene_chars), "\n"]
    return "".join(out), {"c16_illegal_chars": "".join(map(chr, record_chars)),
                          "c16_sanitise_chars": "".join(map(chr, gene_chars))}


table(c16_tables)


# ---------------------------------------------------------------- C02: token types and the tokeniser's keyword table
def c02_tables(repo):
    import ast
    tree = _module(repo, "antismash/common/hmm_rule_parser/rule_parser.py")
    types = {}
    for node in tree.body:
        if isinstance(node, ast.ClassDef) and node.name == "TokenTypes":
            for sub in node.body:
                if isinstance(sub, ast.Assign) and len(sub.targets) == 1 and isinstance(sub.targets[0], ast.Name):
                    val = ast.literal_eval(sub.value)
                    if not isinstance(val, int):
                        raise TableError("TokenTypes member is not an int literal")
                    types[sub.targets[0].id] = val
    if not types:
        raise TableError("TokenTypes not found")
    mapping = _find_assign(tree, "mapping", cls="Tokeniser")
    if not isinstance(mapping, ast.Dict):
        raise TableError("Tokeniser.mapping is not a dict display")
    pairs = []
    for key, val in zip(mapping.keys, mapping.values):
        text = ast.literal_eval(key)
        if not (isinstance(val, ast.Attribute) and isinstance(val.value, ast.Name) and val.value.id == "TokenTypes"
                and val.attr in types and isinstance(text, str) and text and all(ord(c) < 128 for c in text)):
            raise TableError("Tokeniser.mapping entry is not 'ascii text': TokenTypes.NAME")
        pairs.append((text, types[val.attr]))
    out = ["(* --- C02: antismash/common/hmm_rule_parser/rule_parser.py --- *)\n"]
    for name in sorted(types, key=lambda n: types[n]):
        out.append(f"Definition c02_T_{name} : Z := {types[name]}.\n")
    out.append("Definition c02_token_mapping : list (list Z * Z) := [" +
               "; ".join("([" + "; ".join(str(c) for c in codes(text)) + f"], {val})" for text, val in pairs) + "].\n")
    out.append("\n")
    return "".join(out), {"c02_token_types": types, "c02_mapping": dict(pairs)}


table(c02_tables)
