"""The individual tables read from the source (registered with tables.table)."""
from tables import table, _module, _find_assign, _literal, coq_string_list, coq_z_list, codes, TableError
