import sys, logging
sys.path.insert(0, "/repo")
logging.disable(logging.CRITICAL)
from antismash.common.hmm_rule_parser.cluster_prediction import filter_results, filter_result_multiple
class H:
    def __init__(s,q,a,b,score,hit="g"): s.query_id=q; s.hit_id=hit; s.hit_start=a; s.hit_end=b; s.bitscore=score; s.query_start=a; s.query_end=b; s.evalue=1e-5
    def __repr__(s): return f"{s.query_id}[{s.hit_start}:{s.hit_end}]{s.bitscore}"
# hits A-B overlap, C-D overlap, then B-C overlap (bridging) -- order of discovery matters
A=H("p1",0,100,10); B=H("p2",50,200,20); C=H("p3",150,300,30); D=H("p4",250,400,5)
for order in ([A,B,C,D],[A,D,B,C],[D,C,B,A],[A,C,B,D],[B,C,A,D]):
    res=list(order); by={"g":list(order)}
    out,_=filter_results(res,by,[{"p1","p2","p3","p4"}])
    print(order,"->",out)
