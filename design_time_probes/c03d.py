import sys, random, collections, logging, itertools
sys.path.insert(0, "/repo")
logging.disable(logging.CRITICAL)
from antismash.common.hmm_rule_parser import rule_parser, cluster_prediction as cp
from antismash.common.hmm_rule_parser.structures import DynamicProfile, DynamicHit
from antismash.common.hmm_rule_parser.test.helpers import create_ruleset
from antismash.common.secmet import Record
from antismash.common.secmet.test.helpers import DummyCDS
from antismash.common.secmet.locations import FeatureLocation as FL, CompoundLocation as CL
random.seed(int(sys.argv[1]) if len(sys.argv)>1 else 1)
c=collections.Counter(); ex={}
def rec(k,m): c[k]+=1; ex.setdefault(k,m)
def bases(loc):
    s=set()
    for p in loc.parts: s.update(range(int(p.start), int(p.end)))
    return s
K=1000
for it in range(int(sys.argv[2]) if len(sys.argv)>2 else 1500):
    circ=random.random()<0.5
    N=random.choice([8,12,20,30])*K
    genes={}
    for i in range(random.randint(2,9)):
        s=random.randrange(0,N-700,100); e=s+random.choice([100,300,600])
        genes[f"g{i}"]=FL(s,e,random.choice([1,-1]))
    # dedupe identical locations
    seen=set(); genes={g:l for g,l in genes.items() if not (str(l) in seen or seen.add(str(l)))}
    profs="abx"
    hits={g:random.sample(profs,random.randint(0,2)) for g in genes}; hits={g:v for g,v in hits.items() if v}
    if not hits: continue
    cut=random.choice([1,2,3]); nb=random.choice([1,2,4])
    txt=f"RULE r CATEGORY c CUTOFF {cut} NEIGHBOURHOOD {nb} CONDITIONS a or b EXTENDERS x"
    r=Record("A"*N); r.add_annotation("topology","circular" if circ else "linear")
    for name,loc in genes.items(): r.add_cds_feature(DummyCDS(location=loc,locus_tag=name))
    def mk(p):
        def detect(record, hmmer_hits): return {g:[DynamicHit(g,p)] for g,ps in hits.items() if p in ps}
        return DynamicProfile(p,"d",detect)
    rules=rule_parser.Parser(txt,set(profs),{"c"}).rules
    rs=create_ruleset(rules,dynamic_profiles={p:mk(p) for p in profs})
    kind="circ" if circ else "lin"
    try: res=cp.detect_protoclusters_and_signatures(r,rs)
    except Exception as e:
        rec(kind+"_exc_"+type(e).__name__,(N,cut,nb,{g:str(l) for g,l in genes.items()},hits,str(e)[:80])); continue
    c[kind+"_tot"]+=1
    anchors=[g for g,ps in hits.items() if "a" in ps or "b" in ps]
    exts=[g for g,ps in hits.items() if "x" in ps]
    protos=res.protoclusters
    def inside(g,loc): return all(any(o.start<=p.start and p.end<=o.end for o in loc.parts) for p in genes[g].parts)
    # each anchor in exactly one core
    for g in anchors:
        n=sum(1 for p in protos if inside(g,p.core_location))
        if n!=1: rec(kind+"_anchor_in_%d_cores"%n,(N,cut,nb,{g:str(l) for g,l in genes.items()},hits,[str(p.core_location) for p in protos]))
    for p in protos:
        CB=bases(p.core_location); LB=bases(p.location)
        if not CB<=LB: rec(kind+"_core_not_in_extent",(str(p.core_location),str(p.location)))
        mem=[g for g in anchors if inside(g,p.core_location)]
        if not mem: rec(kind+"_core_without_anchor",(N,cut,nb,{g:str(l) for g,l in genes.items()},hits,str(p.core_location)))
        # core edges must be gene edges of anchors or extenders
        ok_genes=[g for g in anchors+exts if inside(g,p.core_location)]
        if ok_genes:
            U=set().union(*[bases(genes[g]) for g in ok_genes])
            if len(p.core_location.parts)==1 and (min(CB)!=min(U) or max(CB)!=max(U)): rec(kind+"_core_not_tight",(N,cut,nb,{g:str(l) for g,l in genes.items()},hits,str(p.core_location)))
        # extent = core +- nb (linear clipped)
        if not circ:
            E=set(range(max(0,min(CB)-nb*K),min(N,max(CB)+1+nb*K)))
            if LB!=E: rec(kind+"_extent_wrong",(N,nb,str(p.core_location),str(p.location)))
    # two cores of the rule must be >= cutoff apart (maximality)
    for p,q in itertools.combinations(protos,2):
        d=r.get_distance_between_locations(p.core_location,q.core_location)
        if d<cut*K: rec(kind+"_cores_closer_than_cutoff",(N,cut,nb,{g:str(l) for g,l in genes.items()},hits,str(p.core_location),str(q.core_location),d))
print(sorted(c.items()))
for k,v in ex.items(): print(k,v)
