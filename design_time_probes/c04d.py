import sys, itertools, collections
sys.path.insert(0, "/repo")
from antismash.common.secmet.locations import *
from antismash.common.secmet import Record
FL=FeatureLocation; CL=CompoundLocation
def bases(loc):
    s=set()
    for p in loc.parts: s.update(range(int(p.start), int(p.end)))
    return s
def T(N):
    for s in range(N):
        for e in range(s+1, N+1): yield (s,e)
    for s in range(1,N):
        for e in range(1, s+1): yield (s,e)
def mk(t,N,strand=1):
    s,e=t
    if s<e: return FL(s,e,strand)
    parts=[FL(s,N,strand),FL(0,e,strand)]
    if strand==-1: parts.reverse()
    return CL(parts)
c=collections.Counter(); ex={}
def rec(k,m): c[k]+=1; ex.setdefault(k,m)
for N in range(2,12):
  for circ in (True,False):
    r=Record("A"*N); r.add_annotation("topology","circular" if circ else "linear")
    for t in T(N):
      if not circ and t[0]>=t[1]: continue
      for strand in (1,-1):
        loc=mk(t,N,strand); B=bases(loc)
        for d in range(0,N+2):
            try: res=r.extend_location(loc,d)
            except Exception as e:
                rec(f"ext_exc circ={circ} "+type(e).__name__,(N,t,strand,d,repr(e)[:80])); continue
            c["ext_tot"]+=1
            if circ: exp={(b+k)%N for b in B for k in range(-d,d+1)}
            else: exp={b+k for b in B for k in range(-d,d+1) if 0<=b+k<N}
            got=bases(res)
            if got!=exp: rec(f"ext_wrong circ={circ}",(N,t,strand,d,str(res)))
            # wellformed parts
            for p in res.parts:
                if not (0<=p.start<p.end<=N): rec("ext_badpart",(N,t,strand,d,str(res)))
            tot=sum(len(p) for p in res.parts)
            if tot!=len(got): rec("ext_overlapping_parts",(N,t,strand,d,str(res)))
            if len(res.parts)>2: rec("ext_parts>2",(N,t,strand,d,str(res)))
    # offset
    for t in T(N):
      for strand in (1,-1):
        loc=mk(t,N,strand); B=bases(loc)
        for off in range(-N-1,N+2):
            try: res=offset_location(loc,off,wrap_point=N)
            except BaseException as e:
                rec("off_exc "+type(e).__name__,(N,t,strand,off,repr(e)[:60])); continue
            c["off_tot"]+=1
            exp={(b+off)%N for b in B}
            if bases(res)!=exp: rec("off_wrong",(N,t,strand,off,str(res)))
            if res.strand!=strand: rec("off_strand",(N,t,strand,off,str(res)))
            if sum(len(p) for p in res.parts)!=len(B): rec("off_len",(N,t,strand,off,str(res)))
            for p in res.parts:
                if not (0<=p.start<p.end<=N): rec("off_badpart",(N,t,strand,off,str(res)))
            # string round trip
            if str(location_from_string(str(res)))!=str(res): rec("str_rt",(str(res),))
print(sorted(c.items()))
for k,v in ex.items(): print(k,v)
