import sys
sys.path.insert(0, "/repo")
from antismash.common.hmmscan_refinement import HMMResult as H, _merge_domain_list
print(_merge_domain_list([H("A",0,90,1e-5,50.),H("A",500,590,1e-5,60.),H("B",100,180,1e-5,10.)],{"A":100,"B":100}))
