import sys, logging
sys.path.insert(0, "/repo")
logging.disable(logging.CRITICAL)
from antismash.common.secmet import Record
from antismash.common.secmet.features import SubRegion
from antismash.common.secmet.test.helpers import DummyCDS
from antismash.common.secmet.locations import FeatureLocation as FL
def build(genes_first):
    r=Record("A"*1000); r.add_annotation("topology","linear")
    subs=[SubRegion(FL(100,200,1),"t","s0"),SubRegion(FL(400,500,1),"t","s1"),SubRegion(FL(700,800,1),"t","s2")]
    genes=[DummyCDS(location=FL(100,200,1),locus_tag="g0"),DummyCDS(location=FL(410,490,1),locus_tag="g1"),DummyCDS(location=FL(700,800,-1),locus_tag="g2")]
    if genes_first:
        for g in genes: r.add_cds_feature(g)
        for s in subs: r.add_subregion(s)
        r.create_regions()
    else:
        for s in subs: r.add_subregion(s)
        r.create_regions()
        for g in genes: r.add_cds_feature(g)
    return {g.get_name(): (str(g.region.location) if g.region else None) for g in genes}, [[c.get_name() for c in reg.cds_children] for reg in r.get_regions()]
print("genes first:", build(True))
print("areas first:", build(False))
