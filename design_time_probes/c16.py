import sys, logging
sys.path.insert(0, "/repo")
logging.disable(logging.CRITICAL)
from antismash.common.record_processing import fix_record_name_id, generate_unique_id
from antismash.common.secmet import Record
def run(ids, allow_long=False):
    recs=[]
    for i,x in enumerate(ids):
        r=Record("ACGT"); r.id=x; r.name=x; r.record_index=i+1; recs.append(r)
    all_ids={r.id for r in recs}
    if len(all_ids)<len(recs):
        all_ids=set()
        for r in recs:
            if r.id in all_ids:
                r.original_id=r.id; r.id=generate_unique_id(r.id, all_ids)[0]
            all_ids.add(r.id)
    for r in recs: fix_record_name_id(r, all_ids, allow_long)
    return [(r.id, r.name, r.original_id) for r in recs]
print(run(["a:b","ab"]))
print(run(["contig1234567_something_long"]))
print(run(["abcdefghijklmnopqrstu","abcdefghijklmnopqrstv"]))
print(run(["x","x","x_0"]))
