import sys, itertools, collections
sys.path.insert(0, "/repo")
from antismash.common.secmet.locations import *
FL=FeatureLocation; CL=CompoundLocation

def bases(loc):
    s=set()
    for p in loc.parts:
        s.update(range(int(p.start), int(p.end)))
    return s

def simple_locs(N):
    for s in range(N):
        for e in range(s+1, N+1):
            yield FL(s,e,1)
def cross_locs(N):
    # two-part fwd origin crossing: [s:N) + [0:e), e<=s
    for s in range(1,N):
        for e in range(1, s+1):
            yield CL([FL(s,N,1), FL(0,e,1)])

fails=collections.Counter(); ex={}
def rec(kind, msg):
    fails[kind]+=1
    ex.setdefault(kind, msg)

for N in range(2,11):
    locs = list(simple_locs(N)) + list(cross_locs(N))
    for a in locs:
        for b in locs:
            A=bases(a); B=bases(b)
            # overlap
            if locations_overlap(a,b) != bool(A&B): rec("overlap", (N,str(a),str(b)))
            # contains: each part of inner inside one part of outer
            exp = all(any(int(o.start)<=int(p.start) and int(p.end)<=int(o.end) for o in a.parts) for p in b.parts)
            if location_contains_other(a,b)!=exp: rec("contains",(N,str(a),str(b)))
            # distance on ring
            try:
                d = get_distance_between_locations(a,b,wrap_point=N)
                if A&B: expd=0
                else:
                    # number of bases between them the shorter way round
                    # compute min over pairs of ring gaps
                    best=None
                    for x in A:
                        for y in B:
                            g1=(y-x)%N-1; g2=(x-y)%N-1
                            g=min(g1,g2)
                            best=g if best is None else min(best,g)
                    expd=best
                if d!=expd: rec("ringdist",(N,str(a),str(b),d,expd))
            except Exception as e:
                rec("ringdist_exc",(N,str(a),str(b),repr(e)))
            if len(a.parts)==1 and len(b.parts)==1:
                d=get_distance_between_locations(a,b)
                if A&B: expd=0
                else: expd=min(abs(x-y) for x in A for y in B)-1
                if d!=expd: rec("lindist",(N,str(a),str(b),d,expd))
print(fails); 
for k,v in ex.items(): print(k,v)
