import sys, os, tempfile, logging, collections
sys.path.insert(0, "/repo")
logging.disable(logging.CRITICAL)
from antismash.common import serialiser
from antismash.common.module_results import ModuleResults
from antismash.common.secmet import Record
class Bad(ModuleResults):
    def __init__(self, exc): super().__init__("r"); self.exc=exc
    def to_json(self):
        if self.exc=="unserialisable": return {"x": object()}
        if self.exc: raise self.exc("boom")
        return {"ok": 1}
c=collections.Counter()
d=tempfile.mkdtemp(); path=os.path.join(d,"out.json")
for nrec in (1,2,3):
  for nmod in (1,2,3):
    for pos in range(nrec*nmod):
      for exc in (TypeError, ValueError, KeyError, "unserialisable"):
        recs=[]; results=[]
        k=0
        for i in range(nrec):
            r=Record("ACGT"*10); r.id=f"r{i}"; r.name=r.id; recs.append(r)
            mods={}
            for j in range(nmod):
                mods[f"m{j}"]=Bad(exc if k==pos else None); k+=1
            results.append(mods)
        open(path,"w").write("OLD CONTENT")
        res=serialiser.AntismashResults("in.gbk",recs,results,"v")
        try:
            res.write_to_file(path); outcome="wrote"
        except Exception as e: outcome=type(e).__name__
        content=open(path).read()
        c[(str(exc) if isinstance(exc,str) else exc.__name__, outcome, content=="OLD CONTENT")]+=1
# success path
recs=[Record("ACGT"*10)]; recs[0].id="r"; recs[0].name="r"
open(path,"w").write("OLD CONTENT"); serialiser.AntismashResults("in.gbk",recs,[{"m":Bad(None)}],"v").write_to_file(path)
print("success content changed:", open(path).read()[:30])
for k,v in sorted(c.items()): print(k,v)
