import sys, io, random, collections, logging, traceback
sys.path.insert(0, "/repo")
logging.disable(logging.CRITICAL)
from Bio import SeqIO
from antismash.common.secmet import Record
from antismash.common.secmet.features import Protocluster, CDSFeature, SubRegion, PFAMDomain, CDSMotif
from antismash.common.secmet.qualifiers.gene_functions import GeneFunction
from antismash.common.secmet.locations import FeatureLocation as FL, CompoundLocation as CL
from antismash.common import serialiser, json
seed=int(sys.argv[1]) if len(sys.argv)>1 else 1
random.seed(seed)
c=collections.Counter(); ex={}
def rec(k,m): c[k]+=1; ex.setdefault(k,m)
def canon(r):
    out=[]
    bio=r.to_biopython()
    for f in bio.features:
        q={k:list(v) if isinstance(v,(list,tuple)) else v for k,v in sorted(f.qualifiers.items()) if k!='gene_ontologies'}
        out.append((f.type,str(f.location),q))
    return out
def gen_record():
    N=random.choice([600,900,1500]); circ=random.random()<0.5
    seq="".join(random.choice("ACGT") for _ in range(N))
    r=Record(seq); r.id="rec1"; r.name="rec1"; r.add_annotation("topology","circular" if circ else "linear"); r.add_annotation("molecule_type","DNA")
    genes=[]
    for i in range(random.randint(2,6)):
        L=3*random.randint(5,30); s=random.randrange(0,N-L); st=random.choice([1,-1])
        loc=FL(s,s+L,st)
        if circ and random.random()<0.15:
            a=3*random.randint(2,8); b=3*random.randint(2,8)
            parts=[FL(N-a,N,st),FL(0,b,st)]
            if st==-1: parts.reverse()
            loc=CL(parts); L=a+b
        try:
            tr=str(r.get_aa_translation_from_location(loc)) or "M"
            cds=CDSFeature(loc,translation="M"+"A"*(L//3-2),locus_tag=f"g{i}",protein_id=(f"p{i}" if random.random()<0.5 else None),product=random.choice(["","some product"]))
            if random.random()<0.5: cds.gene_functions.add(GeneFunction.CORE,"rule-based-clusters","dom1","prodA")
            if random.random()<0.3: cds.gene_functions.add(GeneFunction.ADDITIONAL,"smcogs","SMCOG1001: thing")
            if random.random()<0.3: cds.notes.append("a note")
            r.add_cds_feature(cds); genes.append(cds)
        except Exception as e:
            c["gen_cds_"+type(e).__name__]+=1
    for g in genes:
        if random.random()<0.5 and len(g.location)>=12:
            try:
                ps=random.randint(0,len(g.location)//3-2); pe=random.randint(ps+1,len(g.location)//3)
                loc=g.get_sub_location_from_protein_coordinates(ps,pe)
                d=PFAMDomain(loc,"desc",FL(ps,pe),"PF00001","test_tool",g.get_name(),domain="dom"); d.version=1
                d.domain_id=f"pf_{g.get_name()}_{ps}_{pe}"
                r.add_pfam_domain(d)
            except Exception as e: c["gen_pfam_"+type(e).__name__]+=1
    # areas
    def area_loc(s,e):
        if s<e: return FL(s,e,1)
        return CL([FL(s,N,1),FL(0,e,1)])
    for i in range(random.randint(1,4)):
        cs=random.randrange(0,N); cl=random.randint(10,N//4); nb=random.choice([0,10,50])
        ns,ce,ne=cs-nb,cs+cl,cs+cl+nb
        if not circ:
            if ns<0 or ne>N: continue
            core,loc=FL(cs,ce,1),FL(ns,ne,1)
        else:
            w=lambda a,b: area_loc(a%N,(b-1)%N+1)
            core,loc=w(cs,ce),w(ns,ne)
            if len(core.parts)>1 and len(loc.parts)==1: continue
        try:
            p=Protocluster(core,loc,tool="rule-based-clusters",product=random.choice(["prodA","prodB","prodC"]),cutoff=20,neighbourhood_range=nb,detection_rule="a and b",product_category="PKS")
            r.add_protocluster(p)
        except Exception as e: c["gen_proto_"+type(e).__name__]+=1
    if random.random()<0.5:
        s=random.randrange(0,N-50); 
        try: r.add_subregion(SubRegion(FL(s,s+random.randint(10,50),1),tool="sub",label=random.choice(["","lbl"])))
        except Exception as e: c["gen_sub_"+type(e).__name__]+=1
    return r
for it in range(int(sys.argv[2]) if len(sys.argv)>2 else 400):
    r=gen_record()
    try:
        r.create_candidate_clusters(); r.create_regions()
    except Exception as e:
        c["setup_"+type(e).__name__]+=1; continue
    kind=("circ" if r.is_circular() else "lin")
    c[kind+"_tot"]+=1
    try:
        d0=canon(r)
        buf=io.StringIO(); SeqIO.write([r.to_biopython()],buf,"genbank"); t1=buf.getvalue()
    except Exception as e:
        rec(kind+"_write_exc_"+type(e).__name__,(traceback.format_exc()[-300:],)); continue
    try:
        r2=Record.from_biopython(list(SeqIO.parse(io.StringIO(t1),"genbank"))[0],"bacteria")
        d2=canon(r2)
        buf=io.StringIO(); SeqIO.write([r2.to_biopython()],buf,"genbank"); t2=buf.getvalue()
    except Exception as e:
        rec(kind+"_gbk_reload_exc_"+type(e).__name__,(str(e)[:150],[ (f[0],f[1]) for f in d0 if f[0] in ("protocluster","cand_cluster","region","CDS")])); continue
    if d0!=d2:
        diffs=[(a[0],a[1],[k for k in set(a[2])|set(b[2]) if a[2].get(k)!=b[2].get(k)]) if (a[0],a[1])==(b[0],b[1]) else ("ORDER/LOC",a[0],a[1],b[0],b[1]) for a,b in zip(d0,d2) if a!=b]
        rec(kind+"_gbk_diff",(diffs[:3],len(d0),len(d2)))
    elif t1!=t2:
        import difflib
        rec(kind+"_gbk_not_fixed_point",("\n".join(list(difflib.unified_diff(t1.splitlines(),t2.splitlines(),lineterm="",n=0))[:12]),))
    try:
        j=json.dumps(serialiser.record_to_json(r.to_biopython())); r3=serialiser.record_from_json(json.loads(j),"bacteria"); d3=canon(r3)
        if d0!=d3:
            diffs=[(a[0],a[1],[k for k in set(a[2])|set(b[2]) if a[2].get(k)!=b[2].get(k)]) if (a[0],a[1])==(b[0],b[1]) else ("ORDER/LOC",a[0],a[1],b[0],b[1]) for a,b in zip(d0,d3) if a!=b]
            rec(kind+"_json_diff",(diffs[:3],))
    except Exception as e:
        rec(kind+"_json_reload_exc_"+type(e).__name__,(str(e)[:150],))
print(sorted(c.items()))
for k,v in ex.items(): print(k,v)
