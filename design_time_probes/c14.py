import sys, itertools, collections, random
sys.path.insert(0, "/repo")
from antismash.detection.nrps_pks_domains.module_identification import *
from antismash.common.hmmscan_refinement import HMMResult
from antismash.common.secmet.test.helpers import DummyCDS
labels=sorted(set().union(*CLASSIFICATIONS.values()))
print(len(labels))
def doms(names):
    out=[]
    for i,n in enumerate(names):
        h=HMMResult(n, i*10, i*10+9, 1e-5, 50.0)
        out.append(h)
    return out
# the crash hypothesis
ks=HMMResult("PKS_KS",0,9,1e-5,50.); ks.add_internal_hits([HMMResult("Trans-AT-KS",0,9,1e-5,50.)])
prev=CDSModuleInfo(DummyCDS(0,300,strand=1,locus_tag="A"), build_modules_for_cds([ks],"A"))
cur=CDSModuleInfo(DummyCDS(400,700,strand=1,locus_tag="B"), build_modules_for_cds(doms(["ACP","Thioesterase","PKS_KR"]),"B"))
print(prev.modules, cur.modules)
try:
    print(combine_modules(cur, prev))
except Exception as e:
    print("CRASH", type(e).__name__, e)
# random sequences: build never fails, partition, reload
random.seed(1)
c=collections.Counter()
core=["PKS_KS","PKS_AT","ACP","PKS_KR","PKS_DH","PKS_ER","AMP-binding","PCP","Condensation_LCL","Thioesterase","Epimerization","TD","CAL_domain","SAT","Trans-AT_docking","NRPS-COM_Nterm","LPG_synthase_C","Beta_elim_lyase","cMT","TIGR01720","ECH","PP-binding"]
for n in range(200000):
    L=random.randint(1,9)
    names=[random.choice(core if random.random()<0.8 else labels) for _ in range(L)]
    ds=doms(names)
    # add KS subtypes sometimes
    for d in ds:
        if d.hit_id=="PKS_KS" and random.random()<0.5:
            d.add_internal_hits([HMMResult(random.choice(["Trans-AT-KS","Iterative-KS","Modular-KS"]),d.query_start,d.query_end,1e-5,20.)])
    try:
        mods=build_modules_for_cds(ds,"X")
    except Exception as e:
        c["build_exc"]+=1; print("build exc",names,e); continue
    flat=[comp.domain for m in mods for comp in m.components]
    exp=[d for d in ds if d.hit_id not in NON_MODULE]
    if flat!=exp: c["partition"]+=1; print("partition",names)
    for m in mods:
        try:
            m2=Module.from_json(m.to_json())
            if m2.to_json()!=m.to_json() or str(m2)!=str(m) or m2.is_complete()!=m.is_complete():
                c["reload_diff"]+=1; print("reload diff",names,m)
        except Exception as e:
            c["reload_exc"]+=1; 
            if c["reload_exc"]<5: print("reload exc",names,m,e)
print(c)
