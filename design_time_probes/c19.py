import sys, logging
sys.path.insert(0, "/repo")
logging.disable(logging.CRITICAL)
from antismash.outputs.html.area_packing import pack, Row
from antismash.common.secmet.features import SubRegion
from antismash.common.secmet.locations import FeatureLocation as FL, CompoundLocation as CL
N=1000
P1=SubRegion(FL(800,900,1),"t","p1"); P1b=SubRegion(FL(910,960,1),"t","p1b"); X=SubRegion(CL([FL(950,1000,1),FL(0,50,1)]),"t","x")
rows=pack([P1,P1b,X])
for r in rows: print([str(a.location) for a in r.contents])
