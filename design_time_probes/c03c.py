import sys, logging
sys.path.insert(0, "/repo")
logging.disable(logging.CRITICAL)
from antismash.common.hmm_rule_parser import rule_parser, cluster_prediction as cp
from antismash.common.hmm_rule_parser.structures import DynamicProfile, DynamicHit
from antismash.common.hmm_rule_parser.test.helpers import create_ruleset
from antismash.common.secmet import Record
from antismash.common.secmet.test.helpers import DummyCDS
from antismash.common.secmet.locations import FeatureLocation as FL
N=100000
r=Record("A"*N); r.add_annotation("topology","circular")
for g,(s,e) in {"gA":(5000,6000),"gB":(50000,51000),"gC":(96000,97000)}.items(): r.add_cds_feature(DummyCDS(location=FL(s,e,1),locus_tag=g))
hits={"gA":["a"],"gB":["a"],"gC":["a"]}
def mk(p):
    def detect(record, hmmer_hits): return {g:[DynamicHit(g,p)] for g,ps in hits.items() if p in ps}
    return DynamicProfile(p,"d",detect)
rules=rule_parser.Parser("RULE r CATEGORY c CUTOFF 20 NEIGHBOURHOOD 1 CONDITIONS a",{"a"},{"c"}).rules
rs=create_ruleset(rules,dynamic_profiles={"a":mk("a")})
res=cp.detect_protoclusters_and_signatures(r,rs)
print([(p.product,str(p.core_location)) for p in res.protoclusters])
