import sys, io, logging, os
sys.path.insert(0, "/repo")
logging.disable(logging.CRITICAL)
from antismash.common.hmm_rule_parser import rule_parser, cluster_prediction as cp
from antismash.common.hmm_rule_parser.structures import DynamicProfile, DynamicHit
from antismash.common.hmm_rule_parser.test.helpers import create_ruleset
from antismash.common.secmet import Record
from antismash.common.secmet.test.helpers import DummyCDS
from antismash.common.secmet.locations import FeatureLocation as FL, CompoundLocation as CL
from antismash.common import json
def build(circ=False):
    N=60000
    r=Record("ACGT"*(N//4)); r.id="rec"; r.name="rec"; r.add_annotation("topology","circular" if circ else "linear"); r.record_index=1
    genes={"gA":FL(10000,11000,1),"gC":FL(12000,13000,1),"gD":FL(30000,31000,1)}
    if circ: genes["gX"]=CL([FL(59500,60000,1),FL(0,400,1)]); genes["gY"]=FL(58000,58500,-1)
    for g,loc in genes.items(): r.add_cds_feature(DummyCDS(location=loc,locus_tag=g,translation="M"*300))
    return r
hits={"gA":["p","q"],"gC":["q"],"gD":["p"],"gX":["p"],"gY":["p"]}
def mk(p):
    def detect(record, hmmer_hits): return {g:[DynamicHit(g,p,bitscore=12.5,evalue=1e-7)] for g,ps in hits.items() if p in ps and g in record.get_cds_name_mapping()}
    return DynamicProfile(p,"d",detect)
txt="\n".join(f"RULE r{p} CATEGORY c CUTOFF 5 NEIGHBOURHOOD 2 CONDITIONS {p}" for p in "pq")
rules=rule_parser.Parser(txt,set("pq"),{"c"}).rules
rs=create_ruleset(rules,dynamic_profiles={p:mk(p) for p in "pq"})
for circ in (False,True):
    r=build(circ)
    try: res=cp.detect_protoclusters_and_signatures(r,rs)
    except Exception as e: print("detect exc",circ,type(e).__name__,e); continue
    j1=json.dumps(res.to_json())
    r2=build(circ)
    try:
        res2=cp.RuleDetectionResults.from_json(json.loads(j1),r2)
        j2=json.dumps(res2.to_json())
        print("circ",circ,"json identical:",j1==j2,"protos:",[(p.product,str(p.location),str(p.core_location)) for p in res2.protoclusters]==[(p.product,str(p.location),str(p.core_location)) for p in res.protoclusters], len(res.protoclusters))
    except Exception as e: print("reload exc",circ,type(e).__name__,str(e)[:100])
