import sys, random, collections, logging, itertools
sys.path.insert(0, "/repo")
logging.disable(logging.CRITICAL)
from antismash.common.hmm_rule_parser import rule_parser, cluster_prediction as cp
from antismash.common.hmm_rule_parser.structures import DynamicProfile, DynamicHit
from antismash.common.hmm_rule_parser.test.helpers import create_ruleset
from antismash.common.secmet import Record
from antismash.common.secmet.test.helpers import DummyCDS
from antismash.common.secmet.locations import FeatureLocation as FL, CompoundLocation as CL, get_distance_between_locations as dist
random.seed(int(sys.argv[1]) if len(sys.argv)>1 else 1)
c=collections.Counter(); ex={}
def rec(k,m): c[k]+=1; ex.setdefault(k,m)
def bases(loc):
    s=set()
    for p in loc.parts: s.update(range(int(p.start), int(p.end)))
    return s
def run(N, circ, genes, hits, rules_txt, profs):
    r=Record("A"*N); r.add_annotation("topology","circular" if circ else "linear")
    for name,loc in genes: r.add_cds_feature(DummyCDS(location=loc,locus_tag=name))
    def mk(p):
        def detect(record, hmmer_hits):
            return {g:[DynamicHit(g,p)] for g,ps in hits.items() if p in ps}
        return DynamicProfile(p,"d",detect)
    dyn={p:mk(p) for p in profs}
    rules=rule_parser.Parser(rules_txt,set(profs),{"c"}).rules
    rs=create_ruleset(rules,dynamic_profiles=dyn)
    res=cp.detect_protoclusters_and_signatures(r,rs)
    return r,res
K=1000
for it in range(int(sys.argv[2]) if len(sys.argv)>2 else 3000):
    circ=random.random()<0.5
    N=random.choice([6,8,10,12,20])*K
    cutoff=random.choice([1,2]); nb=random.choice([1,2,3])
    ng=random.randint(1,7)
    genes=[];seen=set()
    for i in range(ng):
        s=random.randrange(0,N-300,100); e=s+random.choice([100,200,300,600])
        if e>N: continue
        loc=FL(s,e,random.choice([1,-1]))
        if circ and random.random()<0.1:
            st=random.choice([1,-1]); ps=[FL(N-random.choice([100,200]),N,st),FL(0,random.choice([100,200]),st)]
            if st==-1: ps.reverse()
            loc=CL(ps)
        if str(loc) in seen: continue
        seen.add(str(loc)); genes.append((f"g{i}",loc))
    if not genes: continue
    hits={g:["a"] for g,_ in genes if random.random()<0.6}
    if not hits: continue
    txt=f"RULE r CATEGORY c CUTOFF {cutoff} NEIGHBOURHOOD {nb} CONDITIONS a"
    try:
        r,res=run(N,circ,genes,hits,txt,["a"])
    except Exception as e:
        rec(("circ" if circ else "lin")+"_exc_"+type(e).__name__,(N,circ,cutoff,nb,[(g,str(l)) for g,l in genes],hits,str(e)[:60])); continue
    kind=("circ" if circ else "lin")+("X" if any(len(l.parts)>1 for g,l in genes) else "")
    c[kind+"_tot"]+=1
    anch=[g for g,_ in genes if g in hits]
    locs=dict(genes)
    wrap=N if circ else None
    # components of proximity graph among anchoring genes
    par={g:g for g in anch}
    def find(x):
        while par[x]!=x: x=par[x]
        return x
    def bdist(a,b):
        A=bases(locs[a]);B=bases(locs[b])
        if A&B: return 0
        if circ: return min(min((y-x)%N-1,(x-y)%N-1) for x in (min(A),max(A)) for y in (min(B),max(B))) if len(locs[a].parts)==1 and len(locs[b].parts)==1 else min(min((y-x)%N-1,(x-y)%N-1) for x in A for y in B)
        return min(abs(x-y) for x in (min(A),max(A)) for y in (min(B),max(B)))-1
    for a,b in itertools.combinations(anch,2):
        if bdist(a,b)<cutoff*K: par[find(a)]=find(b)
    comps=collections.defaultdict(set)
    for g in anch: comps[find(g)].add(g)
    exp=sorted(sorted(v) for v in comps.values())
    got=[]
    for pc in res.protoclusters:
        core=pc.core_location
        members=sorted(g for g in anch if all(any(o.start<=p.start and p.end<=o.end for o in core.parts) for p in locs[g].parts))
        got.append(members)
    got.sort()
    if got!=exp: rec(kind+"_groups",(N,circ,cutoff,nb,[(g,str(l)) for g,l in genes],sorted(hits),got,exp)); continue
    # core = smallest span; surround = core extended
    for pc in res.protoclusters:
        core=pc.core_location; members=[g for g in anch if all(any(o.start<=p.start and p.end<=o.end for o in core.parts) for p in locs[g].parts)]
        U=set().union(*[bases(locs[g]) for g in members])
        CB=bases(core)
        if not U<=CB: rec(kind+"_core_notcover",(str(core),))
        # extension
        if circ: E={(b+k)%N for b in (min(CB),max(CB)) for k in range(-nb*K,nb*K+1)}|CB if len(core.parts)==1 else None
        else: E={b for b in range(max(0,min(CB)-nb*K),min(N,max(CB)+1+nb*K))}
        if E is not None:
            SB=bases(pc.location)
            if circ and len(core.parts)==1:
                E=set(range(min(CB)-nb*K,max(CB)+nb*K+1)); E={x%N for x in E}
            if SB!=E: rec(kind+"_surround",(N,circ,cutoff,nb,str(core),str(pc.location),len(SB),len(E)))
print(sorted(c.items()))
for k,v in ex.items(): print(k,v)
