import sys
sys.path.insert(0, "/repo")
from antismash.common.secmet.features import CandidateCluster, Protocluster
from antismash.common.secmet.features.candidate_cluster import create_candidates_from_protoclusters as creator
from antismash.common.secmet.locations import FeatureLocation as FL
from antismash.common.secmet.qualifiers.gene_functions import GeneFunction
from antismash.common.secmet.test.helpers import DummyCDS
def cds(s,e,products):
    c=DummyCDS(s,e,locus_tag=f"{s}-{e}")
    for p in products: c.gene_functions.add(GeneFunction.CORE,"t","d",p)
    return c
def cluster(ns,s,e,ne,product):
    return Protocluster(FL(s,e,1),FL(ns,ne,1),tool="t",product=product,cutoff=1,neighbourhood_range=0,detection_rule="r")
# hybrid C0: a1,a2 share gene at 1000-1100, cores [1000,9000) extents [0,10000)
g0=cds(1000,1100,["a1","a2"]); gfar=cds(8900,9000,["a1"])
a1=cluster(0,1000,9000,10000,"a1"); a2=cluster(0,1000,1100,10000,"a2")
# hybrid C1: b1,b2 share gene at 150-160: extents [100,200)  -- inside C0 extent but cores [150,160) not overlapping C0 core [1000,9000)
g1=cds(150,160,["b1","b2"]); b1=cluster(100,150,160,200,"b1"); b2=cluster(100,150,160,200,"b2")
g2=cds(350,360,["c1","c2"]); c1=cluster(300,350,360,400,"c1"); c2=cluster(300,350,360,400,"c2")
# unassigned X: core [8950, 9500) partially overlapping C0's core, extent [8900, 9600)
gx=cds(9400,9500,["x"]); X=cluster(8900,8950,9500,9600,"x")
protos=[a1,a2,b1,b2,c1,c2,X]
for P in protos:
    for c in (g0,gfar,g1,g2,gx):
        if c.is_contained_by(P): P.add_cds(c)
for cand in creator(protos):
    print(cand.kind, [p.product for p in cand.protoclusters], cand.location, "core", cand.core_location)
