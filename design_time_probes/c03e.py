import sys, logging, traceback
sys.path.insert(0, "/repo")
logging.disable(logging.CRITICAL)
from antismash.common.hmm_rule_parser import rule_parser, cluster_prediction as cp
from antismash.common.hmm_rule_parser.structures import DynamicProfile, DynamicHit
from antismash.common.hmm_rule_parser.test.helpers import create_ruleset
from antismash.common.secmet import Record
from antismash.common.secmet.test.helpers import DummyCDS
from antismash.common.secmet.locations import FeatureLocation as FL
N=20000
genes={'g0': (5300,5900,1), 'g1': (6000,6300,-1), 'g2': (1700,1800,-1), 'g3': (11900,12500,1), 'g4': (4300,4600,-1), 'g5': (9100,9700,1)}
hits={'g0': ['x'], 'g1': ['a'], 'g2': ['b'], 'g3': ['b', 'a'], 'g4': ['x'], 'g5': ['a', 'x']}
r=Record("A"*N); r.add_annotation("topology","circular")
for g,(s,e,st) in genes.items(): r.add_cds_feature(DummyCDS(location=FL(s,e,st),locus_tag=g))
def mk(p):
    def detect(record, hmmer_hits): return {g:[DynamicHit(g,p)] for g,ps in hits.items() if p in ps}
    return DynamicProfile(p,"d",detect)
rules=rule_parser.Parser("RULE r CATEGORY c CUTOFF 3 NEIGHBOURHOOD 2 CONDITIONS a or b EXTENDERS x",set("abx"),{"c"}).rules
rs=create_ruleset(rules,dynamic_profiles={p:mk(p) for p in "abx"})
try: cp.detect_protoclusters_and_signatures(r,rs)
except Exception: print(traceback.format_exc()[-1500:])
