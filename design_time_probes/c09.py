import sys, random, collections, logging
sys.path.insert(0, "/repo")
logging.disable(logging.CRITICAL)
from Bio.Seq import Seq
from antismash.common.secmet.features import Feature
from antismash.common.secmet.locations import FeatureLocation as FL, CompoundLocation as CL
random.seed(11)
c=collections.Counter(); ex={}
def rec(k,m): c[k]+=1; ex.setdefault(k,m)
def contains(outer,inner):
    return all(any(o.start<=p.start and p.end<=o.end for o in outer.parts) for p in inner.parts)
for it in range(60000):
    N=random.randint(30,120)
    seq=Seq("".join(random.choice("ACGT") for _ in range(N)))
    strand=random.choice([1,-1])
    nex=random.choice([1,1,2,3])
    cross=random.random()<0.25
    # choose exon boundaries along an "unrolled" coordinate u in [u0, u0+span), map mod N if cross
    total_codons=random.randint(2,8)
    # exon lengths sum to 3*total_codons
    L=3*total_codons
    cuts=sorted(random.sample(range(1,L),nex-1)) if nex>1 else []
    lens=[b-a for a,b in zip([0]+cuts,cuts+[L])]
    gaps=[random.randint(1,5) for _ in range(nex-1)]
    span=L+sum(gaps)
    if span>=N-2: continue
    if cross:
        u0=random.randint(N-span+1,N-1)  # ensures wraps
    else:
        u0=random.randint(0,N-span)
    parts=[]; u=u0; ok=True
    for i,l in enumerate(lens):
        s,e=u,u+l
        # split at N if wraps inside exon -> treat as two parts (biopython style): only allow wrap exactly... allow split exon
        if s<N<e:
            parts.append((s,N)); parts.append((0,e-N))
        elif s>=N: parts.append((s-N,e-N))
        else: parts.append((s,e))
        u=e+(gaps[i] if i<len(gaps) else 0)
    fparts=[FL(s,e,strand) for s,e in parts]
    if strand==-1: fparts.reverse()
    loc=fparts[0] if len(fparts)==1 else CL(fparts)
    try: feat=Feature(loc,"CDS")
    except Exception as e: c["skip_"+type(e).__name__]+=1; continue
    kind=("X" if loc.crosses_origin() else "")+("M" if len(parts)>1 else "S")+("+" if strand==1 else "-")
    full=loc.extract(seq)
    assert len(full)==L
    prot=full.translate()
    for s in range(total_codons):
        for e in range(s+1,total_codons+1):
            c[kind+"_tot"]+=1
            try: sub=feat.get_sub_location_from_protein_coordinates(s,e)
            except Exception as err:
                rec(kind+"_exc_"+type(err).__name__,(N,str(loc),s,e,str(err)[:50])); continue
            got=sub.extract(seq)
            if len(sub)!=3*(e-s): rec(kind+"_len",(N,str(loc),s,e,str(sub))); continue
            if str(got)!=str(full[3*s:3*e]): rec(kind+"_wrongseq",(N,str(loc),s,e,str(sub))); continue
            if not contains(loc,sub): rec(kind+"_notinside",(N,str(loc),s,e,str(sub)))
print(sorted(c.items()))
for k,v in ex.items(): print(k,v)
