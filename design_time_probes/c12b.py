import sys, io, logging, os, tempfile
sys.path.insert(0, "/repo")
logging.disable(logging.CRITICAL)
from antismash.common.secmet import Record
from antismash.common.secmet.features import Protocluster
from antismash.common.secmet.test.helpers import DummyCDS
from antismash.common.secmet.locations import FeatureLocation as FL, CompoundLocation as CL
N=1000
def loc(s,e): return FL(s,e,1) if s<e else CL([FL(s,N,1),FL(0,e,1)])
def cluster(ns,s,e,ne,product):
    return Protocluster(loc(s,e),loc(ns,ne),tool="t",product=product,cutoff=1,neighbourhood_range=0,detection_rule="r")
r=Record("ACGT"*250); r.id="rec"; r.name="rec"; r.add_annotation("topology","circular")
for i,(s,e) in enumerate([(960,990),(60,90),(860,890),(420,450)]):
    r.add_cds_feature(DummyCDS(location=FL(s,e,1),locus_tag=f"g{i}",translation="M"*10))
for p in (cluster(900,950,20,50,"a"), cluster(30,60,100,120,"b"), cluster(850,860,900,920,"c"), cluster(400,420,460,500,"d")): r.add_protocluster(p)
r.create_candidate_clusters(); r.create_regions()
print([(r.get_candidate_cluster_number(c),str(c.kind),str(c.location)) for c in r.get_candidate_clusters()])
print([(x.get_region_number(),str(x.location),[c.get_candidate_cluster_number() for c in x.candidate_clusters]) for x in r.get_regions()])
d=tempfile.mkdtemp()
for reg in r.get_regions():
    fn=os.path.join(d,f"r{reg.get_region_number()}.gbk")
    try:
        reg.write_to_genbank(filename=fn)
        r2=Record.from_genbank(fn)[0]
        print(reg.get_region_number(),"reload OK", [str(x.location) for x in r2.get_regions()], len(r2.get_cds_features()), [c.get_candidate_cluster_number() for c in r2.get_candidate_clusters()])
    except Exception as e:
        print(reg.get_region_number(),"FAIL",type(e).__name__,str(e)[:100])
