import sys, random, collections, logging
sys.path.insert(0, "/repo")
logging.disable(logging.CRITICAL)
from antismash.common.secmet import Record
from antismash.common.secmet.features import SubRegion
from antismash.common.secmet.locations import FeatureLocation as FL, CompoundLocation as CL, locations_overlap
def bases(loc):
    s=set()
    for p in loc.parts: s.update(range(int(p.start), int(p.end)))
    return s
random.seed(7)
c=collections.Counter(); ex={}
def rec(k,m): c[k]+=1; ex.setdefault(k,m)
for it in range(40000):
    N=random.randint(10,40); circ=random.random()<0.6
    r=Record("A"*N); r.add_annotation("topology","circular" if circ else "linear")
    areas=[]
    for i in range(random.randint(1,5)):
        s=random.randint(0,N-1); e=random.randint(s+1,N)
        if circ and random.random()<0.3 and s>0:
            loc=CL([FL(s,N,1),FL(0,random.randint(1,s),1)])
        else: loc=FL(s,e,1)
        a=SubRegion(loc,"t",label=str(i)); areas.append(a); r.add_subregion(a)
    kind=("circ" if circ else "lin")+("X" if any(len(a.location.parts)>1 for a in areas) else "")
    c[kind+"_tot"]+=1
    # expected components
    parent=list(range(len(areas)))
    def find(x):
        while parent[x]!=x: x=parent[x]
        return x
    B=[bases(a.location) for a in areas]
    for i in range(len(areas)):
        for j in range(i+1,len(areas)):
            if B[i]&B[j]: parent[find(i)]=find(j)
    comps=collections.defaultdict(set)
    for i in range(len(areas)): comps[find(i)].add(i)
    exp=sorted(sorted(v) for v in comps.values())
    try:
        r.create_regions()
    except Exception as e:
        rec(kind+"_exc_"+type(e).__name__,(N,[str(a.location) for a in areas],str(e)[:40])); continue
    got=sorted(sorted(areas.index(s) for s in reg.subregions) for reg in r.get_regions())
    if got!=exp: rec(kind+"_wrong",(N,[str(a.location) for a in areas],got,exp)); continue
    regs=r.get_regions()
    for i in range(len(regs)):
        for j in range(i+1,len(regs)):
            if bases(regs[i].location)&bases(regs[j].location): rec(kind+"_regions_overlap",(N,[str(a.location) for a in areas]))
    for reg in regs:
        U=set().union(*[B[areas.index(s)] for s in reg.subregions])
        if not U<=bases(reg.location): rec(kind+"_notcover",(N,[str(a.location) for a in areas],str(reg.location)))
    nums=[r.get_region_number(x) for x in regs]
    if nums!=list(range(1,len(regs)+1)): rec(kind+"_numbering",(nums,))
print(sorted(c.items()))
for k,v in ex.items(): print(k,v)
