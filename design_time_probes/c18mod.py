import time
def work(i, delay):
    time.sleep(delay)
    return (i, i*i)
def boom(i, bad):
    if i==bad: raise ValueError(f"bad {i}")
    return i
