import sys, random, collections, logging
sys.path.insert(0, "/repo")
logging.disable(logging.CRITICAL)
from antismash.common.secmet import Record
from antismash.common.secmet.features import SubRegion, Protocluster
from antismash.common.secmet.locations import FeatureLocation as FL, CompoundLocation as CL
from antismash.outputs.html.area_packing import build_area_rows
random.seed(4)
c=collections.Counter(); ex={}
def rec(k,m): c[k]+=1; ex.setdefault(k,m)
def mkloc(s,e,N):
    if s<e: return FL(s,e,1)
    return CL([FL(s,N,1),FL(0,e,1)])
for it in range(6000):
    N=random.choice([200,300,1000]); circ=random.random()<0.8
    r=Record("A"*N); r.add_annotation("topology","circular" if circ else "linear")
    protos=[]
    for i in range(random.randint(1,4)):
        # core and neighbourhood in unrolled coords
        cs=random.randrange(0,N); cl=random.randint(5,N//3); nb=random.randint(0,N//6)
        ns=cs-nb; ce=cs+cl; ne=ce+nb
        if ne-ns>=N: continue
        if not circ:
            if ns<0 or ne>N: continue
            core=FL(cs,ce,1); loc=FL(ns,ne,1)
        else:
            def wrap(a,b):
                a%=N; b=(b-1)%N+1
                return mkloc(a,b,N) if a<b else mkloc(a,b,N)
            core=wrap(cs,ce); loc=wrap(ns,ne)
            if len(core.parts)>1 and len(loc.parts)==1: continue
        try:
            p=Protocluster(core,loc,tool="t",product=f"p{i}",cutoff=1,neighbourhood_range=nb,detection_rule="r")
        except Exception as e:
            c["proto_ctor_"+type(e).__name__]+=1; continue
        protos.append(p)
    if not protos: continue
    try:
        for p in protos: r.add_protocluster(p)
        r.create_candidate_clusters(); r.create_regions()
    except Exception as e:
        c["setup_exc_"+type(e).__name__]+=1; continue
    for reg in r.get_regions():
        kind=("X" if reg.crosses_origin() else ("W" if (reg.location.start==0 and reg.location.end==N and circ) else "S"))
        c[kind+"_tot"]+=1
        try: rows=build_area_rows(reg,N,circular=circ)
        except Exception as e:
            rec(kind+"_exc_"+type(e).__name__,(N,[ (str(p.core_location),str(p.location)) for p in protos],str(e)[:60])); continue
        if reg.crosses_origin(): rs,re_=reg.start, N+reg.location.parts[-1].end
        else: rs,re_=reg.location.start, reg.location.end
        byh=collections.defaultdict(list)
        for a in rows:
            ns=a.get("neighbouring_start",a["start"]); ne=a.get("neighbouring_end",a["end"])
            if not (ns<=a["start"]<=a["end"]<=ne): rec(kind+"_chain",(N,str(reg.location),a))
            if not (rs<=ns and ne<=re_): rec(kind+"_outofrange",(N,str(reg.location),a,[ (str(p.core_location),str(p.location)) for p in protos]))
            byh[a["height"]].append((ns,ne,a))
        for h,l in byh.items():
            l.sort(key=lambda t:(t[0],t[1]))
            for (s1,e1,a1),(s2,e2,a2) in zip(l,l[1:]):
                if s2<e1: rec(kind+"_row_overlap",(N,str(reg.location),a1,a2))
        # completeness: each proto appears (by product) once or as a group pair
        prods=collections.Counter(a.get("product","") for a in rows if a["kind"]=="protocluster")
        for p in reg.get_unique_protoclusters():
            if prods[p.product] not in (1,2): rec(kind+"_missing_or_dup",(N,str(reg.location),p.product,prods[p.product]))
print(sorted(c.items()))
for k,v in ex.items(): print(k,v)
