import sys
sys.path.insert(0, "/repo")
from antismash.common.secmet.features import CandidateCluster, Protocluster
from antismash.common.secmet.features.candidate_cluster import create_candidates_from_protoclusters as creator
from antismash.common.secmet.locations import FeatureLocation as FL, CompoundLocation as CL
from antismash.common.secmet.qualifiers.gene_functions import GeneFunction
from antismash.common.secmet.test.helpers import DummyCDS
def cds(s,e,products):
    c=DummyCDS(s,e,locus_tag=f"{s}-{e}")
    for p in products: c.gene_functions.add(GeneFunction.CORE,"t","d",p)
    return c
def cluster(ns,s,e,ne,product):
    return Protocluster(FL(s,e,1),FL(ns,ne,1),tool="t",product=product,cutoff=1,neighbourhood_range=0,detection_rule="r")
# genes k@100-110, h@200-210, g@300-310
k=cds(100,110,["p2","p3"]); h=cds(200,210,["p3","p5"]); g=cds(300,310,["p1","p5"])
P1=cluster(0,300,310,400,"p1"); P2=cluster(50,100,110,150,"p2"); P3=cluster(80,100,210,230,"p3"); P5=cluster(190,200,310,320,"p5")
for P in (P1,P2,P3,P5):
    for c in (k,h,g):
        if c.is_contained_by(P): P.add_cds(c)
    print(P.product, [str(c.location) for c in P.definition_cdses])
for cand in creator([P1,P2,P3,P5]):
    print(cand.kind, [p.product for p in cand.protoclusters], cand.location)
print("--- permuted input")
for cand in creator([P5,P3,P2,P1]):
    print(cand.kind, [p.product for p in cand.protoclusters], cand.location)
