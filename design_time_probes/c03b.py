import sys, logging
sys.path.insert(0, "/repo")
logging.disable(logging.CRITICAL)
from antismash.common.hmm_rule_parser import rule_parser, cluster_prediction as cp
from antismash.common.hmm_rule_parser.structures import DynamicProfile, DynamicHit
from antismash.common.hmm_rule_parser.test.helpers import create_ruleset
from antismash.common.secmet import Record
from antismash.common.secmet.test.helpers import DummyCDS
from antismash.common.secmet.locations import FeatureLocation as FL
N=100000
r=Record("A"*N); r.add_annotation("topology","linear")
genes={"g1":(10000,11000),"g2":(12000,13000),"g3":(14000,15000),"g4":(16000,17000)}
for g,(s,e) in genes.items(): r.add_cds_feature(DummyCDS(location=FL(s,e,1),locus_tag=g))
hits={"g1":["a"],"g2":["a"],"g3":["a","b"],"g4":["b"]}
def mk(p):
    def detect(record, hmmer_hits): return {g:[DynamicHit(g,p)] for g,ps in hits.items() if p in ps}
    return DynamicProfile(p,"d",detect)
txt="""RULE sup CATEGORY c CUTOFF 5 NEIGHBOURHOOD 1 CONDITIONS b
RULE inf CATEGORY c SUPERIORS sup CUTOFF 5 NEIGHBOURHOOD 1 CONDITIONS a"""
rules=rule_parser.Parser(txt,{"a","b"},{"c"}).rules
rs=create_ruleset(rules,dynamic_profiles={p:mk(p) for p in "ab"})
res=cp.detect_protoclusters_and_signatures(r,rs)
print([(p.product,str(p.core_location),str(p.location)) for p in res.protoclusters])
