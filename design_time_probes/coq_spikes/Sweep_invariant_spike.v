From Coq Require Import ZArith List Bool Lia Sorting.Sorted Relations.Relation_Operators.
Import ListNotations.
Open Scope Z_scope.

(* intervals [s,e) with a slack c: i ~ j iff gap < c (c = 0: plain overlap gives s_j < e_i) *)
Record itv := { s : Z; e : Z }.
Definition wf (i : itv) := s i < e i.

Section Sweep.
Variable c : Z.              (* cutoff; near i j iff they are closer than c *)
Hypothesis c_nonneg : 0 <= c.

Definition near (i j : itv) : Prop := s j < e i + c /\ s i < e j + c.

(* the sweep: groups are kept newest first; each group = (hull end, members newest first) *)
Definition group := (Z * list itv)%type.

Definition step (gs : list group) (i : itv) : list group :=
  match gs with
  | [] => [(e i, [i])]
  | (he, ms) :: rest => if s i <? he + c then (Z.max he (e i), i :: ms) :: rest
                        else (e i, [i]) :: (he, ms) :: rest
  end.

Definition sweep (l : list itv) : list group := fold_left step l [].

Definition sorted (l : list itv) := StronglySorted (fun a b => s a <= s b) l.

(* connectivity inside a member list *)
Inductive conn (ms : list itv) : itv -> itv -> Prop :=
| conn_refl i : In i ms -> conn ms i i
| conn_step i j k : In i ms -> In j ms -> near i j -> conn ms j k -> conn ms i k.

Lemma conn_trans ms i j k : conn ms i j -> conn ms j k -> conn ms i k.
Proof. induction 1; auto. intro. eapply conn_step; eauto. Qed.

Lemma near_sym i j : near i j -> near j i.
Proof. unfold near; tauto. Qed.

Lemma conn_sym ms i j : conn ms i j -> conn ms j i.
Proof.
  induction 1 as [i Hi | i j k Hi Hj Hn Hc IH].
  - now constructor.
  - eapply conn_trans; [exact IH|]. apply conn_step with i; [exact Hj|exact Hi|now apply near_sym|now constructor].
Qed.

Lemma conn_weaken ms x i j : conn ms i j -> conn (x :: ms) i j.
Proof. induction 1; [constructor; now right | eapply conn_step; eauto; now right]. Qed.

(* invariant of one group: hull end is the max end, all members wf, and every two members connected *)
Definition ginv (lo : Z) (g : group) : Prop :=
  let '(he, ms) := g in
  ms <> [] /\
  (forall m, In m ms -> wf m /\ e m <= he /\ s m <= lo) /\
  (exists m, In m ms /\ e m = he) /\
  (forall a b, In a ms -> In b ms -> conn ms a b).

(* groups are separated: everything in older groups ends at least c before any start in newer groups *)
Fixpoint sep (gs : list group) : Prop :=
  match gs with
  | [] => True
  | (he, ms) :: rest =>
      (forall he' ms' m, In (he', ms') rest -> In m ms -> he' + c <= s m) /\ sep rest
  end.

Definition inv (lo : Z) (gs : list group) : Prop :=
  Forall (ginv lo) gs /\ sep gs.


Lemma ginv_single i : wf i -> ginv (s i) (e i, [i]).
Proof.
  intros Hw. simpl. split; [congruence|]. split; [|split].
  - intros m [<-|[]]. repeat split; auto; lia.
  - exists i; simpl; auto.
  - intros a b [<-|[]] [<-|[]]. constructor; simpl; auto.
Qed.

Lemma ginv_mono lo lo' g : lo <= lo' -> ginv lo g -> ginv lo' g.
Proof.
  destruct g as [he ms]. simpl. intros Hle (A & B & C & D).
  split; [exact A|]. split; [|split; [exact C|exact D]].
  intros m Hm. destruct (B m Hm) as (? & ? & ?). repeat split; auto; lia.
Qed.

Lemma step_inv lo gs i :
  inv lo gs -> wf i -> lo <= s i -> inv (s i) (step gs i).
Proof.
  intros [Hg Hs] Hw Hlo. unfold step.
  destruct gs as [|[he ms] rest].
  - split; [|simpl; split; [intros ? ? ? []|exact I]]. constructor; [|constructor]. now apply ginv_single.
  - inversion Hg as [|g0 gr Hg1 Hgr]; subst. destruct Hs as [Hs1 Hsr].
    destruct Hg1 as (Hne & Hall & (mx & Hmx & Hmxe) & Hconn).
    assert (Hrest : Forall (ginv (s i)) rest).
    { eapply Forall_impl; [|exact Hgr]. intros g. now apply ginv_mono. }
    assert (Hold : forall he' ms', In (he', ms') rest -> he' + c <= s i).
    { intros he' ms' Hin. destruct ms as [|m0 ms0]; [congruence|].
      specialize (Hs1 he' ms' m0 Hin (or_introl eq_refl)).
      destruct (Hall m0 (or_introl eq_refl)) as (_ & _ & ?). lia. }
    destruct (s i <? he + c) eqn:Hlt.
    + apply Z.ltb_lt in Hlt.
      split.
      * constructor; [|exact Hrest].
        simpl. split; [congruence|]. split; [|split].
        -- intros m [<-|Hm].
           ++ repeat split; auto; lia.
           ++ destruct (Hall m Hm) as (? & ? & ?). repeat split; auto; lia.
        -- destruct (Z.max_spec he (e i)) as [[? ->]|[? ->]].
           ++ exists i; simpl; auto.
           ++ exists mx; simpl; auto.
        -- assert (Hnear : near i mx).
           { unfold near. destruct (Hall mx Hmx) as (Hwm & _ & Hsm). unfold wf in *. lia. }
           assert (Hi_mx : conn (i :: ms) i mx).
           { apply conn_step with mx; [now left|now right|exact Hnear|constructor; now right]. }
           intros a b [<-|Ha] [<-|Hb].
           ++ constructor; now left.
           ++ eapply conn_trans; [exact Hi_mx|]. apply conn_weaken. now apply Hconn.
           ++ apply conn_sym. eapply conn_trans; [exact Hi_mx|]. apply conn_weaken. now apply Hconn.
           ++ apply conn_weaken. now apply Hconn.
      * simpl. split; auto.
        intros he' ms' m Hin [<-|Hm].
        -- eapply Hold; eauto.
        -- eapply Hs1; eauto.
    + apply Z.ltb_ge in Hlt.
      split.
      * constructor; [now apply ginv_single|].
        constructor; [|exact Hrest].
        apply ginv_mono with lo; auto. simpl.
        split; [exact Hne|]. split; [exact Hall|]. split; [exists mx; auto|exact Hconn].
      * simpl. split; [|split; auto].
        intros he' ms' m [Heq|Hin] [<-|[]].
        -- inversion Heq; subst. lia.
        -- eapply Hold; eauto.
Qed.
End Sweep.
