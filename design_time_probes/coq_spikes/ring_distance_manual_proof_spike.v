From Coq Require Import ZArith Lia.
Open Scope Z_scope.

Definition min4 a b c d := Z.min (Z.min a b) (Z.min c d).
Definition lin (a1 a2 b1 b2 : Z) := min4 (Z.abs (a1 - b2)) (Z.abs (a2 - b1)) (Z.abs (b1 - a2)) (Z.abs (b2 - a1)).
Definition ring (a1 a2 b1 b2 n : Z) :=
  Z.min ((min4 (Z.abs (a1 - b2 + n)) (Z.abs (a2 - b1 + n)) (Z.abs (b1 - a2 + n)) (Z.abs (b2 - a1 + n))) mod n) (lin a1 a2 b1 b2).

Lemma lin_spec a1 a2 b1 b2 :
  a1 < a2 -> a2 <= b1 -> b1 < b2 -> lin a1 a2 b1 b2 = b1 - a2.
Proof.
  intros. unfold lin, min4.
  rewrite (Z.abs_neq (a1 - b2)) by lia.
  rewrite (Z.abs_neq (a2 - b1)) by lia.
  rewrite (Z.abs_eq (b1 - a2)) by lia.
  rewrite (Z.abs_eq (b2 - a1)) by lia.
  lia.
Qed.

Lemma ring_dist_spec a1 a2 b1 b2 n :
  0 <= a1 -> a1 < a2 -> a2 <= b1 -> b1 < b2 -> b2 <= n ->
  ring a1 a2 b1 b2 n = Z.min (b1 - a2) (a1 + n - b2).
Proof.
  intros H0 H1 H2 H3 H4. unfold ring. rewrite lin_spec by lia. unfold min4.
  rewrite (Z.abs_eq (a1 - b2 + n)) by lia.
  rewrite (Z.abs_eq (a2 - b1 + n)) by lia.
  rewrite (Z.abs_eq (b1 - a2 + n)) by lia.
  rewrite (Z.abs_eq (b2 - a1 + n)) by lia.
  (* the inner minimum is min (a1 - b2 + n) (a2 - b1 + n) *)
  assert (E : Z.min (Z.min (a1 - b2 + n) (a2 - b1 + n)) (Z.min (b1 - a2 + n) (b2 - a1 + n))
              = Z.min (a1 - b2 + n) (a2 - b1 + n)) by lia.
  rewrite E; clear E.
  destruct (Z.le_gt_cases (a1 - b2 + n) (a2 - b1 + n)) as [Hle|Hgt].
  - rewrite (Z.min_l (a1 - b2 + n) (a2 - b1 + n)) by lia. rewrite Z.mod_small by lia. lia.
  - rewrite (Z.min_r (a1 - b2 + n) (a2 - b1 + n)) by lia.
    destruct (Z.eq_dec a2 b1) as [->|Hne].
    + replace (b1 - b1 + n) with n by lia. rewrite Z.mod_same by lia. lia.
    + rewrite Z.mod_small by lia. lia.
Qed.
