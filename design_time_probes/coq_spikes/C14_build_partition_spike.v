From Coq Require Import List Bool Arith Lia.
Import ListNotations.

(* abstract component: the predicates the state machine reads *)
Record comp := {
  cid : nat;                 (* position / identity *)
  lab : nat;                 (* label id, used only by the double-transporter look-ahead *)
  c_starter : bool; c_loader : bool; c_mod : bool; c_cp : bool; c_end : bool;
  c_ignored : bool; c_special : bool; c_pks : bool; c_nrps : bool; c_kr : bool;
  c_transat_ks : bool; c_atd : bool
}.

Record module := {
  m_starter : option comp; m_loader : option comp; m_mods : list comp;
  m_cp : option comp; m_end : option comp; m_others : list comp;
  m_comps : list comp;       (* in insertion order *)
  m_first : bool; m_unamb : nat
}.

Definition empty_module (first : bool) : module :=
  {| m_starter := None; m_loader := None; m_mods := []; m_cp := None; m_end := None;
     m_others := []; m_comps := []; m_first := first; m_unamb := 0 |}.

Definition isSome {A} (o : option A) := match o with Some _ => true | None => false end.

Definition is_pks (m : module) := existsb c_pks (m_comps m).
Definition is_trans_at (m : module) : bool :=
  match m_starter m with
  | Some s => is_pks m && negb (isSome (m_loader m)) && (c_transat_ks s || existsb c_atd (m_others m))
  | None => false
  end.

(* the (label-level) double transporter cases, as a parameter *)
Section WithCases.
Variable double_case : list nat -> bool.   (* does the look-ahead start with a registered pair? *)
Variable double_len : nat.                 (* its length (2) *)

Definition ensure_suitable (m : module) (c : comp) (la : list comp) : bool :=
  if c_ignored c || c_special c then true
  else if isSome (m_end m) then false
  else if c_starter c && negb (c_loader c) then
         match m_comps m with [] => true | _ => false end
  else if c_loader c then
         if isSome (m_loader m) then false
         else if match m_starter m with
                 | Some s => (c_pks s && c_nrps c) || (c_nrps s && c_pks c)
                 | None => false end then false
         else if isSome (m_end m) || isSome (m_cp m) || match m_mods m with [] => false | _ => true end then false
         else true
  else if c_mod c then
         if isSome (m_end m) then false
         else if isSome (m_cp m) && negb (is_trans_at m && c_kr c) then false
         else true
  else if c_cp c then
         if isSome (m_cp m) then double_case (map lab la) else true
  else true.

Definition push (m : module) (c : comp) : list comp := m_comps m ++ [c].

Definition add_component (m : module) (c : comp) (la : list comp) : option module :=
  if c_ignored c then Some m
  else
    let ok := match m_unamb m with S _ => true | O => ensure_suitable m c la end in
    if negb ok then None
    else
      let u := Nat.pred (m_unamb m) in
      let m0 := {| m_starter := m_starter m; m_loader := m_loader m; m_mods := m_mods m; m_cp := m_cp m;
                   m_end := m_end m; m_others := m_others m; m_comps := push m c; m_first := m_first m; m_unamb := u |} in
      Some
      (if c_starter c && negb (isSome (m_starter m)) then
         {| m_starter := Some c; m_loader := if c_loader c then Some c else m_loader m; m_mods := m_mods m;
            m_cp := m_cp m; m_end := m_end m; m_others := m_others m; m_comps := push m c;
            m_first := m_first m; m_unamb := u |}
       else if c_loader c then
         {| m_starter := m_starter m; m_loader := Some c; m_mods := m_mods m; m_cp := m_cp m; m_end := m_end m;
            m_others := m_others m; m_comps := push m c; m_first := m_first m; m_unamb := u |}
       else if c_mod c then
         {| m_starter := m_starter m; m_loader := m_loader m; m_mods := m_mods m ++ [c]; m_cp := m_cp m;
            m_end := m_end m; m_others := m_others m; m_comps := push m c; m_first := m_first m; m_unamb := u |}
       else if c_cp c then
         if negb (isSome (m_cp m)) then
           {| m_starter := m_starter m; m_loader := m_loader m; m_mods := m_mods m; m_cp := Some c;
              m_end := m_end m; m_others := m_others m; m_comps := push m c; m_first := m_first m; m_unamb := u |}
         else if double_case (map lab la) then
           {| m_starter := m_starter m; m_loader := m_loader m; m_mods := m_mods m; m_cp := m_cp m;
              m_end := m_end m; m_others := m_others m ++ [c]; m_comps := push m c; m_first := m_first m;
              m_unamb := double_len |}
         else m0
       else if c_end c then
         {| m_starter := m_starter m; m_loader := m_loader m; m_mods := m_mods m; m_cp := m_cp m;
            m_end := Some c; m_others := m_others m; m_comps := push m c; m_first := m_first m; m_unamb := u |}
       else
         {| m_starter := m_starter m; m_loader := m_loader m; m_mods := m_mods m; m_cp := m_cp m;
            m_end := m_end m; m_others := m_others m ++ [c]; m_comps := push m c; m_first := m_first m; m_unamb := u |}).

(* build_modules_for_cds: modules kept oldest first; `cur` is modules[-1] *)
Fixpoint build (done : list module) (cur : module) (cs : list comp) : option (list module) :=
  match cs with
  | [] => Some (done ++ (match m_comps cur with [] => [] | _ => [cur] end))
  | c :: rest =>
      let la := firstn 2 rest in
      let '(done1, cur1) :=
          if c_starter c && negb (c_loader c) && (match m_comps cur with [] => false | _ => true end)
          then (done ++ [cur], empty_module false) else (done, cur) in
      match add_component cur1 c la with
      | Some cur2 => build done1 cur2 rest
      | None =>
          match add_component (empty_module false) c [] with
          | Some cur2 => build (done1 ++ [cur1]) cur2 rest
          | None => None
          end
      end
  end.

Lemma add_empty_total first c : exists m, add_component (empty_module first) c [] = Some m.
Proof.
  unfold add_component. destruct (c_ignored c) eqn:Hi; [eexists; reflexivity|].
  cbn [m_unamb empty_module].
  assert (H : ensure_suitable (empty_module first) c [] = true).
  { unfold ensure_suitable. rewrite Hi. cbn.
    destruct (c_special c); cbn; [reflexivity|].
    destruct (c_starter c && negb (c_loader c)); [reflexivity|].
    destruct (c_loader c); [reflexivity|].
    destruct (c_mod c); [reflexivity|].
    destruct (c_cp c); reflexivity. }
  rewrite H. cbn. eexists; reflexivity.
Qed.

Lemma add_comps m c la m' :
  add_component m c la = Some m' ->
  m_comps m' = if c_ignored c then m_comps m else m_comps m ++ [c].
Proof.
  unfold add_component. destruct (c_ignored c); [intros H; inversion H; reflexivity|].
  destruct (negb _); [discriminate|].
  intros H; inversion H; clear H.
  repeat match goal with |- context [if ?b then _ else _] => destruct b end; reflexivity.
Qed.

Definition flat (ms : list module) := concat (map m_comps ms).
Definition keep (cs : list comp) := filter (fun c => negb (c_ignored c)) cs.

Lemma flat_app a b : flat (a ++ b) = flat a ++ flat b.
Proof. unfold flat. now rewrite map_app, concat_app. Qed.

Theorem build_total_and_partition cs : forall done cur,
  exists ms, build done cur cs = Some ms /\ flat ms = flat done ++ m_comps cur ++ keep cs.
Proof.
  induction cs as [|c rest IH]; intros done cur.
  - cbn [build keep filter]. eexists; split; [reflexivity|].
    rewrite flat_app, app_nil_r. f_equal.
    destruct (m_comps cur) eqn:E; unfold flat; cbn; [reflexivity|]. now rewrite E, app_nil_r.
  - cbn [build].
    set (split := c_starter c && negb (c_loader c) && _).
    assert (Hsplit : split = true -> c_ignored c = true \/ True) by auto.
    destruct split eqn:Hs.
    + (* new module started *)
      destruct (add_component (empty_module false) c (firstn 2 rest)) as [cur2|] eqn:Ha.
      * destruct (IH (done ++ [cur]) cur2) as (ms & Hb & Hf). exists ms. split; [exact Hb|].
        rewrite Hf, flat_app. apply add_comps in Ha. rewrite Ha. cbn [keep filter].
        unfold flat at 2. cbn. rewrite app_nil_r.
        destruct (c_ignored c); cbn; rewrite <- ?app_assoc; reflexivity.
      * destruct (add_empty_total false c) as (cur2 & Ha2). rewrite Ha2.
        destruct (IH ((done ++ [cur]) ++ [empty_module false]) cur2) as (ms & Hb & Hf). exists ms. split; [exact Hb|].
        rewrite Hf, !flat_app. apply add_comps in Ha2. rewrite Ha2. cbn [keep filter].
        unfold flat at 2 3. cbn. rewrite !app_nil_r.
        destruct (c_ignored c); cbn; rewrite <- ?app_assoc; reflexivity.
    + destruct (add_component cur c (firstn 2 rest)) as [cur2|] eqn:Ha.
      * destruct (IH done cur2) as (ms & Hb & Hf). exists ms. split; [exact Hb|].
        rewrite Hf. apply add_comps in Ha. rewrite Ha. cbn [keep filter].
        destruct (c_ignored c); cbn; rewrite <- ?app_assoc; reflexivity.
      * destruct (add_empty_total false c) as (cur2 & Ha2). rewrite Ha2.
        destruct (IH (done ++ [cur]) cur2) as (ms & Hb & Hf). exists ms. split; [exact Hb|].
        rewrite Hf, flat_app. apply add_comps in Ha2. rewrite Ha2. cbn [keep filter].
        unfold flat at 2. cbn. rewrite app_nil_r.
        destruct (c_ignored c); cbn; rewrite <- ?app_assoc; reflexivity.
Qed.
End WithCases.
Print Assumptions build_total_and_partition.
