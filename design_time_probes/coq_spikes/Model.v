From Coq Require Import ZArith List Bool Lia.
Import ListNotations.
Open Scope Z_scope.
Record loc := { lstart : Z; lend : Z }.
Definition overlap (a b : loc) : bool := (lstart a <? lend b) && (lstart b <? lend a).
Definition dist (a b : loc) (w : option Z) : Z :=
  if overlap a b then 0 else
  let off := match w with Some n => n | None => 0 end in
  let v := Z.min (Z.min (Z.abs (lstart a - lend b + off)) (Z.abs (lend a - lstart b + off)))
                 (Z.min (Z.abs (lstart b - lend a + off)) (Z.abs (lend b - lstart a + off))) in
  match w with Some n => v mod n | None => v end.
Definition mism (cases : list (nat * (loc * loc * option Z) * Z)) : list nat :=
  map (fun c => fst (fst c)) (filter (fun c => match c with (i, (a,b,w), out) => negb (dist a b w =? out) end) cases).
