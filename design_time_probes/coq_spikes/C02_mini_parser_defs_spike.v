From Coq Require Import List Bool Arith Lia.
Import ListNotations.

Inductive tok := TId (n : nat) | TAnd | TOr | TNot | TLP | TRP.

Inductive cond :=
| Single (neg : bool) (n : nat)
| Group (neg : bool) (subs : list item)
with item :=
| ICond (c : cond)
| IAnd (cs : list cond).

(* ---------- printer (mirrors __str__, on tokens) ---------- *)
Definition pre (neg : bool) : list tok := if neg then [TNot] else [].

Fixpoint sep_concat (s : list tok) (l : list (list tok)) : list tok :=
  match l with
  | [] => []
  | [x] => x
  | x :: tl => x ++ s ++ sep_concat s tl
  end.

Fixpoint show (c : cond) : list tok :=
  match c with
  | Single neg n => pre neg ++ [TId n]
  | Group neg subs =>
      pre neg ++ [TLP] ++
      sep_concat [TOr] (map (fun it => match it with
                                      | ICond c' => show c'
                                      | IAnd cs => sep_concat [TAnd] (map show cs) end) subs)
      ++ [TRP]
  end.
Definition show_item (it : item) := match it with ICond c' => show c' | IAnd cs => sep_concat [TAnd] (map show cs) end.
Definition show_ors (subs : list item) := sep_concat [TOr] (map show_item subs).

(* ---------- parser with fuel ---------- *)
Fixpoint p_single (fuel : nat) (ts : list tok) : option (cond * list tok) :=
  match fuel with
  | O => None
  | S f =>
      let '(neg, ts1) := match ts with TNot :: r => (true, r) | _ => (false, ts) end in
      match ts1 with
      | TLP :: r =>
          match p_ors f r with
          | Some (subs, TRP :: r') => Some (Group neg subs, r')
          | _ => None
          end
      | TId n :: r => Some (Single neg n, r)
      | _ => None
      end
  end
with p_ands (fuel : nat) (ts : list tok) : option (list cond * list tok) :=
  (* single { and single }* *)
  match fuel with
  | O => None
  | S f =>
      match p_single f ts with
      | Some (c, TAnd :: r) =>
          match p_ands f r with
          | Some (cs, r') => Some (c :: cs, r')
          | None => None
          end
      | Some (c, r) => Some ([c], r)
      | None => None
      end
  end
with p_ors (fuel : nat) (ts : list tok) : option (list item * list tok) :=
  match fuel with
  | O => None
  | S f =>
      match p_ands f ts with
      | Some (cs, r) =>
          let it := match cs with [c] => ICond c | _ => IAnd cs end in
          match r with
          | TOr :: r1 =>
              match p_ors f r1 with
              | Some (its, r') => Some (it :: its, r')
              | None => None
              end
          | _ => Some ([it], r)
          end
      | None => None
      end
  end.

(* well-formed (what the parser builds): or-lists non-empty, and-lists of length >= 2 *)
Fixpoint wf (c : cond) : Prop :=
  match c with
  | Single _ _ => True
  | Group _ subs => subs <> [] /\
      (fix go (l : list item) : Prop := match l with [] => True | it :: tl =>
          match it with
          | ICond c' => wf c'
          | IAnd cs => (2 <= length cs) /\ (fix go2 (l2 : list cond) : Prop := match l2 with [] => True | c' :: tl2 => wf c' /\ go2 tl2 end) cs
          end /\ go tl end) subs
  end.
