Require Import Model.
From Coq Require Import ZArith List Extraction ExtrOcamlBasic.
Import ListNotations.
Open Scope Z_scope.
Definition run (r : list Z) : list Z := match r with [a;b;c;d;w] => [dist (Build_loc a b) (Build_loc c d) (Some w)] | _ => [] end.
Extraction "model.ml" run.
