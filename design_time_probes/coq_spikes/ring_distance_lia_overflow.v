From Coq Require Import ZArith List Bool Lia ZifyBool.
Open Scope Z_scope.
Ltac Zify.zify_post_hook ::= Z.to_euclidean_division_equations.

Definition min4 a b c d := Z.min (Z.min a b) (Z.min c d).
Definition lin (a1 a2 b1 b2 : Z) := min4 (Z.abs (a1 - b2)) (Z.abs (a2 - b1)) (Z.abs (b1 - a2)) (Z.abs (b2 - a1)).
Definition ring (a1 a2 b1 b2 n : Z) :=
  Z.min ((min4 (Z.abs (a1 - b2 + n)) (Z.abs (a2 - b1 + n)) (Z.abs (b1 - a2 + n)) (Z.abs (b2 - a1 + n))) mod n) (lin a1 a2 b1 b2).

Lemma ring_dist_spec a1 a2 b1 b2 n :
  0 <= a1 < a2 -> a2 <= b1 -> b1 < b2 -> b2 <= n ->
  ring a1 a2 b1 b2 n = Z.min (b1 - a2) (a1 + n - b2).
Proof.
  intros. unfold ring, lin, min4.
  Time lia.
Qed.
