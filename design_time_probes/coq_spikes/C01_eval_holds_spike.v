From Coq Require Import ZArith List Bool Lia.
Import ListNotations.

Inductive cond :=
| Single (neg : bool) (p : nat)
| Score (neg : bool) (p : nat) (s : Z)
| Minimum (neg : bool) (k : nat) (opts : list nat)
| Cds (neg : bool) (subs : list item)
| Group (neg : bool) (subs : list item)
with item :=
| ICond (c : cond)
| IAnd (cs : list cond).

Section Ind.
  Variable P : cond -> Prop.
  Variable Q : item -> Prop.
  Hypothesis HSingle : forall n p, P (Single n p).
  Hypothesis HScore : forall n p s, P (Score n p s).
  Hypothesis HMin : forall n k o, P (Minimum n k o).
  Hypothesis HCds : forall n subs, Forall Q subs -> P (Cds n subs).
  Hypothesis HGroup : forall n subs, Forall Q subs -> P (Group n subs).
  Hypothesis HICond : forall c, P c -> Q (ICond c).
  Hypothesis HIAnd : forall cs, Forall P cs -> Q (IAnd cs).

  Fixpoint cond_rect2 (c : cond) : P c :=
    match c with
    | Single n p => HSingle n p
    | Score n p s => HScore n p s
    | Minimum n k o => HMin n k o
    | Cds n subs => HCds n subs ((fix go (l : list item) : Forall Q l :=
                       match l with [] => Forall_nil _ | i :: tl => Forall_cons _ (item_rect2 i) (go tl) end) subs)
    | Group n subs => HGroup n subs ((fix go (l : list item) : Forall Q l :=
                       match l with [] => Forall_nil _ | i :: tl => Forall_cons _ (item_rect2 i) (go tl) end) subs)
    end
  with item_rect2 (i : item) : Q i :=
    match i with
    | ICond c => HICond c (cond_rect2 c)
    | IAnd cs => HIAnd cs ((fix go (l : list cond) : Forall P l :=
                       match l with [] => Forall_nil _ | c :: tl => Forall_cons _ (cond_rect2 c) (go tl) end) cs)
    end.
End Ind.

Section Eval.
Variable genes : list nat.
Variable hits : nat -> list (nat * Z).
Variable near : nat -> nat -> bool.

Definition poss (g : nat) : list nat := map fst (hits g).
Definition has (g p : nat) : bool := existsb (Nat.eqb p) (poss g).
Definition others (g : nat) := filter (fun o => negb (Nat.eqb o g) && near g o) genes.
Definition scored (g p : nat) (s : Z) := existsb (fun h => Nat.eqb (fst h) p && (s <=? snd h)%Z) (hits g).

(* implementation-shaped: met only (matches omitted in this spike) *)
Fixpoint eval (c : cond) (g : nat) (local : bool) {struct c} : bool :=
  match c with
  | Single neg p =>
      let found := has g p in
      if local || found then xorb neg found
      else if existsb (fun o => has o p) (filter (fun o => match hits o with [] => false | _ => true end) (others g))
           then negb neg else neg
  | Score neg p s =>
      if scored g p s then negb neg
      else if local then neg
      else if existsb (fun o => near g o && scored o p s) genes then negb neg else neg
  | Minimum neg k opts => neg (* omitted in spike *)
  | Cds neg subs =>
      let ors := fun (g' : nat) =>
        existsb (fun it => match it with
             | ICond c' => eval c' g' true
             | IAnd cs => forallb (fun c' => eval c' g' true) cs
             end) subs in
      let own := ors g in
      if local || own then xorb neg own
      else xorb (existsb ors (others g)) neg
  | Group neg subs =>
      xorb neg (existsb (fun it => match it with
             | ICond c' => eval c' g local
             | IAnd cs => forallb (fun c' => eval c' g local) cs
             end) subs)
  end.

(* documented meaning *)
Definition range (g : nat) := g :: others g.

Fixpoint holds (c : cond) (g : nat) (local : bool) {struct c} : bool :=
  match c with
  | Single neg p => xorb neg (if local then has g p else existsb (fun o => has o p) (range g))
  | Score neg p s => xorb neg (if local then scored g p s else existsb (fun o => scored o p s) (range g))
  | Minimum neg k opts => neg
  | Cds neg subs =>
      let sat := fun g' => existsb (fun it => match it with
                                      | ICond c' => holds c' g' true
                                      | IAnd cs => forallb (fun c' => holds c' g' true) cs end) subs in
      xorb neg (if local then sat g else existsb sat (range g))
  | Group neg subs =>
      xorb neg (existsb (fun it => match it with
                                      | ICond c' => holds c' g local
                                      | IAnd cs => forallb (fun c' => holds c' g local) cs end) subs)
  end.


Lemma existsb_filter_hits g p :
  existsb (fun o => has o p) (filter (fun o => match hits o with [] => false | _ => true end) (others g))
  = existsb (fun o => has o p) (others g).
Proof.
  induction (others g) as [|o l IH]; simpl; auto.
  destruct (hits o) eqn:E; simpl.
  - rewrite IH. unfold has, poss. rewrite E. simpl. reflexivity.
  - rewrite IH. reflexivity.
Qed.

Lemma score_scan_gen g p s (l : list nat) :
  scored g p s = false ->
  existsb (fun o => near g o && scored o p s) l
  = existsb (fun o => scored o p s) (filter (fun o => negb (Nat.eqb o g) && near g o) l).
Proof.
  intros Hown. induction l as [|o l IH]; simpl; auto.
  destruct (Nat.eqb o g) eqn:E; simpl.
  - apply Nat.eqb_eq in E; subst. rewrite Hown. rewrite andb_false_r. simpl. exact IH.
  - destruct (near g o); simpl; rewrite IH; reflexivity.
Qed.

Lemma score_scan g p s : scored g p s = false ->
  existsb (fun o => near g o && scored o p s) genes = existsb (fun o => scored o p s) (others g).
Proof. intros. unfold others. now apply score_scan_gen. Qed.

Definition Pc (c : cond) := forall g local, In g genes -> eval c g local = holds c g local.
Definition Qi (it : item) := forall g local, In g genes ->
   (match it with
    | ICond c' => eval c' g local
    | IAnd cs => forallb (fun c' => eval c' g local) cs
    end) =
   (match it with
    | ICond c' => holds c' g local
    | IAnd cs => forallb (fun c' => holds c' g local) cs end).

Lemma others_in g o : In o (others g) -> In o genes.
Proof. unfold others. intros H. apply filter_In in H. tauto. Qed.

Lemma existsb_ext_in {A} (f h : A -> bool) l : (forall x, In x l -> f x = h x) -> existsb f l = existsb h l.
Proof. induction l as [|x l IH]; simpl; intros H; [reflexivity|]. rewrite H by now left. rewrite IH; [reflexivity|]. intros; apply H; now right. Qed.
Lemma forallb_ext_in {A} (f h : A -> bool) l : (forall x, In x l -> f x = h x) -> forallb f l = forallb h l.
Proof. induction l as [|x l IH]; simpl; intros H; [reflexivity|]. rewrite H by now left. rewrite IH; [reflexivity|]. intros; apply H; now right. Qed.

Theorem eval_holds : forall c, Pc c.
Proof.
  apply (cond_rect2 Pc Qi); unfold Pc, Qi.
  - (* Single *) intros n p g local Hg. simpl.
    destruct local; simpl.
    + reflexivity.
    + destruct (has g p) eqn:Hh; simpl; [reflexivity|].
      rewrite existsb_filter_hits.
      destruct (existsb (fun o => has o p) (others g)); destruct n; reflexivity.
  - (* Score *) intros n p s g local Hg. simpl.
    destruct (scored g p s) eqn:Hs; simpl.
    + destruct local; destruct n; reflexivity.
    + destruct local; [destruct n; reflexivity|].
      rewrite (score_scan g p s Hs).
      destruct (existsb _ (others g)); destruct n; reflexivity.
  - intros; reflexivity.
  - (* Cds *) intros n subs HF g local Hg. simpl.
    rewrite Forall_forall in HF.
    assert (Heq : forall g', In g' genes ->
       existsb (fun it => match it with ICond c' => eval c' g' true | IAnd cs => forallb (fun c' => eval c' g' true) cs end) subs
     = existsb (fun it => match it with ICond c' => holds c' g' true | IAnd cs => forallb (fun c' => holds c' g' true) cs end) subs).
    { intros g' Hg'. apply existsb_ext_in. intros it Hit. apply (HF it Hit g' true Hg'). }
    rewrite (Heq g Hg).
    rewrite (existsb_ext_in _ _ (others g) (fun o Ho => Heq o (others_in g o Ho))).
    destruct local; simpl; [reflexivity|].
    match goal with |- (if ?b then _ else _) = _ => destruct b eqn:Hs end; simpl; [reflexivity|].
    destruct n; match goal with |- context [existsb ?f (others g)] => destruct (existsb f (others g)) end; reflexivity.
  - (* Group *) intros n subs HF g local Hg. simpl. f_equal.
    rewrite Forall_forall in HF. apply existsb_ext_in. intros it Hit. apply (HF it Hit g local Hg).
  - (* ICond *) intros c IH g local Hg. apply IH; auto.
  - (* IAnd *) intros cs HF g local Hg. rewrite Forall_forall in HF.
    apply forallb_ext_in. intros c Hc. apply HF; auto.
Qed.
End Eval.
Print Assumptions eval_holds.
