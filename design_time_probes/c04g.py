import sys, itertools, collections, random
sys.path.insert(0, "/repo")
from antismash.common.secmet.locations import *
FL=FeatureLocation; CL=CompoundLocation
def bases(loc):
    s=set()
    for p in loc.parts: s.update(range(int(p.start), int(p.end)))
    return s
random.seed(9)
c=collections.Counter(); ex={}
def rec(k,m): c[k]+=1; ex.setdefault(k,m)
def rand_loc(N, allow_cross):
    strand=random.choice([1,-1,None,1,-1])
    n=random.choice([1,1,2,3])
    # choose n disjoint ascending exons
    pts=sorted(random.sample(range(0,N+1), 2*n))
    parts=[(pts[2*i],pts[2*i+1]) for i in range(n)]
    cross=allow_cross and n>1 and random.random()<0.4
    if cross:
        k=random.randint(1,n-1)   # rotate: transcription starts at part k
        parts=parts[k:]+parts[:k]
    fl=[FL(s,e,strand) for s,e in parts]
    if strand==-1: fl.reverse()
    return fl[0] if n==1 else CL(fl), cross
for it in range(60000):
    N=random.randint(6,30)
    wrap=random.choice([N,N,None])
    k=random.choice([1,2,2,3])
    locs=[]; anyc=False
    for _ in range(k):
        l,cr=rand_loc(N, wrap is not None); locs.append(l); anyc|=cr
    U=set().union(*[bases(l) for l in locs])
    tag=("ring" if wrap else "line")+("X" if anyc else "")
    try:
        r=connect_locations(locs, wrap_point=wrap)
    except Exception as e:
        rec(tag+"_exc_"+type(e).__name__,([str(l) for l in locs],wrap,str(e)[:60])); continue
    c[tag+"_tot"]+=1
    R=bases(r)
    if not U<=R: rec(tag+"_notcover",([str(l) for l in locs],wrap,str(r)))
    if len(r.parts)>2: rec(tag+"_parts>2",([str(l) for l in locs],wrap,str(r)))
    if sum(len(p) for p in r.parts)!=len(R): rec(tag+"_overlapping_parts",([str(l) for l in locs],wrap,str(r)))
    if wrap is None:
        if R!=set(range(min(U),max(U)+1)): rec(tag+"_nothull",([str(l) for l in locs],str(r)))
    else:
        # shortest arc when < N/2
        best=min(max((x-st)%N for x in U)+1 for st in U)
        if 2*best<N and len(R)!=best: rec(tag+"_not_shortest",([str(l) for l in locs],wrap,str(r),best))
        hull=max(U)-min(U)+1
        if not anyc and len(R)>hull: rec(tag+"_longer_than_hull",([str(l) for l in locs],wrap,str(r)))
    # order independence
    try:
        r2=connect_locations(list(reversed(locs)), wrap_point=wrap)
        if bases(r2)!=R or len(r2.parts)!=len(r.parts): rec(tag+"_order_dep",([str(l) for l in locs],wrap,str(r),str(r2)))
    except Exception as e: rec(tag+"_order_exc",([str(l) for l in locs],wrap))
    # distance pairs
    if k>=2:
        a,b=locs[0],locs[1]
        try:
            d1=get_distance_between_locations(a,b,wrap_point=wrap); d2=get_distance_between_locations(b,a,wrap_point=wrap)
            if d1!=d2: rec(tag+"_dist_asym",(str(a),str(b),wrap,d1,d2))
        except Exception as e: rec(tag+"_dist_exc",(str(a),str(b),wrap,str(e)[:40]))
print(sorted(c.items()))
for k,v in ex.items(): print(k,v)
