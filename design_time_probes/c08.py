import sys, itertools, collections, random
sys.path.insert(0, "/repo")
from antismash.common.secmet.test.helpers import DummyCDS, DummyRecord
from antismash.common.secmet.locations import *
from antismash.common.secmet import Record
FL=FeatureLocation; CL=CompoundLocation
random.seed(3)
c=collections.Counter(); ex={}
def rec(k,m): c[k]+=1; ex.setdefault(k,m)
def bases(loc):
    s=set()
    for p in loc.parts: s.update(range(int(p.start), int(p.end)))
    return s
def contains(outer,inner):
    return all(any(o.start<=p.start and p.end<=o.end for o in outer.parts) for p in inner.parts)
for it in range(30000):
    N=random.randint(10,40)
    circ=random.random()<0.5
    r=Record("A"*N); r.add_annotation("topology","circular" if circ else "linear")
    genes=[]
    seen=set()
    for g in range(random.randint(1,6)):
        s=random.randint(0,N-3); e=random.randint(s+3,N)
        strand=random.choice([1,-1])
        if circ and random.random()<0.15:
            e2=random.randint(1,max(1,s-1)) if s>1 else 1
            if e2>=s: continue
            parts=[FL(s,N,strand),FL(0,e2,strand)]
            if strand==-1: parts.reverse()
            loc=CL(parts)
        else:
            loc=FL(s,e,strand)
        if str(loc) in seen: continue
        seen.add(str(loc))
        cds=DummyCDS(location=loc, locus_tag=f"g{g}")
        r.add_cds_feature(cds); genes.append(cds)
    # query
    for q in range(5):
        s=random.randint(0,N-1); e=random.randint(s+1,N)
        if circ and random.random()<0.3 and s>0:
            e2=random.randint(1,s)
            qloc=CL([FL(s,N,1),FL(0,e2,1)])
        else: qloc=FL(s,e,1)
        for wo in (False,True):
            try: got=r.get_cds_features_within_location(qloc,with_overlapping=wo)
            except Exception as ee:
                rec("exc",(N,[str(g.location) for g in genes],str(qloc),wo,repr(ee)[:50])); continue
            if wo and len(qloc.parts)>1:
                # compound with overlapping: code ignores with_overlapping for compound? 
                pass
            if wo: exp=[g for g in r.get_cds_features() if bases(g.location)&bases(qloc)]
            else: exp=[g for g in r.get_cds_features() if contains(qloc,g.location)]
            k=("wo" if wo else "in")+("X" if len(qloc.parts)>1 else "S")
            c[k+"_tot"]+=1
            if set(got)!=set(exp): rec(k+"_wrongset",(N,[str(g.location) for g in r.get_cds_features()],str(qloc),[str(g.location) for g in got]))
            elif got!=exp: rec(k+"_wrongorder",(N,[str(g.location) for g in r.get_cds_features()],str(qloc),[str(g.location) for g in got]))
print(sorted(c.items()))
for k,v in ex.items(): print(k,v)
