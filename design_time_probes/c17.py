import sys, io, logging, os, json as pyjson, hashlib
sys.path.insert(0, "/repo")
logging.disable(logging.CRITICAL)
if len(sys.argv)>1 and sys.argv[1]=="child":
    from Bio import SeqIO
    from antismash.common.hmm_rule_parser import rule_parser, cluster_prediction as cp
    from antismash.common.hmm_rule_parser.structures import DynamicProfile, DynamicHit
    from antismash.common.hmm_rule_parser.test.helpers import create_ruleset
    from antismash.common.secmet import Record
    from antismash.common.secmet.test.helpers import DummyCDS
    from antismash.common.secmet.locations import FeatureLocation as FL
    from antismash.common import serialiser, json
    from antismash.detection.hmm_detection import HMMDetectionResults
    N=60000
    r=Record("ACGT"*(N//4)); r.id="rec"; r.name="rec"; r.add_annotation("topology","linear"); r.record_index=1
    genes={"gA":(10000,11000,1),"gB":(10000,11000,-1),"gC":(12000,13000,1),"gD":(30000,31000,1),"gE":(30000,31000,-1)}
    for g,(s,e,st) in genes.items(): r.add_cds_feature(DummyCDS(location=FL(s,e,st),locus_tag=g,translation="M"*300))
    hits={"gA":["p","q","s"],"gB":["p","q","t"],"gC":["q"],"gD":["p","q"],"gE":["p","q","s","t"]}
    def mk(p):
        def detect(record, hmmer_hits): return {g:[DynamicHit(g,p)] for g,ps in hits.items() if p in ps}
        return DynamicProfile(p,"d",detect)
    txt="\n".join(f"RULE r{p} CATEGORY c CUTOFF 5 NEIGHBOURHOOD 2 CONDITIONS {p}" for p in "pqst")
    rules=rule_parser.Parser(txt,set("pqst"),{"c"}).rules
    rs=create_ruleset(rules,dynamic_profiles={p:mk(p) for p in "pqst"})
    res=cp.detect_protoclusters_and_signatures(r,rs)
    res.annotate_cds_features()
    hres=HMMDetectionResults(r.id,res,list(rs.get_rule_names()),"strict")
    for p in res.protoclusters: r.add_protocluster(p)
    r.create_candidate_clusters(); r.create_regions()
    out={}
    out["protos"]=[(r.get_protocluster_number(p),p.product,str(p.location)) for p in r.get_protoclusters()]
    out["cands"]=[(r.get_candidate_cluster_number(c),str(c.kind),[p.product for p in c.protoclusters],str(c.location)) for c in r.get_candidate_clusters()]
    out["regions"]=[(x.get_region_number(),x.products,str(x.location)) for x in r.get_regions()]
    buf=io.StringIO(); SeqIO.write([r.to_biopython()],buf,"genbank"); gbk=buf.getvalue()
    js=json.dumps(hres.to_json())
    out["gbk_sha"]=hashlib.sha1(gbk.encode()).hexdigest()[:10]; out["json_sha"]=hashlib.sha1(js.encode()).hexdigest()[:10]
    out["enabled"]=hres.enabled_types
    print(pyjson.dumps(out))
else:
    import subprocess, collections
    outs=collections.defaultdict(list)
    for seed in range(8):
        o=subprocess.run(["/venv/bin/python",__file__,"child"],env={**os.environ,"PYTHONHASHSEED":str(seed)},capture_output=True,text=True)
        if o.returncode: print(o.stderr[-500:]); break
        d=pyjson.loads(o.stdout)
        for k,v in d.items(): outs[k].append(pyjson.dumps(v))
    for k,v in outs.items():
        print(k, "distinct across seeds:", len(set(v)))
        if len(set(v))>1 and k not in ("gbk_sha","json_sha"):
            for x in sorted(set(v))[:3]: print("   ",x[:300])
