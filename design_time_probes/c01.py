import sys
sys.path.insert(0, "/repo")
from antismash.common.hmm_rule_parser import rule_parser
from antismash.common.hmm_rule_parser.structures import ProfileHit
from antismash.common.secmet.test.helpers import DummyCDS
def rule(cond):
    txt=f"RULE r CATEGORY c CUTOFF 1 NEIGHBOURHOOD 1 CONDITIONS {cond}"
    return rule_parser.Parser(txt, {"a","b","c","d"}, {"c"}).rules[0]
try:
    r=rule("cds(a and minscore(b, 50))")
    print("parsed", r.conditions)
    feats={"G":DummyCDS(0,30,locus_tag="G"),"H":DummyCDS(100,130,locus_tag="H")}
    res={"G":[ProfileHit("G","a",10,1e-3)],"H":[ProfileHit("H","b",60,1e-3)]}
    m=r.detect("G",feats,res)
    print("cds(a and minscore(b,50)) at G with b only in neighbour H:", m.met, m.matches)
except Exception as e: print("ERR",e)
for cond in ["cds(a and minimum(1,[b]))","cds(a and cds(b and c))","not cds(a and b)", "a and not a", "(a)", "((a))", "a or a", "minimum(0,[a])", "minimum(1,[a,a])", "minscore(a,0)", "a and (b or not c)", "cds(a)", "cds(not a and b)", "cds((a or b) and c)", "minimum(2,[a,b]) and c"]:
    try:
        r=rule(cond); print(cond,"=>",r.conditions, "|", r.reconstruct_rule_text().split("CONDITIONS ")[1])
    except Exception as e: print(cond,"ERR",type(e).__name__,str(e)[:60])
