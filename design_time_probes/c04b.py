import sys, itertools, collections
sys.path.insert(0, "/repo")
from antismash.common.secmet.locations import *
FL=FeatureLocation; CL=CompoundLocation
def bases(loc):
    s=set()
    for p in loc.parts: s.update(range(int(p.start), int(p.end)))
    return s
def simple_locs(N):
    for s in range(N):
        for e in range(s+1, N+1): yield FL(s,e,1)
def cross_locs(N):
    for s in range(1,N):
        for e in range(1, s+1): yield CL([FL(s,N,1), FL(0,e,1)])
def ringdist(A,B,N):
    if A&B: return 0
    return min(min((y-x)%N-1,(x-y)%N-1) for x in A for y in B)
c=collections.Counter(); ex={}
for N in range(2,13):
    S=list(simple_locs(N)); X=list(cross_locs(N))
    for a in S+X:
        for b in S+X:
            k=("S" if len(a.parts)==1 else "X")+("S" if len(b.parts)==1 else "X")
            d=get_distance_between_locations(a,b,wrap_point=N); e=ringdist(bases(a),bases(b),N)
            c[k,"tot"]+=1
            if d!=e:
                c[k,"bad"]+=1; ex.setdefault(k,(N,str(a),str(b),d,e))
                if d<e: c[k,"under"]+=1
                else: c[k,"over"]+=1
print(sorted(c.items())); print(ex)
