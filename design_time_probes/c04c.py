import sys, itertools, collections
sys.path.insert(0, "/repo")
from antismash.common.secmet.locations import *
FL=FeatureLocation; CL=CompoundLocation
def bases(loc):
    s=set()
    for p in loc.parts: s.update(range(int(p.start), int(p.end)))
    return s
def simple_locs(N):
    for s in range(N):
        for e in range(s+1, N+1): yield (s,e)
def cross_locs(N):
    for s in range(1,N):
        for e in range(1, s+1): yield (s,e)
def mk(t,N):
    s,e=t
    if s<e: return FL(s,e,1)
    return CL([FL(s,N,1),FL(0,e,1)])
def wellformed(r,N):
    ps=r.parts
    if len(ps)>2: return "parts>2"
    for p in ps:
        if not (0<=p.start<p.end<=N): return "part range"
    if len(ps)==2:
        if ps[1].start!=0: return "second not at origin"
        if ps[0].end!=N: return "first not ending at N"
        if ps[1].end>ps[0].start: return "parts overlap"
    return None
def shortest_arc_len(sets,N):
    U=set().union(*sets)
    if len(U)==N: return N
    # largest gap of uncovered bases (cyclic) - but arcs must cover each interval wholly; equivalent to covering U since arc contiguous
    best=N
    # arcs start at some base in U
    for st in U:
        # length needed to cover all U starting at st going forward
        L=max((x-st)%N for x in U)+1
        best=min(best,L)
    return best
c=collections.Counter(); ex={}
def rec(k,m): c[k]+=1; ex.setdefault(k,m)
for N in range(2,10):
    T=list(simple_locs(N))+list(cross_locs(N))
    for k in (1,2,3):
        if k==3 and N>7: continue
        for combo in itertools.product(T, repeat=k):
            locs=[mk(t,N) for t in combo]
            sets=[bases(l) for l in locs]
            U=set().union(*sets)
            try:
                r=connect_locations(locs, wrap_point=N)
            except Exception as e:
                rec("exc:"+type(e).__name__,(N,combo,repr(e)[:80])); continue
            c["tot"]+=1
            w=wellformed(r,N)
            if w: rec("wf:"+w,(N,combo,str(r))); continue
            R=bases(r)
            if not U<=R: rec("notcover",(N,combo,str(r)))
            anycross=any(len(l.parts)>1 for l in locs)
            if not anycross:
                hull=max(int(l.end) for l in locs)-min(int(l.start) for l in locs)
                if len(R)>hull: rec("longer_than_hull",(N,combo,str(r)))
            sa=shortest_arc_len(sets,N)
            if 2*sa<N and len(R)!=sa: rec("not_shortest",(N,combo,str(r),sa))
            if len(R)<sa: rec("shorter_than_possible??",(N,combo,str(r),sa))
            # order independence
            if k==2:
                r2=connect_locations([mk(t,N) for t in reversed(combo)], wrap_point=N)
                if str(r2)!=str(r): rec("order_dep",(N,combo,str(r),str(r2)))
            # idempotence
            try:
                r3=connect_locations([r], wrap_point=N)
                if str(r3)!=str(r): rec("not_idem",(N,combo,str(r),str(r3)))
            except Exception as e:
                rec("idem_exc",(N,combo,str(r),repr(e)[:60]))
print(sorted(c.items()))
for k,v in ex.items(): print(k,v)
