import sys, logging
sys.path.insert(0, "/repo")
logging.disable(logging.CRITICAL)
from antismash.common.hmm_rule_parser import rule_parser, cluster_prediction as cp
from antismash.common.hmm_rule_parser.structures import DynamicProfile, DynamicHit
from antismash.common.hmm_rule_parser.test.helpers import create_ruleset
from antismash.common.secmet import Record
from antismash.common.secmet.test.helpers import DummyCDS
from antismash.common.secmet.locations import FeatureLocation as FL
def run(rule_order):
    N=100000
    r=Record("A"*N); r.add_annotation("topology","circular")
    r.add_cds_feature(DummyCDS(location=FL(5000,6000,1),locus_tag="g1"))
    r.add_cds_feature(DummyCDS(location=FL(96000,97000,1),locus_tag="g2"))
    hits={"g1":["a"],"g2":["b"]}
    def mk(p):
        def detect(record, hmmer_hits): return {g:[DynamicHit(g,p)] for g,ps in hits.items() if p in ps}
        return DynamicProfile(p,"d",detect)
    texts={"r1":"RULE r1 CATEGORY c CUTOFF 20 NEIGHBOURHOOD 1 CONDITIONS c",
           "r2":"RULE r2 CATEGORY c CUTOFF 2 NEIGHBOURHOOD 1 CONDITIONS c",
           "r3":"RULE r3 CATEGORY c CUTOFF 20 NEIGHBOURHOOD 1 CONDITIONS a and b"}
    txt="\n".join(texts[k] for k in rule_order)
    rules=rule_parser.Parser(txt,{"a","b","c"},{"c"}).rules
    rs=create_ruleset(rules,dynamic_profiles={p:mk(p) for p in "abc"})
    res=cp.detect_protoclusters_and_signatures(r,rs)
    return [(p.product,str(p.core_location)) for p in res.protoclusters]
print("r1,r2,r3:",run(["r1","r2","r3"]))
print("r1,r3,r2:",run(["r1","r3","r2"]))
print("r3 only :",run(["r3"]))
