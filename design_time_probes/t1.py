import sys
sys.path.insert(0, "/repo")
from antismash.common.secmet.locations import *
# C04: offset shift
try:
    print(offset_location(FeatureLocation(5,10,1), 10, wrap_point=20))
except AssertionError as e:
    print("assert fail offset", e)
# distance
print(get_distance_between_locations(FeatureLocation(0,5,1), FeatureLocation(15,20,1), wrap_point=20))
print(get_distance_between_locations(FeatureLocation(2,5,1), FeatureLocation(15,18,1), wrap_point=20))
print(get_distance_between_locations(FeatureLocation(2,5,1), FeatureLocation(8,18,1), wrap_point=20))
# overlaps with empty? 
print(locations_overlap(FeatureLocation(0,5,1), FeatureLocation(5,10,1)))
print(connect_locations([FeatureLocation(2,5,1), FeatureLocation(15,18,1)], wrap_point=20))
print(connect_locations([FeatureLocation(2,5,1), FeatureLocation(12,18,1)], wrap_point=20))
print(connect_locations([FeatureLocation(2,5,1), FeatureLocation(13,18,1)], wrap_point=20))
