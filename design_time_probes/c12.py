import sys, io, logging, os, tempfile
sys.path.insert(0, "/repo")
logging.disable(logging.CRITICAL)
from Bio import SeqIO
from antismash.common.secmet import Record
from antismash.common.secmet.features import Protocluster
from antismash.common.secmet.test.helpers import DummyCDS
from antismash.common.secmet.locations import FeatureLocation as FL, CompoundLocation as CL
def cluster(ns,s,e,ne,product):
    return Protocluster(FL(s,e,1),FL(ns,ne,1),tool="t",product=product,cutoff=1,neighbourhood_range=0,detection_rule="r")
r=Record("ACGT"*250); r.id="rec"; r.name="rec"; r.add_annotation("topology","linear")
for i,(s,e) in enumerate([(12,42),(215,245),(600,630)]):
    r.add_cds_feature(DummyCDS(location=FL(s,e,1),locus_tag=f"g{i}",translation="M"*10))
for p in (cluster(10,20,30,50,"a"), cluster(200,220,230,250,"b"), cluster(580,600,640,700,"c")): r.add_protocluster(p)
r.create_candidate_clusters(); r.create_regions()
print([str(x.location) for x in r.get_regions()])
d=tempfile.mkdtemp()
for reg in r.get_regions():
    fn=os.path.join(d,f"r{reg.get_region_number()}.gbk")
    reg.write_to_genbank(filename=fn)
    try:
        r2=Record.from_genbank(fn)[0]
        print(reg.get_region_number(),"reload OK", [str(x.location) for x in r2.get_regions()], len(r2.get_cds_features()))
    except Exception as e:
        print(reg.get_region_number(),"reload FAIL",type(e).__name__,str(e)[:80])
