import sys, itertools, random, collections
sys.path.insert(0, "/repo")
from antismash.common.hmmscan_refinement import HMMResult, _remove_overlapping, _merge_domain_list, _merge_immediate_neigbours, remove_incomplete
from antismash.common import hmmscan_refinement as hr
H=HMMResult
lens={"Z":10,"A":100,"B":10}
res=[H("Z",0,30,1e-5,50.),H("A",15,120,1e-5,40.),H("B",16,40,1e-5,60.)]
out=_remove_overlapping(res,lens)
print(out)
# order independence of the full pipeline given list in different orders (emulate set order)
def refine(results, lens, nm):
    refined = sorted(list(results), key=lambda r: r.query_start)
    if nm:
        refined=_remove_overlapping(refined,lens); refined=_merge_immediate_neigbours(refined,lens)
    else:
        refined=_merge_domain_list(refined,lens); refined=_remove_overlapping(refined,lens)
    return remove_incomplete(refined,lens)
random.seed(5)
c=collections.Counter(); ex={}
for it in range(20000):
    n=random.randint(2,5)
    hits=[]
    for i in range(n):
        s=random.randint(0,6)*5; e=s+random.randint(1,8)*5
        hits.append(H(random.choice("AB"),s,e,1e-5,float(random.randint(1,3)*10)))
    hits=list({h for h in hits})
    for nm in (True,False):
        outs=set()
        for perm in itertools.permutations(hits):
            outs.add(tuple(map(str,refine(list(perm),{"A":20,"B":30},nm))))
        c[nm,"tot"]+=1
        if len(outs)>1:
            c[nm,"orderdep"]+=1
            starts=[h.query_start for h in hits]
            if len(set(starts))==len(starts): c[nm,"orderdep_distinct_starts"]+=1; ex.setdefault((nm,"distinct"),[str(h) for h in hits])
            else: ex.setdefault((nm,"ties"),[str(h) for h in hits])
print(c); print(ex)
