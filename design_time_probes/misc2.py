import sys, logging
sys.path.insert(0, "/repo")
logging.disable(logging.CRITICAL)
from antismash.common.record_processing import fix_record_name_id
from antismash.common.secmet import Record
r=Record("ACGT"); r.id="my contig1234567 of a long name"; r.name="x"; r.record_index=1
fix_record_name_id(r,{r.id}); print(repr(r.id),len(r.id))
