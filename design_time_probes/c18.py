import sys, time, logging
sys.path.insert(0, "/repo"); sys.path.insert(0, "/tmp/scratch")
logging.disable(logging.CRITICAL)
from antismash.common.subprocessing.base import parallel_function
from antismash.config import build_config
build_config([], isolated=True)
import c18mod
ok=True
t=time.time()
for k in (1,2,3,8,16):
    for n in (0,1,k-1,k,k+1,3*k+1):
        if n<0: continue
        args=[[i, 0.02*((n-i)%4)] for i in range(n)]
        got=parallel_function(c18mod.work, args, cpus=k)
        exp=[c18mod.work(*a) for a in [[i,0] for i in range(n)]]
        if list(got)!=exp: ok=False; print("MISMATCH",k,n,got)
print("order ok:",ok, round(time.time()-t,1),"s")
for k in (1,4):
    try:
        parallel_function(c18mod.boom, [[i,2] for i in range(6)], cpus=k); print("no error!?")
    except Exception as e: print("k",k,"error surfaced:",type(e).__name__)
try:
    parallel_function(c18mod.work, [[i,1.0] for i in range(4)], cpus=2, timeout=1); print("no timeout error")
except Exception as e: print("timeout surfaced:",type(e).__name__, e)
