import sys, random, collections, logging, itertools
sys.path.insert(0, "/repo")
logging.disable(logging.CRITICAL)
from antismash.common.hmm_rule_parser import rule_parser, cluster_prediction as cp
from antismash.common.hmm_rule_parser.structures import DynamicProfile, DynamicHit
from antismash.common.hmm_rule_parser.test.helpers import create_ruleset
from antismash.common.secmet import Record
from antismash.common.secmet.test.helpers import DummyCDS
from antismash.common.secmet.qualifiers.gene_functions import GeneFunction
from antismash.common.secmet.locations import FeatureLocation as FL, CompoundLocation as CL
random.seed(int(sys.argv[1]) if len(sys.argv)>1 else 1)
c=collections.Counter(); ex={}
def rec(k,m): c[k]+=1; ex.setdefault(k,m)
K=1000
def run(N, genes, hits, rules_txt, profs):
    r=Record("A"*N); r.add_annotation("topology","circular")
    for name,(s,e,st) in genes.items():
        if s<e: loc=FL(s,e,st)
        else:
            parts=[FL(s,N,st),FL(0,e,st)]
            if st==-1: parts.reverse()
            loc=CL(parts)
        r.add_cds_feature(DummyCDS(location=loc,locus_tag=name))
    def mk(p):
        def detect(record, hmmer_hits): return {g:[DynamicHit(g,p)] for g,ps in hits.items() if p in ps}
        return DynamicProfile(p,"d",detect)
    rules=rule_parser.Parser(rules_txt,set(profs),{"c"}).rules
    rs=create_ruleset(rules,dynamic_profiles={p:mk(p) for p in profs})
    res=cp.detect_protoclusters_and_signatures(r,rs)
    res.annotate_cds_features()
    for p in res.protoclusters: r.add_protocluster(p)
    r.create_candidate_clusters(); r.create_regions()
    protos=sorted((p.product,tuple(sorted(g.get_name() for g in p.cds_children)),tuple(sorted(g.get_name() for g in p.definition_cdses))) for p in r.get_protoclusters())
    cands=sorted((str(cc.kind),tuple(sorted(p.product for p in cc.protoclusters)),tuple(sorted(g.get_name() for g in cc.cds_children))) for cc in r.get_candidate_clusters())
    regs=sorted(tuple(sorted(g.get_name() for g in reg.cds_children)) for reg in r.get_regions())
    maxreg=max([len(reg.location) for reg in r.get_regions()],default=0)
    return protos,cands,regs,maxreg
for it in range(int(sys.argv[2]) if len(sys.argv)>2 else 300):
    N=random.choice([40,60,100])*K
    ng=random.randint(2,8)
    genes={}
    for i in range(ng):
        s=random.randrange(0,N-1000,500); e=s+random.choice([300,500,1000])
        if any(not (e<=s2 or e2<=s) for (s2,e2,_) in genes.values()): continue
        genes[f"g{i}"]=(s,e,random.choice([1,-1]))
    profs="abc"
    hits={g:random.sample(profs,random.randint(0,2)) for g in genes}
    hits={g:v for g,v in hits.items() if v}
    if not hits: continue
    rules_txt="\n".join([f"RULE ra CATEGORY c CUTOFF {random.choice([2,5,10])} NEIGHBOURHOOD {random.choice([1,3,5])} CONDITIONS a",
                        f"RULE rb CATEGORY c CUTOFF {random.choice([2,5,10])} NEIGHBOURHOOD {random.choice([1,3,5])} CONDITIONS b and c",
                        f"RULE rc CATEGORY c CUTOFF {random.choice([2,5,10])} NEIGHBOURHOOD {random.choice([1,3,5])} CONDITIONS cds(a and b) or c"])
    try: base=run(N,genes,hits,rules_txt,profs)
    except Exception as e:
        rec("base_exc_"+type(e).__name__,(N,genes,hits,rules_txt,str(e)[:80])); continue
    if 2*base[3]>=N: c["skip_bigregion"]+=1; continue
    c["tot"]+=1
    for k in random.sample(range(0,N,100),12):
        # rotate: new coordinate = (x - k) mod N ; classify whether k cuts a gene
        cut=any(s<k<e for (s,e,_) in genes.values())
        g2={}
        for g,(s,e,st) in genes.items():
            ns=(s-k)%N; ne=(e-k-1)%N+1
            g2[g]=(ns,ne,st)
        try: rot=run(N,g2,hits,rules_txt,profs)
        except Exception as e:
            rec(("cut_" if cut else "nocut_")+"rot_exc_"+type(e).__name__,(N,k,genes,hits,rules_txt,str(e)[:80])); continue
        tag="cut" if cut else "nocut"
        c[tag+"_rot"]+=1
        for name,a,b in zip(("protos","cands","regions"),base[:3],rot[:3]):
            if a!=b:
                rec(f"{tag}_{name}_differ",(N,k,genes,hits,rules_txt.split(chr(10)),a,b)); break
print(sorted(c.items()))
for k,v in ex.items(): print(k,v)
