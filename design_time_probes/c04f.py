import sys, traceback
sys.path.insert(0, "/repo")
from antismash.common.secmet.locations import *
FL=FeatureLocation; CL=CompoundLocation
N=7
n=0
for s in range(1,N):
    for e in range(1,s+1):
        loc=CL([FL(s,N,1),FL(0,e,1)])
        for off in range(-N-1,N+2):
            ne=(e+off)%N
            if ne==0: continue
            try: offset_location(loc,off,wrap_point=N)
            except AssertionError as err:
                n+=1
                if n<6:
                    print(s,e,off); traceback.print_exc(limit=1)
