import sys, random, collections, logging
sys.path.insert(0, "/repo")
logging.disable(logging.CRITICAL)
from Bio.Seq import Seq
from antismash.common.all_orfs import scan_orfs, find_all_orfs
from antismash.common.secmet import Record
from antismash.common.secmet.test.helpers import DummyCDS
from antismash.common.secmet.locations import FeatureLocation as FL, CompoundLocation as CL
random.seed(2)
c=collections.Counter(); ex={}
def rec(k,m): c[k]+=1; ex.setdefault(k,m)
STARTS={"ATG","GTG","TTG"}; STOPS={"TAA","TAG","TGA"}
def ref_orfs(seq, minlen):
    seq=seq.upper(); out=[]
    for f in range(3):
        start=None
        for i in range(f,len(seq)-2,3):
            cod=seq[i:i+3]
            if cod in STOPS:
                if start is not None and (i+3-start)>=minlen: out.append((start,i+3))
                start=None
            elif cod in STARTS and start is None: start=i
    return out
for it in range(20000):
    N=random.randint(20,90)
    genome="".join(random.choice("ACGT" if random.random()<0.95 else "acgtN") for _ in range(N))
    # bias to have orfs
    L=random.randint(9,N); off=random.randint(-N+1,N-1) if random.random()<0.5 else random.randint(0,N-L)
    # window [off, off+L) in ring coordinates
    if off<0:
        if L+off<0: continue
    chunk="".join(genome[(off+i)%N] for i in range(L))
    minlen=random.choice([3,6,9,12])
    for direction in (1,-1):
        s=chunk if direction==1 else str(Seq(chunk).reverse_complement())
        got=scan_orfs(s,direction,off,minimum_length=minlen,record_length=N)
        exp=ref_orfs(s,minlen)
        c["tot"]+=1
        if len(got)!=len(exp):
            # is it the == minlen off-by-one?
            exp2=[(a,b) for a,b in exp if b-a>minlen]
            if len(got)==len(exp2): c["count_diff_only_minlen_eq"]+=1; exp=exp2
            else: rec("count",(genome,off,L,minlen,direction,[str(g) for g in got],exp)); continue
        # each reported location extracts to an ORF in the ref set
        expseqs=sorted(s[a:b].upper() for a,b in exp)
        gotseqs=[]
        bad=False
        for loc in got:
            if loc.end>N or loc.start<0: rec("outofrange",(genome,off,L,direction,str(loc))); bad=True; break
            gotseqs.append(str(loc.extract(Seq(genome))).upper())
        if bad: continue
        if sorted(gotseqs)!=expseqs: rec("extract_mismatch",(genome,off,L,minlen,direction,[str(g) for g in got],exp))
print(sorted(c.items()))
for k,v in ex.items(): print(k,v)
