import sys, io, logging
sys.path.insert(0, "/repo")
logging.disable(logging.CRITICAL)
from Bio import SeqIO
from antismash.common.secmet import Record
from antismash.common.secmet.features import Protocluster, CDSFeature
from antismash.common.secmet.locations import FeatureLocation as FL, CompoundLocation as CL
from antismash.common import serialiser, json
def cluster(ns,s,e,ne,product):
    return Protocluster(FL(s,e,1),FL(ns,ne,1),tool="t",product=product,cutoff=1,neighbourhood_range=0,detection_rule="r")
r=Record("ACGT"*100); r.id="rec"; r.name="rec"; r.add_annotation("topology","linear")
A=cluster(10,20,30,40,"a"); B=cluster(10,22,28,40,"b"); C=cluster(200,220,230,240,"c")
for p in (A,B,C): r.add_protocluster(p)
print([ (p.product, r.get_protocluster_number(p)) for p in r.get_protoclusters()])
r.create_candidate_clusters(); r.create_regions()
def dump(rec):
    out=[]
    for cc in rec.get_candidate_clusters():
        out.append((rec.get_candidate_cluster_number(cc), str(cc.kind), [p.product for p in cc.protoclusters], str(cc.location)))
    return out
print(dump(r))
bio=r.to_biopython()
buf=io.StringIO(); SeqIO.write([bio],buf,"genbank"); text1=buf.getvalue()
r2=Record.from_biopython(list(SeqIO.parse(io.StringIO(text1),"genbank"))[0], "bacteria")
print([ (p.product, r2.get_protocluster_number(p)) for p in r2.get_protoclusters()])
print(dump(r2))
buf=io.StringIO(); SeqIO.write([r2.to_biopython()],buf,"genbank"); text2=buf.getvalue()
print("fixed point:", text1==text2)
# json path
j=json.dumps(serialiser.record_to_json(bio)); r3=serialiser.record_from_json(json.loads(j),"bacteria")
print(dump(r3))
