import sys
sys.path.insert(0, "/repo")
from antismash.common.all_orfs import scan_orfs
s="ATG"+"AAA"*18+"TAA"
print(len(s), scan_orfs(s,1,minimum_length=60), scan_orfs(s,1,minimum_length=59), scan_orfs(s,1,minimum_length=58))
# lower-case / ambiguity
print(scan_orfs("atgaaataa",1,minimum_length=3))
# wrapping
print(scan_orfs("ATGAAATAA",1,offset=-4,minimum_length=3,record_length=20))
print(scan_orfs("TTATTTCAT",-1,offset=-4,minimum_length=3,record_length=20))
