import sys, logging, random, collections
sys.path.insert(0, "/repo")
logging.disable(logging.CRITICAL)
from antismash.common import json
from antismash.common.hmmscan_refinement import HMMResult
from antismash.common.secmet import Record
from antismash.common.secmet.features import CDSFeature
from antismash.common.secmet.locations import FeatureLocation as FL
from antismash.detection.nrps_pks_domains.domain_identification import NRPSPKSDomains, CDSResult
from antismash.detection.nrps_pks_domains.module_identification import build_modules_for_cds, CLASSIFICATIONS, CDSModuleInfo, combine_modules
from antismash.modules.tta import tta
from antismash.config import build_config, update_config, destroy_config
random.seed(2)
c=collections.Counter(); ex={}
def rec(k,m): c[k]+=1; ex.setdefault(k,m)
labels=sorted(set().union(*CLASSIFICATIONS.values()))
core=["PKS_KS","PKS_AT","ACP","PKS_KR","PKS_DH","AMP-binding","PCP","Condensation_LCL","Thioesterase","Epimerization","TD","CAL_domain","Trans-AT_docking","NRPS-COM_Nterm","cMT","PP-binding"]
def mkrecord():
    r=Record("ACGT"*1500); r.id="rec"; r.name="rec"; r.add_annotation("topology","linear")
    cdss=[]
    for i,(s,st) in enumerate([(0,1),(2400,1),(4200,-1)]):
        cds=CDSFeature(FL(s,s+1500,st),translation="M"+"A"*498,locus_tag=f"g{i}"); r.add_cds_feature(cds); cdss.append(cds)
    return r,cdss
for it in range(1500):
    r,cdss=mkrecord()
    results={}
    infos=[]
    for cds in cdss:
        n=random.randint(0,7)
        pos=sorted(random.sample(range(0,480,10),n))
        doms=[]
        for p in pos:
            h=HMMResult(random.choice(core if random.random()<0.85 else labels),p,p+9,10**-random.randint(3,30),round(random.uniform(10,300),1))
            if h.hit_id=="PKS_KS" and random.random()<0.5:
                sub=HMMResult(random.choice(["Trans-AT-KS","Iterative-KS"]),p,p+9,1e-8,33.3)
                if sub.hit_id=="Trans-AT-KS" and random.random()<0.5: sub.add_internal_hits([HMMResult("Clade_12",p,p+9,1e-5,20.0)])
                h.add_internal_hits([sub])
            doms.append(h)
        if not doms: continue
        mods=build_modules_for_cds(doms,cds.get_name())
        results[cds]=CDSResult(doms,[HMMResult("C1_dual",5,15,1e-3,12.0)] if random.random()<0.3 else [],mods)
        infos.append(CDSModuleInfo(cds,mods))
    for a,b in zip(infos,infos[1:]):
        if a.cds.location.strand==b.cds.location.strand==1:
            try: combine_modules(b,a)
            except Exception as e: c["combine_exc_"+type(e).__name__]+=1
    for cds,res in results.items(): res.modules=[m for m in res.modules if len(m.components)>1]
    orig=NRPSPKSDomains(r.id,results)
    for cds,res in results.items(): res.annotate_domains(r,cds)
    j1=json.dumps(orig.to_json())
    r2,_=mkrecord()
    c["tot"]+=1
    try:
        re=NRPSPKSDomains.from_json(json.loads(j1),r2)
        j2=json.dumps(re.to_json())
    except Exception as e:
        rec("reload_exc_"+type(e).__name__,(str(e)[:120],)); continue
    if j1!=j2: rec("json_differs",(j1[:200],j2[:200])); continue
    d1=sorted((str(d.location),d.domain,d.domain_id) for d in r.get_antismash_domains()); d2=sorted((str(d.location),d.domain,d.domain_id) for d in r2.get_antismash_domains())
    if d1!=d2: rec("features_differ",(d1[:3],d2[:3]))
print(sorted(c.items()))
for k,v in ex.items(): print(k,v)
