import sys
sys.path.insert(0, "/repo")
from antismash.common.hmm_rule_parser import rule_parser
def rule(cond):
    txt=f"RULE r CATEGORY c CUTOFF 1 NEIGHBOURHOOD 1 CONDITIONS {cond}"
    return rule_parser.Parser(txt, {"a","b","c","d"}, {"c"}).rules[0]
for cond in ["a and not (not b)", "a and not (b)", "a and (not b)", "a and ((b or c))", "a and not ((b or c))", "(a or b) and c", "a or b and c", "(a and b) or c", "not (a and b) and c", "a and (b and c)", "(a and b) and c", "a and not (b and c)","cds(a and b) or c", "a and not cds(a and b)", "a and not minimum(2,[b,c])", "a and (b)","(a) and b"]:
    try:
        r=rule(cond); t=r.reconstruct_rule_text().split("CONDITIONS ")[1]
        try:
            r2=rule_parser.Parser(r.reconstruct_rule_text(), {"a","b","c","d"}, {"c"}).rules[0]
            t2=r2.reconstruct_rule_text().split("CONDITIONS ")[1]
            print(f"{cond!r:32} -> {t!r:32} -> {t2!r:32} same_text={t==t2}")
        except Exception as e:
            print(f"{cond!r:32} -> {t!r:32} -> REPARSE FAILS {type(e).__name__}: {str(e)[:50]}")
    except Exception as e: print(cond,"ERR",type(e).__name__,str(e)[:60])
