import sys
sys.path.insert(0, "/repo")
from antismash.common.all_orfs import find_intergenic_areas
from antismash.common.secmet.test.helpers import DummyCDS
genes=[DummyCDS(0,110),DummyCDS(50,105),DummyCDS(200,300)]
print(find_intergenic_areas(0,400,genes,min_length=0,padding=10))
