import sys
sys.path.insert(0, "/repo")
from Bio.Seq import Seq
from Bio.SeqRecord import SeqRecord
from Bio.SeqFeature import SeqFeature, BeforePosition, AfterPosition, ExactPosition, UnknownPosition
from antismash.common.secmet.locations import FeatureLocation as FL, CompoundLocation as CL, location_from_string
import Bio; print("biopython", Bio.__version__)
c=CL([FL(90,102,1),FL(0,21,1)])
print("compound start/end/len/strand:", c.start, c.end, len(c), c.strand, "| 95 in c:", 95 in c, "| 50 in c:", 50 in c)
m=CL([FL(0,5,1),FL(10,15,-1)]); print("mixed strand:", m.strand, str(m))
print("strs:", str(FL(1,6,1)), str(FL(1,6,-1)), str(FL(1,6,0)), str(FL(1,6,None)), str(FL(1,6)), str(CL([FL(1,6,1),FL(10,16,1)],operator="order")))
print("fuzzy:", str(FL(BeforePosition(1),AfterPosition(6),1)), repr(location_from_string(str(FL(BeforePosition(1),AfterPosition(6),1)))))
try: print("unknown:", str(FL(UnknownPosition(),5,1)))
except Exception as e: print("unknown err", e)
try: FL(5,5,1); print("zero-length allowed")
except Exception as e: print("zero-length:", type(e).__name__, e)
try: FL(6,5,1); print("inverted allowed")
except Exception as e: print("inverted:", type(e).__name__, str(e)[:60])
try: CL([FL(1,2,1)]); print("1-part compound allowed")
except Exception as e: print("1-part compound:", type(e).__name__, str(e)[:60])
print("eq:", FL(1,6,1)==FL(1,6,1), FL(1,6,1)==FL(1,6,-1), CL([FL(1,6,1),FL(10,16,1)])==CL([FL(1,6,1),FL(10,16,1)]))
seq=Seq("AACCGGTTACGTACGTAAAA")
print("extract fwd compound:", CL([FL(16,20,1),FL(0,4,1)]).extract(seq), "| rev compound [0:4)(-),[16:20)(-):", CL([FL(0,4,-1),FL(16,20,-1)]).extract(seq), "| rev other order:", CL([FL(16,20,-1),FL(0,4,-1)]).extract(seq))
rec=SeqRecord(seq,id="x",annotations={"molecule_type":"DNA"})
rec.features=[SeqFeature(FL(2,6,1),type="a"),SeqFeature(FL(4,12,1),type="b"),SeqFeature(FL(5,10,-1),type="c"),SeqFeature(CL([FL(5,7,1),FL(8,10,1)]),type="d")]
sub=rec[5:10]; print("slice keeps:", [(f.type,str(f.location)) for f in sub.features], "| same objects?", any(f is g for f in sub.features for g in rec.features))
sub0=rec[:10]; print("slice from 0 new objects?", not any(f is g for f in sub0.features for g in rec.features))
print("hash/eq of positions:", ExactPosition(5)==5, BeforePosition(5)==5, int(BeforePosition(5)), BeforePosition(5)+1, type(BeforePosition(5)+1).__name__)
print("len with fuzzy:", len(FL(BeforePosition(1),AfterPosition(6),1)))
print("sorted by lt uses:", sorted([3,1,2]))
print("flip:", FL(2,6,1)._flip(20))
