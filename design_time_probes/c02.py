import sys
sys.path.insert(0, "/repo")
from antismash.common.hmm_rule_parser import rule_parser
txt="DEFINE x AS a or x\nRULE r CATEGORY c CUTOFF 1 NEIGHBOURHOOD 1 CONDITIONS x"
import signal
def h(*a): raise TimeoutError
signal.signal(signal.SIGALRM,h); signal.alarm(5)
try:
    print(rule_parser.Parser(txt, {"a","b"}, {"c"}).rules)
except TimeoutError: print("NONTERMINATION (5s timeout)")
except Exception as e: print(type(e).__name__, str(e)[:100])
