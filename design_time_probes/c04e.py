import sys, itertools, collections
sys.path.insert(0, "/repo")
from antismash.common.secmet.locations import *
from antismash.common.secmet import Record
FL=FeatureLocation; CL=CompoundLocation
def T(N):
    for s in range(N):
        for e in range(s+1, N+1): yield (s,e)
    for s in range(1,N):
        for e in range(1, s+1): yield (s,e)
def mk(t,N,strand=1):
    s,e=t
    if s<e: return FL(s,e,strand)
    parts=[FL(s,N,strand),FL(0,e,strand)]
    if strand==-1: parts.reverse()
    return CL(parts)
N=7
cat=collections.Counter()
for t in T(N):
    loc=mk(t,N,1)
    for off in range(-N-1,N+2):
        try: offset_location(loc,off,wrap_point=N); ok=True
        except AssertionError: ok=False
        s,e=t
        length=(e-s) if s<e else N-s+e
        if not ok:
            ne=(e+off)%N; ns=(s+off)%N
            cat[("fail", "newend0" if ne==0 else "", "newstart0" if ns==0 else "", "cross" if s>=e else "simple", "full" if length==N else "")]+=1
        else:
            ne=(e+off)%N; ns=(s+off)%N
            if ne==0 or ns==0: cat[("ok-but-boundary","newend0" if ne==0 else "", "newstart0" if ns==0 else "","cross" if s>=e else "simple","off0" if off==0 else "", "full" if length==N else "")]+=1
for k,v in sorted(cat.items()): print(k,v)
r=Record("A"*N); r.add_annotation("topology","circular")
bad=collections.Counter()
for t in T(N):
    loc=mk(t,N,1)
    for d in range(0,N+2):
        res=r.extend_location(loc,d)
        if len(res.parts)>2: 
            s,e=t; length=(e-s) if s<e else N-s+e
            bad[(t,length==N)]+=1
print(bad)
