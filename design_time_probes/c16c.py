import sys, logging, random, collections
sys.path.insert(0, "/repo")
logging.disable(logging.CRITICAL)
from antismash.common.record_processing import fix_record_name_id, generate_unique_id
from antismash.common.secmet import Record
ILLEGAL=set('''!"#$%&()*+,:;=>?@[]^`'{|}/ ''')
def run(ids, allow_long=False):
    recs=[]
    for i,x in enumerate(ids):
        r=Record("ACGT"); r.id=x; r.name=x; r.record_index=i+1; recs.append(r)
    all_ids={r.id for r in recs}
    if len(all_ids)<len(recs):
        all_ids=set()
        for r in recs:
            if r.id in all_ids:
                r.original_id=r.id; r.id=generate_unique_id(r.id, all_ids)[0]
            all_ids.add(r.id)
    for r in recs: fix_record_name_id(r, all_ids, allow_long)
    return [(r.id, r.name, r.original_id) for r in recs]
random.seed(3)
c=collections.Counter(); ex={}
def rec(k,m): c[k]+=1; ex.setdefault(k,m)
alpha="ab:. 1_"
stems=["contig12","scaffold3 x","NZ_ABCDEFGH012345.1","c7 ","abcdefghijklmnopqrst","ab","a:b","x_0","x"]
for it in range(40000):
    n=random.randint(1,5)
    ids=[]
    for _ in range(n):
        if random.random()<0.5: s=random.choice(stems)+"".join(random.choice(alpha) for _ in range(random.randint(0,3)))
        else: s="".join(random.choice(alpha+"cdefgh") for _ in range(random.randint(1,22)))
        if not s.strip(): s="a"
        ids.append(s)
    for allow in (False,True):
        try: out=run(ids,allow)
        except Exception as e:
            rec(f"exc_{type(e).__name__}",(ids,allow,str(e)[:60])); continue
        c["tot"]+=1
        outids=[o[0] for o in out]
        has_illegal_in=any(set(x)&ILLEGAL for x in ids)
        if len(set(outids))!=len(outids): rec("dup_ids"+("_illegal_input" if has_illegal_in else "_CLEAN_INPUT"),(ids,allow,outids))
        if any(set(x)&ILLEGAL for x in outids): rec("illegal_char_out",(ids,outids))
        if not allow and any(len(x)>16 for x in outids): rec("too_long",(ids,outids))
        if any(x=="" for x in outids): rec("empty_id",(ids,outids))
        for (i_,o) in zip(ids,out):
            pass
        for inp,(oid,oname,orig) in zip(ids,out):
            if oid!=inp and orig is None: rec("changed_without_original",(ids,out))
            if orig is not None and orig!=inp and ids.count(inp)==1: rec("original_wrong",(ids,out))
print(sorted(c.items()))
for k,v in ex.items(): print(k,v)
