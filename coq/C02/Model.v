(* C02: faithful model of antismash/common/hmm_rule_parser/rule_parser.py
   (Tokeniser.tokenise/_finalise, TokenTypes.classify, is_legal_identifier, Parser.__init__ loop,
   _consume with alias splicing, _parse_alias, _verify_alias_name, _parse_rule and all _parse_* helpers,
   _parse_superiors, find_condition_identifiers, Conditions.__init__ (repeated operand),
   contains_positive_condition, the __str__ family, ExampleRecord, reconstruct_rule_text) and of the
   file loop of cluster_prediction.create_rules.
   Text = list of character codes (ASCII).  Token type numbers and the keyword table come from
   Gen/Tables_gen.v (regenerated from the source on every run).  No proofs in this file. *)
From ASV Require Export Base.
From ASV.Gen Require Import Tables_gen.
From Coq Require Import String Ascii.
Close Scope string_scope.
Open Scope Z_scope.

Definition str := list Z.

Fixpoint codes (s : string) : str :=
  match s with
  | EmptyString => []
  | String a r => Z.of_nat (nat_of_ascii a) :: codes r
  end.

Arguments codes s%string.

Definition str_eqb (a b : str) : bool := list_eqb Z.eqb a b.
Definition smem (x : str) (l : list str) : bool := existsb (str_eqb x) l.

(* Python's < on str (code point lexicographic) *)
Fixpoint str_ltb (a b : str) : bool :=
  match a, b with
  | [], [] => false
  | [], _ :: _ => true
  | _ :: _, [] => false
  | x :: xs, y :: ys => if x <? y then true else if y <? x then false else str_ltb xs ys
  end.

Fixpoint has_dup (l : list str) : bool :=
  match l with
  | [] => false
  | x :: xs => smem x xs || has_dup xs
  end.

(* keeps the first occurrence of every element *)
Fixpoint dedupe_acc (seen : list str) (l : list str) : list str :=
  match l with
  | [] => []
  | x :: xs => if smem x seen then dedupe_acc seen xs else x :: dedupe_acc (x :: seen) xs
  end.
Definition dedupe (l : list str) : list str := dedupe_acc [] l.
(* sorted(set(l)) *)
Definition sorted_set (l : list str) : list str := sort_by str_ltb (dedupe l).

Fixpoint join (sep : str) (l : list str) : str :=
  match l with
  | [] => []
  | [x] => x
  | x :: xs => x ++ sep ++ join sep xs
  end.

(* ---------- characters ---------- *)
Definition is_digit (c : Z) : bool := (48 <=? c) && (c <=? 57).
Definition is_alpha (c : Z) : bool := ((65 <=? c) && (c <=? 90)) || ((97 <=? c) && (c <=? 122)).
Definition is_alnum (c : Z) : bool := is_digit c || is_alpha c.
(* string.whitespace = ' \t\n\r\x0b\x0c' *)
Definition is_ws (c : Z) : bool := (c =? 32) || ((9 <=? c) && (c <=? 13)).
(* char in Tokeniser.mapping, for a single character *)
Definition is_single (c : Z) : bool := existsb (fun kv => str_eqb (fst kv) [c]) c02_token_mapping.
(* char.isalnum() or char in ['-', '_', '.'] *)
Definition is_symchar (c : Z) : bool := is_alnum c || (c =? 45) || (c =? 95) || (c =? 46).
Definition is_urlchar (c : Z) : bool := (c =? 58) || (c =? 47).

(* ---------- Tokeniser.tokenise: the texts of the tokens ---------- *)
Definition flush (sym : str) : list str := match sym with [] => [] | _ => [rev sym] end.
Definition pre (p : list str) (x : res (list str)) : res (list str) :=
  match x with Ok l => Ok (p ++ l) | Err k => Err k end.

(* sym: the current symbol, reversed; incomment: skipping to the next newline *)
Fixpoint tok_aux (cs : str) (sym : str) (incomment : bool) : res (list str) :=
  match cs with
  | [] => Ok (flush sym)
  | c :: r =>
    if incomment then
      (if c =? 10 then tok_aux r sym false else tok_aux r sym true)
    else if is_ws c then pre (flush sym) (tok_aux r [] false)
    else if is_single c then pre (flush sym ++ [[c]]) (tok_aux r [] false)
    else if is_symchar c then tok_aux r (c :: sym) false
    else if c =? 35 then pre (flush sym) (tok_aux r [] true)
    else if (match sym with [] => false | _ => true end) && is_urlchar c then tok_aux r (c :: sym) false
    else Err E_RuleSyntax
  end.
Definition tokenise (text : str) : res (list str) := tok_aux text [] false.

(* ---------- TokenTypes.classify ---------- *)
Fixpoint map_get (k : str) (m : list (str * Z)) : option Z :=
  match m with
  | [] => None
  | (k', v) :: r => if str_eqb k k' then Some v else map_get k r
  end.

Definition all_digits (s : str) : bool := match s with [] => false | _ => forallb is_digit s end.
Definition s_cluster : str := codes "cluster".
Definition s_score : str := codes "score".
Definition is_legal_identifier (s : str) : bool :=
  if negb (existsb is_alpha s) then false
  else if negb (forallb (fun c => is_alpha c || is_digit c || (c =? 95) || (c =? 45)) s) then false
  else if str_eqb s s_cluster then false
  else if str_eqb s s_score then false
  else true.
Definition classify (s : str) : Z :=
  match map_get s c02_token_mapping with
  | Some t => t
  | None => if all_digits s then c02_T_INT
            else if is_legal_identifier s then c02_T_IDENTIFIER
            else c02_T_TEXT
  end.
Definition is_rule_keyword (t : Z) : bool := (c02_T_RULE <=? t) && negb (t =? c02_T_TEXT).
Definition is_starter (t : Z) : bool := (t =? c02_T_RULE) || (t =? c02_T_DEFINE).

Record token := mkTok { ttext : str; ttype : Z; tal : bool }.
Definition mk_token (s : str) : token := mkTok s (classify s) false.
Definition set_aliased (t : token) : token := mkTok (ttext t) (ttype t) true.

(* int(token_text) of an all-digit text *)
Definition int_of (s : str) : Z := fold_left (fun a c => a * 10 + (c - 48)) s 0.

Fixpoint dec_digits (fuel : nat) (n : Z) (acc : str) : str :=
  match fuel with
  | O => acc
  | S f => let acc' := (48 + n mod 10) :: acc in
           if n <? 10 then acc' else dec_digits f (n / 10) acc'
  end.
(* str(n) *)
Definition show_Z (n : Z) : str :=
  if n <? 0 then 45 :: dec_digits (S (Z.to_nat (Z.log2 (- n)))) (- n) []
  else dec_digits (S (Z.to_nat (Z.log2 n))) n [].

(* ---------- condition trees ----------
   CGroup/CCds hold the operands of an OR list (the operators between them are all OR, which is what
   _parse_conditions builds), CAnd the operands of an AndCondition *)
Inductive cond :=
| CSingle (neg : bool) (name : str)
| CScore (neg : bool) (name : str) (score : Z)
| CMin (neg : bool) (count : Z) (opts : list str)
| CCds (neg : bool) (subs : list cond)
| CGroup (neg : bool) (subs : list cond)
| CAnd (ops : list cond).

Definition is_and (c : cond) : bool := match c with CAnd _ => true | _ => false end.
Definition is_single_cond (c : cond) : bool := match c with CSingle _ _ => true | _ => false end.

Definition s_not : str := codes "not ".
Definition prefix (n : bool) : str := if n then s_not else [].
Definition s_or_sep : str := codes " or ".     (* ' '.join of [.., TokenTypes.OR, ..] *)
Definition s_and_sep : str := codes " and ".

(* str.startswith *)
Fixpoint starts_with (p s : str) : bool :=
  match p, s with
  | [], _ => true
  | _ :: _, [] => false
  | x :: p', y :: s' => (x =? y) && starts_with p' s'
  end.

(* "(" in text *)
Definition has_open (s : str) : bool := existsb (fun c => c =? 40) s.
(* CDSCondition.__str__: len(self.sub_conditions) == 1 and "(" not in inner
   and not isinstance(self.sub_conditions[0], AndCondition) *)
Definition cds_wraps (subs : list cond) (inner : str) : bool :=
  match subs with
  | [sub] => negb (has_open inner) && negb (is_and sub)
  | _ => false
  end.

(* the __str__ family.  Conditions.__str__ with one member that is not an AndCondition: a negated group
   parenthesises the member whenever the member's text starts with "not " (sub_text.startswith("not ")).
   CDSCondition.__str__ keeps an explicit group around an only member whose text holds no parenthesis
   (cds((a)) is printed as cds((a)), not as cds(a), which _parse_cds rejects) *)
Fixpoint show (c : cond) : str :=
  match c with
  | CSingle n name => prefix n ++ name
  | CScore n name s => prefix n ++ codes "minscore(" ++ name ++ codes ", " ++ show_Z s ++ codes ")"
  | CMin n k opts => prefix n ++ codes "minimum(" ++ show_Z k ++ codes ", [" ++ join (codes ", ") (sorted_set opts)
                     ++ codes "])"
  | CCds n subs =>
    let inner := join s_or_sep (map show subs) in
    prefix n ++ codes "cds(" ++ (if cds_wraps subs inner then codes "(" ++ inner ++ codes ")" else inner) ++ codes ")"
  | CGroup n subs =>
    match subs with
    | [sub] =>
      if is_and sub then prefix n ++ codes "(" ++ show sub ++ codes ")"
      else if n && starts_with s_not (show sub) then prefix n ++ codes "(" ++ show sub ++ codes ")"
      else prefix n ++ show sub
    | _ => prefix n ++ codes "(" ++ join s_or_sep (map show subs) ++ codes ")"
    end
  | CAnd ops => join s_and_sep (map show ops)
  end.

(* Conditions.contains_positive_condition *)
Fixpoint positive (c : cond) : bool :=
  match c with
  | CSingle n _ | CScore n _ _ | CMin n _ _ => negb n
  | CCds n subs | CGroup n subs =>
    if n then false else match subs with [] => true | _ => existsb positive subs end
  | CAnd ops => match ops with [] => true | _ => existsb positive ops end
  end.

(* Conditions.__init__: repeated operands (compared by their text) raise ValueError *)
Definition check_operands (subs : list cond) : res unit :=
  if has_dup (map show subs) then Err E_Value else Ok tt.
Definition mk_group (n : bool) (subs : list cond) : res cond :=
  do _ <- check_operands subs; Ok (CGroup n subs).
Definition mk_cds (n : bool) (subs : list cond) : res cond :=
  do _ <- check_operands subs; Ok (CCds n subs).
Definition mk_and (ops : list cond) : res cond :=
  do _ <- check_operands ops; Ok (CAnd ops).
(* MinimumCondition.__init__ *)
Definition mk_min (n : bool) (k : Z) (opts : list str) : res cond :=
  if has_dup opts then Err E_Value
  else if k <? 1 then Err E_Value
  else Ok (CMin n k opts).

(* ---------- parser state ---------- *)
Record pst := mkP {
  cur : option token;                    (* self.current_token *)
  rest : list token;                     (* self.tokens *)
  consumed : list token;                 (* self._consumed_tokens, newest first *)
  aliases : list (str * list token) }.   (* self.aliases, newest first *)

Fixpoint alias_get (k : str) (m : list (str * list token)) : option (list token) :=
  match m with
  | [] => None
  | (k', v) :: r => if str_eqb k k' then Some v else alias_get k r
  end.

Definition E_Other := 99.

(* Parser._consume *)
Definition consume (expected : Z) (s : pst) : res (token * pst) :=
  match cur s with
  | None => Err E_RuleSyntax
  | Some t =>
    if negb (ttype t =? expected) then Err E_RuleSyntax
    else
      let cons := t :: consumed s in
      match rest s with
      | [] => Ok (t, mkP None [] cons (aliases s))
      | n :: r =>
        match (if ttype n =? c02_T_IDENTIFIER then alias_get (ttext n) (aliases s) else None) with
        | Some body =>
          match body ++ r with
          | [] => Err E_Other        (* StopIteration; alias bodies are never empty *)
          | b :: r' => Ok (t, mkP (Some b) r' cons (aliases s))
          end
        | None => Ok (t, mkP (Some n) r cons (aliases s))
        end
      end
  end.

Definition cur_is (ty : Z) (s : pst) : bool :=
  match cur s with Some t => ttype t =? ty | None => false end.

(* next(self.tokens) without alias handling (description and example blocks) *)
Definition advance_raw (s : pst) : option pst :=
  match rest s with
  | [] => None
  | n :: r => Some (mkP (Some n) r (consumed s) (aliases s))
  end.

(* _parse_comma_separated_ids; acc newest first *)
Fixpoint comma_loop (f : nat) (acc : list str) (s : pst) : res (list str * pst) :=
  match f with
  | O => Err E_Fuel
  | S f' =>
    if cur_is c02_T_COMMA s then
      do (_, s1) <- consume c02_T_COMMA s;
      do (t, s2) <- consume c02_T_IDENTIFIER s1;
      comma_loop f' (ttext t :: acc) s2
    else Ok (rev acc, s)
  end.
Definition parse_comma_ids (f : nat) (s : pst) : res (list str * pst) :=
  do (t, s1) <- consume c02_T_IDENTIFIER s;
  comma_loop f [ttext t] s1.

(* _is_not *)
Definition is_not (s : pst) : res (bool * pst) :=
  if cur_is c02_T_NOT s then do (_, s1) <- consume c02_T_NOT s; Ok (true, s1)
  else Ok (false, s).

(* _parse_score *)
Definition parse_score (negated : bool) (s : pst) : res (cond * pst) :=
  do (_, s1) <- consume c02_T_SCORE s;
  do (_, s2) <- consume c02_T_GROUP_OPEN s1;
  do (id, s3) <- consume c02_T_IDENTIFIER s2;
  do (_, s4) <- consume c02_T_COMMA s3;
  do (sc, s5) <- consume c02_T_INT s4;
  do (_, s6) <- consume c02_T_GROUP_CLOSE s5;
  Ok (CScore negated (ttext id) (int_of (ttext sc)), s6).

(* _parse_minimum with _parse_list *)
Definition parse_minimum (f : nat) (negated : bool) (s : pst) : res (cond * pst) :=
  do (_, s1) <- consume c02_T_MINIMUM s;
  do (_, s2) <- consume c02_T_GROUP_OPEN s1;
  do (k, s3) <- consume c02_T_INT s2;
  do (_, s4) <- consume c02_T_COMMA s3;
  do (_, s5) <- consume c02_T_LIST_OPEN s4;
  do (opts, s6) <- parse_comma_ids f s5;
  do (_, s7) <- consume c02_T_LIST_CLOSE s6;
  do (_, s8) <- consume c02_T_GROUP_CLOSE s7;
  do c <- mk_min negated (int_of (ttext k)) opts;
  Ok (c, s8).

(* what _parse_conditions checks after its loop *)
Definition conditions_end (is_group : bool) (s : pst) : res unit :=
  match cur s with
  | None => if is_group then Err E_RuleSyntax else Ok tt
  | Some t =>
    if is_group then (if ttype t =? c02_T_GROUP_CLOSE then Ok tt else Err E_RuleSyntax)
    else if is_starter (ttype t) then Ok tt
    else if negb (ttype t =? c02_T_EXTENDERS) then Err E_RuleSyntax
    else Ok tt
  end.

(* _parse_single_condition / _parse_group / _parse_cds / _parse_ands / _parse_conditions.
   The token stream can grow while parsing (alias splicing), so the recursion is on fuel. *)
Fixpoint parse_single (f : nat) (allow_cds : bool) (s : pst) : res (cond * pst) :=
  match f with
  | O => Err E_Fuel
  | S f' =>
    do (negated, s1) <- is_not s;
    match cur s1 with
    | None => Err E_RuleSyntax
    | Some t =>
      if ttype t =? c02_T_GROUP_OPEN then
        do (_, s2) <- consume c02_T_GROUP_OPEN s1;
        do (subs, s3) <- parse_conditions f' allow_cds true s2;
        do (_, s4) <- consume c02_T_GROUP_CLOSE s3;
        do c <- mk_group negated subs;
        Ok (c, s4)
      else if allow_cds && (ttype t =? c02_T_MINIMUM) then parse_minimum f' negated s1
      else if allow_cds && (ttype t =? c02_T_CDS) then
        do (subs, s2) <- parse_cds f' s1;
        do c <- mk_cds negated subs;
        Ok (c, s2)
      else if ttype t =? c02_T_SCORE then parse_score negated s1
      else
        do (id, s2) <- consume c02_T_IDENTIFIER s1;
        Ok (CSingle negated (ttext id), s2)
    end
  end
with parse_cds (f : nat) (s : pst) : res (list cond * pst) :=
  match f with
  | O => Err E_Fuel
  | S f' =>
    do (_, s1) <- consume c02_T_CDS s;
    do (_, s2) <- consume c02_T_GROUP_OPEN s1;
    do (subs, s3) <- parse_conditions f' false true s2;
    match subs with
    | [] => Err E_RuleSyntax
    | [c] => if is_single_cond c then Err E_RuleSyntax
             else do (_, s4) <- consume c02_T_GROUP_CLOSE s3; Ok (subs, s4)
    | _ => do (_, s4) <- consume c02_T_GROUP_CLOSE s3; Ok (subs, s4)
    end
  end
with parse_ands (f : nat) (allow_cds : bool) (lvalue : cond) (s : pst) : res (cond * pst) :=
  match f with
  | O => Err E_Fuel
  | S f' =>
    do (_, s1) <- consume c02_T_AND s;
    do (c, s2) <- parse_single f' allow_cds s1;
    do (ops, s3) <- and_loop f' allow_cds [c; lvalue] s2;
    do a <- mk_and ops;
    Ok (a, s3)
  end
with and_loop (f : nat) (allow_cds : bool) (acc : list cond) (s : pst) : res (list cond * pst) :=
  match f with
  | O => Err E_Fuel
  | S f' =>
    if cur_is c02_T_AND s then
      do (_, s1) <- consume c02_T_AND s;
      do (c, s2) <- parse_single f' allow_cds s1;
      and_loop f' allow_cds (c :: acc) s2
    else Ok (rev acc, s)
  end
with parse_conditions (f : nat) (allow_cds is_group : bool) (s : pst) : res (list cond * pst) :=
  match f with
  | O => Err E_Fuel
  | S f' =>
    match cur s with
    | None => Err E_RuleSyntax
    | Some _ =>
      do (lvalue, s1) <- parse_single f' allow_cds s;
      do (conds, s2) <- cond_loop f' allow_cds [] lvalue true s1;
      do _ <- conditions_end is_group s2;
      Ok (conds, s2)
    end
  end
with cond_loop (f : nat) (allow_cds : bool) (acc : list cond) (lvalue : cond) (app : bool) (s : pst)
  : res (list cond * pst) :=
  match f with
  | O => Err E_Fuel
  | S f' =>
    if cur_is c02_T_AND s then
      do (a, s1) <- parse_ands f' allow_cds lvalue s;
      cond_loop f' allow_cds (a :: acc) lvalue false s1
    else if cur_is c02_T_OR s then
      do (_, s1) <- consume c02_T_OR s;
      do (lv, s2) <- parse_single f' allow_cds s1;
      cond_loop f' allow_cds (if app then lvalue :: acc else acc) lv true s2
    else Ok (rev (if app then lvalue :: acc else acc), s)
  end.

(* ---------- rules ---------- *)
Record example := mkEx { ex_db : str; ex_acc : str; ex_version : Z; ex_start : Z; ex_end : Z;
                         ex_compound : option str }.
Definition show_example (e : example) : str :=
  ex_db e ++ [32] ++ ex_acc e ++ [46] ++ show_Z (ex_version e) ++ [32] ++ show_Z (ex_start e) ++ [45]
  ++ show_Z (ex_end e) ++ match ex_compound e with Some c => match c with [] => [] | _ => 32 :: c end | None => [] end.

Record rule := mkRule {
  r_name : str; r_cat : str; r_cutoff : Z; r_neigh : Z; r_cond : cond; r_desc : str;
  r_examples : list example; r_sup : list str; r_related : list str; r_ext : option cond }.

(* str.split("-") *)
Fixpoint split_dash (s : str) (curp : str) : list str :=
  match s with
  | [] => [rev curp]
  | c :: r => if c =? 45 then rev curp :: split_dash r [] else split_dash r (c :: curp)
  end.

(* tokens up to the next rule keyword, without alias handling; running out of tokens is an error *)
Fixpoint raw_until_keyword (r : list token) (c : token) (acc : list token) : res (list token * token * list token) :=
  if is_rule_keyword (ttype c) then Ok (rev acc, c, r)
  else match r with
       | [] => Err E_RuleSyntax
       | n :: r' => raw_until_keyword r' n (c :: acc)
       end.

(* _parse_description *)
Definition parse_description (s : pst) : res (str * pst) :=
  do (_, s1) <- consume c02_T_DESCRIPTION s;
  match cur s1 with
  | None => Err E_RuleSyntax
  | Some c =>
    do (toks, c', r') <- raw_until_keyword (rest s1) c [];
    Ok (join [32] (map ttext toks), mkP (Some c') r' (consumed s1) (aliases s1))
  end.

Definition s_NCBI : str := codes "NCBI".
(* int(text) for the range parts of an EXAMPLE: only plain digit strings are generated *)
Definition parse_int_text (s : str) : res Z := if all_digits s then Ok (int_of s) else Err E_RuleSyntax.

(* _parse_example with ExampleRecord.__init__ *)
Definition parse_example (s : pst) : res (example * pst) :=
  do (_, s1) <- consume c02_T_EXAMPLE s;
  do (db, s2) <- consume c02_T_IDENTIFIER s1;
  do (acc, s3) <- consume c02_T_IDENTIFIER s2;
  do (_, s4) <- consume c02_T_DOT s3;
  do (ver, s5) <- consume c02_T_INT s4;
  do (range, s6) <- consume c02_T_TEXT s5;
  let parts := split_dash (ttext range) [] in
  do (compound, s7) <-
     match cur s6 with
     | None => Ok ([], s6)
     | Some c =>
       do (toks, c', r') <- raw_until_keyword (rest s6) c [];
       Ok (toks, mkP (Some c') r' (consumed s6) (aliases s6))
     end;
  let compound_name := match compound with [] => None | _ => Some (join [32] (map ttext compound)) end in
  match parts with
  | [a; b] =>
    do st <- parse_int_text a;
    do en <- parse_int_text b;
    if negb (str_eqb (ttext db) s_NCBI) then Err E_Attribute
    else if int_of (ttext ver) <? 1 then Err E_Attribute
    else if negb ((0 <=? st) && (st <=? en)) then Err E_Attribute
    else Ok (mkEx (ttext db) (ttext acc) (int_of (ttext ver)) st en compound_name, s7)
  | _ => Err E_RuleSyntax
  end.

(* while self.current_token.type == EXAMPLE (current_token None raises AttributeError) *)
Fixpoint examples_loop (f : nat) (acc : list example) (s : pst) : res (list example * pst) :=
  match f with
  | O => Err E_Fuel
  | S f' =>
    match cur s with
    | None => Err E_Attribute
    | Some t =>
      if ttype t =? c02_T_EXAMPLE then
        do (e, s1) <- parse_example s; examples_loop f' (e :: acc) s1
      else Ok (rev acc, s)
    end
  end.

Fixpoint known_get (k : str) (known : list rule) : option rule :=
  match known with
  | [] => None
  | r :: rs => if str_eqb k (r_name r) then Some r else known_get k rs
  end.

(* the part of _parse_superiors after the identifiers have been read *)
Fixpoint transitive (known : list rule) (sups : list str) : res (list str) :=
  match sups with
  | [] => Ok []
  | n :: r =>
    match known_get n known with
    | None => Err E_Value
    | Some p => do t <- transitive known r; Ok (r_sup p ++ t)
    end
  end.
Definition close_superiors (known : list rule) (sups : list str) : res (list str) :=
  if has_dup sups then Err E_Value
  else do t <- transitive known sups; Ok (sorted_set (sups ++ t)).

Definition parse_superiors (f : nat) (known : list rule) (s : pst) : res (list str * pst) :=
  do (_, s1) <- consume c02_T_SUPERIORS s;
  do (sups, s2) <- parse_comma_ids f s1;
  do closed <- close_superiors known sups;
  Ok (closed, s2).

(* EXTENDERS section of _parse_rule *)
Definition parse_extenders (f : nat) (s : pst) : res (option cond * pst) :=
  if cur_is c02_T_EXTENDERS s then
    do (_, s1) <- consume c02_T_EXTENDERS s;
    match cur s1 with
    | None => Err E_RuleSyntax
    | Some t =>
      if ttype t =? c02_T_CDS then
        do (subs, s2) <- parse_cds f s1;
        do c <- mk_cds false subs;
        Ok (Some c, s2)
      else if ttype t =? c02_T_IDENTIFIER then
        do (c, s2) <- parse_single f false s1;
        match cur s2 with
        | Some t2 => if negb (is_starter (ttype t2)) then Err E_RuleSyntax else Ok (Some c, s2)
        | None => Ok (Some c, s2)
        end
      else Err E_RuleSyntax
    end
  else Ok (None, s).

Definition cur_aliased (s : pst) : bool := match cur s with Some t => tal t | None => false end.
Definition cur_none (s : pst) : bool := match cur s with Some _ => false | None => true end.

(* _parse_rule with DetectionRule.__init__; cutoff and neighbourhood in bases, before the multipliers *)
Definition parse_rule (f : nat) (known : list rule) (cats : list str) (s : pst) : res (rule * pst) :=
  do (_, s1) <- consume c02_T_RULE s;
  if cur_aliased s1 then Err E_RuleSyntax else
  do (name, s2) <- consume c02_T_IDENTIFIER s1;
  if cur_none s2 then Err E_RuleSyntax else
  do (_, s3) <- consume c02_T_CATEGORY s2;
  do (cat, s4) <- consume c02_T_IDENTIFIER s3;
  if negb (smem (ttext cat) cats) then Err E_RuleSyntax else
  if cur_none s4 then Err E_RuleSyntax else
  do (desc, s5) <- (if cur_is c02_T_DESCRIPTION s4 then parse_description s4 else Ok ([], s4));
  do (examples, s6) <- examples_loop f [] s5;
  do (related, s7) <- (if cur_is c02_T_RELATED s6
                        then do (_, s') <- consume c02_T_RELATED s6; parse_comma_ids f s'
                        else Ok ([], s6));
  if cur_none s7 then Err E_RuleSyntax else
  do (sups, s8) <- (if cur_is c02_T_SUPERIORS s7 then parse_superiors f known s7 else Ok ([], s7));
  do (_, s9) <- consume c02_T_CUTOFF s8;
  do (cutoff, s10) <- consume c02_T_INT s9;
  do (_, s11) <- consume c02_T_NEIGHBOURHOOD s10;
  do (neigh, s12) <- consume c02_T_INT s11;
  do (_, s13) <- consume c02_T_CONDITIONS s12;
  do (subs, s14) <- parse_conditions f true false s13;
  do conditions <- mk_group false subs;
  do (ext, s15) <- parse_extenders f s14;
  do _ <- match cur s15 with
          | Some t => if negb (is_starter (ttype t)) then Err E_RuleSyntax else Ok tt
          | None => Ok tt
          end;
  if negb (positive conditions) then Err E_Value else
  do _ <- match ext with
          | Some e => if negb (positive e) then Err E_Value else Ok tt
          | None => Ok tt
          end;
  Ok (mkRule (ttext name) (ttext cat) (int_of (ttext cutoff) * 1000) (int_of (ttext neigh) * 1000)
             conditions desc examples sups related ext, s15).

(* _parse_alias *)
Fixpoint alias_loop (f : nat) (acc : list token) (s : pst) : res (list token * pst) :=
  match f with
  | O => Err E_Fuel
  | S f' =>
    match cur s with
    | None => Ok (rev acc, s)
    | Some t =>
      if is_rule_keyword (ttype t) then Ok (rev acc, s)
      else if ttype t =? c02_T_TEXT then Err E_Value
      else do (t', s1) <- consume (ttype t) s; alias_loop f' (set_aliased t' :: acc) s1
    end
  end.
Definition parse_alias (f : nat) (s : pst) : res (str * list token * pst) :=
  do (_, s1) <- consume c02_T_DEFINE s;
  if cur_aliased s1 then Err E_RuleSyntax else
  do (name, s2) <- consume c02_T_IDENTIFIER s1;
  do (_, s3) <- consume c02_T_AS s2;
  do (toks, s4) <- alias_loop f [] s3;
  match toks with
  | [] => Err E_RuleSyntax
  | _ =>
    if existsb (fun t => (ttype t =? c02_T_IDENTIFIER) && str_eqb (ttext t) (ttext name)) toks
    then Err E_RuleSyntax
    else Ok (ttext name, toks, s4)
  end.

(* _verify_alias_name *)
Definition alias_name_ok (name : str) (sigs : list str) (known : list rule) (cats : list str) : bool :=
  (classify name =? c02_T_IDENTIFIER) && negb (smem name sigs)
  && (match known_get name known with Some _ => false | None => true end) && negb (smem name cats).

Definition isSomeB {A} (o : option A) : bool := match o with Some _ => true | None => false end.

(* fuel for one DEFINE / RULE block: generous for every alias layout the generator produces *)
Fixpoint until_starter (l : list token) : nat :=
  match l with
  | [] => O
  | t :: r => if is_starter (ttype t) then O else S (until_starter r)
  end.
Definition alias_total (m : list (str * list token)) : nat :=
  fold_right (fun kv a => (List.length (snd kv) + a)%nat) O m.
Definition fuel_for (s : pst) : nat :=
  (64 + 4 * (until_starter (rest s) + 1) * (alias_total (aliases s) + 2))%nat.

(* int(value * multiplier), the multiplier being the exact rational num/den > 0 *)
Definition scale (v num den : Z) : Z := (v * num) / den.

Record mults := mkM { mc_num : Z; mc_den : Z; mn_num : Z; mn_den : Z }.

(* the while loop of Parser.__init__ *)
Fixpoint main_loop (n : nat) (sigs cats : list str) (m : mults) (rules : list rule) (s : pst)
  : res (list rule * pst) :=
  match n with
  | O => Err E_Fuel
  | S n' =>
    match cur s with
    | None => Ok (rules, s)
    | Some t =>
      if negb (is_starter (ttype t)) then Err E_RuleSyntax
      else if ttype t =? c02_T_DEFINE then
        do (name, toks, s1) <- parse_alias (fuel_for s) s;
        if negb (alias_name_ok name sigs rules cats) then Err E_Value
        else if isSomeB (alias_get name (aliases s1)) then Err E_Value
        else main_loop n' sigs cats m rules
                       (mkP (cur s1) (rest s1) (consumed s1) ((name, toks) :: aliases s1))
      else
        do (r, s1) <- parse_rule (fuel_for s) rules cats s;
        let r' := mkRule (r_name r) (r_cat r) (scale (r_cutoff r) (mc_num m) (mc_den m))
                         (scale (r_neigh r) (mn_num m) (mn_den m)) (r_cond r) (r_desc r) (r_examples r)
                         (r_sup r) (r_related r) (r_ext r) in
        if isSomeB (known_get (r_name r) rules) then Err E_Value
        else main_loop n' sigs cats m (rules ++ [r']) s1
    end
  end.

(* find_condition_identifiers over the consumed tokens (oldest first) *)
Fixpoint condition_identifiers (toks : list token) (in_conditions : bool) : list str :=
  match toks with
  | [] => []
  | t :: r =>
    if ttype t =? c02_T_CONDITIONS then condition_identifiers r true
    else if is_rule_keyword (ttype t) then condition_identifiers r false
    else if in_conditions && (ttype t =? c02_T_IDENTIFIER) then ttext t :: condition_identifiers r in_conditions
    else condition_identifiers r in_conditions
  end.

(* Parser.__init__ *)
Definition parse_text (text : str) (sigs cats : list str) (m : mults) (rules : list rule)
           (als : list (str * list token)) : res (list rule * list (str * list token)) :=
  if negb (forallb (fun kv => alias_name_ok (fst kv) sigs rules cats) als) then Err E_Value else
  do texts <- tokenise text;
  match map mk_token texts with
  | [] => Err E_Value
  | t :: r =>
    do (rules', s) <- main_loop (S (List.length texts)) sigs cats m rules (mkP (Some t) r [] als);
    if forallb (fun id => smem id sigs) (condition_identifiers (rev (consumed s)) false)
    then Ok (rules', aliases s)
    else Err E_Value
  end.

(* cluster_prediction.create_rules: the files in order, rules and aliases carried over;
   an error carries the index of the file that raised it *)
Fixpoint parse_files (files : list str) (idx : Z) (sigs cats : list str) (m : mults) (rules : list rule)
         (als : list (str * list token)) : list rule * list (str * list token) + Z * Z :=
  match files with
  | [] => inl (rules, als)
  | text :: more =>
    match parse_text text sigs cats m rules als with
    | Ok (rules', als') => parse_files more (idx + 1) sigs cats m rules' als'
    | Err k => inr (k, idx)
    end
  end.

(* DetectionRule.reconstruct_rule_text *)
Definition strip_parens (s : str) : str :=
  match s with
  | 40 :: r => match rev r with 41 :: m => rev m | _ => s end
  | _ => s
  end.
Definition reconstruct (r : rule) : str :=
  codes "RULE " ++ r_name r ++ codes " CATEGORY " ++ r_cat r ++ [32]
  ++ (match r_desc r with [] => [] | d => codes "DESCRIPTION " ++ d ++ [32] end)
  ++ flat_map (fun e => codes "EXAMPLE " ++ show_example e ++ [32]) (r_examples r)
  ++ codes "CUTOFF " ++ show_Z (r_cutoff r / 1000) ++ codes " NEIGHBOURHOOD " ++ show_Z (r_neigh r / 1000)
  ++ codes " CONDITIONS " ++ strip_parens (show (r_cond r)).

(* ---------- encoding ---------- *)
Definition dStr : dec str := dList dZ.
Definition eStr (s : str) : list Z := eList (fun c => [c]) s.

Fixpoint eTree (c : cond) : list Z :=
  match c with
  | CSingle n name => [1] ++ eBool n ++ eStr name
  | CScore n name s => [2] ++ eBool n ++ eStr name ++ [s]
  | CMin n k opts => [3] ++ eBool n ++ [k] ++ eList eStr (sorted_set opts)
  | CCds n subs => [4] ++ eBool n ++ (zlen subs :: flat_map eTree subs)
  | CGroup n subs => [5] ++ eBool n ++ (zlen subs :: flat_map eTree subs)
  | CAnd ops => [6] ++ (zlen ops :: flat_map eTree ops)
  end.

Definition eRule (r : rule) : list Z :=
  eStr (r_name r) ++ eStr (r_cat r) ++ [r_cutoff r; r_neigh r] ++ eStr (show (r_cond r)) ++ eTree (r_cond r)
  ++ eList eStr (r_sup r) ++ eList eStr (r_related r)
  ++ eOpt (fun c => eStr (show c) ++ eTree c) (r_ext r)
  ++ eStr (r_desc r) ++ eList (fun e => eStr (show_example e)) (r_examples r)
  ++ eStr (reconstruct r).

Definition eAlias (kv : str * list token) : list Z := eStr (fst kv) ++ eList (fun t => eStr (ttext t)) (snd kv).

Definition ascii_ok (s : str) : bool := forallb (fun c => (0 <=? c) && (c <? 128)) s.

Definition run_C02 (fn : Z) (l : list Z) : list Z :=
  match fn with
  | 1 => (* create_rules-style loop over Parser: files, signature names, categories, multipliers *)
    match dPair (dPair (dList dStr) (dList dStr)) (dPair (dList dStr) (dPair (dPair dZ dZ) (dPair dZ dZ))) l with
    | Some ((files, sigs, (cats, ((cn, cd), (nn, nd)))), []) =>
      if negb (forallb ascii_ok files && forallb ascii_ok sigs && forallb ascii_ok cats
               && (0 <? cn) && (0 <? cd) && (0 <? nn) && (0 <? nd)) then bad_input
      else match parse_files files 0 sigs cats (mkM cn cd nn nd) [] [] with
           | inl (rules, als) => 0 :: eList eRule rules ++ eList eAlias (rev als)
           | inr (k, idx) => [1; k; idx]
           end
    | _ => bad_input
    end
  | 2 => (* Tokeniser(text).tokens: text and type of every token *)
    match dStr l with
    | Some (text, []) =>
      if negb (ascii_ok text) then bad_input
      else eRes (eList (fun s => eStr s ++ [classify s])) (tokenise text)
    | _ => bad_input
    end
  | _ => bad_input
  end.
