(* C02 - lemmas and proofs. *)
From Coq Require Import String.
From ASV.C02 Require Import Model.
From ASV.Gen Require Import Tables_gen.
From Coq Require Import Lia ZifyBool Sorting.Sorted.
Close Scope string_scope.
Open Scope Z_scope.

(* ====================================================================== *)
(* A. whitespace and comments are irrelevant to the tokeniser              *)
(* ====================================================================== *)

(* a character that extends the current symbol when it is the first one / a later one *)
Definition wc (c : Z) : bool := negb (is_ws c) && negb (is_single c) && is_symchar c.
Definition wc2 (c : Z) : bool :=
  negb (is_ws c) && negb (is_single c) && (is_symchar c || (negb (c =? 35) && is_urlchar c)).
Definition is_word (t : str) : bool :=
  match t with c0 :: cs => wc c0 && forallb wc2 cs | [] => false end.
Definition is_punct (t : str) : bool :=
  match t with [c] => negb (is_ws c) && is_single c | _ => false end.

(* a separator: any mix of whitespace characters and "# ... newline" comments *)
Inductive sep_ok : str -> Prop :=
| sep_nil : sep_ok []
| sep_ws : forall c r, is_ws c = true -> sep_ok r -> sep_ok (c :: r)
| sep_comment : forall body r, Forall (fun c => c <> 10) body -> sep_ok r -> sep_ok (35 :: body ++ 10 :: r).

(* tokens, each followed by its separator; two words need a non-empty separator between them *)
Fixpoint chain (ts : list (str * str)) : Prop :=
  match ts with
  | [] => True
  | (t, s) :: rest =>
    (is_word t = true \/ is_punct t = true) /\ sep_ok s /\
    (is_word t = true -> s = [] -> match rest with (t2, _) :: _ => is_word t2 = false | [] => True end) /\
    chain rest
  end.
Definition body (ts : list (str * str)) : str := flat_map (fun ts => fst ts ++ snd ts) ts.
Definition render (s0 : str) (ts : list (str * str)) : str := s0 ++ body ts.

Lemma pre_nil : forall x, pre [] x = x.
Proof. intros [l|k]; reflexivity. Qed.

Lemma pre_pre : forall a b x, pre a (pre b x) = pre (a ++ b) x.
Proof. intros a b [l|k]; cbn [pre]; [rewrite app_assoc|]; reflexivity. Qed.

Lemma comment_skip : forall bodyc x sym, Forall (fun c => c <> 10) bodyc ->
  tok_aux (bodyc ++ 10 :: x) sym true = tok_aux x sym false.
Proof.
  induction bodyc as [|c r IH]; intros x sym HF.
  - cbn [app tok_aux]. rewrite Z.eqb_refl. reflexivity.
  - inversion HF as [|c' r' Hc Hr]; subst. cbn [app tok_aux].
    destruct (c =? 10) eqn:E; [apply Z.eqb_eq in E; contradiction|]. apply IH; assumption.
Qed.

Lemma sep_step : forall s, sep_ok s -> forall r sym,
  tok_aux (s ++ r) sym false =
  match s with [] => tok_aux r sym false | _ => pre (flush sym) (tok_aux r [] false) end.
Proof.
  induction 1 as [|c r0 Hc Hs IH|bodyc r0 HF Hs IH]; intros r sym.
  - reflexivity.
  - cbn [app tok_aux]. rewrite Hc. rewrite IH. destruct r0; [reflexivity|].
    cbn [flush]. rewrite pre_nil. reflexivity.
  - cbn [app]. cbn [tok_aux].
    replace (is_ws 35) with false by (vm_compute; reflexivity).
    replace (is_single 35) with false by (vm_compute; reflexivity).
    replace (is_symchar 35) with false by (vm_compute; reflexivity).
    replace (35 =? 35) with true by reflexivity.
    rewrite <- app_assoc. cbn [app]. rewrite comment_skip by assumption.
    rewrite IH. destruct r0; [reflexivity|]. cbn [flush]. rewrite pre_nil. reflexivity.
Qed.

Lemma word_tail : forall cs r sym, sym <> [] -> forallb wc2 cs = true ->
  tok_aux (cs ++ r) sym false = tok_aux r (rev cs ++ sym) false.
Proof.
  induction cs as [|c cs IH]; intros r sym Hsym HF.
  - reflexivity.
  - cbn [forallb] in HF. apply andb_true_iff in HF. destruct HF as [Hc HF].
    unfold wc2 in Hc. apply andb_true_iff in Hc. destruct Hc as [Hc Hc3].
    apply andb_true_iff in Hc. destruct Hc as [Hc1 Hc2].
    apply negb_true_iff in Hc1. apply negb_true_iff in Hc2.
    cbn [app tok_aux]. rewrite Hc1, Hc2.
    assert (Hstep : (if is_symchar c then tok_aux (cs ++ r) (c :: sym) false
                     else if c =? 35 then pre (flush sym) (tok_aux (cs ++ r) [] true)
                     else if (match sym with [] => false | _ => true end) && is_urlchar c
                          then tok_aux (cs ++ r) (c :: sym) false else Err E_RuleSyntax)
                    = tok_aux (cs ++ r) (c :: sym) false).
    { destruct (is_symchar c) eqn:E1; [reflexivity|]. cbn [orb] in Hc3.
      apply andb_true_iff in Hc3. destruct Hc3 as [H35 Hu]. apply negb_true_iff in H35.
      rewrite H35, Hu. destruct sym; [contradiction|reflexivity]. }
    rewrite Hstep. rewrite IH; [|discriminate|assumption].
    cbn [rev]. rewrite <- app_assoc. reflexivity.
Qed.

Lemma flush_word : forall cs c0, flush (rev cs ++ [c0]) = [c0 :: cs].
Proof.
  intros cs c0. destruct (rev cs ++ [c0]) eqn:E.
  - destruct (rev cs); discriminate E.
  - cbn [flush]. rewrite <- E. rewrite rev_app_distr, rev_involutive. reflexivity.
Qed.

Lemma chain_tokens : forall ts, chain ts -> forall sym,
  (sym <> [] -> match ts with (t, _) :: _ => is_word t = false | [] => True end) ->
  tok_aux (body ts) sym false = Ok (flush sym ++ map fst ts).
Proof.
  induction ts as [|[t s] rest IH]; intros Hch sym Hsym.
  - cbn. rewrite app_nil_r. reflexivity.
  - cbn [chain] in Hch. destruct Hch as [Hkind [Hsep [Hadj Hrest]]].
    unfold body. cbn [flat_map fst snd]. fold (body rest). cbn [map fst].
    destruct (is_word t) eqn:Hw.
    + (* a word: the current symbol is empty *)
      assert (Hs0 : sym = []).
      { destruct sym as [|x xs]; [reflexivity|]. exfalso.
        assert (Hf : true = false) by (apply Hsym; discriminate). discriminate Hf. }
      subst sym. destruct t as [|c0 cs]; [discriminate Hw|].
      cbn [is_word] in Hw. apply andb_true_iff in Hw. destruct Hw as [Hc0 Hcs].
      unfold wc in Hc0. apply andb_true_iff in Hc0. destruct Hc0 as [Hc0 Hc03].
      apply andb_true_iff in Hc0. destruct Hc0 as [Hc01 Hc02].
      apply negb_true_iff in Hc01. apply negb_true_iff in Hc02.
      rewrite <- app_assoc. cbn [app tok_aux]. rewrite Hc01, Hc02, Hc03.
      rewrite word_tail; [|discriminate|assumption].
      rewrite sep_step by assumption.
      destruct s as [|s1 sr].
      * rewrite IH; [|assumption|].
        -- rewrite flush_word. reflexivity.
        -- intros _. apply Hadj; reflexivity.
      * rewrite IH; [|assumption|intros C; contradiction C; reflexivity].
        rewrite flush_word. reflexivity.
    + (* a punctuation token *)
      destruct Hkind as [C|Hp]; [discriminate C|].
      destruct t as [|c [|c2 t2]]; try discriminate Hp.
      cbn [is_punct] in Hp. apply andb_true_iff in Hp. destruct Hp as [Hp1 Hp2].
      apply negb_true_iff in Hp1.
      cbn [app tok_aux]. rewrite Hp1, Hp2. rewrite sep_step by assumption.
      assert (Hnext : tok_aux (body rest) [] false = Ok (map fst rest)).
      { rewrite IH; [reflexivity|assumption|intros C; contradiction C; reflexivity]. }
      destruct s as [|s1 sr].
      * rewrite Hnext. cbn [pre]. rewrite <- app_assoc. reflexivity.
      * cbn [flush]. rewrite pre_nil. rewrite Hnext. cbn [pre]. rewrite <- app_assoc. reflexivity.
Qed.

Lemma tokens_ws : forall s0 ts, sep_ok s0 -> chain ts -> tokenise (render s0 ts) = Ok (map fst ts).
Proof.
  intros s0 ts Hs Hch. unfold tokenise, render. rewrite sep_step by assumption.
  assert (H : tok_aux (body ts) [] false = Ok (map fst ts)).
  { rewrite chain_tokens; [reflexivity|assumption|intros C; contradiction C; reflexivity]. }
  destruct s0; [assumption|]. cbn [flush]. rewrite pre_nil. assumption.
Qed.

(* the separators do not matter: two renderings of the same tokens give the same token list *)
Lemma tokens_ws_irrelevant : forall s0 s0' ts ts',
  sep_ok s0 -> sep_ok s0' -> chain ts -> chain ts' -> map fst ts = map fst ts' ->
  tokenise (render s0 ts) = tokenise (render s0' ts').
Proof.
  intros. rewrite !tokens_ws by assumption. congruence.
Qed.

(* ====================================================================== *)
(* generic helpers                                                         *)
(* ====================================================================== *)

Ltac step H :=
  match type of H with
  | bind ?e _ = Ok _ =>
    let E := fresh "E" in destruct e eqn:E; [cbn [bind] in H | discriminate H]
  | (if ?c then _ else _) = Ok _ => let C := fresh "C" in destruct c eqn:C; try discriminate H
  | match ?x with _ => _ end = Ok _ => destruct x eqn:?; try discriminate H
  end.

Lemma str_eqb_eq : forall a b, str_eqb a b = true <-> a = b.
Proof.
  unfold str_eqb. induction a as [|x xs IH]; intros [|y ys]; cbn [list_eqb]; split; intros H;
    try reflexivity; try discriminate H.
  - apply andb_true_iff in H. destruct H as [H1 H2]. apply Z.eqb_eq in H1. apply IH in H2. congruence.
  - inversion H; subst. rewrite Z.eqb_refl. cbn [andb]. apply IH. reflexivity.
Qed.

Lemma str_eqb_refl : forall a, str_eqb a a = true.
Proof. intros a. apply str_eqb_eq. reflexivity. Qed.

Lemma smem_In : forall x l, smem x l = true <-> In x l.
Proof.
  unfold smem. intros x l. rewrite existsb_exists. split.
  - intros [y [Hy He]]. apply str_eqb_eq in He. subst. assumption.
  - intros H. exists x. split; [assumption|apply str_eqb_refl].
Qed.

Lemma smem_false : forall x l, smem x l = false <-> ~ In x l.
Proof.
  intros x l. split; intros H.
  - intros HI. apply smem_In in HI. congruence.
  - destruct (smem x l) eqn:E; [|reflexivity]. apply smem_In in E. contradiction.
Qed.

Lemma forallb_rev : forall {A} (p : A -> bool) l, forallb p (rev l) = forallb p l.
Proof.
  induction l as [|x xs IH]; [reflexivity|]. cbn [rev forallb]. rewrite forallb_app, IH. cbn [forallb].
  rewrite andb_true_r. apply andb_comm.
Qed.

(* ====================================================================== *)
(* C. a repeated operand is never part of a parsed condition               *)
(* ====================================================================== *)

Fixpoint nrb (c : cond) : bool :=
  match c with
  | CSingle _ _ | CScore _ _ _ => true
  | CMin _ k opts => negb (has_dup opts) && (1 <=? k)
  | CCds _ subs | CGroup _ subs => negb (has_dup (map show subs)) && forallb nrb subs
  | CAnd ops => negb (has_dup (map show ops)) && forallb nrb ops
  end.

Lemma mk_group_nrb : forall n subs c, mk_group n subs = Ok c -> forallb nrb subs = true -> nrb c = true.
Proof.
  unfold mk_group, check_operands. intros n subs c H HF.
  destruct (has_dup (map show subs)) eqn:E; cbn [bind] in H; [discriminate H|].
  inversion H; subst. cbn [nrb]. rewrite E, HF. reflexivity.
Qed.
Lemma mk_cds_nrb : forall n subs c, mk_cds n subs = Ok c -> forallb nrb subs = true -> nrb c = true.
Proof.
  unfold mk_cds, check_operands. intros n subs c H HF.
  destruct (has_dup (map show subs)) eqn:E; cbn [bind] in H; [discriminate H|].
  inversion H; subst. cbn [nrb]. rewrite E, HF. reflexivity.
Qed.
Lemma mk_and_nrb : forall ops c, mk_and ops = Ok c -> forallb nrb ops = true -> nrb c = true.
Proof.
  unfold mk_and, check_operands. intros ops c H HF.
  destruct (has_dup (map show ops)) eqn:E; cbn [bind] in H; [discriminate H|].
  inversion H; subst. cbn [nrb]. rewrite E, HF. reflexivity.
Qed.
Lemma mk_min_nrb : forall n k opts c, mk_min n k opts = Ok c -> nrb c = true.
Proof.
  unfold mk_min. intros n k opts c H. destruct (has_dup opts) eqn:E; [discriminate H|].
  destruct (k <? 1) eqn:E2; [discriminate H|]. inversion H; subst. cbn [nrb]. rewrite E. cbn [negb andb]. lia.
Qed.

Lemma parse_minimum_nrb : forall f n s c s', parse_minimum f n s = Ok (c, s') -> nrb c = true.
Proof.
  intros f n s c s' H. unfold parse_minimum in H. repeat step H.
  inversion H; subst. eapply mk_min_nrb; eassumption.
Qed.
Lemma parse_score_nrb : forall n s c s', parse_score n s = Ok (c, s') -> nrb c = true.
Proof.
  intros n s c s' H. unfold parse_score in H. repeat step H. inversion H; subst. reflexivity.
Qed.

Definition P_single f := forall allow s c s', parse_single f allow s = Ok (c, s') -> nrb c = true.
Definition P_cds f := forall s cs s', parse_cds f s = Ok (cs, s') -> forallb nrb cs = true.
Definition P_ands f := forall allow lv s a s', nrb lv = true -> parse_ands f allow lv s = Ok (a, s') -> nrb a = true.
Definition P_andloop f := forall allow acc s cs s',
  forallb nrb acc = true -> and_loop f allow acc s = Ok (cs, s') -> forallb nrb cs = true.
Definition P_conds f := forall allow g s cs s', parse_conditions f allow g s = Ok (cs, s') -> forallb nrb cs = true.
Definition P_condloop f := forall allow acc lv app s cs s',
  forallb nrb acc = true -> nrb lv = true -> cond_loop f allow acc lv app s = Ok (cs, s') -> forallb nrb cs = true.

Lemma parser_nrb : forall f, P_single f /\ P_cds f /\ P_ands f /\ P_andloop f /\ P_conds f /\ P_condloop f.
Proof.
  induction f as [|f IH].
  - repeat split; red; intros; cbn in *; discriminate.
  - destruct IH as [IHs [IHc [IHa [IHal [IHcs IHcl]]]]].
    repeat split; red.
    + (* parse_single *)
      intros allow s c s' H. cbn [parse_single] in H. repeat step H.
      * inversion H; subst. eapply mk_group_nrb; [eassumption|]. eapply IHcs; eassumption.
      * eapply parse_minimum_nrb; eassumption.
      * inversion H; subst. eapply mk_cds_nrb; [eassumption|]. eapply IHc; eassumption.
      * eapply parse_score_nrb; eassumption.
      * inversion H; subst. reflexivity.
    + (* parse_cds *)
      intros s cs s' H. cbn [parse_cds] in H. repeat step H;
        inversion H; subst; eapply IHcs; eassumption.
    + (* parse_ands *)
      intros allow lv s a s' Hlv H. cbn [parse_ands] in H. repeat step H.
      inversion H; subst. eapply mk_and_nrb; [eassumption|].
      eapply IHal; [|eassumption]. cbn [forallb]. rewrite Hlv.
      erewrite IHs by eassumption. reflexivity.
    + (* and_loop *)
      intros allow acc s cs s' Hacc H. cbn [and_loop] in H. repeat step H.
      * eapply IHal; [|eassumption]. cbn [forallb]. rewrite Hacc. erewrite IHs by eassumption. reflexivity.
      * inversion H; subst. rewrite forallb_rev. assumption.
    + (* parse_conditions *)
      intros allow g s cs s' H. cbn [parse_conditions] in H. repeat step H.
      inversion H; subst. eapply IHcl; [| |eassumption]; [reflexivity|]. eapply IHs; eassumption.
    + (* cond_loop *)
      intros allow acc lv app s cs s' Hacc Hlv H. cbn [cond_loop] in H. repeat step H.
      * eapply IHcl; [| |eassumption]; [|assumption]. cbn [forallb]. rewrite Hacc.
        erewrite IHa; [reflexivity|eassumption|eassumption].
      * eapply IHcl; [| |eassumption]; [|eapply IHs; eassumption].
        destruct app; [cbn [forallb]; rewrite Hlv, Hacc; reflexivity|assumption].
      * inversion H; subst. rewrite forallb_rev.
        destruct app; [cbn [forallb]; rewrite Hlv, Hacc; reflexivity|assumption].
Qed.

(* ====================================================================== *)
(* rule level: what a successfully parsed rule satisfies                   *)
(* ====================================================================== *)

Lemma parse_superiors_inv : forall f known s l s',
  parse_superiors f known s = Ok (l, s') -> exists sups, close_superiors known sups = Ok l.
Proof.
  intros f known s l s' H. unfold parse_superiors in H. repeat step H.
  inversion H; subst. eexists. eassumption.
Qed.

Lemma consume_type : forall k s t s', consume k s = Ok (t, s') -> ttype t = k.
Proof.
  intros k s t s' H. unfold consume in H. destruct (cur s) as [c|]; [|discriminate H].
  destruct (ttype c =? k) eqn:E; cbn [negb] in H; [|discriminate H].
  apply Z.eqb_eq in E. repeat step H; inversion H; subst; (reflexivity || assumption).
Qed.

Lemma parse_conditions_nrb : forall f allow g s cs s',
  parse_conditions f allow g s = Ok (cs, s') -> forallb nrb cs = true.
Proof. intros f. destruct (parser_nrb f) as [_ [_ [_ [_ [H _]]]]]. exact H. Qed.

(* everything the rule-level theorems need, read off one successful run of _parse_rule *)
Lemma parse_rule_inv : forall f known cats s r s',
  parse_rule f known cats s = Ok (r, s') ->
  (r_sup r = [] \/ exists sups, close_superiors known sups = Ok (r_sup r))
  /\ nrb (r_cond r) = true /\ positive (r_cond r) = true
  /\ smem (r_cat r) cats = true
  /\ (exists tc tn, ttype tc = c02_T_INT /\ ttype tn = c02_T_INT /\
                    r_cutoff r = int_of (ttext tc) * 1000 /\ r_neigh r = int_of (ttext tn) * 1000)
  /\ match r_ext r with Some e => positive e = true | None => True end.
Proof.
  intros f known cats s r s' H. unfold parse_rule in H.
  repeat step H. inversion H; subst; clear H.
  cbn [r_sup r_cond r_cat r_cutoff r_neigh r_ext].
  split; [|split; [|split; [|split; [|split]]]].
  - match goal with
    | E : (if ?c then parse_superiors _ _ _ else _) = Ok _ |- _ =>
      destruct c; [apply parse_superiors_inv in E; right; exact E | inversion E; subst; left; reflexivity]
    end.
  - eapply mk_group_nrb; [eassumption|]. eapply parse_conditions_nrb; eassumption.
  - apply negb_false_iff; assumption.
  - apply negb_false_iff; assumption.
  - match goal with
    | |- exists tc tn, _ /\ _ /\ int_of (ttext ?a) * 1000 = _ /\ int_of (ttext ?b) * 1000 = _ => exists a, b
    end.
    repeat split; eapply consume_type; eassumption.
  - match goal with
    | |- match ?o with Some _ => _ | None => True end => destruct o as [e|]; [|exact I]
    end.
    match goal with
    | E : (if negb (positive e) then _ else _) = Ok _ |- _ =>
      destruct (positive e); [reflexivity|discriminate E]
    end.
Qed.

(* ====================================================================== *)
(* B. SUPERIORS are closed transitively and mention only earlier rules     *)
(* ====================================================================== *)

Lemma insert_by_In : forall {A} (lt : A -> A -> bool) x y l, In x (insert_by lt y l) <-> x = y \/ In x l.
Proof.
  induction l as [|z zs IH]; cbn [insert_by].
  - cbn. intuition congruence.
  - destruct (lt y z); cbn [In]; [intuition congruence|]. rewrite IH. intuition congruence.
Qed.

Lemma sort_by_In : forall {A} (lt : A -> A -> bool) x l, In x (sort_by lt l) <-> In x l.
Proof.
  intros A lt x l. unfold sort_by.
  assert (G : forall l acc, In x (fold_left (fun acc y => insert_by lt y acc) l acc) <-> In x l \/ In x acc).
  { induction l0 as [|y ys IH]; intros acc; cbn [fold_left In]; [intuition|].
    rewrite IH, insert_by_In. intuition congruence. }
  rewrite G. cbn [In]. intuition.
Qed.

Lemma dedupe_acc_In : forall x l seen, In x (dedupe_acc seen l) <-> In x l /\ ~ In x seen.
Proof.
  induction l as [|y ys IH]; intros seen; cbn [dedupe_acc In]; [intuition|].
  destruct (smem y seen) eqn:E.
  - apply smem_In in E. rewrite IH. split.
    + intros [H1 H2]. auto.
    + intros [[H1|H1] H2]; [subst; contradiction|auto].
  - apply smem_false in E. cbn [In]. rewrite IH. cbn [In].
    destruct (str_eqb y x) eqn:Exy.
    + apply str_eqb_eq in Exy. subst. intuition.
    + assert (y <> x) by (intros C; apply str_eqb_eq in C; congruence). intuition.
Qed.

Lemma sorted_set_In : forall x l, In x (sorted_set l) <-> In x l.
Proof.
  intros x l. unfold sorted_set, dedupe. rewrite sort_by_In, dedupe_acc_In. cbn [In]. intuition.
Qed.

(* the text of the property, on the list of rules built so far:
   sup_ok known r : every superior of r names a known (= earlier) rule, all of whose superiors are
   superiors of r as well *)
Definition sup_ok (known : list rule) (r : rule) : Prop :=
  forall s, In s (r_sup r) -> exists p, known_get s known = Some p /\ incl (r_sup p) (r_sup r).

Inductive closed_rules : list rule -> Prop :=
| cr_nil : closed_rules []
| cr_snoc : forall rs r, closed_rules rs -> sup_ok rs r -> known_get (r_name r) rs = None ->
                         closed_rules (rs ++ [r]).

Lemma known_get_app : forall k a b,
  known_get k (a ++ b) = match known_get k a with Some p => Some p | None => known_get k b end.
Proof.
  induction a as [|x xs IH]; intros b; cbn [app known_get]; [reflexivity|].
  destruct (str_eqb k (r_name x)); [reflexivity|apply IH].
Qed.

Lemma known_get_some : forall k rs p, known_get k rs = Some p -> In p rs /\ r_name p = k.
Proof.
  induction rs as [|x xs IH]; intros p H; cbn [known_get] in H; [discriminate H|].
  destruct (str_eqb k (r_name x)) eqn:E.
  - inversion H; subst. apply str_eqb_eq in E. split; [left; reflexivity|congruence].
  - apply IH in H. destruct H as [H1 H2]. split; [right; assumption|assumption].
Qed.

Lemma known_get_none : forall k rs, known_get k rs = None -> ~ In k (map r_name rs).
Proof.
  induction rs as [|x xs IH]; intros H; cbn [known_get map In] in *; [intuition|].
  destruct (str_eqb k (r_name x)) eqn:E; [discriminate H|].
  intros [C|C]; [subst; rewrite str_eqb_refl in E; discriminate E|apply IH; assumption].
Qed.

Lemma sup_ok_mono : forall rs r x, sup_ok rs r -> sup_ok (rs ++ [x]) r.
Proof.
  intros rs r x H s Hs. destruct (H s Hs) as [p [Hp Hi]]. exists p. split; [|assumption].
  rewrite known_get_app, Hp. reflexivity.
Qed.

Lemma closed_lookup : forall rs, closed_rules rs -> forall s p, known_get s rs = Some p -> sup_ok rs p.
Proof.
  induction 1 as [|rs r Hc IH Hr Hn]; intros s p Hg; [discriminate Hg|].
  rewrite known_get_app in Hg. destruct (known_get s rs) as [q|] eqn:E.
  - inversion Hg; subst. apply sup_ok_mono. eapply IH; eassumption.
  - cbn [known_get] in Hg. destruct (str_eqb s (r_name r)); [|discriminate Hg].
    inversion Hg; subst. apply sup_ok_mono. assumption.
Qed.

Lemma transitive_spec : forall known sups t, transitive known sups = Ok t ->
  (forall s, In s sups -> exists p, known_get s known = Some p /\ incl (r_sup p) t) /\
  (forall x, In x t -> exists s p, In s sups /\ known_get s known = Some p /\ In x (r_sup p)).
Proof.
  induction sups as [|n r IH]; intros t H; cbn [transitive] in H.
  - inversion H; subst. split; [intros s []|intros x []].
  - destruct (known_get n known) as [p|] eqn:E; [|discriminate H].
    destruct (transitive known r) as [t0|] eqn:E2; cbn [bind] in H; [|discriminate H].
    inversion H; subst. destruct (IH t0 eq_refl) as [IH1 IH2]. split.
    + intros s [Hs|Hs].
      * subst. exists p. split; [assumption|]. apply incl_appl. apply incl_refl.
      * destruct (IH1 s Hs) as [q [Hq Hi]]. exists q. split; [assumption|]. apply incl_appr. assumption.
    + intros x Hx. apply in_app_or in Hx. destruct Hx as [Hx|Hx].
      * exists n, p. split; [left; reflexivity|split; assumption].
      * destruct (IH2 x Hx) as [s [q [H1 [H2 H3]]]]. exists s, q. split; [right; assumption|split; assumption].
Qed.

Lemma close_superiors_ok : forall known sups l,
  closed_rules known -> close_superiors known sups = Ok l ->
  forall x, In x l -> exists q, known_get x known = Some q /\ incl (r_sup q) l.
Proof.
  intros known sups l Hc H x Hx. unfold close_superiors in H.
  destruct (has_dup sups); [discriminate H|].
  destruct (transitive known sups) as [t|] eqn:E; cbn [bind] in H; [|discriminate H].
  inversion H; subst. destruct (transitive_spec _ _ _ E) as [T1 T2].
  apply (proj1 (sorted_set_In _ _)) in Hx. apply in_app_or in Hx. destruct Hx as [Hx|Hx].
  - destruct (T1 x Hx) as [p [Hp Hi]]. exists p. split; [assumption|].
    intros y Hy. apply (proj2 (sorted_set_In _ _)). apply in_or_app. right. apply Hi. assumption.
  - destruct (T2 x Hx) as [s [p [Hs [Hp Hxp]]]].
    destruct (closed_lookup _ Hc _ _ Hp x Hxp) as [q [Hq Hqi]]. exists q. split; [assumption|].
    destruct (T1 s Hs) as [p' [Hp' Hi]]. rewrite Hp in Hp'. inversion Hp'; subst.
    intros y Hy. apply (proj2 (sorted_set_In _ _)). apply in_or_app. right. apply Hi. apply Hqi. assumption.
Qed.

(* the list of superiors is free of duplicates *)
Lemma insert_by_NoDup : forall {A} (lt : A -> A -> bool) y l, ~ In y l -> NoDup l -> NoDup (insert_by lt y l).
Proof.
  induction l as [|z zs IH]; intros Hn Hd; cbn [insert_by].
  - constructor; [intros []|constructor].
  - destruct (lt y z); [constructor; assumption|].
    inversion Hd; subst. constructor.
    + rewrite insert_by_In. cbn [In] in Hn. intuition.
    + apply IH; [cbn [In] in Hn; intuition|assumption].
Qed.

Lemma sort_by_NoDup : forall {A} (lt : A -> A -> bool) l, NoDup l -> NoDup (sort_by lt l).
Proof.
  intros A lt l. unfold sort_by.
  assert (G : forall l acc, NoDup l -> NoDup acc -> (forall x, In x l -> ~ In x acc) ->
                            NoDup (fold_left (fun acc y => insert_by lt y acc) l acc)).
  { induction l0 as [|y ys IH]; intros acc Hl Ha Hd; cbn [fold_left]; [assumption|].
    inversion Hl; subst. apply IH; [assumption| |].
    - apply insert_by_NoDup; [apply Hd; left; reflexivity|assumption].
    - intros x Hx. rewrite insert_by_In. intros [C|C]; [subst; contradiction|].
      apply (Hd x); [right; assumption|assumption]. }
  intros Hl. apply G; [assumption|constructor|intros x _ []].
Qed.

Lemma dedupe_acc_NoDup : forall l seen, NoDup (dedupe_acc seen l).
Proof.
  induction l as [|y ys IH]; intros seen; cbn [dedupe_acc]; [constructor|].
  destruct (smem y seen); [apply IH|]. constructor; [|apply IH].
  rewrite dedupe_acc_In. cbn [In]. intuition.
Qed.

Lemma sorted_set_NoDup : forall l, NoDup (sorted_set l).
Proof. intros l. unfold sorted_set, dedupe. apply sort_by_NoDup. apply dedupe_acc_NoDup. Qed.

Lemma close_superiors_NoDup : forall known sups l, close_superiors known sups = Ok l -> NoDup l.
Proof.
  intros known sups l H. unfold close_superiors in H. destruct (has_dup sups); [discriminate H|].
  destruct (transitive known sups); cbn [bind] in H; [|discriminate H].
  inversion H; subst. apply sorted_set_NoDup.
Qed.

(* ====================================================================== *)
(* G. the superiors are sorted (Python's sorted() on str)                  *)
(* ====================================================================== *)
Definition str_le (a b : str) : Prop := str_ltb b a = false.

Lemma str_ltb_asym : forall a b, str_ltb a b = true -> str_ltb b a = false.
Proof.
  induction a as [|x xs IH]; intros [|y ys] H; cbn [str_ltb] in *; try reflexivity; try discriminate H.
  destruct (x <? y) eqn:E1.
  - assert (E2 : (y <? x) = false) by lia. rewrite E2. reflexivity.
  - destruct (y <? x) eqn:E2; [discriminate H|]. apply IH. assumption.
Qed.

Lemma str_le_trans : forall a b c, str_le a b -> str_le b c -> str_le a c.
Proof.
  unfold str_le. induction a as [|x xs IH]; intros b c H1 H2.
  - destruct c; reflexivity.
  - destruct b as [|y ys]; [cbn [str_ltb] in H1; discriminate H1|].
    destruct c as [|z zs]; [destruct ys; cbn [str_ltb] in H2; discriminate H2|].
    cbn [str_ltb] in *.
    destruct (y <? x) eqn:E1; [discriminate H1|].
    destruct (z <? y) eqn:E2; [discriminate H2|].
    destruct (x <? y) eqn:E3.
    + assert (E4 : (z <? x) = false) by lia. rewrite E4.
      destruct (x <? z) eqn:E5; [reflexivity|]. exfalso. lia.
    + destruct (y <? z) eqn:E4.
      * assert (E5 : (z <? x) = false) by lia. rewrite E5.
        assert (E6 : (x <? z) = true) by lia. rewrite E6. reflexivity.
      * assert (E5 : (z <? x) = false) by lia. rewrite E5.
        assert (E6 : (x <? z) = false) by lia. rewrite E6. eapply IH; eassumption.
Qed.

Lemma insert_by_sorted : forall x l, StronglySorted str_le l -> StronglySorted str_le (insert_by str_ltb x l).
Proof.
  induction l as [|y ys IH]; intros Hs; cbn [insert_by].
  - constructor; [constructor|constructor].
  - inversion Hs as [|y' ys' Hs' Hall]; subst.
    destruct (str_ltb x y) eqn:E.
    + constructor; [assumption|]. constructor.
      * unfold str_le. apply str_ltb_asym. assumption.
      * eapply Forall_impl; [|eassumption]. intros z Hz. eapply str_le_trans; [|eassumption].
        unfold str_le. apply str_ltb_asym. assumption.
    + constructor; [apply IH; assumption|].
      apply Forall_forall. intros z Hz. apply insert_by_In in Hz. destruct Hz as [Hz|Hz].
      * subst. exact E.
      * rewrite Forall_forall in Hall. apply Hall. assumption.
Qed.

Lemma sort_by_sorted : forall l, StronglySorted str_le (sort_by str_ltb l).
Proof.
  intros l. unfold sort_by.
  assert (G : forall l acc, StronglySorted str_le acc ->
                            StronglySorted str_le (fold_left (fun acc y => insert_by str_ltb y acc) l acc)).
  { induction l0 as [|y ys IH]; intros acc Ha; cbn [fold_left]; [assumption|].
    apply IH. apply insert_by_sorted. assumption. }
  apply G. constructor.
Qed.

Lemma close_superiors_sorted : forall known sups l, close_superiors known sups = Ok l -> StronglySorted str_le l.
Proof.
  intros known sups l H. unfold close_superiors in H. destruct (has_dup sups); [discriminate H|].
  destruct (transitive known sups); cbn [bind] in H; [|discriminate H].
  inversion H; subst. unfold sorted_set. apply sort_by_sorted.
Qed.

(* ---------- invariants of the rule list through Parser.__init__ and create_rules ---------- *)
Definition rule_ok (cats : list str) (m : mults) (r : rule) : Prop :=
  nrb (r_cond r) = true /\ positive (r_cond r) = true /\ smem (r_cat r) cats = true
  /\ (NoDup (r_sup r) /\ StronglySorted str_le (r_sup r))
  /\ (exists tc tn, ttype tc = c02_T_INT /\ ttype tn = c02_T_INT /\
                    r_cutoff r = scale (int_of (ttext tc) * 1000) (mc_num m) (mc_den m) /\
                    r_neigh r = scale (int_of (ttext tn) * 1000) (mn_num m) (mn_den m))
  /\ match r_ext r with Some e => positive e = true | None => True end.

Lemma main_loop_inv : forall n sigs cats m rules s rules' s',
  closed_rules rules -> Forall (rule_ok cats m) rules ->
  main_loop n sigs cats m rules s = Ok (rules', s') ->
  closed_rules rules' /\ Forall (rule_ok cats m) rules'.
Proof.
  induction n as [|n IH]; intros sigs cats m rules s rules' s' Hc Hf H; cbn [main_loop] in H; [discriminate H|].
  destruct (cur s) as [t|]; [|inversion H; subst; split; assumption].
  destruct (negb (is_starter (ttype t))); [discriminate H|].
  destruct (ttype t =? c02_T_DEFINE).
  - repeat step H. eapply IH; eassumption.
  - repeat step H.
    match goal with E : parse_rule _ _ _ _ = Ok _ |- _ => apply parse_rule_inv in E; rename E into Hr end.
    destruct Hr as [Hsup [Hnr [Hpos [Hcat [[tc [tn [Htc [Htn [Hcut Hne]]]]] Hext]]]]].
    eapply IH; [| |eassumption].
    + apply cr_snoc; [assumption| |].
      * intros x Hx. cbn [r_sup] in Hx |- *.
        destruct Hsup as [Hs|[sups Hs]]; [rewrite Hs in Hx; destruct Hx|].
        eapply close_superiors_ok; eassumption.
      * cbn [r_name]. match goal with C : isSomeB (known_get ?k rules) = false |- _ =>
          destruct (known_get k rules); [discriminate C|reflexivity] end.
    + apply Forall_app. split; [assumption|]. constructor; [|constructor].
      unfold rule_ok. cbn [r_cond r_cat r_sup r_cutoff r_neigh r_ext].
      split; [assumption|]. split; [assumption|]. split; [assumption|]. split.
      * destruct Hsup as [Hs|[sups Hs]]; [rewrite Hs; split; constructor|].
        split; [eapply close_superiors_NoDup; eassumption|eapply close_superiors_sorted; eassumption].
      * split; [|assumption]. exists tc, tn. rewrite Hcut, Hne. repeat split; assumption.
Qed.

Lemma parse_text_inv : forall text sigs cats m rules als rules' als',
  closed_rules rules -> Forall (rule_ok cats m) rules ->
  parse_text text sigs cats m rules als = Ok (rules', als') ->
  closed_rules rules' /\ Forall (rule_ok cats m) rules'.
Proof.
  intros text sigs cats m rules als rules' als' Hc Hf H. unfold parse_text in H.
  repeat step H. inversion H; subst. eapply main_loop_inv; eassumption.
Qed.

Lemma parse_files_inv : forall files idx sigs cats m rules als rules' als',
  closed_rules rules -> Forall (rule_ok cats m) rules ->
  parse_files files idx sigs cats m rules als = inl (rules', als') ->
  closed_rules rules' /\ Forall (rule_ok cats m) rules'.
Proof.
  induction files as [|text more IH]; intros idx sigs cats m rules als rules' als' Hc Hf H; cbn [parse_files] in H.
  - inversion H; subst. split; assumption.
  - destruct (parse_text text sigs cats m rules als) as [[r1 a1]|k] eqn:E; [|discriminate H].
    destruct (parse_text_inv _ _ _ _ _ _ _ _ Hc Hf E) as [Hc1 Hf1].
    eapply IH; eassumption.
Qed.

(* closed_rules in plain words *)
Lemma closed_rules_spec : forall rs, closed_rules rs -> forall pre r post, rs = pre ++ r :: post ->
  ~ In (r_name r) (map r_name pre) /\
  forall s, In s (r_sup r) -> exists p, In p pre /\ r_name p = s /\ incl (r_sup p) (r_sup r).
Proof.
  induction 1 as [|rs r0 Hc IH Hr Hn]; intros pre r post Heq.
  - destruct pre; discriminate Heq.
  - destruct post as [|x post'] using rev_ind.
    + apply app_inj_tail in Heq. destruct Heq as [H1 H2]. subst. split.
      * apply known_get_none. assumption.
      * intros s Hs. destruct (Hr s Hs) as [p [Hp Hi]]. apply known_get_some in Hp.
        exists p. intuition.
    + clear IHpost'. rewrite app_comm_cons, app_assoc in Heq. apply app_inj_tail in Heq.
      destruct Heq as [H1 H2]. subst. eapply IH. reflexivity.
Qed.

Lemma superiors_closed : forall files sigs cats m rules als,
  parse_files files 0 sigs cats m [] [] = inl (rules, als) ->
  forall pre r post, rules = pre ++ r :: post ->
    ~ In (r_name r) (map r_name pre) /\ (NoDup (r_sup r) /\ StronglySorted str_le (r_sup r)) /\
    forall s, In s (r_sup r) -> exists p, In p pre /\ r_name p = s /\ incl (r_sup p) (r_sup r).
Proof.
  intros files sigs cats m rules als H pre r post Heq.
  destruct (parse_files_inv _ _ _ _ _ _ _ _ _ cr_nil (Forall_nil _) H) as [Hc Hf].
  destruct (closed_rules_spec _ Hc _ _ _ Heq) as [H1 H2].
  split; [assumption|]. split; [|assumption].
  rewrite Forall_forall in Hf. assert (Hin : In r rules) by (subst; apply in_or_app; right; left; reflexivity).
  destruct (Hf r Hin) as [_ [_ [_ [Hnd _]]]]. assumption.
Qed.

Lemma parsed_rules_ok : forall files sigs cats m rules als,
  parse_files files 0 sigs cats m [] [] = inl (rules, als) -> Forall (rule_ok cats m) rules.
Proof.
  intros files sigs cats m rules als H.
  destruct (parse_files_inv _ _ _ _ _ _ _ _ _ cr_nil (Forall_nil _) H) as [_ Hf]. assumption.
Qed.

(* ====================================================================== *)
(* D. kilobases and multipliers                                            *)
(* ====================================================================== *)
Lemma scale_floor : forall v num den, 0 < den ->
  den * scale v num den <= v * num < den * (scale v num den + 1).
Proof.
  intros v num den Hd. unfold scale.
  pose proof (Z.div_mod (v * num) den ltac:(lia)) as H1.
  pose proof (Z.mod_pos_bound (v * num) den Hd) as H2.
  remember (v * num / den) as q. remember ((v * num) mod den) as r. nia.
Qed.

(* constructor level: a repeated operand or option raises ValueError *)
Lemma mk_group_repeated : forall n subs, has_dup (map show subs) = true -> mk_group n subs = Err E_Value.
Proof. intros n subs H. unfold mk_group, check_operands. rewrite H. reflexivity. Qed.
Lemma mk_cds_repeated : forall n subs, has_dup (map show subs) = true -> mk_cds n subs = Err E_Value.
Proof. intros n subs H. unfold mk_cds, check_operands. rewrite H. reflexivity. Qed.
Lemma mk_and_repeated : forall ops, has_dup (map show ops) = true -> mk_and ops = Err E_Value.
Proof. intros ops H. unfold mk_and, check_operands. rewrite H. reflexivity. Qed.
Lemma mk_min_repeated : forall n k opts, has_dup opts = true -> mk_min n k opts = Err E_Value.
Proof. intros n k opts H. unfold mk_min. rewrite H. reflexivity. Qed.

Lemma has_dup_false_NoDup : forall l, has_dup l = false -> NoDup l.
Proof.
  induction l as [|x xs IH]; intros H; [constructor|]. cbn [has_dup] in H.
  apply orb_false_iff in H. destruct H as [H1 H2]. constructor; [apply smem_false; assumption|apply IH; assumption].
Qed.

(* nrb in plain words: at every node the operands' texts are pairwise different *)
Lemma nrb_NoDup : forall c, nrb c = true ->
  match c with
  | CCds _ subs | CGroup _ subs | CAnd subs => NoDup (map show subs) /\ forallb nrb subs = true
  | CMin _ k opts => NoDup opts /\ 1 <= k
  | _ => True
  end.
Proof.
  intros c H. destruct c; cbn [nrb] in H; try exact I;
    apply andb_true_iff in H; destruct H as [H1 H2]; apply negb_true_iff in H1;
    (split; [apply has_dup_false_NoDup; assumption|]); try assumption. lia.
Qed.

(* ====================================================================== *)
(* E. precedence: what _parse_conditions returns is the reading of the     *)
(*    consumed tokens by the stratified grammar  not > and > or            *)
(* ====================================================================== *)

(* lists of operands are kept newest-first ("R"), as the parser's loops build them *)
Inductive G_core (allow : bool) : bool -> list token -> cond -> Prop :=
| GC_id : forall neg t, ttype t = c02_T_IDENTIFIER -> G_core allow neg [t] (CSingle neg (ttext t))
| GC_grp : forall neg o c T racc, ttype o = c02_T_GROUP_OPEN -> ttype c = c02_T_GROUP_CLOSE ->
    G_orsR allow T racc -> G_core allow neg (o :: T ++ [c]) (CGroup neg (rev racc))
| GC_cds : forall neg k o c T racc, allow = true -> ttype k = c02_T_CDS -> ttype o = c02_T_GROUP_OPEN ->
    ttype c = c02_T_GROUP_CLOSE -> G_orsR false T racc -> G_core allow neg (k :: o :: T ++ [c]) (CCds neg (rev racc))
| GC_min : forall neg m T k opts, allow = true -> ttype m = c02_T_MINIMUM -> G_core allow neg (m :: T) (CMin neg k opts)
| GC_score : forall neg m T name sc, ttype m = c02_T_SCORE -> G_core allow neg (m :: T) (CScore neg name sc)
with G_un (allow : bool) : list token -> cond -> Prop :=
| GU_pos : forall T c, G_core allow false T c -> G_un allow T c
| GU_neg : forall nt T c, ttype nt = c02_T_NOT -> G_core allow true T c -> G_un allow (nt :: T) c
with G_andsR (allow : bool) : list token -> list cond -> Prop :=
| GA_one : forall T c, G_un allow T c -> G_andsR allow T [c]
| GA_more : forall T ra a T' c, G_andsR allow T ra -> ttype a = c02_T_AND -> G_un allow T' c ->
    G_andsR allow (T ++ a :: T') (c :: ra)
with G_item (allow : bool) : list token -> cond -> Prop :=
| GI_un : forall T c, G_un allow T c -> G_item allow T c
| GI_and : forall T ra, G_andsR allow T ra -> (2 <= length ra)%nat -> G_item allow T (CAnd (rev ra))
with G_orsR (allow : bool) : list token -> list cond -> Prop :=
| GO_one : forall T c, G_item allow T c -> G_orsR allow T [c]
| GO_more : forall T racc o T' c, G_orsR allow T racc -> ttype o = c02_T_OR -> G_item allow T' c ->
    G_orsR allow (T ++ o :: T') (c :: racc).

Definition G_ors (allow : bool) (T : list token) (cs : list cond) : Prop := G_orsR allow T (rev cs).

(* the tokens consumed between two parser states *)
Definition trace (s s' : pst) (T : list token) : Prop := consumed s' = rev T ++ consumed s.

Lemma trace_nil : forall s, trace s s [].
Proof. intros s. reflexivity. Qed.

Lemma trace_app : forall s s1 s2 a b, trace s s1 a -> trace s1 s2 b -> trace s s2 (a ++ b).
Proof. unfold trace. intros s s1 s2 a b H1 H2. rewrite H2, H1, rev_app_distr, app_assoc. reflexivity. Qed.

Lemma consume_trace : forall k s t s', consume k s = Ok (t, s') -> trace s s' [t] /\ ttype t = k.
Proof.
  intros k s t s' H. split; [|eapply consume_type; eassumption].
  unfold consume in H. destruct (cur s) as [c|]; [|discriminate H].
  destruct (negb (ttype c =? k)); [discriminate H|].
  unfold trace. repeat step H; inversion H; subst; reflexivity.
Qed.

Lemma comma_loop_trace : forall f acc s l s', comma_loop f acc s = Ok (l, s') -> exists T, trace s s' T.
Proof.
  induction f as [|f IH]; intros acc s l s' H; cbn [comma_loop] in H; [discriminate H|].
  repeat step H.
  - match goal with E1 : consume c02_T_COMMA _ = Ok _, E2 : consume c02_T_IDENTIFIER _ = Ok _ |- _ =>
      apply consume_trace in E1; apply consume_trace in E2; destruct E1 as [E1 _]; destruct E2 as [E2 _] end.
    apply IH in H. destruct H as [T HT]. eexists. eapply trace_app; [eapply trace_app; eassumption|eassumption].
  - inversion H; subst. exists []. apply trace_nil.
Qed.

Lemma parse_comma_ids_trace : forall f s l s', parse_comma_ids f s = Ok (l, s') -> exists T, trace s s' T.
Proof.
  intros f s l s' H. unfold parse_comma_ids in H. repeat step H.
  match goal with E1 : consume _ _ = Ok _ |- _ => apply consume_trace in E1; destruct E1 as [E1 _] end.
  apply comma_loop_trace in H. destruct H as [T HT]. eexists. eapply trace_app; eassumption.
Qed.

Ltac ctrace :=
  repeat match goal with
         | E : consume _ _ = Ok _ |- _ => apply consume_trace in E; destruct E as [? ?]
         end.

Ltac tr := first [eassumption | apply trace_nil | (eapply trace_app; [eassumption | tr])].

Lemma parse_minimum_trace : forall f n s c s', parse_minimum f n s = Ok (c, s') ->
  exists m T k opts, trace s s' (m :: T) /\ ttype m = c02_T_MINIMUM /\ c = CMin n k opts.
Proof.
  intros f n s c s' H. unfold parse_minimum in H. repeat step H. inversion H; subst; clear H.
  match goal with E : parse_comma_ids _ _ = Ok _ |- _ => apply parse_comma_ids_trace in E; destruct E as [Tc HTc] end.
  match goal with E : mk_min _ _ _ = Ok _ |- _ => unfold mk_min in E; repeat step E; inversion E; subst; clear E end.
  ctrace.
  do 4 eexists. split; [|split; [eassumption|reflexivity]].
  eapply (trace_app _ _ _ [_]); [eassumption|tr].
Qed.

Lemma parse_score_trace : forall n s c s', parse_score n s = Ok (c, s') ->
  exists m T name sc, trace s s' (m :: T) /\ ttype m = c02_T_SCORE /\ c = CScore n name sc.
Proof.
  intros n s c s' H. unfold parse_score in H. repeat step H. inversion H; subst; clear H. ctrace.
  do 4 eexists. split; [|split; [eassumption|reflexivity]].
  eapply (trace_app _ _ _ [_]); [eassumption|tr].
Qed.

Lemma is_not_cases : forall s b s1, is_not s = Ok (b, s1) ->
  (b = false /\ s1 = s) \/ (b = true /\ exists nt, trace s s1 [nt] /\ ttype nt = c02_T_NOT).
Proof.
  intros s b s1 H. unfold is_not in H. repeat step H; inversion H; subst; clear H.
  - right. split; [reflexivity|]. ctrace. eexists. split; eassumption.
  - left. split; reflexivity.
Qed.

Lemma wrap_not : forall allow s b s1 s' T c, is_not s = Ok (b, s1) -> trace s1 s' T -> G_core allow b T c ->
  exists T', trace s s' T' /\ G_un allow T' c.
Proof.
  intros allow s b s1 s' T c Hn Ht Hc. apply is_not_cases in Hn.
  destruct Hn as [[Hb Hs]|[Hb [nt [Hnt Hty]]]]; subst.
  - exists T. split; [assumption|apply GU_pos; assumption].
  - exists (nt :: T). split; [eapply (trace_app _ _ _ [_]); eassumption|apply GU_neg; assumption].
Qed.

Lemma mk_group_ok : forall n subs c, mk_group n subs = Ok c -> c = CGroup n subs.
Proof. unfold mk_group. intros n subs c H. step H. inversion H. reflexivity. Qed.
Lemma mk_cds_ok : forall n subs c, mk_cds n subs = Ok c -> c = CCds n subs.
Proof. unfold mk_cds. intros n subs c H. step H. inversion H. reflexivity. Qed.
Lemma mk_and_ok : forall ops c, mk_and ops = Ok c -> c = CAnd ops.
Proof. unfold mk_and. intros ops c H. step H. inversion H. reflexivity. Qed.

Lemma GO_more' : forall allow L T racc o T' c, G_orsR allow T racc -> ttype o = c02_T_OR -> G_item allow T' c ->
  L = T ++ o :: T' -> G_orsR allow L (c :: racc).
Proof. intros; subst; eapply GO_more; eassumption. Qed.
Lemma GA_more' : forall allow L T ra a T' c, G_andsR allow T ra -> ttype a = c02_T_AND -> G_un allow T' c ->
  L = T ++ a :: T' -> G_andsR allow L (c :: ra).
Proof. intros; subst; eapply GA_more; eassumption. Qed.
Lemma G_orsR_eq : forall allow T T' r, G_orsR allow T r -> T = T' -> G_orsR allow T' r.
Proof. intros; subst; assumption. Qed.
Lemma G_andsR_eq : forall allow T T' r, G_andsR allow T r -> T = T' -> G_andsR allow T' r.
Proof. intros; subst; assumption. Qed.

Ltac lsimp := repeat rewrite <- app_assoc; cbn [app]; repeat rewrite app_nil_r; try reflexivity.

(* state of the loop of _parse_conditions: T0 = the tokens read so far *)
Definition Inv (allow : bool) (T0 : list token) (acc : list cond) (lv : cond) (app : bool) : Prop :=
  if app then
    exists Ta Tl, T0 = Ta ++ Tl /\ G_un allow Tl lv /\
      ((acc = [] /\ Ta = []) \/ exists Tb o, Ta = Tb ++ [o] /\ ttype o = c02_T_OR /\ G_orsR allow Tb acc)
  else G_orsR allow T0 acc.

Lemma Inv_close : forall allow T0 acc lv app, Inv allow T0 acc lv app ->
  G_orsR allow T0 (if app then lv :: acc else acc).
Proof.
  intros allow T0 acc lv app H. destruct app; [|exact H].
  destruct H as [Ta [Tl [HT [Hl [[Ha Hb]|[Tb [o [Hb [Ho Hg]]]]]]]]]; subst.
  - apply GO_one. apply GI_un. assumption.
  - eapply GO_more'; [eassumption|eassumption|apply GI_un; eassumption|lsimp].
Qed.

Definition Q_single f := forall allow s c s', parse_single f allow s = Ok (c, s') ->
  exists T, trace s s' T /\ G_un allow T c.
Definition Q_cds f := forall s cs s', parse_cds f s = Ok (cs, s') ->
  exists k o T c, trace s s' (k :: o :: T ++ [c]) /\ ttype k = c02_T_CDS /\ ttype o = c02_T_GROUP_OPEN /\
                  ttype c = c02_T_GROUP_CLOSE /\ G_orsR false T (rev cs).
Definition Q_ands f := forall allow lv s a s', parse_ands f allow lv s = Ok (a, s') ->
  exists T ra, trace s s' T /\ a = CAnd (rev ra) /\ cur_is c02_T_AND s' = false /\ (2 <= length ra)%nat /\
               forall Tl, G_un allow Tl lv -> G_andsR allow (Tl ++ T) ra.
Definition Q_andloop f := forall allow acc s cs s', and_loop f allow acc s = Ok (cs, s') ->
  exists T ra, trace s s' T /\ cs = rev ra /\ cur_is c02_T_AND s' = false /\ (length acc <= length ra)%nat /\
               forall T0, G_andsR allow T0 acc -> G_andsR allow (T0 ++ T) ra.
Definition Q_conds f := forall allow g s cs s', parse_conditions f allow g s = Ok (cs, s') ->
  exists T, trace s s' T /\ G_orsR allow T (rev cs).
Definition Q_condloop f := forall allow acc lv app s cs s',
  (app = false -> cur_is c02_T_AND s = false) ->
  cond_loop f allow acc lv app s = Ok (cs, s') ->
  exists T, trace s s' T /\ forall T0, Inv allow T0 acc lv app -> G_orsR allow (T0 ++ T) (rev cs).

Lemma parser_grammar : forall f, Q_single f /\ Q_cds f /\ Q_ands f /\ Q_andloop f /\ Q_conds f /\ Q_condloop f.
Proof.
  induction f as [|f IH].
  - repeat split; red; intros; cbn in *; discriminate.
  - destruct IH as [IHs [IHc [IHa [IHal [IHcs IHcl]]]]].
    repeat split; red.
    + (* parse_single *)
      intros allow s c s' H. cbn [parse_single] in H. repeat step H.
      * (* group *)
        inversion H; subst; clear H.
        match goal with E : mk_group _ _ = Ok _ |- _ => apply mk_group_ok in E; subst end.
        match goal with E : parse_conditions _ _ _ _ = Ok _ |- _ => apply IHcs in E; destruct E as [T [HT HG]] end.
        ctrace.
        eapply wrap_not; [eassumption| |].
        -- eapply (trace_app _ _ _ [_]); [eassumption|]. eapply trace_app; [eassumption|eassumption].
        -- rewrite <- (rev_involutive l) at 1. apply GC_grp; assumption.
      * (* minimum *)
        match goal with C : (_ && _) = true |- _ => apply andb_true_iff in C; destruct C as [Ca _] end.
        apply parse_minimum_trace in H. destruct H as [m [T [k [opts [HT [Hm Hc]]]]]]. subst.
        eapply wrap_not; [eassumption|eassumption|]. apply GC_min; [reflexivity|assumption].
      * (* cds *)
        inversion H; subst; clear H.
        match goal with E : mk_cds _ _ = Ok _ |- _ => apply mk_cds_ok in E; subst end.
        match goal with C : (_ && (_ =? c02_T_CDS)) = true |- _ => apply andb_true_iff in C; destruct C as [Ca _] end.
        match goal with E : parse_cds _ _ = Ok _ |- _ => apply IHc in E;
          destruct E as [k [o [T [c [HT [Hk [Ho [Hc HG]]]]]]]] end.
        eapply wrap_not; [eassumption|eassumption|].
        rewrite <- (rev_involutive l) at 1. subst. apply GC_cds; try assumption. reflexivity.
      * (* minscore *)
        apply parse_score_trace in H. destruct H as [m [T [name [sc [HT [Hm Hc]]]]]]. subst.
        eapply wrap_not; [eassumption|eassumption|]. apply GC_score; assumption.
      * (* identifier *)
        inversion H; subst; clear H. ctrace.
        eapply wrap_not; [eassumption|eassumption|]. apply GC_id; assumption.
    + (* parse_cds *)
      intros s cs s' H. cbn [parse_cds] in H. repeat step H;
        inversion H; subst; clear H;
        match goal with E : parse_conditions _ _ _ _ = Ok _ |- _ => apply IHcs in E; destruct E as [T [HT HG]] end;
        ctrace;
        match goal with
        | Hk : trace s ?p [?k], Ho : trace ?p ?p0 [?o], HT' : trace ?p0 ?p1 ?T, Hc : trace ?p1 s' [?c] |- _ =>
          exists k, o, T, c; split;
          [exact (trace_app _ _ _ [k] _ Hk (trace_app _ _ _ [o] _ Ho (trace_app _ _ _ _ _ HT' Hc)))|]
        end;
        repeat split; assumption.
    + (* parse_ands *)
      intros allow lv s a s' H. cbn [parse_ands] in H. repeat step H. inversion H; subst; clear H.
      match goal with E : mk_and _ = Ok _ |- _ => apply mk_and_ok in E; subst end.
      match goal with E : parse_single _ _ _ = Ok _ |- _ => apply IHs in E; destruct E as [Tc [HTc HGc]] end.
      match goal with E : and_loop _ _ _ _ = Ok _ |- _ => apply IHal in E;
        destruct E as [T3 [ra [HT3 [Hcs [Hcur [Hlen HG]]]]]] end.
      ctrace. subst.
      exists ([t] ++ Tc ++ T3), ra. split; [tr|]. split; [reflexivity|]. split; [assumption|].
      split; [cbn [length] in Hlen; lia|].
      intros Tl Hl. eapply G_andsR_eq; [apply HG|].
      * eapply GA_more'; [apply GA_one; eassumption|eassumption|eassumption|reflexivity].
      * lsimp.
    + (* and_loop *)
      intros allow acc s cs s' H. cbn [and_loop] in H. repeat step H.
      * match goal with E : parse_single _ _ _ = Ok _ |- _ => apply IHs in E; destruct E as [Tc [HTc HGc]] end.
        apply IHal in H. destruct H as [T3 [ra [HT3 [Hcs [Hcur [Hlen HG]]]]]].
        ctrace. subst.
        exists ([t] ++ Tc ++ T3), ra. split; [tr|]. split; [reflexivity|]. split; [assumption|].
        split; [cbn [length] in Hlen; lia|].
        intros T0 HT0. eapply G_andsR_eq; [apply HG|].
        -- eapply GA_more'; [eassumption|eassumption|eassumption|reflexivity].
        -- lsimp.
      * inversion H; subst; clear H. exists [], acc. split; [apply trace_nil|]. split; [reflexivity|].
        split; [assumption|]. split; [lia|]. intros T0 HT0. rewrite app_nil_r. assumption.
    + (* parse_conditions *)
      intros allow g s cs s' H. cbn [parse_conditions] in H. repeat step H. inversion H; subst; clear H.
      match goal with E : parse_single _ _ _ = Ok _ |- _ => apply IHs in E; destruct E as [T1 [HT1 HG1]] end.
      match goal with E : cond_loop _ _ _ _ _ _ = Ok _ |- _ => apply IHcl in E; [|intros CC; discriminate CC];
        destruct E as [T2 [HT2 HG2]] end.
      exists (T1 ++ T2). split; [tr|]. apply HG2.
      exists [], T1. split; [reflexivity|]. split; [assumption|]. left. split; reflexivity.
    + (* cond_loop *)
      intros allow acc lv app s cs s' Hpre H. cbn [cond_loop] in H. repeat step H.
      * (* and *)
        destruct app; [|specialize (Hpre eq_refl); discriminate Hpre].
        match goal with E : parse_ands _ _ _ _ = Ok _ |- _ => apply IHa in E;
          destruct E as [T1 [ra [HT1 [Ha [Hcur [Hlen HG]]]]]] end.
        apply IHcl in H; [|intros _; assumption]. destruct H as [T2 [HT2 HG2]]. subst.
        exists (T1 ++ T2). split; [tr|]. intros T0 HI.
        destruct HI as [Ta [Tl [HT [Hl Hd]]]]. subst.
        eapply G_orsR_eq; [apply (HG2 ((Ta ++ Tl) ++ T1))|lsimp].
        unfold Inv.
        destruct Hd as [[Hacc HTa]|[Tb [o [HTa [Ho Hg]]]]]; subst.
        -- cbn [app]. apply GO_one. apply GI_and; [apply HG; assumption|assumption].
        -- eapply GO_more'; [eassumption|eassumption|apply GI_and; [apply (HG Tl); assumption|assumption]|lsimp].
      * (* or *)
        match goal with E : parse_single _ _ _ = Ok _ |- _ => apply IHs in E; destruct E as [Tc [HTc HGc]] end.
        apply IHcl in H; [|intros CC; discriminate CC]. destruct H as [T3 [HT3 HG3]]. ctrace.
        exists ([t] ++ Tc ++ T3). split; [tr|]. intros T0 HI. apply Inv_close in HI.
        eapply G_orsR_eq; [apply (HG3 ((T0 ++ [t]) ++ Tc))|lsimp].
        exists (T0 ++ [t]), Tc. split; [reflexivity|]. split; [assumption|]. right.
        exists T0, t. split; [reflexivity|]. split; assumption.
      * (* end of the loop *)
        inversion H; subst; clear H. exists []. split; [apply trace_nil|]. intros T0 HI.
        rewrite app_nil_r, rev_involutive. apply Inv_close. assumption.
Qed.

Lemma precedence_sound : forall f allow g s cs s', parse_conditions f allow g s = Ok (cs, s') ->
  exists T, consumed s' = rev T ++ consumed s /\ G_ors allow T cs.
Proof. intros f. destruct (parser_grammar f) as [_ [_ [_ [_ [H _]]]]]. exact H. Qed.

(* the conditions of a parsed rule are the non-negated group around such a reading *)
Lemma parse_rule_conditions : forall f known cats s r s',
  parse_rule f known cats s = Ok (r, s') ->
  exists cs T, r_cond r = CGroup false cs /\ G_ors true T cs.
Proof.
  intros f known cats s r s' H. unfold parse_rule in H. repeat step H. inversion H; subst; clear H.
  cbn [r_cond].
  match goal with E : mk_group _ _ = Ok _ |- _ => apply mk_group_ok in E; subst end.
  match goal with E : parse_conditions _ _ _ _ = Ok _ |- _ =>
    apply precedence_sound in E; destruct E as [T [HT HG]] end.
  do 2 eexists. split; [reflexivity|eassumption].
Qed.

(* ====================================================================== *)
(* F. DEFINE = textual substitution, one step of the token stream          *)
(* ====================================================================== *)
Definition alias_head (als : list (str * list token)) (t : token) : bool :=
  (ttype t =? c02_T_IDENTIFIER) && isSomeB (alias_get (ttext t) als).

(* moving on to an alias name is the same as moving on to the text of its definition, provided the
   definition does not itself start with an alias name *)
Lemma alias_subst_step : forall k c n r cons als b B,
  ttype n = c02_T_IDENTIFIER -> alias_get (ttext n) als = Some (b :: B) -> alias_head als b = false ->
  consume k (mkP (Some c) (n :: r) cons als) = consume k (mkP (Some c) (b :: B ++ r) cons als).
Proof.
  intros k c n r cons als b B Hn Hal Hb. unfold consume. cbn [cur rest consumed aliases].
  destruct (negb (ttype c =? k)); [reflexivity|].
  rewrite Hn, Z.eqb_refl, Hal. cbn [app].
  unfold alias_head in Hb.
  destruct (ttype b =? c02_T_IDENTIFIER); [|reflexivity].
  cbn [andb] in Hb. destruct (alias_get (ttext b) als); [discriminate Hb|reflexivity].
Qed.

(* without the proviso the statement is false: the first token of a spliced definition is not expanded *)
Lemma alias_subst_first_token_refuted : exists k c n r cons als b B,
  ttype n = c02_T_IDENTIFIER /\ alias_get (ttext n) als = Some (b :: B) /\
  consume k (mkP (Some c) (n :: r) cons als) <> consume k (mkP (Some c) (b :: B ++ r) cons als).
Proof.
  exists c02_T_OR, (mk_token (codes "or")), (mk_token (codes "y")), [], [],
         [(codes "q", [set_aliased (mk_token (codes "b"))]);
          (codes "y", [set_aliased (mk_token (codes "q")); set_aliased (mk_token (codes "and")); set_aliased (mk_token (codes "a"))])],
         (set_aliased (mk_token (codes "q"))), [set_aliased (mk_token (codes "and")); set_aliased (mk_token (codes "a"))].
  split; [vm_compute; reflexivity|]. split; [vm_compute; reflexivity|]. vm_compute. discriminate.
Qed.

(* ====================================================================== *)
(* G. a doubled negation is never printed without parentheses              *)
(*    (Conditions.__str__ after the repair of double_negation_wrapped)     *)
(* ====================================================================== *)

(* what the proof needs of a profile name: no space in it, and not the word "not" *)
Definition name_ok (s : str) : bool := negb (existsb (Z.eqb 32) s) && negb (str_eqb s (codes "not")).
Fixpoint names_ok (c : cond) : bool :=
  match c with
  | CSingle _ name => name_ok name
  | CScore _ _ _ | CMin _ _ _ => true
  | CCds _ subs | CGroup _ subs => forallb names_ok subs
  | CAnd ops => forallb names_ok ops
  end.

Section CondInd.
  Variable P : cond -> Prop.
  Hypothesis hS : forall n name, P (CSingle n name).
  Hypothesis hSc : forall n name s, P (CScore n name s).
  Hypothesis hM : forall n k opts, P (CMin n k opts).
  Hypothesis hC : forall n subs, Forall P subs -> P (CCds n subs).
  Hypothesis hG : forall n subs, Forall P subs -> P (CGroup n subs).
  Hypothesis hA : forall ops, Forall P ops -> P (CAnd ops).
  Fixpoint cond_ind_nested (c : cond) : P c :=
    let go := fix go (l : list cond) : Forall P l :=
      match l with
      | [] => Forall_nil P
      | x :: r => Forall_cons x (cond_ind_nested x) (go r)
      end in
    match c with
    | CSingle n name => hS n name
    | CScore n name s => hSc n name s
    | CMin n k opts => hM n k opts
    | CCds n subs => hC n subs (go subs)
    | CGroup n subs => hG n subs (go subs)
    | CAnd ops => hA ops (go ops)
    end.
End CondInd.

(* some position inside both texts holds different characters *)
Fixpoint mismatch (p a : str) : bool :=
  match p, a with
  | x :: p', y :: a' => negb (x =? y) || mismatch p' a'
  | _, _ => false
  end.

Lemma mismatch_app : forall p a r, mismatch p a = true -> starts_with p (a ++ r) = false.
Proof.
  induction p as [|x p IH]; intros [|y a] r H; cbn [mismatch] in H; try discriminate H.
  cbn [app starts_with]. destruct (x =? y); cbn [negb orb andb] in *; [apply IH; assumption|reflexivity].
Qed.

Lemma starts_with_app : forall p a r, starts_with p a = true -> starts_with p (a ++ r) = true.
Proof.
  induction p as [|x p IH]; intros a r H; [reflexivity|].
  destruct a as [|y a]; cbn [starts_with] in H; [discriminate H|].
  cbn [app starts_with]. apply andb_true_iff in H. destruct H as [H1 H2]. rewrite H1, (IH _ _ H2). reflexivity.
Qed.

Lemma starts_with_longer_false : forall p q s, starts_with p s = false -> starts_with (p ++ q) s = false.
Proof.
  induction p as [|x p IH]; intros q s H; [discriminate H|].
  destruct s as [|y s]; [reflexivity|]. cbn [app starts_with] in *.
  destruct (x =? y); cbn [andb] in *; [apply IH; assumption|reflexivity].
Qed.

Lemma starts_with_strip : forall p q s, starts_with (p ++ q) (p ++ s) = starts_with q s.
Proof.
  induction p as [|x p IH]; intros q s; [reflexivity|].
  cbn [app starts_with]. rewrite Z.eqb_refl, IH. reflexivity.
Qed.

Lemma starts_with_self_app : forall p s, starts_with p (p ++ s) = true.
Proof. intros p s. apply starts_with_app. induction p as [|x p IH]; [reflexivity|]. cbn [starts_with]. rewrite Z.eqb_refl, IH. reflexivity. Qed.

(* what may follow the text of an operand: nothing, a space, or a closing parenthesis *)
Definition tail_ok (t : str) : Prop := match t with [] => True | c :: _ => c = 32 \/ c = 41 end.

Definition s_notnot : str := s_not ++ s_not.

(* the text starts with the fixed characters a: both tests are decided inside a *)
Lemma headed : forall a r t,
  mismatch s_not a = true \/ starts_with s_not a = true -> mismatch s_notnot a = true ->
  starts_with s_not ((a ++ r) ++ t) = starts_with s_not (a ++ r) /\ starts_with s_notnot ((a ++ r) ++ t) = false.
Proof.
  intros a r t H1 H2. rewrite <- app_assoc. split; [|apply mismatch_app; assumption].
  destruct H1 as [H1|H1]; [rewrite !(mismatch_app _ _ _ H1)|rewrite !(starts_with_app _ _ _ H1)]; reflexivity.
Qed.

Lemma name_tail : forall name t, name_ok name = true -> tail_ok t -> starts_with s_not (name ++ t) = false.
Proof.
  intros name t H Ht. unfold name_ok in H. apply andb_true_iff in H. destruct H as [Hs Hn].
  apply negb_true_iff in Hs. apply negb_true_iff in Hn.
  assert (Tl : forall x, starts_with [x] t = true -> x = 32 \/ x = 41).
  { intros x Hx. destruct t as [|c t]; [discriminate Hx|]. cbn [starts_with] in Hx. rewrite andb_true_r in Hx.
    apply Z.eqb_eq in Hx. subst. exact Ht. }
  change s_not with [110; 111; 116; 32].
  destruct name as [|a [|b [|c [|d r]]]]; cbn [app].
  - destruct (starts_with [110; 111; 116; 32] t) eqn:E; [|reflexivity].
    destruct t as [|x t]; [discriminate E|]. cbn [starts_with] in E. apply andb_true_iff in E. destruct E as [E _].
    apply Z.eqb_eq in E. subst. cbn [tail_ok] in Ht. lia.
  - cbn [starts_with]. destruct (110 =? a); [cbn [andb]|reflexivity].
    destruct t as [|x t]; [reflexivity|]. cbn [starts_with]. destruct (Z.eqb_spec 111 x); [|reflexivity].
    subst. cbn [tail_ok] in Ht. lia.
  - cbn [starts_with]. destruct (110 =? a); [cbn [andb]|reflexivity]. destruct (111 =? b); [cbn [andb]|reflexivity].
    destruct t as [|x t]; [reflexivity|]. cbn [starts_with]. destruct (Z.eqb_spec 116 x); [|reflexivity].
    subst. cbn [tail_ok] in Ht. lia.
  - cbn [starts_with]. destruct (Z.eqb_spec 110 a); [cbn [andb]|reflexivity].
    destruct (Z.eqb_spec 111 b); [cbn [andb]|reflexivity]. destruct (Z.eqb_spec 116 c); [cbn [andb]|reflexivity].
    subst. vm_compute in Hn. discriminate Hn.
  - cbn [starts_with]. cbn [existsb] in Hs. apply orb_false_iff in Hs. destruct Hs as [_ Hs].
    apply orb_false_iff in Hs. destruct Hs as [_ Hs]. apply orb_false_iff in Hs. destruct Hs as [_ Hs].
    apply orb_false_iff in Hs. destruct Hs as [Hs _]. rewrite Hs. cbn [andb]. rewrite !andb_false_r. reflexivity.
Qed.

Lemma tail_ok_starts : forall p t, tail_ok t -> mismatch p [32] = true -> mismatch p [41] = true -> starts_with p t = false.
Proof.
  intros p t Ht H1 H2. destruct t as [|c t].
  - destruct p; [discriminate H1|reflexivity].
  - cbn [tail_ok] in Ht. destruct Ht; subst; [apply (mismatch_app p [32] t)|apply (mismatch_app p [41] t)]; assumption.
Qed.

Lemma show_tail : forall c, names_ok c = true -> forall t, tail_ok t ->
  starts_with s_not (show c ++ t) = starts_with s_not (show c) /\ starts_with s_notnot (show c ++ t) = false.
Proof.
  induction c using cond_ind_nested; intros Hn t Ht.
  - (* CSingle *)
    cbn [names_ok] in Hn. cbn [show]. destruct n; cbn [prefix].
    + rewrite <- app_assoc. split.
      * rewrite !starts_with_self_app. reflexivity.
      * unfold s_notnot. rewrite starts_with_strip. apply name_tail; assumption.
    + cbn [app]. split.
      * rewrite (name_tail name t Hn Ht). symmetry. rewrite <- (app_nil_r name). apply name_tail; [assumption|exact I].
      * unfold s_notnot. apply starts_with_longer_false. apply name_tail; assumption.
  - (* CScore *)
    cbn [show]. destruct n; cbn [prefix].
    + rewrite (app_assoc s_not). apply headed; [right|]; reflexivity.
    + cbn [app]. apply headed; [left|]; reflexivity.
  - (* CMin *)
    cbn [show]. destruct n; cbn [prefix].
    + rewrite (app_assoc s_not). apply headed; [right|]; reflexivity.
    + cbn [app]. apply headed; [left|]; reflexivity.
  - (* CCds *)
    cbn [show]. destruct n; cbn [prefix].
    + rewrite (app_assoc s_not). apply headed; [right|]; reflexivity.
    + cbn [app]. apply headed; [left|]; reflexivity.
  - (* CGroup *)
    assert (Par : forall r, starts_with s_not ((prefix n ++ codes "(" ++ r) ++ t) = starts_with s_not (prefix n ++ codes "(" ++ r)
                            /\ starts_with s_notnot ((prefix n ++ codes "(" ++ r) ++ t) = false).
    { intros r. destruct n; cbn [prefix].
      - rewrite (app_assoc s_not). apply headed; [right|]; reflexivity.
      - cbn [app]. apply (headed (codes "(")); [left|]; reflexivity. }
    cbn [show]. destruct subs as [|sub [|sub2 rest]]; try apply Par.
    destruct (is_and sub); [apply Par|].
    destruct (n && starts_with s_not (show sub)) eqn:E; [apply Par|].
    cbn [names_ok forallb] in Hn. rewrite andb_true_r in Hn.
    inversion H as [|x l Hsub _]; subst. specialize (Hsub Hn t Ht). destruct Hsub as [I1 I2].
    destruct n; cbn [prefix].
    + cbn [andb] in E. rewrite <- app_assoc. split.
      * rewrite !starts_with_self_app. reflexivity.
      * unfold s_notnot. rewrite starts_with_strip. rewrite I1. exact E.
    + cbn [app]. split; assumption.
  - (* CAnd *)
    cbn [show]. destruct ops as [|x [|y rest]].
    + cbn [map join app]. split; apply tail_ok_starts; try assumption; reflexivity.
    + cbn [map join]. cbn [names_ok forallb] in Hn. rewrite andb_true_r in Hn.
      inversion H as [|x' l Hx _]; subst. apply Hx; assumption.
    + cbn [names_ok forallb] in Hn. apply andb_true_iff in Hn. destruct Hn as [Hx _].
      inversion H as [|x' l IHx _]; subst.
      change (join s_and_sep (map show (x :: y :: rest))) with (show x ++ s_and_sep ++ join s_and_sep (map show (y :: rest))).
      set (R := s_and_sep ++ join s_and_sep (map show (y :: rest))).
      assert (TR : forall u, tail_ok (R ++ u)) by (intros u; left; reflexivity).
      rewrite <- app_assoc.
      destruct (IHx Hx (R ++ t) (TR t)) as [A1 A2]. destruct (IHx Hx R) as [B1 _].
      { rewrite <- (app_nil_r R). apply TR. }
      split; [rewrite A1, B1; reflexivity|exact A2].
Qed.

(* an IDENTIFIER token is such a name *)
Lemma map_get_Some : forall k m v, map_get k m = Some v -> In (k, v) m.
Proof.
  induction m as [|[k' v'] m IH]; intros v H; [discriminate H|]. cbn [map_get] in H.
  destruct (str_eqb k k') eqn:E.
  - apply str_eqb_eq in E. inversion H; subst. left. reflexivity.
  - right. apply IH. assumption.
Qed.

Lemma identifier_name_ok : forall s, classify s = c02_T_IDENTIFIER -> name_ok s = true.
Proof.
  intros s H. unfold name_ok. apply andb_true_iff. split; apply negb_true_iff.
  - unfold classify in H. destruct (map_get s c02_token_mapping) eqn:E.
    + apply map_get_Some in E. subst z.
      assert (F : forallb (fun kv => negb (snd kv =? c02_T_IDENTIFIER)) c02_token_mapping = true) by (vm_compute; reflexivity).
      rewrite forallb_forall in F. specialize (F _ E). cbn [snd] in F. rewrite Z.eqb_refl in F. discriminate F.
    + destruct (all_digits s); [vm_compute in H; discriminate H|].
      destruct (is_legal_identifier s) eqn:L; [|vm_compute in H; discriminate H].
      unfold is_legal_identifier in L.
      destruct (negb (existsb is_alpha s)); [discriminate L|].
      destruct (negb (forallb (fun c => is_alpha c || is_digit c || (c =? 95) || (c =? 45)) s)) eqn:F; [discriminate L|].
      apply negb_false_iff in F. rewrite forallb_forall in F.
      destruct (existsb (Z.eqb 32) s) eqn:X; [|reflexivity].
      apply existsb_exists in X. destruct X as [c [Hc Hc2]]. apply Z.eqb_eq in Hc2. subst c.
      specialize (F _ Hc). vm_compute in F. discriminate F.
  - destruct (str_eqb s (codes "not")) eqn:E; [|reflexivity].
    apply str_eqb_eq in E. subst s. vm_compute in H. discriminate H.
Qed.

Lemma no_doubled_not : forall c, names_ok c = true -> starts_with (codes "not not ") (show c) = false.
Proof.
  intros c H. destruct (show_tail c H [] I) as [_ H2]. rewrite app_nil_r in H2. exact H2.
Qed.
