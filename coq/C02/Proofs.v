(* C02 - lemmas and proofs. *)
From Coq Require Import String.
From ASV.C02 Require Import Model.
From ASV.Gen Require Import Tables_gen.
From Coq Require Import Lia ZifyBool Sorting.Sorted.
Close Scope string_scope.
Open Scope Z_scope.

(* ====================================================================== *)
(* A. whitespace and comments are irrelevant to the tokeniser              *)
(* ====================================================================== *)

(* a character that extends the current symbol when it is the first one / a later one *)
Definition wc (c : Z) : bool := negb (is_ws c) && negb (is_single c) && is_symchar c.
Definition wc2 (c : Z) : bool :=
  negb (is_ws c) && negb (is_single c) && (is_symchar c || (negb (c =? 35) && is_urlchar c)).
Definition is_word (t : str) : bool :=
  match t with c0 :: cs => wc c0 && forallb wc2 cs | [] => false end.
Definition is_punct (t : str) : bool :=
  match t with [c] => negb (is_ws c) && is_single c | _ => false end.

(* a separator: any mix of whitespace characters and "# ... newline" comments *)
Inductive sep_ok : str -> Prop :=
| sep_nil : sep_ok []
| sep_ws : forall c r, is_ws c = true -> sep_ok r -> sep_ok (c :: r)
| sep_comment : forall body r, Forall (fun c => c <> 10) body -> sep_ok r -> sep_ok (35 :: body ++ 10 :: r).

(* tokens, each followed by its separator; two words need a non-empty separator between them *)
Fixpoint chain (ts : list (str * str)) : Prop :=
  match ts with
  | [] => True
  | (t, s) :: rest =>
    (is_word t = true \/ is_punct t = true) /\ sep_ok s /\
    (is_word t = true -> s = [] -> match rest with (t2, _) :: _ => is_word t2 = false | [] => True end) /\
    chain rest
  end.
Definition body (ts : list (str * str)) : str := flat_map (fun ts => fst ts ++ snd ts) ts.
Definition render (s0 : str) (ts : list (str * str)) : str := s0 ++ body ts.

Lemma pre_nil : forall x, pre [] x = x.
Proof. intros [l|k]; reflexivity. Qed.

Lemma pre_pre : forall a b x, pre a (pre b x) = pre (a ++ b) x.
Proof. intros a b [l|k]; cbn [pre]; [rewrite app_assoc|]; reflexivity. Qed.

Lemma comment_skip : forall bodyc x sym, Forall (fun c => c <> 10) bodyc ->
  tok_aux (bodyc ++ 10 :: x) sym true = tok_aux x sym false.
Proof.
  induction bodyc as [|c r IH]; intros x sym HF.
  - cbn [app tok_aux]. rewrite Z.eqb_refl. reflexivity.
  - inversion HF as [|c' r' Hc Hr]; subst. cbn [app tok_aux].
    destruct (c =? 10) eqn:E; [apply Z.eqb_eq in E; contradiction|]. apply IH; assumption.
Qed.

Lemma sep_step : forall s, sep_ok s -> forall r sym,
  tok_aux (s ++ r) sym false =
  match s with [] => tok_aux r sym false | _ => pre (flush sym) (tok_aux r [] false) end.
Proof.
  induction 1 as [|c r0 Hc Hs IH|bodyc r0 HF Hs IH]; intros r sym.
  - reflexivity.
  - cbn [app tok_aux]. rewrite Hc. rewrite IH. destruct r0; [reflexivity|].
    cbn [flush]. rewrite pre_nil. reflexivity.
  - cbn [app]. cbn [tok_aux].
    replace (is_ws 35) with false by (vm_compute; reflexivity).
    replace (is_single 35) with false by (vm_compute; reflexivity).
    replace (is_symchar 35) with false by (vm_compute; reflexivity).
    replace (35 =? 35) with true by reflexivity.
    rewrite <- app_assoc. cbn [app]. rewrite comment_skip by assumption.
    rewrite IH. destruct r0; [reflexivity|]. cbn [flush]. rewrite pre_nil. reflexivity.
Qed.

Lemma word_tail : forall cs r sym, sym <> [] -> forallb wc2 cs = true ->
  tok_aux (cs ++ r) sym false = tok_aux r (rev cs ++ sym) false.
Proof.
  induction cs as [|c cs IH]; intros r sym Hsym HF.
  - reflexivity.
  - cbn [forallb] in HF. apply andb_true_iff in HF. destruct HF as [Hc HF].
    unfold wc2 in Hc. apply andb_true_iff in Hc. destruct Hc as [Hc Hc3].
    apply andb_true_iff in Hc. destruct Hc as [Hc1 Hc2].
    apply negb_true_iff in Hc1. apply negb_true_iff in Hc2.
    cbn [app tok_aux]. rewrite Hc1, Hc2.
    assert (Hstep : (if is_symchar c then tok_aux (cs ++ r) (c :: sym) false
                     else if c =? 35 then pre (flush sym) (tok_aux (cs ++ r) [] true)
                     else if (match sym with [] => false | _ => true end) && is_urlchar c
                          then tok_aux (cs ++ r) (c :: sym) false else Err E_RuleSyntax)
                    = tok_aux (cs ++ r) (c :: sym) false).
    { destruct (is_symchar c) eqn:E1; [reflexivity|]. cbn [orb] in Hc3.
      apply andb_true_iff in Hc3. destruct Hc3 as [H35 Hu]. apply negb_true_iff in H35.
      rewrite H35, Hu. destruct sym; [contradiction|reflexivity]. }
    rewrite Hstep. rewrite IH; [|discriminate|assumption].
    cbn [rev]. rewrite <- app_assoc. reflexivity.
Qed.

Lemma flush_word : forall cs c0, flush (rev cs ++ [c0]) = [c0 :: cs].
Proof.
  intros cs c0. destruct (rev cs ++ [c0]) eqn:E.
  - destruct (rev cs); discriminate E.
  - cbn [flush]. rewrite <- E. rewrite rev_app_distr, rev_involutive. reflexivity.
Qed.

Lemma chain_tokens : forall ts, chain ts -> forall sym,
  (sym <> [] -> match ts with (t, _) :: _ => is_word t = false | [] => True end) ->
  tok_aux (body ts) sym false = Ok (flush sym ++ map fst ts).
Proof.
  induction ts as [|[t s] rest IH]; intros Hch sym Hsym.
  - cbn. rewrite app_nil_r. reflexivity.
  - cbn [chain] in Hch. destruct Hch as [Hkind [Hsep [Hadj Hrest]]].
    unfold body. cbn [flat_map fst snd]. fold (body rest). cbn [map fst].
    destruct (is_word t) eqn:Hw.
    + (* a word: the current symbol is empty *)
      assert (Hs0 : sym = []).
      { destruct sym as [|x xs]; [reflexivity|]. exfalso.
        assert (Hf : true = false) by (apply Hsym; discriminate). discriminate Hf. }
      subst sym. destruct t as [|c0 cs]; [discriminate Hw|].
      cbn [is_word] in Hw. apply andb_true_iff in Hw. destruct Hw as [Hc0 Hcs].
      unfold wc in Hc0. apply andb_true_iff in Hc0. destruct Hc0 as [Hc0 Hc03].
      apply andb_true_iff in Hc0. destruct Hc0 as [Hc01 Hc02].
      apply negb_true_iff in Hc01. apply negb_true_iff in Hc02.
      rewrite <- app_assoc. cbn [app tok_aux]. rewrite Hc01, Hc02, Hc03.
      rewrite word_tail; [|discriminate|assumption].
      rewrite sep_step by assumption.
      destruct s as [|s1 sr].
      * rewrite IH; [|assumption|].
        -- rewrite flush_word. reflexivity.
        -- intros _. apply Hadj; reflexivity.
      * rewrite IH; [|assumption|intros C; contradiction C; reflexivity].
        rewrite flush_word. reflexivity.
    + (* a punctuation token *)
      destruct Hkind as [C|Hp]; [discriminate C|].
      destruct t as [|c [|c2 t2]]; try discriminate Hp.
      cbn [is_punct] in Hp. apply andb_true_iff in Hp. destruct Hp as [Hp1 Hp2].
      apply negb_true_iff in Hp1.
      cbn [app tok_aux]. rewrite Hp1, Hp2. rewrite sep_step by assumption.
      assert (Hnext : tok_aux (body rest) [] false = Ok (map fst rest)).
      { rewrite IH; [reflexivity|assumption|intros C; contradiction C; reflexivity]. }
      destruct s as [|s1 sr].
      * rewrite Hnext. cbn [pre]. rewrite <- app_assoc. reflexivity.
      * cbn [flush]. rewrite pre_nil. rewrite Hnext. cbn [pre]. rewrite <- app_assoc. reflexivity.
Qed.

Lemma tokens_ws : forall s0 ts, sep_ok s0 -> chain ts -> tokenise (render s0 ts) = Ok (map fst ts).
Proof.
  intros s0 ts Hs Hch. unfold tokenise, render. rewrite sep_step by assumption.
  assert (H : tok_aux (body ts) [] false = Ok (map fst ts)).
  { rewrite chain_tokens; [reflexivity|assumption|intros C; contradiction C; reflexivity]. }
  destruct s0; [assumption|]. cbn [flush]. rewrite pre_nil. assumption.
Qed.

(* the separators do not matter: two renderings of the same tokens give the same token list *)
Lemma tokens_ws_irrelevant : forall s0 s0' ts ts',
  sep_ok s0 -> sep_ok s0' -> chain ts -> chain ts' -> map fst ts = map fst ts' ->
  tokenise (render s0 ts) = tokenise (render s0' ts').
Proof.
  intros. rewrite !tokens_ws by assumption. congruence.
Qed.

(* ====================================================================== *)
(* generic helpers                                                         *)
(* ====================================================================== *)

Ltac step H :=
  match type of H with
  | bind ?e _ = Ok _ =>
    let E := fresh "E" in destruct e eqn:E; [cbn [bind] in H | discriminate H]
  | (if ?c then _ else _) = Ok _ => let C := fresh "C" in destruct c eqn:C; try discriminate H
  | match ?x with _ => _ end = Ok _ => destruct x eqn:?; try discriminate H
  end.

Lemma str_eqb_eq : forall a b, str_eqb a b = true <-> a = b.
Proof.
  unfold str_eqb. induction a as [|x xs IH]; intros [|y ys]; cbn [list_eqb]; split; intros H;
    try reflexivity; try discriminate H.
  - apply andb_true_iff in H. destruct H as [H1 H2]. apply Z.eqb_eq in H1. apply IH in H2. congruence.
  - inversion H; subst. rewrite Z.eqb_refl. cbn [andb]. apply IH. reflexivity.
Qed.

Lemma str_eqb_refl : forall a, str_eqb a a = true.
Proof. intros a. apply str_eqb_eq. reflexivity. Qed.

Lemma smem_In : forall x l, smem x l = true <-> In x l.
Proof.
  unfold smem. intros x l. rewrite existsb_exists. split.
  - intros [y [Hy He]]. apply str_eqb_eq in He. subst. assumption.
  - intros H. exists x. split; [assumption|apply str_eqb_refl].
Qed.

Lemma smem_false : forall x l, smem x l = false <-> ~ In x l.
Proof.
  intros x l. split; intros H.
  - intros HI. apply smem_In in HI. congruence.
  - destruct (smem x l) eqn:E; [|reflexivity]. apply smem_In in E. contradiction.
Qed.

Lemma forallb_rev : forall {A} (p : A -> bool) l, forallb p (rev l) = forallb p l.
Proof.
  induction l as [|x xs IH]; [reflexivity|]. cbn [rev forallb]. rewrite forallb_app, IH. cbn [forallb].
  rewrite andb_true_r. apply andb_comm.
Qed.

(* ====================================================================== *)
(* C. a repeated operand is never part of a parsed condition               *)
(* ====================================================================== *)

Fixpoint nrb (c : cond) : bool :=
  match c with
  | CSingle _ _ | CScore _ _ _ => true
  | CMin _ k opts => negb (has_dup opts) && (1 <=? k)
  | CCds _ subs | CGroup _ subs => negb (has_dup (map show subs)) && forallb nrb subs
  | CAnd ops => negb (has_dup (map show ops)) && forallb nrb ops
  end.

Lemma mk_group_nrb : forall n subs c, mk_group n subs = Ok c -> forallb nrb subs = true -> nrb c = true.
Proof.
  unfold mk_group, check_operands. intros n subs c H HF.
  destruct (has_dup (map show subs)) eqn:E; cbn [bind] in H; [discriminate H|].
  inversion H; subst. cbn [nrb]. rewrite E, HF. reflexivity.
Qed.
Lemma mk_cds_nrb : forall n subs c, mk_cds n subs = Ok c -> forallb nrb subs = true -> nrb c = true.
Proof.
  unfold mk_cds, check_operands. intros n subs c H HF.
  destruct (has_dup (map show subs)) eqn:E; cbn [bind] in H; [discriminate H|].
  inversion H; subst. cbn [nrb]. rewrite E, HF. reflexivity.
Qed.
Lemma mk_and_nrb : forall ops c, mk_and ops = Ok c -> forallb nrb ops = true -> nrb c = true.
Proof.
  unfold mk_and, check_operands. intros ops c H HF.
  destruct (has_dup (map show ops)) eqn:E; cbn [bind] in H; [discriminate H|].
  inversion H; subst. cbn [nrb]. rewrite E, HF. reflexivity.
Qed.
Lemma mk_min_nrb : forall n k opts c, mk_min n k opts = Ok c -> nrb c = true.
Proof.
  unfold mk_min. intros n k opts c H. destruct (has_dup opts) eqn:E; [discriminate H|].
  destruct (k <? 1) eqn:E2; [discriminate H|]. inversion H; subst. cbn [nrb]. rewrite E. cbn [negb andb]. lia.
Qed.

Lemma parse_minimum_nrb : forall f n s c s', parse_minimum f n s = Ok (c, s') -> nrb c = true.
Proof.
  intros f n s c s' H. unfold parse_minimum in H. repeat step H.
  inversion H; subst. eapply mk_min_nrb; eassumption.
Qed.
Lemma parse_score_nrb : forall n s c s', parse_score n s = Ok (c, s') -> nrb c = true.
Proof.
  intros n s c s' H. unfold parse_score in H. repeat step H. inversion H; subst. reflexivity.
Qed.

Definition P_single f := forall allow s c s', parse_single f allow s = Ok (c, s') -> nrb c = true.
Definition P_cds f := forall s cs s', parse_cds f s = Ok (cs, s') -> forallb nrb cs = true.
Definition P_ands f := forall allow lv s a s', nrb lv = true -> parse_ands f allow lv s = Ok (a, s') -> nrb a = true.
Definition P_andloop f := forall allow acc s cs s',
  forallb nrb acc = true -> and_loop f allow acc s = Ok (cs, s') -> forallb nrb cs = true.
Definition P_conds f := forall allow g s cs s', parse_conditions f allow g s = Ok (cs, s') -> forallb nrb cs = true.
Definition P_condloop f := forall allow acc lv app s cs s',
  forallb nrb acc = true -> nrb lv = true -> cond_loop f allow acc lv app s = Ok (cs, s') -> forallb nrb cs = true.

Lemma parser_nrb : forall f, P_single f /\ P_cds f /\ P_ands f /\ P_andloop f /\ P_conds f /\ P_condloop f.
Proof.
  induction f as [|f IH].
  - repeat split; red; intros; cbn in *; discriminate.
  - destruct IH as [IHs [IHc [IHa [IHal [IHcs IHcl]]]]].
    repeat split; red.
    + (* parse_single *)
      intros allow s c s' H. cbn [parse_single] in H. repeat step H.
      * inversion H; subst. eapply mk_group_nrb; [eassumption|]. eapply IHcs; eassumption.
      * eapply parse_minimum_nrb; eassumption.
      * inversion H; subst. eapply mk_cds_nrb; [eassumption|]. eapply IHc; eassumption.
      * eapply parse_score_nrb; eassumption.
      * inversion H; subst. reflexivity.
    + (* parse_cds *)
      intros s cs s' H. cbn [parse_cds] in H. repeat step H;
        inversion H; subst; eapply IHcs; eassumption.
    + (* parse_ands *)
      intros allow lv s a s' Hlv H. cbn [parse_ands] in H. repeat step H.
      inversion H; subst. eapply mk_and_nrb; [eassumption|].
      eapply IHal; [|eassumption]. cbn [forallb]. rewrite Hlv.
      erewrite IHs by eassumption. reflexivity.
    + (* and_loop *)
      intros allow acc s cs s' Hacc H. cbn [and_loop] in H. repeat step H.
      * eapply IHal; [|eassumption]. cbn [forallb]. rewrite Hacc. erewrite IHs by eassumption. reflexivity.
      * inversion H; subst. rewrite forallb_rev. assumption.
    + (* parse_conditions *)
      intros allow g s cs s' H. cbn [parse_conditions] in H. repeat step H.
      inversion H; subst. eapply IHcl; [| |eassumption]; [reflexivity|]. eapply IHs; eassumption.
    + (* cond_loop *)
      intros allow acc lv app s cs s' Hacc Hlv H. cbn [cond_loop] in H. repeat step H.
      * eapply IHcl; [| |eassumption]; [|assumption]. cbn [forallb]. rewrite Hacc.
        erewrite IHa; [reflexivity|eassumption|eassumption].
      * eapply IHcl; [| |eassumption]; [|eapply IHs; eassumption].
        destruct app; [cbn [forallb]; rewrite Hlv, Hacc; reflexivity|assumption].
      * inversion H; subst. rewrite forallb_rev.
        destruct app; [cbn [forallb]; rewrite Hlv, Hacc; reflexivity|assumption].
Qed.

(* ====================================================================== *)
(* rule level: what a successfully parsed rule satisfies                   *)
(* ====================================================================== *)

Lemma parse_superiors_inv : forall f known s l s',
  parse_superiors f known s = Ok (l, s') -> exists sups, close_superiors known sups = Ok l.
Proof.
  intros f known s l s' H. unfold parse_superiors in H. repeat step H.
  inversion H; subst. eexists. eassumption.
Qed.

Lemma consume_type : forall k s t s', consume k s = Ok (t, s') -> ttype t = k.
Proof.
  intros k s t s' H. unfold consume in H. destruct (cur s) as [c|]; [|discriminate H].
  destruct (ttype c =? k) eqn:E; cbn [negb] in H; [|discriminate H].
  apply Z.eqb_eq in E. repeat step H; inversion H; subst; (reflexivity || assumption).
Qed.

Lemma parse_conditions_nrb : forall f allow g s cs s',
  parse_conditions f allow g s = Ok (cs, s') -> forallb nrb cs = true.
Proof. intros f. destruct (parser_nrb f) as [_ [_ [_ [_ [H _]]]]]. exact H. Qed.

(* everything the rule-level theorems need, read off one successful run of _parse_rule *)
Lemma parse_rule_inv : forall f known cats s r s',
  parse_rule f known cats s = Ok (r, s') ->
  (r_sup r = [] \/ exists sups, close_superiors known sups = Ok (r_sup r))
  /\ nrb (r_cond r) = true /\ positive (r_cond r) = true
  /\ smem (r_cat r) cats = true
  /\ (exists tc tn, ttype tc = c02_T_INT /\ ttype tn = c02_T_INT /\
                    r_cutoff r = int_of (ttext tc) * 1000 /\ r_neigh r = int_of (ttext tn) * 1000)
  /\ match r_ext r with Some e => positive e = true | None => True end.
Proof.
  intros f known cats s r s' H. unfold parse_rule in H.
  repeat step H. inversion H; subst; clear H.
  cbn [r_sup r_cond r_cat r_cutoff r_neigh r_ext].
  split; [|split; [|split; [|split; [|split]]]].
  - match goal with
    | E : (if ?c then parse_superiors _ _ _ else _) = Ok _ |- _ =>
      destruct c; [apply parse_superiors_inv in E; right; exact E | inversion E; subst; left; reflexivity]
    end.
  - eapply mk_group_nrb; [eassumption|]. eapply parse_conditions_nrb; eassumption.
  - apply negb_false_iff; assumption.
  - apply negb_false_iff; assumption.
  - match goal with
    | |- exists tc tn, _ /\ _ /\ int_of (ttext ?a) * 1000 = _ /\ int_of (ttext ?b) * 1000 = _ => exists a, b
    end.
    repeat split; eapply consume_type; eassumption.
  - match goal with
    | |- match ?o with Some _ => _ | None => True end => destruct o as [e|]; [|exact I]
    end.
    match goal with
    | E : (if negb (positive e) then _ else _) = Ok _ |- _ =>
      destruct (positive e); [reflexivity|discriminate E]
    end.
Qed.

(* ====================================================================== *)
(* B. SUPERIORS are closed transitively and mention only earlier rules     *)
(* ====================================================================== *)

Lemma insert_by_In : forall {A} (lt : A -> A -> bool) x y l, In x (insert_by lt y l) <-> x = y \/ In x l.
Proof.
  induction l as [|z zs IH]; cbn [insert_by].
  - cbn. intuition congruence.
  - destruct (lt y z); cbn [In]; [intuition congruence|]. rewrite IH. intuition congruence.
Qed.

Lemma sort_by_In : forall {A} (lt : A -> A -> bool) x l, In x (sort_by lt l) <-> In x l.
Proof.
  intros A lt x l. unfold sort_by.
  assert (G : forall l acc, In x (fold_left (fun acc y => insert_by lt y acc) l acc) <-> In x l \/ In x acc).
  { induction l0 as [|y ys IH]; intros acc; cbn [fold_left In]; [intuition|].
    rewrite IH, insert_by_In. intuition congruence. }
  rewrite G. cbn [In]. intuition.
Qed.

Lemma dedupe_acc_In : forall x l seen, In x (dedupe_acc seen l) <-> In x l /\ ~ In x seen.
Proof.
  induction l as [|y ys IH]; intros seen; cbn [dedupe_acc In]; [intuition|].
  destruct (smem y seen) eqn:E.
  - apply smem_In in E. rewrite IH. split.
    + intros [H1 H2]. auto.
    + intros [[H1|H1] H2]; [subst; contradiction|auto].
  - apply smem_false in E. cbn [In]. rewrite IH. cbn [In].
    destruct (str_eqb y x) eqn:Exy.
    + apply str_eqb_eq in Exy. subst. intuition.
    + assert (y <> x) by (intros C; apply str_eqb_eq in C; congruence). intuition.
Qed.

Lemma sorted_set_In : forall x l, In x (sorted_set l) <-> In x l.
Proof.
  intros x l. unfold sorted_set, dedupe. rewrite sort_by_In, dedupe_acc_In. cbn [In]. intuition.
Qed.

(* the text of the property, on the list of rules built so far:
   sup_ok known r : every superior of r names a known (= earlier) rule, all of whose superiors are
   superiors of r as well *)
Definition sup_ok (known : list rule) (r : rule) : Prop :=
  forall s, In s (r_sup r) -> exists p, known_get s known = Some p /\ incl (r_sup p) (r_sup r).

Inductive closed_rules : list rule -> Prop :=
| cr_nil : closed_rules []
| cr_snoc : forall rs r, closed_rules rs -> sup_ok rs r -> known_get (r_name r) rs = None ->
                         closed_rules (rs ++ [r]).

Lemma known_get_app : forall k a b,
  known_get k (a ++ b) = match known_get k a with Some p => Some p | None => known_get k b end.
Proof.
  induction a as [|x xs IH]; intros b; cbn [app known_get]; [reflexivity|].
  destruct (str_eqb k (r_name x)); [reflexivity|apply IH].
Qed.

Lemma known_get_some : forall k rs p, known_get k rs = Some p -> In p rs /\ r_name p = k.
Proof.
  induction rs as [|x xs IH]; intros p H; cbn [known_get] in H; [discriminate H|].
  destruct (str_eqb k (r_name x)) eqn:E.
  - inversion H; subst. apply str_eqb_eq in E. split; [left; reflexivity|congruence].
  - apply IH in H. destruct H as [H1 H2]. split; [right; assumption|assumption].
Qed.

Lemma known_get_none : forall k rs, known_get k rs = None -> ~ In k (map r_name rs).
Proof.
  induction rs as [|x xs IH]; intros H; cbn [known_get map In] in *; [intuition|].
  destruct (str_eqb k (r_name x)) eqn:E; [discriminate H|].
  intros [C|C]; [subst; rewrite str_eqb_refl in E; discriminate E|apply IH; assumption].
Qed.

Lemma sup_ok_mono : forall rs r x, sup_ok rs r -> sup_ok (rs ++ [x]) r.
Proof.
  intros rs r x H s Hs. destruct (H s Hs) as [p [Hp Hi]]. exists p. split; [|assumption].
  rewrite known_get_app, Hp. reflexivity.
Qed.

Lemma closed_lookup : forall rs, closed_rules rs -> forall s p, known_get s rs = Some p -> sup_ok rs p.
Proof.
  induction 1 as [|rs r Hc IH Hr Hn]; intros s p Hg; [discriminate Hg|].
  rewrite known_get_app in Hg. destruct (known_get s rs) as [q|] eqn:E.
  - inversion Hg; subst. apply sup_ok_mono. eapply IH; eassumption.
  - cbn [known_get] in Hg. destruct (str_eqb s (r_name r)); [|discriminate Hg].
    inversion Hg; subst. apply sup_ok_mono. assumption.
Qed.

Lemma transitive_spec : forall known sups t, transitive known sups = Ok t ->
  (forall s, In s sups -> exists p, known_get s known = Some p /\ incl (r_sup p) t) /\
  (forall x, In x t -> exists s p, In s sups /\ known_get s known = Some p /\ In x (r_sup p)).
Proof.
  induction sups as [|n r IH]; intros t H; cbn [transitive] in H.
  - inversion H; subst. split; [intros s []|intros x []].
  - destruct (known_get n known) as [p|] eqn:E; [|discriminate H].
    destruct (transitive known r) as [t0|] eqn:E2; cbn [bind] in H; [|discriminate H].
    inversion H; subst. destruct (IH t0 eq_refl) as [IH1 IH2]. split.
    + intros s [Hs|Hs].
      * subst. exists p. split; [assumption|]. apply incl_appl. apply incl_refl.
      * destruct (IH1 s Hs) as [q [Hq Hi]]. exists q. split; [assumption|]. apply incl_appr. assumption.
    + intros x Hx. apply in_app_or in Hx. destruct Hx as [Hx|Hx].
      * exists n, p. split; [left; reflexivity|split; assumption].
      * destruct (IH2 x Hx) as [s [q [H1 [H2 H3]]]]. exists s, q. split; [right; assumption|split; assumption].
Qed.

Lemma close_superiors_ok : forall known sups l,
  closed_rules known -> close_superiors known sups = Ok l ->
  forall x, In x l -> exists q, known_get x known = Some q /\ incl (r_sup q) l.
Proof.
  intros known sups l Hc H x Hx. unfold close_superiors in H.
  destruct (has_dup sups); [discriminate H|].
  destruct (transitive known sups) as [t|] eqn:E; cbn [bind] in H; [|discriminate H].
  inversion H; subst. destruct (transitive_spec _ _ _ E) as [T1 T2].
  apply (proj1 (sorted_set_In _ _)) in Hx. apply in_app_or in Hx. destruct Hx as [Hx|Hx].
  - destruct (T1 x Hx) as [p [Hp Hi]]. exists p. split; [assumption|].
    intros y Hy. apply (proj2 (sorted_set_In _ _)). apply in_or_app. right. apply Hi. assumption.
  - destruct (T2 x Hx) as [s [p [Hs [Hp Hxp]]]].
    destruct (closed_lookup _ Hc _ _ Hp x Hxp) as [q [Hq Hqi]]. exists q. split; [assumption|].
    destruct (T1 s Hs) as [p' [Hp' Hi]]. rewrite Hp in Hp'. inversion Hp'; subst.
    intros y Hy. apply (proj2 (sorted_set_In _ _)). apply in_or_app. right. apply Hi. apply Hqi. assumption.
Qed.

(* the list of superiors is free of duplicates *)
Lemma insert_by_NoDup : forall {A} (lt : A -> A -> bool) y l, ~ In y l -> NoDup l -> NoDup (insert_by lt y l).
Proof.
  induction l as [|z zs IH]; intros Hn Hd; cbn [insert_by].
  - constructor; [intros []|constructor].
  - destruct (lt y z); [constructor; assumption|].
    inversion Hd; subst. constructor.
    + rewrite insert_by_In. cbn [In] in Hn. intuition.
    + apply IH; [cbn [In] in Hn; intuition|assumption].
Qed.

Lemma sort_by_NoDup : forall {A} (lt : A -> A -> bool) l, NoDup l -> NoDup (sort_by lt l).
Proof.
  intros A lt l. unfold sort_by.
  assert (G : forall l acc, NoDup l -> NoDup acc -> (forall x, In x l -> ~ In x acc) ->
                            NoDup (fold_left (fun acc y => insert_by lt y acc) l acc)).
  { induction l0 as [|y ys IH]; intros acc Hl Ha Hd; cbn [fold_left]; [assumption|].
    inversion Hl; subst. apply IH; [assumption| |].
    - apply insert_by_NoDup; [apply Hd; left; reflexivity|assumption].
    - intros x Hx. rewrite insert_by_In. intros [C|C]; [subst; contradiction|].
      apply (Hd x); [right; assumption|assumption]. }
  intros Hl. apply G; [assumption|constructor|intros x _ []].
Qed.

Lemma dedupe_acc_NoDup : forall l seen, NoDup (dedupe_acc seen l).
Proof.
  induction l as [|y ys IH]; intros seen; cbn [dedupe_acc]; [constructor|].
  destruct (smem y seen); [apply IH|]. constructor; [|apply IH].
  rewrite dedupe_acc_In. cbn [In]. intuition.
Qed.

Lemma sorted_set_NoDup : forall l, NoDup (sorted_set l).
Proof. intros l. unfold sorted_set, dedupe. apply sort_by_NoDup. apply dedupe_acc_NoDup. Qed.

Lemma close_superiors_NoDup : forall known sups l, close_superiors known sups = Ok l -> NoDup l.
Proof.
  intros known sups l H. unfold close_superiors in H. destruct (has_dup sups); [discriminate H|].
  destruct (transitive known sups); cbn [bind] in H; [|discriminate H].
  inversion H; subst. apply sorted_set_NoDup.
Qed.

(* ====================================================================== *)
(* G. the superiors are sorted (Python's sorted() on str)                  *)
(* ====================================================================== *)
Definition str_le (a b : str) : Prop := str_ltb b a = false.

Lemma str_ltb_asym : forall a b, str_ltb a b = true -> str_ltb b a = false.
Proof.
  induction a as [|x xs IH]; intros [|y ys] H; cbn [str_ltb] in *; try reflexivity; try discriminate H.
  destruct (x <? y) eqn:E1.
  - assert (E2 : (y <? x) = false) by lia. rewrite E2. reflexivity.
  - destruct (y <? x) eqn:E2; [discriminate H|]. apply IH. assumption.
Qed.

Lemma str_le_trans : forall a b c, str_le a b -> str_le b c -> str_le a c.
Proof.
  unfold str_le. induction a as [|x xs IH]; intros b c H1 H2.
  - destruct c; reflexivity.
  - destruct b as [|y ys]; [cbn [str_ltb] in H1; discriminate H1|].
    destruct c as [|z zs]; [destruct ys; cbn [str_ltb] in H2; discriminate H2|].
    cbn [str_ltb] in *.
    destruct (y <? x) eqn:E1; [discriminate H1|].
    destruct (z <? y) eqn:E2; [discriminate H2|].
    destruct (x <? y) eqn:E3.
    + assert (E4 : (z <? x) = false) by lia. rewrite E4.
      destruct (x <? z) eqn:E5; [reflexivity|]. exfalso. lia.
    + destruct (y <? z) eqn:E4.
      * assert (E5 : (z <? x) = false) by lia. rewrite E5.
        assert (E6 : (x <? z) = true) by lia. rewrite E6. reflexivity.
      * assert (E5 : (z <? x) = false) by lia. rewrite E5.
        assert (E6 : (x <? z) = false) by lia. rewrite E6. eapply IH; eassumption.
Qed.

Lemma insert_by_sorted : forall x l, StronglySorted str_le l -> StronglySorted str_le (insert_by str_ltb x l).
Proof.
  induction l as [|y ys IH]; intros Hs; cbn [insert_by].
  - constructor; [constructor|constructor].
  - inversion Hs as [|y' ys' Hs' Hall]; subst.
    destruct (str_ltb x y) eqn:E.
    + constructor; [assumption|]. constructor.
      * unfold str_le. apply str_ltb_asym. assumption.
      * eapply Forall_impl; [|eassumption]. intros z Hz. eapply str_le_trans; [|eassumption].
        unfold str_le. apply str_ltb_asym. assumption.
    + constructor; [apply IH; assumption|].
      apply Forall_forall. intros z Hz. apply insert_by_In in Hz. destruct Hz as [Hz|Hz].
      * subst. exact E.
      * rewrite Forall_forall in Hall. apply Hall. assumption.
Qed.

Lemma sort_by_sorted : forall l, StronglySorted str_le (sort_by str_ltb l).
Proof.
  intros l. unfold sort_by.
  assert (G : forall l acc, StronglySorted str_le acc ->
                            StronglySorted str_le (fold_left (fun acc y => insert_by str_ltb y acc) l acc)).
  { induction l0 as [|y ys IH]; intros acc Ha; cbn [fold_left]; [assumption|].
    apply IH. apply insert_by_sorted. assumption. }
  apply G. constructor.
Qed.

Lemma close_superiors_sorted : forall known sups l, close_superiors known sups = Ok l -> StronglySorted str_le l.
Proof.
  intros known sups l H. unfold close_superiors in H. destruct (has_dup sups); [discriminate H|].
  destruct (transitive known sups); cbn [bind] in H; [|discriminate H].
  inversion H; subst. unfold sorted_set. apply sort_by_sorted.
Qed.

(* ---------- invariants of the rule list through Parser.__init__ and create_rules ---------- *)
Definition rule_ok (cats : list str) (m : mults) (r : rule) : Prop :=
  nrb (r_cond r) = true /\ positive (r_cond r) = true /\ smem (r_cat r) cats = true
  /\ (NoDup (r_sup r) /\ StronglySorted str_le (r_sup r))
  /\ (exists tc tn, ttype tc = c02_T_INT /\ ttype tn = c02_T_INT /\
                    r_cutoff r = scale (int_of (ttext tc) * 1000) (mc_num m) (mc_den m) /\
                    r_neigh r = scale (int_of (ttext tn) * 1000) (mn_num m) (mn_den m))
  /\ match r_ext r with Some e => positive e = true | None => True end.

Lemma main_loop_inv : forall n sigs cats m rules s rules' s',
  closed_rules rules -> Forall (rule_ok cats m) rules ->
  main_loop n sigs cats m rules s = Ok (rules', s') ->
  closed_rules rules' /\ Forall (rule_ok cats m) rules'.
Proof.
  induction n as [|n IH]; intros sigs cats m rules s rules' s' Hc Hf H; cbn [main_loop] in H; [discriminate H|].
  destruct (cur s) as [t|]; [|inversion H; subst; split; assumption].
  destruct (negb (is_starter (ttype t))); [discriminate H|].
  destruct (ttype t =? c02_T_DEFINE).
  - repeat step H. eapply IH; eassumption.
  - repeat step H.
    match goal with E : parse_rule _ _ _ _ = Ok _ |- _ => apply parse_rule_inv in E; rename E into Hr end.
    destruct Hr as [Hsup [Hnr [Hpos [Hcat [[tc [tn [Htc [Htn [Hcut Hne]]]]] Hext]]]]].
    eapply IH; [| |eassumption].
    + apply cr_snoc; [assumption| |].
      * intros x Hx. cbn [r_sup] in Hx |- *.
        destruct Hsup as [Hs|[sups Hs]]; [rewrite Hs in Hx; destruct Hx|].
        eapply close_superiors_ok; eassumption.
      * cbn [r_name]. match goal with C : isSomeB (known_get ?k rules) = false |- _ =>
          destruct (known_get k rules); [discriminate C|reflexivity] end.
    + apply Forall_app. split; [assumption|]. constructor; [|constructor].
      unfold rule_ok. cbn [r_cond r_cat r_sup r_cutoff r_neigh r_ext].
      split; [assumption|]. split; [assumption|]. split; [assumption|]. split.
      * destruct Hsup as [Hs|[sups Hs]]; [rewrite Hs; split; constructor|].
        split; [eapply close_superiors_NoDup; eassumption|eapply close_superiors_sorted; eassumption].
      * split; [|assumption]. exists tc, tn. rewrite Hcut, Hne. repeat split; assumption.
Qed.

Lemma parse_text_inv : forall text sigs cats m rules als rules' als',
  closed_rules rules -> Forall (rule_ok cats m) rules ->
  parse_text text sigs cats m rules als = Ok (rules', als') ->
  closed_rules rules' /\ Forall (rule_ok cats m) rules'.
Proof.
  intros text sigs cats m rules als rules' als' Hc Hf H. unfold parse_text in H.
  repeat step H. inversion H; subst. eapply main_loop_inv; eassumption.
Qed.

Lemma parse_files_inv : forall files idx sigs cats m rules als rules' als',
  closed_rules rules -> Forall (rule_ok cats m) rules ->
  parse_files files idx sigs cats m rules als = inl (rules', als') ->
  closed_rules rules' /\ Forall (rule_ok cats m) rules'.
Proof.
  induction files as [|text more IH]; intros idx sigs cats m rules als rules' als' Hc Hf H; cbn [parse_files] in H.
  - inversion H; subst. split; assumption.
  - destruct (parse_text text sigs cats m rules als) as [[r1 a1]|k] eqn:E; [|discriminate H].
    destruct (parse_text_inv _ _ _ _ _ _ _ _ Hc Hf E) as [Hc1 Hf1].
    eapply IH; eassumption.
Qed.

(* closed_rules in plain words *)
Lemma closed_rules_spec : forall rs, closed_rules rs -> forall pre r post, rs = pre ++ r :: post ->
  ~ In (r_name r) (map r_name pre) /\
  forall s, In s (r_sup r) -> exists p, In p pre /\ r_name p = s /\ incl (r_sup p) (r_sup r).
Proof.
  induction 1 as [|rs r0 Hc IH Hr Hn]; intros pre r post Heq.
  - destruct pre; discriminate Heq.
  - destruct post as [|x post'] using rev_ind.
    + apply app_inj_tail in Heq. destruct Heq as [H1 H2]. subst. split.
      * apply known_get_none. assumption.
      * intros s Hs. destruct (Hr s Hs) as [p [Hp Hi]]. apply known_get_some in Hp.
        exists p. intuition.
    + clear IHpost'. rewrite app_comm_cons, app_assoc in Heq. apply app_inj_tail in Heq.
      destruct Heq as [H1 H2]. subst. eapply IH. reflexivity.
Qed.

Lemma superiors_closed : forall files sigs cats m rules als,
  parse_files files 0 sigs cats m [] [] = inl (rules, als) ->
  forall pre r post, rules = pre ++ r :: post ->
    ~ In (r_name r) (map r_name pre) /\ (NoDup (r_sup r) /\ StronglySorted str_le (r_sup r)) /\
    forall s, In s (r_sup r) -> exists p, In p pre /\ r_name p = s /\ incl (r_sup p) (r_sup r).
Proof.
  intros files sigs cats m rules als H pre r post Heq.
  destruct (parse_files_inv _ _ _ _ _ _ _ _ _ cr_nil (Forall_nil _) H) as [Hc Hf].
  destruct (closed_rules_spec _ Hc _ _ _ Heq) as [H1 H2].
  split; [assumption|]. split; [|assumption].
  rewrite Forall_forall in Hf. assert (Hin : In r rules) by (subst; apply in_or_app; right; left; reflexivity).
  destruct (Hf r Hin) as [_ [_ [_ [Hnd _]]]]. assumption.
Qed.

Lemma parsed_rules_ok : forall files sigs cats m rules als,
  parse_files files 0 sigs cats m [] [] = inl (rules, als) -> Forall (rule_ok cats m) rules.
Proof.
  intros files sigs cats m rules als H.
  destruct (parse_files_inv _ _ _ _ _ _ _ _ _ cr_nil (Forall_nil _) H) as [_ Hf]. assumption.
Qed.

(* ====================================================================== *)
(* D. kilobases and multipliers                                            *)
(* ====================================================================== *)
Lemma scale_floor : forall v num den, 0 < den ->
  den * scale v num den <= v * num < den * (scale v num den + 1).
Proof.
  intros v num den Hd. unfold scale.
  pose proof (Z.div_mod (v * num) den ltac:(lia)) as H1.
  pose proof (Z.mod_pos_bound (v * num) den Hd) as H2.
  remember (v * num / den) as q. remember ((v * num) mod den) as r. nia.
Qed.

(* constructor level: a repeated operand or option raises ValueError *)
Lemma mk_group_repeated : forall n subs, has_dup (map show subs) = true -> mk_group n subs = Err E_Value.
Proof. intros n subs H. unfold mk_group, check_operands. rewrite H. reflexivity. Qed.
Lemma mk_cds_repeated : forall n subs, has_dup (map show subs) = true -> mk_cds n subs = Err E_Value.
Proof. intros n subs H. unfold mk_cds, check_operands. rewrite H. reflexivity. Qed.
Lemma mk_and_repeated : forall ops, has_dup (map show ops) = true -> mk_and ops = Err E_Value.
Proof. intros ops H. unfold mk_and, check_operands. rewrite H. reflexivity. Qed.
Lemma mk_min_repeated : forall n k opts, has_dup opts = true -> mk_min n k opts = Err E_Value.
Proof. intros n k opts H. unfold mk_min. rewrite H. reflexivity. Qed.

Lemma has_dup_false_NoDup : forall l, has_dup l = false -> NoDup l.
Proof.
  induction l as [|x xs IH]; intros H; [constructor|]. cbn [has_dup] in H.
  apply orb_false_iff in H. destruct H as [H1 H2]. constructor; [apply smem_false; assumption|apply IH; assumption].
Qed.

(* nrb in plain words: at every node the operands' texts are pairwise different *)
Lemma nrb_NoDup : forall c, nrb c = true ->
  match c with
  | CCds _ subs | CGroup _ subs | CAnd subs => NoDup (map show subs) /\ forallb nrb subs = true
  | CMin _ k opts => NoDup opts /\ 1 <= k
  | _ => True
  end.
Proof.
  intros c H. destruct c; cbn [nrb] in H; try exact I;
    apply andb_true_iff in H; destruct H as [H1 H2]; apply negb_true_iff in H1;
    (split; [apply has_dup_false_NoDup; assumption|]); try assumption. lia.
Qed.

(* ====================================================================== *)
(* E. precedence: what _parse_conditions returns is the reading of the     *)
(*    consumed tokens by the stratified grammar  not > and > or            *)
(* ====================================================================== *)

(* {COMMA ID}* with the identifiers read *)
Inductive H_idtail : list token -> list str -> Prop :=
| HT_nil : H_idtail [] []
| HT_cons : forall c t T l, ttype c = c02_T_COMMA -> ttype t = c02_T_IDENTIFIER -> H_idtail T l ->
    H_idtail (c :: t :: T) (ttext t :: l).

(* "cds conditions must contain more than a single identifier" *)
Definition cds_content (cs : list cond) : bool :=
  match cs with [] => false | [c] => negb (is_single_cond c) | _ => true end.

(* lists of operands are kept newest-first ("R"), as the parser's loops build them *)
Inductive G_core (allow : bool) : bool -> list token -> cond -> Prop :=
| GC_id : forall neg t, ttype t = c02_T_IDENTIFIER -> G_core allow neg [t] (CSingle neg (ttext t))
| GC_grp : forall neg o c T racc, ttype o = c02_T_GROUP_OPEN -> ttype c = c02_T_GROUP_CLOSE ->
    G_orsR allow T racc -> G_core allow neg (o :: T ++ [c]) (CGroup neg (rev racc))
| GC_cds : forall neg k o c T racc, allow = true -> ttype k = c02_T_CDS -> ttype o = c02_T_GROUP_OPEN ->
    ttype c = c02_T_GROUP_CLOSE -> G_orsR false T racc -> cds_content (rev racc) = true ->
    G_core allow neg (k :: o :: T ++ [c]) (CCds neg (rev racc))
| GC_min : forall neg m o k cm lo i Tt l lc c, allow = true -> ttype m = c02_T_MINIMUM ->
    ttype o = c02_T_GROUP_OPEN -> ttype k = c02_T_INT -> ttype cm = c02_T_COMMA -> ttype lo = c02_T_LIST_OPEN ->
    ttype i = c02_T_IDENTIFIER -> H_idtail Tt l -> ttype lc = c02_T_LIST_CLOSE -> ttype c = c02_T_GROUP_CLOSE ->
    G_core allow neg (m :: o :: k :: cm :: lo :: i :: Tt ++ [lc; c]) (CMin neg (int_of (ttext k)) (ttext i :: l))
| GC_score : forall neg m o i cm sc c, ttype m = c02_T_SCORE -> ttype o = c02_T_GROUP_OPEN ->
    ttype i = c02_T_IDENTIFIER -> ttype cm = c02_T_COMMA -> ttype sc = c02_T_INT -> ttype c = c02_T_GROUP_CLOSE ->
    G_core allow neg [m; o; i; cm; sc; c] (CScore neg (ttext i) (int_of (ttext sc)))
with G_un (allow : bool) : list token -> cond -> Prop :=
| GU_pos : forall T c, G_core allow false T c -> G_un allow T c
| GU_neg : forall nt T c, ttype nt = c02_T_NOT -> G_core allow true T c -> G_un allow (nt :: T) c
with G_andsR (allow : bool) : list token -> list cond -> Prop :=
| GA_one : forall T c, G_un allow T c -> G_andsR allow T [c]
| GA_more : forall T ra a T' c, G_andsR allow T ra -> ttype a = c02_T_AND -> G_un allow T' c ->
    G_andsR allow (T ++ a :: T') (c :: ra)
with G_item (allow : bool) : list token -> cond -> Prop :=
| GI_un : forall T c, G_un allow T c -> G_item allow T c
| GI_and : forall T ra, G_andsR allow T ra -> (2 <= length ra)%nat -> G_item allow T (CAnd (rev ra))
with G_orsR (allow : bool) : list token -> list cond -> Prop :=
| GO_one : forall T c, G_item allow T c -> G_orsR allow T [c]
| GO_more : forall T racc o T' c, G_orsR allow T racc -> ttype o = c02_T_OR -> G_item allow T' c ->
    G_orsR allow (T ++ o :: T') (c :: racc).

Definition G_ors (allow : bool) (T : list token) (cs : list cond) : Prop := G_orsR allow T (rev cs).

(* the tokens consumed between two parser states *)
Definition trace (s s' : pst) (T : list token) : Prop := consumed s' = rev T ++ consumed s.

Lemma trace_nil : forall s, trace s s [].
Proof. intros s. reflexivity. Qed.

Lemma trace_app : forall s s1 s2 a b, trace s s1 a -> trace s1 s2 b -> trace s s2 (a ++ b).
Proof. unfold trace. intros s s1 s2 a b H1 H2. rewrite H2, H1, rev_app_distr, app_assoc. reflexivity. Qed.

Lemma consume_trace : forall k s t s', consume k s = Ok (t, s') -> trace s s' [t] /\ ttype t = k.
Proof.
  intros k s t s' H. split; [|eapply consume_type; eassumption].
  unfold consume in H. destruct (cur s) as [c|]; [|discriminate H].
  destruct (negb (ttype c =? k)); [discriminate H|].
  unfold trace. repeat step H; inversion H; subst; reflexivity.
Qed.

Lemma comma_loop_trace : forall f acc s l s', comma_loop f acc s = Ok (l, s') ->
  exists T l', trace s s' T /\ H_idtail T l' /\ l = rev acc ++ l'.
Proof.
  induction f as [|f IH]; intros acc s l s' H; cbn [comma_loop] in H; [discriminate H|].
  repeat step H.
  - match goal with E1 : consume c02_T_COMMA _ = Ok _, E2 : consume c02_T_IDENTIFIER _ = Ok _ |- _ =>
      apply consume_trace in E1; apply consume_trace in E2; destruct E1 as [E1 Hc]; destruct E2 as [E2 Ht] end.
    apply IH in H. destruct H as [T [l' [HT [Hid Hl]]]].
    match goal with Hc : ttype ?c = c02_T_COMMA, Ht : ttype ?t = c02_T_IDENTIFIER |- _ =>
      exists (c :: t :: T), (ttext t :: l') end.
    split; [|split].
    + eapply (trace_app _ _ _ [_]); [eassumption|]. eapply (trace_app _ _ _ [_]); eassumption.
    + apply HT_cons; assumption.
    + rewrite Hl. cbn [rev]. rewrite <- app_assoc. reflexivity.
  - inversion H; subst. exists [], []. split; [apply trace_nil|]. split; [constructor|]. rewrite app_nil_r. reflexivity.
Qed.

Lemma parse_comma_ids_trace : forall f s l s', parse_comma_ids f s = Ok (l, s') ->
  exists i Tt l', trace s s' (i :: Tt) /\ ttype i = c02_T_IDENTIFIER /\ H_idtail Tt l' /\ l = ttext i :: l'.
Proof.
  intros f s l s' H. unfold parse_comma_ids in H. repeat step H.
  match goal with E1 : consume _ _ = Ok _ |- _ => apply consume_trace in E1; destruct E1 as [E1 Hi] end.
  apply comma_loop_trace in H. destruct H as [T [l' [HT [Hid Hl]]]].
  do 3 eexists. split; [eapply (trace_app _ _ _ [_]); eassumption|]. split; [assumption|]. split; [eassumption|].
  rewrite Hl. reflexivity.
Qed.

Ltac ctrace :=
  repeat match goal with
         | E : consume _ _ = Ok _ |- _ => apply consume_trace in E; destruct E as [? ?]
         end.

Ltac tr := first [eassumption | apply trace_nil | (eapply trace_app; [eassumption | tr])].

Lemma parse_minimum_trace : forall f n s c s', parse_minimum f n s = Ok (c, s') ->
  exists m o k cm lo i Tt l lc c', trace s s' (m :: o :: k :: cm :: lo :: i :: Tt ++ [lc; c']) /\
    ttype m = c02_T_MINIMUM /\ ttype o = c02_T_GROUP_OPEN /\ ttype k = c02_T_INT /\ ttype cm = c02_T_COMMA /\
    ttype lo = c02_T_LIST_OPEN /\ ttype i = c02_T_IDENTIFIER /\ H_idtail Tt l /\ ttype lc = c02_T_LIST_CLOSE /\
    ttype c' = c02_T_GROUP_CLOSE /\ c = CMin n (int_of (ttext k)) (ttext i :: l).
Proof.
  intros f n s c s' H. unfold parse_minimum in H. repeat step H. inversion H; subst; clear H.
  match goal with E : parse_comma_ids _ _ = Ok _ |- _ => apply parse_comma_ids_trace in E;
    destruct E as [i [Tt [l' [HTc [Hi [Hid Hl]]]]]] end.
  match goal with E : mk_min _ _ _ = Ok _ |- _ => unfold mk_min in E; repeat step E; inversion E; subst; clear E end.
  ctrace.
  repeat match goal with |- exists _, _ => eexists end.
  split; [|repeat split; try eassumption].
  eapply (trace_app _ _ _ [_]); [eassumption|]. eapply (trace_app _ _ _ [_]); [eassumption|].
  eapply (trace_app _ _ _ [_]); [eassumption|]. eapply (trace_app _ _ _ [_]); [eassumption|].
  eapply (trace_app _ _ _ [_]); [eassumption|]. eapply (trace_app _ _ _ (_ :: _)); [eassumption|].
  eapply (trace_app _ _ _ [_]); eassumption.
Qed.

Lemma parse_score_trace : forall n s c s', parse_score n s = Ok (c, s') ->
  exists m o i cm sc c', trace s s' [m; o; i; cm; sc; c'] /\ ttype m = c02_T_SCORE /\ ttype o = c02_T_GROUP_OPEN /\
    ttype i = c02_T_IDENTIFIER /\ ttype cm = c02_T_COMMA /\ ttype sc = c02_T_INT /\ ttype c' = c02_T_GROUP_CLOSE /\
    c = CScore n (ttext i) (int_of (ttext sc)).
Proof.
  intros n s c s' H. unfold parse_score in H. repeat step H. inversion H; subst; clear H. ctrace.
  repeat match goal with |- exists _, _ => eexists end.
  split; [|repeat split; try eassumption].
  eapply (trace_app _ _ _ [_]); [eassumption|]. eapply (trace_app _ _ _ [_]); [eassumption|].
  eapply (trace_app _ _ _ [_]); [eassumption|]. eapply (trace_app _ _ _ [_]); [eassumption|].
  eapply (trace_app _ _ _ [_]); eassumption.
Qed.

Lemma is_not_cases : forall s b s1, is_not s = Ok (b, s1) ->
  (b = false /\ s1 = s) \/ (b = true /\ exists nt, trace s s1 [nt] /\ ttype nt = c02_T_NOT).
Proof.
  intros s b s1 H. unfold is_not in H. repeat step H; inversion H; subst; clear H.
  - right. split; [reflexivity|]. ctrace. eexists. split; eassumption.
  - left. split; reflexivity.
Qed.

Lemma wrap_not : forall allow s b s1 s' T c, is_not s = Ok (b, s1) -> trace s1 s' T -> G_core allow b T c ->
  exists T', trace s s' T' /\ G_un allow T' c.
Proof.
  intros allow s b s1 s' T c Hn Ht Hc. apply is_not_cases in Hn.
  destruct Hn as [[Hb Hs]|[Hb [nt [Hnt Hty]]]]; subst.
  - exists T. split; [assumption|apply GU_pos; assumption].
  - exists (nt :: T). split; [eapply (trace_app _ _ _ [_]); eassumption|apply GU_neg; assumption].
Qed.

Lemma mk_group_ok : forall n subs c, mk_group n subs = Ok c -> c = CGroup n subs.
Proof. unfold mk_group. intros n subs c H. step H. inversion H. reflexivity. Qed.
Lemma mk_cds_ok : forall n subs c, mk_cds n subs = Ok c -> c = CCds n subs.
Proof. unfold mk_cds. intros n subs c H. step H. inversion H. reflexivity. Qed.
Lemma mk_and_ok : forall ops c, mk_and ops = Ok c -> c = CAnd ops.
Proof. unfold mk_and. intros ops c H. step H. inversion H. reflexivity. Qed.

Lemma GO_more' : forall allow L T racc o T' c, G_orsR allow T racc -> ttype o = c02_T_OR -> G_item allow T' c ->
  L = T ++ o :: T' -> G_orsR allow L (c :: racc).
Proof. intros; subst; eapply GO_more; eassumption. Qed.
Lemma GA_more' : forall allow L T ra a T' c, G_andsR allow T ra -> ttype a = c02_T_AND -> G_un allow T' c ->
  L = T ++ a :: T' -> G_andsR allow L (c :: ra).
Proof. intros; subst; eapply GA_more; eassumption. Qed.
Lemma G_orsR_eq : forall allow T T' r, G_orsR allow T r -> T = T' -> G_orsR allow T' r.
Proof. intros; subst; assumption. Qed.
Lemma G_andsR_eq : forall allow T T' r, G_andsR allow T r -> T = T' -> G_andsR allow T' r.
Proof. intros; subst; assumption. Qed.

Ltac lsimp := repeat rewrite <- app_assoc; cbn [app]; repeat rewrite app_nil_r; try reflexivity.

(* state of the loop of _parse_conditions: T0 = the tokens read so far *)
Definition Inv (allow : bool) (T0 : list token) (acc : list cond) (lv : cond) (app : bool) : Prop :=
  if app then
    exists Ta Tl, T0 = Ta ++ Tl /\ G_un allow Tl lv /\
      ((acc = [] /\ Ta = []) \/ exists Tb o, Ta = Tb ++ [o] /\ ttype o = c02_T_OR /\ G_orsR allow Tb acc)
  else G_orsR allow T0 acc.

Lemma Inv_close : forall allow T0 acc lv app, Inv allow T0 acc lv app ->
  G_orsR allow T0 (if app then lv :: acc else acc).
Proof.
  intros allow T0 acc lv app H. destruct app; [|exact H].
  destruct H as [Ta [Tl [HT [Hl [[Ha Hb]|[Tb [o [Hb [Ho Hg]]]]]]]]]; subst.
  - apply GO_one. apply GI_un. assumption.
  - eapply GO_more'; [eassumption|eassumption|apply GI_un; eassumption|lsimp].
Qed.

Definition Q_single f := forall allow s c s', parse_single f allow s = Ok (c, s') ->
  exists T, trace s s' T /\ G_un allow T c.
Definition Q_cds f := forall s cs s', parse_cds f s = Ok (cs, s') ->
  exists k o T c, trace s s' (k :: o :: T ++ [c]) /\ ttype k = c02_T_CDS /\ ttype o = c02_T_GROUP_OPEN /\
                  ttype c = c02_T_GROUP_CLOSE /\ G_orsR false T (rev cs) /\ cds_content cs = true.
Definition Q_ands f := forall allow lv s a s', parse_ands f allow lv s = Ok (a, s') ->
  exists T ra, trace s s' T /\ a = CAnd (rev ra) /\ cur_is c02_T_AND s' = false /\ (2 <= length ra)%nat /\
               forall Tl, G_un allow Tl lv -> G_andsR allow (Tl ++ T) ra.
Definition Q_andloop f := forall allow acc s cs s', and_loop f allow acc s = Ok (cs, s') ->
  exists T ra, trace s s' T /\ cs = rev ra /\ cur_is c02_T_AND s' = false /\ (length acc <= length ra)%nat /\
               forall T0, G_andsR allow T0 acc -> G_andsR allow (T0 ++ T) ra.
Definition Q_conds f := forall allow g s cs s', parse_conditions f allow g s = Ok (cs, s') ->
  exists T, trace s s' T /\ G_orsR allow T (rev cs).
Definition Q_condloop f := forall allow acc lv app s cs s',
  (app = false -> cur_is c02_T_AND s = false) ->
  cond_loop f allow acc lv app s = Ok (cs, s') ->
  exists T, trace s s' T /\ forall T0, Inv allow T0 acc lv app -> G_orsR allow (T0 ++ T) (rev cs).

Lemma parser_grammar : forall f, Q_single f /\ Q_cds f /\ Q_ands f /\ Q_andloop f /\ Q_conds f /\ Q_condloop f.
Proof.
  induction f as [|f IH].
  - repeat split; red; intros; cbn in *; discriminate.
  - destruct IH as [IHs [IHc [IHa [IHal [IHcs IHcl]]]]].
    repeat split; red.
    + (* parse_single *)
      intros allow s c s' H. cbn [parse_single] in H. repeat step H.
      * (* group *)
        inversion H; subst; clear H.
        match goal with E : mk_group _ _ = Ok _ |- _ => apply mk_group_ok in E; subst end.
        match goal with E : parse_conditions _ _ _ _ = Ok _ |- _ => apply IHcs in E; destruct E as [T [HT HG]] end.
        ctrace.
        eapply wrap_not; [eassumption| |].
        -- eapply (trace_app _ _ _ [_]); [eassumption|]. eapply trace_app; [eassumption|eassumption].
        -- rewrite <- (rev_involutive l) at 1. apply GC_grp; assumption.
      * (* minimum *)
        match goal with C : (_ && _) = true |- _ => apply andb_true_iff in C; destruct C as [Ca _] end.
        apply parse_minimum_trace in H.
        destruct H as [m [o [k [cm [lo [i [Tt [l0 [lc [c' [HT [Hm [Ho [Hk [Hcm [Hlo [Hi [Hid [Hlc [Hc' Hc]]]]]]]]]]]]]]]]]]]].
        subst. eapply wrap_not; [eassumption|eassumption|]. apply GC_min; try assumption. reflexivity.
      * (* cds *)
        inversion H; subst; clear H.
        match goal with E : mk_cds _ _ = Ok _ |- _ => apply mk_cds_ok in E; subst end.
        match goal with C : (_ && (_ =? c02_T_CDS)) = true |- _ => apply andb_true_iff in C; destruct C as [Ca _] end.
        match goal with E : parse_cds _ _ = Ok _ |- _ => apply IHc in E;
          destruct E as [k [o [T [c [HT [Hk [Ho [Hc [HG Hcont]]]]]]]]] end.
        eapply wrap_not; [eassumption|eassumption|].
        rewrite <- (rev_involutive l) at 1. subst. apply GC_cds; try assumption; [reflexivity|].
        rewrite rev_involutive. assumption.
      * (* minscore *)
        apply parse_score_trace in H.
        destruct H as [m [o [i [cm [sc [c' [HT [Hm [Ho [Hi [Hcm [Hsc [Hc' Hc]]]]]]]]]]]]]. subst.
        eapply wrap_not; [eassumption|eassumption|]. apply GC_score; assumption.
      * (* identifier *)
        inversion H; subst; clear H. ctrace.
        eapply wrap_not; [eassumption|eassumption|]. apply GC_id; assumption.
    + (* parse_cds *)
      intros s cs s' H. cbn [parse_cds] in H. repeat step H;
        inversion H; subst; clear H;
        match goal with E : parse_conditions _ _ _ _ = Ok _ |- _ => apply IHcs in E; destruct E as [T [HT HG]] end;
        ctrace;
        match goal with
        | Hk : trace s ?p [?k], Ho : trace ?p ?p0 [?o], HT' : trace ?p0 ?p1 ?T, Hc : trace ?p1 s' [?c] |- _ =>
          exists k, o, T, c; split;
          [exact (trace_app _ _ _ [k] _ Hk (trace_app _ _ _ [o] _ Ho (trace_app _ _ _ _ _ HT' Hc)))|]
        end;
        repeat split; try assumption;
        match goal with |- cds_content _ = true => cbn [cds_content]; try reflexivity;
          match goal with C : is_single_cond _ = false |- _ => rewrite C; reflexivity end end.
    + (* parse_ands *)
      intros allow lv s a s' H. cbn [parse_ands] in H. repeat step H. inversion H; subst; clear H.
      match goal with E : mk_and _ = Ok _ |- _ => apply mk_and_ok in E; subst end.
      match goal with E : parse_single _ _ _ = Ok _ |- _ => apply IHs in E; destruct E as [Tc [HTc HGc]] end.
      match goal with E : and_loop _ _ _ _ = Ok _ |- _ => apply IHal in E;
        destruct E as [T3 [ra [HT3 [Hcs [Hcur [Hlen HG]]]]]] end.
      ctrace. subst.
      exists ([t] ++ Tc ++ T3), ra. split; [tr|]. split; [reflexivity|]. split; [assumption|].
      split; [cbn [length] in Hlen; lia|].
      intros Tl Hl. eapply G_andsR_eq; [apply HG|].
      * eapply GA_more'; [apply GA_one; eassumption|eassumption|eassumption|reflexivity].
      * lsimp.
    + (* and_loop *)
      intros allow acc s cs s' H. cbn [and_loop] in H. repeat step H.
      * match goal with E : parse_single _ _ _ = Ok _ |- _ => apply IHs in E; destruct E as [Tc [HTc HGc]] end.
        apply IHal in H. destruct H as [T3 [ra [HT3 [Hcs [Hcur [Hlen HG]]]]]].
        ctrace. subst.
        exists ([t] ++ Tc ++ T3), ra. split; [tr|]. split; [reflexivity|]. split; [assumption|].
        split; [cbn [length] in Hlen; lia|].
        intros T0 HT0. eapply G_andsR_eq; [apply HG|].
        -- eapply GA_more'; [eassumption|eassumption|eassumption|reflexivity].
        -- lsimp.
      * inversion H; subst; clear H. exists [], acc. split; [apply trace_nil|]. split; [reflexivity|].
        split; [assumption|]. split; [lia|]. intros T0 HT0. rewrite app_nil_r. assumption.
    + (* parse_conditions *)
      intros allow g s cs s' H. cbn [parse_conditions] in H. repeat step H. inversion H; subst; clear H.
      match goal with E : parse_single _ _ _ = Ok _ |- _ => apply IHs in E; destruct E as [T1 [HT1 HG1]] end.
      match goal with E : cond_loop _ _ _ _ _ _ = Ok _ |- _ => apply IHcl in E; [|intros CC; discriminate CC];
        destruct E as [T2 [HT2 HG2]] end.
      exists (T1 ++ T2). split; [tr|]. apply HG2.
      exists [], T1. split; [reflexivity|]. split; [assumption|]. left. split; reflexivity.
    + (* cond_loop *)
      intros allow acc lv app s cs s' Hpre H. cbn [cond_loop] in H. repeat step H.
      * (* and *)
        destruct app; [|specialize (Hpre eq_refl); discriminate Hpre].
        match goal with E : parse_ands _ _ _ _ = Ok _ |- _ => apply IHa in E;
          destruct E as [T1 [ra [HT1 [Ha [Hcur [Hlen HG]]]]]] end.
        apply IHcl in H; [|intros _; assumption]. destruct H as [T2 [HT2 HG2]]. subst.
        exists (T1 ++ T2). split; [tr|]. intros T0 HI.
        destruct HI as [Ta [Tl [HT [Hl Hd]]]]. subst.
        eapply G_orsR_eq; [apply (HG2 ((Ta ++ Tl) ++ T1))|lsimp].
        unfold Inv.
        destruct Hd as [[Hacc HTa]|[Tb [o [HTa [Ho Hg]]]]]; subst.
        -- cbn [app]. apply GO_one. apply GI_and; [apply HG; assumption|assumption].
        -- eapply GO_more'; [eassumption|eassumption|apply GI_and; [apply (HG Tl); assumption|assumption]|lsimp].
      * (* or *)
        match goal with E : parse_single _ _ _ = Ok _ |- _ => apply IHs in E; destruct E as [Tc [HTc HGc]] end.
        apply IHcl in H; [|intros CC; discriminate CC]. destruct H as [T3 [HT3 HG3]]. ctrace.
        exists ([t] ++ Tc ++ T3). split; [tr|]. intros T0 HI. apply Inv_close in HI.
        eapply G_orsR_eq; [apply (HG3 ((T0 ++ [t]) ++ Tc))|lsimp].
        exists (T0 ++ [t]), Tc. split; [reflexivity|]. split; [assumption|]. right.
        exists T0, t. split; [reflexivity|]. split; assumption.
      * (* end of the loop *)
        inversion H; subst; clear H. exists []. split; [apply trace_nil|]. intros T0 HI.
        rewrite app_nil_r, rev_involutive. apply Inv_close. assumption.
Qed.

Lemma precedence_sound : forall f allow g s cs s', parse_conditions f allow g s = Ok (cs, s') ->
  exists T, consumed s' = rev T ++ consumed s /\ G_ors allow T cs.
Proof. intros f. destruct (parser_grammar f) as [_ [_ [_ [_ [H _]]]]]. exact H. Qed.

(* the conditions of a parsed rule are the non-negated group around such a reading *)
Lemma parse_rule_conditions : forall f known cats s r s',
  parse_rule f known cats s = Ok (r, s') ->
  exists cs T, r_cond r = CGroup false cs /\ G_ors true T cs.
Proof.
  intros f known cats s r s' H. unfold parse_rule in H. repeat step H. inversion H; subst; clear H.
  cbn [r_cond].
  match goal with E : mk_group _ _ = Ok _ |- _ => apply mk_group_ok in E; subst end.
  match goal with E : parse_conditions _ _ _ _ = Ok _ |- _ =>
    apply precedence_sound in E; destruct E as [T [HT HG]] end.
  do 2 eexists. split; [reflexivity|eassumption].
Qed.

(* ====================================================================== *)
(* F. DEFINE = textual substitution, one step of the token stream          *)
(* ====================================================================== *)
Definition alias_head (als : list (str * list token)) (t : token) : bool :=
  (ttype t =? c02_T_IDENTIFIER) && isSomeB (alias_get (ttext t) als).

(* moving on to an alias name is the same as moving on to the text of its definition, provided the
   definition does not itself start with an alias name *)
Lemma alias_subst_step : forall k c n r cons als b B,
  ttype n = c02_T_IDENTIFIER -> alias_get (ttext n) als = Some (b :: B) -> alias_head als b = false ->
  consume k (mkP (Some c) (n :: r) cons als) = consume k (mkP (Some c) (b :: B ++ r) cons als).
Proof.
  intros k c n r cons als b B Hn Hal Hb. unfold consume. cbn [cur rest consumed aliases].
  destruct (negb (ttype c =? k)); [reflexivity|].
  rewrite Hn, Z.eqb_refl, Hal. cbn [app].
  unfold alias_head in Hb.
  destruct (ttype b =? c02_T_IDENTIFIER); [|reflexivity].
  cbn [andb] in Hb. destruct (alias_get (ttext b) als); [discriminate Hb|reflexivity].
Qed.

(* without the proviso the statement is false: the first token of a spliced definition is not expanded *)
Lemma alias_subst_first_token_refuted : exists k c n r cons als b B,
  ttype n = c02_T_IDENTIFIER /\ alias_get (ttext n) als = Some (b :: B) /\
  consume k (mkP (Some c) (n :: r) cons als) <> consume k (mkP (Some c) (b :: B ++ r) cons als).
Proof.
  exists c02_T_OR, (mk_token (codes "or")), (mk_token (codes "y")), [], [],
         [(codes "q", [set_aliased (mk_token (codes "b"))]);
          (codes "y", [set_aliased (mk_token (codes "q")); set_aliased (mk_token (codes "and")); set_aliased (mk_token (codes "a"))])],
         (set_aliased (mk_token (codes "q"))), [set_aliased (mk_token (codes "and")); set_aliased (mk_token (codes "a"))].
  split; [vm_compute; reflexivity|]. split; [vm_compute; reflexivity|]. vm_compute. discriminate.
Qed.

(* ====================================================================== *)
(* G. a doubled negation is never printed without parentheses              *)
(*    (Conditions.__str__ after the repair of double_negation_wrapped)     *)
(* ====================================================================== *)

(* what the proof needs of a profile name: no space in it, and not the word "not" *)
Definition name_ok (s : str) : bool := negb (existsb (Z.eqb 32) s) && negb (str_eqb s (codes "not")).
Fixpoint names_ok (c : cond) : bool :=
  match c with
  | CSingle _ name => name_ok name
  | CScore _ _ _ | CMin _ _ _ => true
  | CCds _ subs | CGroup _ subs => forallb names_ok subs
  | CAnd ops => forallb names_ok ops
  end.

Section CondInd.
  Variable P : cond -> Prop.
  Hypothesis hS : forall n name, P (CSingle n name).
  Hypothesis hSc : forall n name s, P (CScore n name s).
  Hypothesis hM : forall n k opts, P (CMin n k opts).
  Hypothesis hC : forall n subs, Forall P subs -> P (CCds n subs).
  Hypothesis hG : forall n subs, Forall P subs -> P (CGroup n subs).
  Hypothesis hA : forall ops, Forall P ops -> P (CAnd ops).
  Fixpoint cond_ind_nested (c : cond) : P c :=
    let go := fix go (l : list cond) : Forall P l :=
      match l with
      | [] => Forall_nil P
      | x :: r => Forall_cons x (cond_ind_nested x) (go r)
      end in
    match c with
    | CSingle n name => hS n name
    | CScore n name s => hSc n name s
    | CMin n k opts => hM n k opts
    | CCds n subs => hC n subs (go subs)
    | CGroup n subs => hG n subs (go subs)
    | CAnd ops => hA ops (go ops)
    end.
End CondInd.

(* some position inside both texts holds different characters *)
Fixpoint mismatch (p a : str) : bool :=
  match p, a with
  | x :: p', y :: a' => negb (x =? y) || mismatch p' a'
  | _, _ => false
  end.

Lemma mismatch_app : forall p a r, mismatch p a = true -> starts_with p (a ++ r) = false.
Proof.
  induction p as [|x p IH]; intros [|y a] r H; cbn [mismatch] in H; try discriminate H.
  cbn [app starts_with]. destruct (x =? y); cbn [negb orb andb] in *; [apply IH; assumption|reflexivity].
Qed.

Lemma starts_with_app : forall p a r, starts_with p a = true -> starts_with p (a ++ r) = true.
Proof.
  induction p as [|x p IH]; intros a r H; [reflexivity|].
  destruct a as [|y a]; cbn [starts_with] in H; [discriminate H|].
  cbn [app starts_with]. apply andb_true_iff in H. destruct H as [H1 H2]. rewrite H1, (IH _ _ H2). reflexivity.
Qed.

Lemma starts_with_longer_false : forall p q s, starts_with p s = false -> starts_with (p ++ q) s = false.
Proof.
  induction p as [|x p IH]; intros q s H; [discriminate H|].
  destruct s as [|y s]; [reflexivity|]. cbn [app starts_with] in *.
  destruct (x =? y); cbn [andb] in *; [apply IH; assumption|reflexivity].
Qed.

Lemma starts_with_strip : forall p q s, starts_with (p ++ q) (p ++ s) = starts_with q s.
Proof.
  induction p as [|x p IH]; intros q s; [reflexivity|].
  cbn [app starts_with]. rewrite Z.eqb_refl, IH. reflexivity.
Qed.

Lemma starts_with_self_app : forall p s, starts_with p (p ++ s) = true.
Proof. intros p s. apply starts_with_app. induction p as [|x p IH]; [reflexivity|]. cbn [starts_with]. rewrite Z.eqb_refl, IH. reflexivity. Qed.

(* what may follow the text of an operand: nothing, a space, or a closing parenthesis *)
Definition tail_ok (t : str) : Prop := match t with [] => True | c :: _ => c = 32 \/ c = 41 end.

Definition s_notnot : str := s_not ++ s_not.

(* the text starts with the fixed characters a: both tests are decided inside a *)
Lemma headed : forall a r t,
  mismatch s_not a = true \/ starts_with s_not a = true -> mismatch s_notnot a = true ->
  starts_with s_not ((a ++ r) ++ t) = starts_with s_not (a ++ r) /\ starts_with s_notnot ((a ++ r) ++ t) = false.
Proof.
  intros a r t H1 H2. rewrite <- app_assoc. split; [|apply mismatch_app; assumption].
  destruct H1 as [H1|H1]; [rewrite !(mismatch_app _ _ _ H1)|rewrite !(starts_with_app _ _ _ H1)]; reflexivity.
Qed.

Lemma name_tail : forall name t, name_ok name = true -> tail_ok t -> starts_with s_not (name ++ t) = false.
Proof.
  intros name t H Ht. unfold name_ok in H. apply andb_true_iff in H. destruct H as [Hs Hn].
  apply negb_true_iff in Hs. apply negb_true_iff in Hn.
  assert (Tl : forall x, starts_with [x] t = true -> x = 32 \/ x = 41).
  { intros x Hx. destruct t as [|c t]; [discriminate Hx|]. cbn [starts_with] in Hx. rewrite andb_true_r in Hx.
    apply Z.eqb_eq in Hx. subst. exact Ht. }
  change s_not with [110; 111; 116; 32].
  destruct name as [|a [|b [|c [|d r]]]]; cbn [app].
  - destruct (starts_with [110; 111; 116; 32] t) eqn:E; [|reflexivity].
    destruct t as [|x t]; [discriminate E|]. cbn [starts_with] in E. apply andb_true_iff in E. destruct E as [E _].
    apply Z.eqb_eq in E. subst. cbn [tail_ok] in Ht. lia.
  - cbn [starts_with]. destruct (110 =? a); [cbn [andb]|reflexivity].
    destruct t as [|x t]; [reflexivity|]. cbn [starts_with]. destruct (Z.eqb_spec 111 x); [|reflexivity].
    subst. cbn [tail_ok] in Ht. lia.
  - cbn [starts_with]. destruct (110 =? a); [cbn [andb]|reflexivity]. destruct (111 =? b); [cbn [andb]|reflexivity].
    destruct t as [|x t]; [reflexivity|]. cbn [starts_with]. destruct (Z.eqb_spec 116 x); [|reflexivity].
    subst. cbn [tail_ok] in Ht. lia.
  - cbn [starts_with]. destruct (Z.eqb_spec 110 a); [cbn [andb]|reflexivity].
    destruct (Z.eqb_spec 111 b); [cbn [andb]|reflexivity]. destruct (Z.eqb_spec 116 c); [cbn [andb]|reflexivity].
    subst. vm_compute in Hn. discriminate Hn.
  - cbn [starts_with]. cbn [existsb] in Hs. apply orb_false_iff in Hs. destruct Hs as [_ Hs].
    apply orb_false_iff in Hs. destruct Hs as [_ Hs]. apply orb_false_iff in Hs. destruct Hs as [_ Hs].
    apply orb_false_iff in Hs. destruct Hs as [Hs _]. rewrite Hs. cbn [andb]. rewrite !andb_false_r. reflexivity.
Qed.

Lemma tail_ok_starts : forall p t, tail_ok t -> mismatch p [32] = true -> mismatch p [41] = true -> starts_with p t = false.
Proof.
  intros p t Ht H1 H2. destruct t as [|c t].
  - destruct p; [discriminate H1|reflexivity].
  - cbn [tail_ok] in Ht. destruct Ht; subst; [apply (mismatch_app p [32] t)|apply (mismatch_app p [41] t)]; assumption.
Qed.

Lemma show_tail : forall c, names_ok c = true -> forall t, tail_ok t ->
  starts_with s_not (show c ++ t) = starts_with s_not (show c) /\ starts_with s_notnot (show c ++ t) = false.
Proof.
  induction c using cond_ind_nested; intros Hn t Ht.
  - (* CSingle *)
    cbn [names_ok] in Hn. cbn [show]. destruct n; cbn [prefix].
    + rewrite <- app_assoc. split.
      * rewrite !starts_with_self_app. reflexivity.
      * unfold s_notnot. rewrite starts_with_strip. apply name_tail; assumption.
    + cbn [app]. split.
      * rewrite (name_tail name t Hn Ht). symmetry. rewrite <- (app_nil_r name). apply name_tail; [assumption|exact I].
      * unfold s_notnot. apply starts_with_longer_false. apply name_tail; assumption.
  - (* CScore *)
    cbn [show]. destruct n; cbn [prefix].
    + rewrite (app_assoc s_not). apply headed; [right|]; reflexivity.
    + cbn [app]. apply headed; [left|]; reflexivity.
  - (* CMin *)
    cbn [show]. destruct n; cbn [prefix].
    + rewrite (app_assoc s_not). apply headed; [right|]; reflexivity.
    + cbn [app]. apply headed; [left|]; reflexivity.
  - (* CCds *)
    cbn [show]. destruct n; cbn [prefix].
    + rewrite (app_assoc s_not). apply headed; [right|]; reflexivity.
    + cbn [app]. apply headed; [left|]; reflexivity.
  - (* CGroup *)
    assert (Par : forall r, starts_with s_not ((prefix n ++ codes "(" ++ r) ++ t) = starts_with s_not (prefix n ++ codes "(" ++ r)
                            /\ starts_with s_notnot ((prefix n ++ codes "(" ++ r) ++ t) = false).
    { intros r. destruct n; cbn [prefix].
      - rewrite (app_assoc s_not). apply headed; [right|]; reflexivity.
      - cbn [app]. apply (headed (codes "(")); [left|]; reflexivity. }
    cbn [show]. destruct subs as [|sub [|sub2 rest]]; try apply Par.
    destruct (is_and sub); [apply Par|].
    destruct (n && starts_with s_not (show sub)) eqn:E; [apply Par|].
    cbn [names_ok forallb] in Hn. rewrite andb_true_r in Hn.
    inversion H as [|x l Hsub _]; subst. specialize (Hsub Hn t Ht). destruct Hsub as [I1 I2].
    destruct n; cbn [prefix].
    + cbn [andb] in E. rewrite <- app_assoc. split.
      * rewrite !starts_with_self_app. reflexivity.
      * unfold s_notnot. rewrite starts_with_strip. rewrite I1. exact E.
    + cbn [app]. split; assumption.
  - (* CAnd *)
    cbn [show]. destruct ops as [|x [|y rest]].
    + cbn [map join app]. split; apply tail_ok_starts; try assumption; reflexivity.
    + cbn [map join]. cbn [names_ok forallb] in Hn. rewrite andb_true_r in Hn.
      inversion H as [|x' l Hx _]; subst. apply Hx; assumption.
    + cbn [names_ok forallb] in Hn. apply andb_true_iff in Hn. destruct Hn as [Hx _].
      inversion H as [|x' l IHx _]; subst.
      change (join s_and_sep (map show (x :: y :: rest))) with (show x ++ s_and_sep ++ join s_and_sep (map show (y :: rest))).
      set (R := s_and_sep ++ join s_and_sep (map show (y :: rest))).
      assert (TR : forall u, tail_ok (R ++ u)) by (intros u; left; reflexivity).
      rewrite <- app_assoc.
      destruct (IHx Hx (R ++ t) (TR t)) as [A1 A2]. destruct (IHx Hx R) as [B1 _].
      { rewrite <- (app_nil_r R). apply TR. }
      split; [rewrite A1, B1; reflexivity|exact A2].
Qed.

(* an IDENTIFIER token is such a name *)
Lemma map_get_Some : forall k m v, map_get k m = Some v -> In (k, v) m.
Proof.
  induction m as [|[k' v'] m IH]; intros v H; [discriminate H|]. cbn [map_get] in H.
  destruct (str_eqb k k') eqn:E.
  - apply str_eqb_eq in E. inversion H; subst. left. reflexivity.
  - right. apply IH. assumption.
Qed.

Lemma identifier_name_ok : forall s, classify s = c02_T_IDENTIFIER -> name_ok s = true.
Proof.
  intros s H. unfold name_ok. apply andb_true_iff. split; apply negb_true_iff.
  - unfold classify in H. destruct (map_get s c02_token_mapping) eqn:E.
    + apply map_get_Some in E. subst z.
      assert (F : forallb (fun kv => negb (snd kv =? c02_T_IDENTIFIER)) c02_token_mapping = true) by (vm_compute; reflexivity).
      rewrite forallb_forall in F. specialize (F _ E). cbn [snd] in F. rewrite Z.eqb_refl in F. discriminate F.
    + destruct (all_digits s); [vm_compute in H; discriminate H|].
      destruct (is_legal_identifier s) eqn:L; [|vm_compute in H; discriminate H].
      unfold is_legal_identifier in L.
      destruct (negb (existsb is_alpha s)); [discriminate L|].
      destruct (negb (forallb (fun c => is_alpha c || is_digit c || (c =? 95) || (c =? 45)) s)) eqn:F; [discriminate L|].
      apply negb_false_iff in F. rewrite forallb_forall in F.
      destruct (existsb (Z.eqb 32) s) eqn:X; [|reflexivity].
      apply existsb_exists in X. destruct X as [c [Hc Hc2]]. apply Z.eqb_eq in Hc2. subst c.
      specialize (F _ Hc). vm_compute in F. discriminate F.
  - destruct (str_eqb s (codes "not")) eqn:E; [|reflexivity].
    apply str_eqb_eq in E. subst s. vm_compute in H. discriminate H.
Qed.

Lemma no_doubled_not : forall c, names_ok c = true -> starts_with (codes "not not ") (show c) = false.
Proof.
  intros c H. destruct (show_tail c H [] I) as [_ H2]. rewrite app_nil_r in H2. exact H2.
Qed.

(* ====================================================================== *)
(* H. completeness: every token list of the documented grammar is accepted *)
(*    and read as the grammar says                                         *)
(* ====================================================================== *)

(* the parser state in front of a token list *)
Definition st (l cons : list token) (als : list (str * list token)) : pst :=
  match l with [] => mkP None [] cons als | t :: r => mkP (Some t) r cons als end.
Definition hd_is (ty : Z) (l : list token) : bool := match l with [] => false | t :: _ => ttype t =? ty end.
(* no token of l / not the first token of l is an alias name *)
Definition nah (als : list (str * list token)) (l : list token) : bool := forallb (fun t => negb (alias_head als t)) l.
Definition nahd (als : list (str * list token)) (l : list token) : bool :=
  match l with [] => true | t :: _ => negb (alias_head als t) end.

Lemma cur_is_st : forall ty l cons als, cur_is ty (st l cons als) = hd_is ty l.
Proof. intros ty [|t r] cons als; reflexivity. Qed.

Lemma consume_st : forall k t L cons als, ttype t = k -> nahd als L = true ->
  consume k (st (t :: L) cons als) = Ok (t, st L (t :: cons) als).
Proof.
  intros k t L cons als Hk Hn. unfold consume, st. cbn [cur rest consumed aliases].
  rewrite Hk, Z.eqb_refl. cbn [negb]. destruct L as [|n r]; [reflexivity|].
  cbn [nahd] in Hn. unfold alias_head in Hn. apply negb_true_iff in Hn.
  destruct (ttype n =? c02_T_IDENTIFIER); [|reflexivity]. cbn [andb] in Hn.
  destruct (alias_get (ttext n) als); [discriminate Hn|reflexivity].
Qed.

Lemma nahd_app : forall als A B, nah als A = true -> nahd als B = true -> nahd als (A ++ B) = true.
Proof. intros als [|a A] B HA HB; [exact HB|]. cbn [nah forallb] in HA. apply andb_true_iff in HA. cbn [app nahd]. tauto. Qed.

Lemma nah_app : forall als A B, nah als (A ++ B) = nah als A && nah als B.
Proof. intros. apply forallb_app. Qed.

Definition notp (neg : bool) (N : list token) : Prop :=
  if neg then exists nt, N = [nt] /\ ttype nt = c02_T_NOT else N = [].

(*  un    ::= [NOT] ( ID | minscore ( ID , INT ) | minimum ( INT , [ ID {, ID} ] ) | ( ors ) | cds ( ors' ) )
    item  ::= un | un AND un {AND un}            (an AndCondition)
    ors   ::= item {OR item}
    minimum and cds only where allow = true (outside cds); ors' = ors with allow = false *)
Inductive H_un (allow : bool) : list token -> cond -> Prop :=
| HU_id : forall neg N t, notp neg N -> ttype t = c02_T_IDENTIFIER -> H_un allow (N ++ [t]) (CSingle neg (ttext t))
| HU_score : forall neg N m o i cm sc c, notp neg N -> ttype m = c02_T_SCORE -> ttype o = c02_T_GROUP_OPEN ->
    ttype i = c02_T_IDENTIFIER -> ttype cm = c02_T_COMMA -> ttype sc = c02_T_INT -> ttype c = c02_T_GROUP_CLOSE ->
    H_un allow (N ++ [m; o; i; cm; sc; c]) (CScore neg (ttext i) (int_of (ttext sc)))
| HU_min : forall neg N m o k cm lo i Tt l lc c, notp neg N -> allow = true -> ttype m = c02_T_MINIMUM ->
    ttype o = c02_T_GROUP_OPEN -> ttype k = c02_T_INT -> ttype cm = c02_T_COMMA -> ttype lo = c02_T_LIST_OPEN ->
    ttype i = c02_T_IDENTIFIER -> H_idtail Tt l -> ttype lc = c02_T_LIST_CLOSE -> ttype c = c02_T_GROUP_CLOSE ->
    H_un allow (N ++ m :: o :: k :: cm :: lo :: i :: Tt ++ [lc; c]) (CMin neg (int_of (ttext k)) (ttext i :: l))
| HU_grp : forall neg N o T cs c, notp neg N -> ttype o = c02_T_GROUP_OPEN -> ttype c = c02_T_GROUP_CLOSE ->
    H_ors allow T cs -> H_un allow (N ++ o :: T ++ [c]) (CGroup neg cs)
| HU_cds : forall neg N k o T cs c, notp neg N -> allow = true -> ttype k = c02_T_CDS -> ttype o = c02_T_GROUP_OPEN ->
    ttype c = c02_T_GROUP_CLOSE -> H_ors false T cs -> cds_content cs = true ->
    H_un allow (N ++ k :: o :: T ++ [c]) (CCds neg cs)
with H_andtail (allow : bool) : list token -> list cond -> Prop :=
| HA_nil : H_andtail allow [] []
| HA_cons : forall a T c T' cs, ttype a = c02_T_AND -> H_un allow T c -> H_andtail allow T' cs ->
    H_andtail allow (a :: T ++ T') (c :: cs)
with H_item (allow : bool) : list token -> cond -> Prop :=
| HI_un : forall T c, H_un allow T c -> H_item allow T c
| HI_and : forall T1 c1 T2 cs, H_un allow T1 c1 -> H_andtail allow T2 cs -> cs <> [] ->
    H_item allow (T1 ++ T2) (CAnd (c1 :: cs))
with H_ortail (allow : bool) : list token -> list cond -> Prop :=
| HO_nil : H_ortail allow [] []
| HO_cons : forall o T c T' cs, ttype o = c02_T_OR -> H_item allow T c -> H_ortail allow T' cs ->
    H_ortail allow (o :: T ++ T') (c :: cs)
with H_ors (allow : bool) : list token -> list cond -> Prop :=
| HO_ors : forall T c T' cs, H_item allow T c -> H_ortail allow T' cs -> H_ors allow (T ++ T') (c :: cs).

Scheme H_un_mut := Minimality for H_un Sort Prop
  with H_andtail_mut := Minimality for H_andtail Sort Prop
  with H_item_mut := Minimality for H_item Sort Prop
  with H_ortail_mut := Minimality for H_ortail Sort Prop
  with H_ors_mut := Minimality for H_ors Sort Prop.
Combined Scheme H_mutind from H_un_mut, H_andtail_mut, H_item_mut, H_ortail_mut, H_ors_mut.


Ltac tyc := repeat match goal with
  | |- context [Z.eqb ?a ?b] =>
    let a' := eval cbv in a in
    let b' := eval cbv in b in
    match a' with
    | Zpos _ => match b' with Zpos _ => let v := eval cbv in (Z.eqb a' b') in change (Z.eqb a b) with v end
    end
  end.
Ltac lenf H := repeat first [rewrite app_length in H | progress cbn [length] in H].
Ltac anorm := repeat first [rewrite <- app_assoc | progress cbn [app]].
Ltac lnorm := repeat first [rewrite rev_app_distr | rewrite <- app_assoc | progress cbn [rev app]].

Lemma is_not_st : forall neg N X cons als, notp neg N -> hd_is c02_T_NOT X = false -> nahd als X = true ->
  is_not (st (N ++ X) cons als) = Ok (neg, st X (rev N ++ cons) als).
Proof.
  intros neg N X cons als HN HX Hn. unfold is_not. rewrite cur_is_st. destruct neg; cbn [notp] in HN.
  - destruct HN as [nt [-> Hnt]]. cbn [app hd_is]. rewrite Hnt, Z.eqb_refl.
    rewrite consume_st by assumption. reflexivity.
  - subst N. cbn [app]. rewrite HX. reflexivity.
Qed.

Lemma comma_loop_complete : forall T l, H_idtail T l -> forall acc R cons f als,
  nah als T = true -> nahd als R = true -> hd_is c02_T_COMMA R = false -> (length T + 1 <= f)%nat ->
  comma_loop f acc (st (T ++ R) cons als) = Ok (rev acc ++ l, st R (rev T ++ cons) als).
Proof.
  induction 1 as [|c t T l Hc Ht HT IH]; intros acc R cons f als Hna HR Hf Hfuel;
    (destruct f as [|f]; [clear - Hfuel; cbn [length] in Hfuel; lia|]); cbn [comma_loop]; rewrite cur_is_st.
  - cbn [app]. rewrite Hf. rewrite app_nil_r. reflexivity.
  - cbn [app hd_is]. rewrite Hc, Z.eqb_refl.
    cbn [nah forallb] in Hna. apply andb_true_iff in Hna. destruct Hna as [Hn1 Hna].
    apply andb_true_iff in Hna. destruct Hna as [Hn2 Hna].
    rewrite consume_st; [|assumption|cbn [nahd]; assumption]. cbn [bind].
    rewrite consume_st; [|assumption|apply nahd_app; assumption]. cbn [bind].
    rewrite IH; [|assumption|assumption|assumption|clear - Hfuel; cbn [length] in Hfuel; lia].
    cbn [rev]. lnorm. reflexivity.
Qed.

Lemma has_dup_nrb_group : forall n cs, nrb (CGroup n cs) = true -> mk_group n cs = Ok (CGroup n cs) /\ forallb nrb cs = true.
Proof.
  intros n cs H. cbn [nrb] in H. apply andb_true_iff in H. destruct H as [H1 H2]. apply negb_true_iff in H1.
  unfold mk_group, check_operands. rewrite H1. split; [reflexivity|assumption].
Qed.
Lemma has_dup_nrb_cds : forall n cs, nrb (CCds n cs) = true -> mk_cds n cs = Ok (CCds n cs) /\ forallb nrb cs = true.
Proof.
  intros n cs H. cbn [nrb] in H. apply andb_true_iff in H. destruct H as [H1 H2]. apply negb_true_iff in H1.
  unfold mk_cds, check_operands. rewrite H1. split; [reflexivity|assumption].
Qed.
Lemma has_dup_nrb_and : forall cs, nrb (CAnd cs) = true -> mk_and cs = Ok (CAnd cs) /\ forallb nrb cs = true.
Proof.
  intros cs H. cbn [nrb] in H. apply andb_true_iff in H. destruct H as [H1 H2]. apply negb_true_iff in H1.
  unfold mk_and, check_operands. rewrite H1. split; [reflexivity|assumption].
Qed.
Lemma nrb_min : forall n k l, nrb (CMin n k l) = true -> mk_min n k l = Ok (CMin n k l).
Proof.
  intros n k l H. cbn [nrb] in H. apply andb_true_iff in H. destruct H as [H1 H2]. apply negb_true_iff in H1.
  unfold mk_min. rewrite H1. destruct (k <? 1) eqn:E; [lia|reflexivity].
Qed.

Lemma conditions_end_cons : forall g R c1 c2 als, conditions_end g (st R c1 als) = conditions_end g (st R c2 als).
Proof. intros g [|t r] c1 c2 als; reflexivity. Qed.

Lemma pc_unfold : forall f allow g s, cur s <> None ->
  parse_conditions (S f) allow g s =
  (do (lvalue, s1) <- parse_single f allow s;
   do (conds, s2) <- cond_loop f allow [] lvalue true s1;
   do _ <- conditions_end g s2; Ok (conds, s2)).
Proof. intros f allow g s H. cbn [parse_conditions]. destruct (cur s); [reflexivity|contradiction]. Qed.

Lemma parse_ands_as_loop : forall f allow lv s, cur_is c02_T_AND s = true ->
  parse_ands (S f) allow lv s =
  (do (ops, s3) <- and_loop (S f) allow [lv] s; do a <- mk_and ops; Ok (a, s3)).
Proof.
  intros f allow lv s H. cbn [parse_ands and_loop]. rewrite H.
  destruct (consume c02_T_AND s) as [[x s1]|]; cbn [bind]; [|reflexivity].
  destruct (parse_single f allow s1) as [[c s2]|]; reflexivity.
Qed.

(* what is proved about each nonterminal; als = the aliases of the parser state *)
Definition C_un (allow : bool) (T : list token) (c : cond) : Prop :=
  nrb c = true -> forall als R cons f, nah als T = true -> nahd als R = true -> (2 * length T + 1 <= f)%nat ->
  parse_single f allow (st (T ++ R) cons als) = Ok (c, st R (rev T ++ cons) als).
Definition C_andtail (allow : bool) (T : list token) (cs : list cond) : Prop :=
  forallb nrb cs = true -> forall als acc R cons f, nah als T = true -> nahd als R = true ->
  hd_is c02_T_AND R = false -> (2 * length T + 1 <= f)%nat ->
  and_loop f allow acc (st (T ++ R) cons als) = Ok (rev acc ++ cs, st R (rev T ++ cons) als).
Definition C_item (allow : bool) (T : list token) (c : cond) : Prop :=
  nrb c = true -> forall als R cons, nah als T = true -> nahd als R = true -> hd_is c02_T_AND R = false ->
  exists lv T1 T2, T = T1 ++ T2 /\ T1 <> [] /\
    (forall f, (2 * length T1 + 1 <= f)%nat ->
       parse_single f allow (st (T ++ R) cons als) = Ok (lv, st (T2 ++ R) (rev T1 ++ cons) als)) /\
    ((T2 = [] /\ c = lv) \/
     (hd_is c02_T_AND (T2 ++ R) = true /\
      forall f, (2 * length T2 + 1 <= f)%nat ->
        parse_ands f allow lv (st (T2 ++ R) (rev T1 ++ cons) als) = Ok (c, st R (rev T ++ cons) als))).
Definition C_ortail (allow : bool) (T : list token) (cs : list cond) : Prop :=
  forallb nrb cs = true -> forall als acc lv app R cons f, nah als T = true -> nahd als R = true ->
  hd_is c02_T_AND R = false -> hd_is c02_T_OR R = false -> (2 * length T + 2 <= f)%nat ->
  cond_loop f allow acc lv app (st (T ++ R) cons als)
  = Ok (rev (if app then lv :: acc else acc) ++ cs, st R (rev T ++ cons) als).
Definition C_ors (allow : bool) (T : list token) (cs : list cond) : Prop :=
  forallb nrb cs = true -> forall als g R cons f, nah als T = true -> nahd als R = true ->
  hd_is c02_T_AND R = false -> hd_is c02_T_OR R = false ->
  (forall cons', conditions_end g (st R cons' als) = Ok tt) -> (2 * length T + 3 <= f)%nat ->
  parse_conditions f allow g (st (T ++ R) cons als) = Ok (cs, st R (rev T ++ cons) als).

Ltac nah_split H :=
  unfold nah in H; repeat first [rewrite forallb_app in H | progress cbn [forallb] in H];
  repeat rewrite andb_true_iff in H.

Lemma H_un_nonempty : forall allow T c, H_un allow T c -> T <> [].
Proof. intros allow T c H. destruct H; destruct N; discriminate. Qed.

Lemma cur_st : forall t L c a, cur (st (t :: L) c a) = Some t.
Proof. reflexivity. Qed.

Lemma parser_complete : forall allow,
  (forall T c, H_un allow T c -> C_un allow T c) /\
  (forall T cs, H_andtail allow T cs -> C_andtail allow T cs) /\
  (forall T c, H_item allow T c -> C_item allow T c) /\
  (forall T cs, H_ortail allow T cs -> C_ortail allow T cs) /\
  (forall T cs, H_ors allow T cs -> C_ors allow T cs).
Proof.
  apply H_mutind.
  - (* identifier *)
    intros allow neg N t HN Ht. red. intros Hnr als R cons f Hna HR Hf.
    destruct f as [|f]; [clear - Hf; lia|]. cbn [parse_single]. rewrite <- app_assoc.
    nah_split Hna. destruct Hna as [HnN [Hnt _]].
    rewrite (is_not_st neg N ([t] ++ R)); [|assumption|cbn [app hd_is]; rewrite Ht; reflexivity|cbn [app nahd]; assumption].
    cbn [bind app]. rewrite cur_st. rewrite Ht. tyc. rewrite ?andb_false_r.
    rewrite consume_st by assumption. cbn [bind]. lnorm. reflexivity.
  - (* minscore *)
    intros allow neg N m o i cm sc c HN Hm Ho Hi Hcm Hsc Hc. red. intros Hnr als R cons f Hna HR Hf.
    destruct f as [|f]; [clear - Hf; lia|]. cbn [parse_single]. rewrite <- app_assoc.
    nah_split Hna. destruct Hna as [HnN [Hn1 [Hn2 [Hn3 [Hn4 [Hn5 [Hn6 _]]]]]]].
    rewrite (is_not_st neg N); [|assumption|cbn [app hd_is]; rewrite Hm; reflexivity|cbn [app nahd]; assumption].
    cbn [bind app]. rewrite cur_st. rewrite Hm. tyc. rewrite ?andb_false_r.
    unfold parse_score.
    rewrite consume_st; [|assumption|cbn [nahd]; assumption]. cbn [bind].
    rewrite consume_st; [|assumption|cbn [nahd]; assumption]. cbn [bind].
    rewrite consume_st; [|assumption|cbn [nahd]; assumption]. cbn [bind].
    rewrite consume_st; [|assumption|cbn [nahd]; assumption]. cbn [bind].
    rewrite consume_st; [|assumption|cbn [nahd]; assumption]. cbn [bind].
    rewrite consume_st; [|assumption|assumption]. cbn [bind]. lnorm. reflexivity.
  - (* minimum *)
    intros allow neg N m o k cm lo i Tt l lc c HN Hal Hm Ho Hk Hcm Hlo Hi HTt Hlc Hc. red.
    intros Hnr als R cons f Hna HR Hf. subst allow.
    destruct f as [|f]; [clear - Hf; lia|]. cbn [parse_single]. rewrite <- app_assoc.
    nah_split Hna. destruct Hna as [HnN [Hn1 [Hn2 [Hn3 [Hn4 [Hn5 [Hn6 [Hn7 [Hn8 [Hn9 _]]]]]]]]]].
    rewrite (is_not_st neg N); [|assumption|cbn [app hd_is]; rewrite Hm; reflexivity|cbn [app nahd]; assumption].
    cbn [bind app]. rewrite cur_st. rewrite Hm. tyc. cbn [andb].
    unfold parse_minimum.
    rewrite consume_st; [|assumption|cbn [nahd]; assumption]. cbn [bind].
    rewrite consume_st; [|assumption|cbn [nahd]; assumption]. cbn [bind].
    rewrite consume_st; [|assumption|cbn [nahd]; assumption]. cbn [bind].
    rewrite consume_st; [|assumption|cbn [nahd]; assumption]. cbn [bind].
    rewrite consume_st; [|assumption|cbn [nahd]; assumption]. cbn [bind].
    unfold parse_comma_ids.
    rewrite <- app_assoc.
    rewrite consume_st; [|assumption|apply nahd_app; [assumption|cbn [app nahd]; assumption]]. cbn [bind].
    rewrite (comma_loop_complete Tt l HTt); [|assumption|cbn [app nahd]; assumption|cbn [app hd_is]; rewrite Hlc; reflexivity
                                            |clear - Hf; lenf Hf; lia].
    cbn [bind app rev].
    rewrite consume_st; [|assumption|cbn [nahd]; assumption]. cbn [bind].
    rewrite consume_st; [|assumption|assumption]. cbn [bind].
    rewrite (nrb_min _ _ _ Hnr). cbn [bind]. lnorm. reflexivity.
  - (* group *)
    intros allow neg N o T cs c HN Ho Hc HT IH. red. intros Hnr als R cons f Hna HR Hf.
    destruct (has_dup_nrb_group _ _ Hnr) as [Hmk Hall].
    destruct f as [|f]; [clear - Hf; lia|]. cbn [parse_single]. anorm.
    nah_split Hna. destruct Hna as [HnN [Hn1 [HnT [Hn2 _]]]].
    rewrite (is_not_st neg N); [|assumption|cbn [app hd_is]; rewrite Ho; reflexivity|cbn [app nahd]; assumption].
    cbn [bind app]. rewrite cur_st. rewrite Ho. tyc.
    rewrite consume_st; [|assumption|apply nahd_app; [assumption|cbn [app nahd]; assumption]]. cbn [bind].
    rewrite (IH Hall als true (c :: R)); [|assumption|cbn [app nahd]; assumption|cbn [app hd_is]; rewrite Hc; reflexivity
      |cbn [app hd_is]; rewrite Hc; reflexivity
      |intros cons'; cbn [app]; unfold conditions_end; rewrite cur_st, Hc; reflexivity
      |clear - Hf; lenf Hf; lia].
    cbn [bind app].
    rewrite consume_st; [|assumption|assumption]. cbn [bind]. rewrite Hmk. cbn [bind]. lnorm. reflexivity.
  - (* cds *)
    intros allow neg N k o T cs c HN Hal Hk Ho Hc HT IH Hcont. red. intros Hnr als R cons f Hna HR Hf. subst allow.
    destruct (has_dup_nrb_cds _ _ Hnr) as [Hmk Hall].
    destruct f as [|f]; [clear - Hf; lia|]. cbn [parse_single]. anorm.
    nah_split Hna. destruct Hna as [HnN [Hn0 [Hn1 [HnT [Hn2 _]]]]].
    rewrite (is_not_st neg N); [|assumption|cbn [app hd_is]; rewrite Hk; reflexivity|cbn [app nahd]; assumption].
    cbn [bind app]. rewrite cur_st. rewrite Hk. tyc. cbn [andb].
    destruct f as [|f]; [clear - Hf; lenf Hf; lia|]. cbn [parse_cds].
    rewrite consume_st; [|assumption|cbn [nahd]; assumption]. cbn [bind].
    rewrite consume_st; [|assumption|apply nahd_app; [assumption|cbn [app nahd]; assumption]]. cbn [bind].
    rewrite (IH Hall als true (c :: R)); [|assumption|cbn [app nahd]; assumption|cbn [app hd_is]; rewrite Hc; reflexivity
      |cbn [app hd_is]; rewrite Hc; reflexivity
      |intros cons'; cbn [app]; unfold conditions_end; rewrite cur_st, Hc; reflexivity
      |clear - Hf; lenf Hf; lia].
    cbn [bind app].
    assert (Hclose : consume c02_T_GROUP_CLOSE (st (c :: R) (rev T ++ o :: k :: rev N ++ cons) als)
                     = Ok (c, st R (c :: rev T ++ o :: k :: rev N ++ cons) als)) by (apply consume_st; assumption).
    destruct cs as [|c1 [|c2 rest]]; [discriminate Hcont| |].
    + cbn [cds_content] in Hcont. apply negb_true_iff in Hcont. rewrite Hcont.
      rewrite Hclose. cbn [bind]. rewrite Hmk. cbn [bind]. lnorm. reflexivity.
    + rewrite Hclose. cbn [bind]. rewrite Hmk. cbn [bind]. lnorm. reflexivity.
  - (* and-tail, empty *)
    intros allow. red. intros _ als acc R cons f _ HR Hand Hf. destruct f as [|f]; [clear - Hf; lia|].
    cbn [and_loop app]. rewrite cur_is_st, Hand, app_nil_r. reflexivity.
  - (* and-tail, one more operand *)
    intros allow a T c T' cs Ha HT IHu HT' IHt. red. intros Hnr als acc R cons f Hna HR Hand Hf.
    cbn [forallb] in Hnr. apply andb_true_iff in Hnr. destruct Hnr as [Hnc Hncs].
    destruct f as [|f]; [clear - Hf; lia|]. cbn [and_loop app]. rewrite cur_is_st. cbn [hd_is]. rewrite Ha, Z.eqb_refl.
    nah_split Hna. destruct Hna as [Hn1 [HnT HnT']].
    rewrite <- app_assoc.
    rewrite consume_st; [|assumption|apply nahd_app; [assumption|apply nahd_app; assumption]]. cbn [bind].
    rewrite (IHu Hnc); [|assumption|apply nahd_app; assumption|clear - Hf; cbn [length] in Hf; rewrite app_length in Hf; lia].
    cbn [bind].
    rewrite (IHt Hncs); [|assumption|assumption|assumption|clear - Hf; cbn [length] in Hf; rewrite app_length in Hf; lia].
    cbn [rev]. lnorm. reflexivity.
  - (* item: a single operand *)
    intros allow T c HT IHu. red. intros Hnr als R cons Hna HR Hand.
    exists c, T, []. split; [rewrite app_nil_r; reflexivity|]. split; [eapply H_un_nonempty; eassumption|].
    split; [|left; split; reflexivity].
    intros f Hf. cbn [app]. apply (IHu Hnr); assumption.
  - (* item: an AndCondition *)
    intros allow T1 c1 T2 cs HT1 IHu HT2 IHt Hne. red. intros Hnr als R cons Hna HR Hand.
    destruct (has_dup_nrb_and _ Hnr) as [Hmk Hall].
    cbn [forallb] in Hall. apply andb_true_iff in Hall. destruct Hall as [Hnc1 Hncs].
    nah_split Hna. destruct Hna as [HnT1 HnT2].
    exists c1, T1, T2. split; [reflexivity|]. split; [eapply H_un_nonempty; eassumption|]. split.
    + intros f Hf. rewrite <- app_assoc. apply (IHu Hnc1); [assumption|apply nahd_app; assumption|assumption].
    + right.
      assert (Hhd : hd_is c02_T_AND (T2 ++ R) = true).
      { destruct HT2 as [|a T c T' cs' Ha _ _]; [contradiction Hne; reflexivity|].
        cbn [app hd_is]. rewrite Ha. reflexivity. }
      split; [assumption|]. intros f Hf. destruct f as [|f]; [clear - Hf; lia|].
      rewrite parse_ands_as_loop by (rewrite cur_is_st; assumption).
      rewrite (IHt Hncs); [|assumption|assumption|assumption|clear - Hf; lia].
      cbn [bind rev app]. rewrite Hmk. cbn [bind]. lnorm. reflexivity.
  - (* or-tail, empty *)
    intros allow. red. intros _ als acc lv ap R cons f _ HR Hand Hor Hf. destruct f as [|f]; [clear - Hf; lia|].
    cbn [cond_loop app]. rewrite !cur_is_st, Hand, Hor, app_nil_r. reflexivity.
  - (* or-tail, one more item *)
    intros allow o T c T' cs Ho HT IHi HT' IHt. red. intros Hnr als acc lvalue ap R cons f Hna HR Hand Hor Hf.
    cbn [forallb] in Hnr. apply andb_true_iff in Hnr. destruct Hnr as [Hnc Hncs].
    destruct f as [|f]; [clear - Hf; lia|]. cbn [cond_loop app]. rewrite !cur_is_st. cbn [hd_is]. rewrite Ho. tyc.
    nah_split Hna. destruct Hna as [Hn1 [HnT HnT']].
    rewrite <- app_assoc.
    rewrite consume_st; [|assumption|apply nahd_app; [assumption|apply nahd_app; assumption]]. cbn [bind].
    assert (HandT' : hd_is c02_T_AND (T' ++ R) = false).
    { destruct HT' as [|o' Tx cx Ty cy Ho' _ _]; [assumption|]. cbn [app hd_is]. rewrite Ho'. reflexivity. }
    destruct (IHi Hnc als (T' ++ R) (o :: cons) HnT (nahd_app _ _ _ HnT' HR) HandT')
      as [lv [T1 [T2 [HeqT [HT1 [Hps Hcase]]]]]].
    cbn [length] in Hf. rewrite app_length in Hf. subst T. rewrite app_length in Hf.
    rewrite Hps by (clear - Hf; lia). cbn [bind].
    destruct Hcase as [[HT2 Hc]|[Hhd Hands]].
    + subst T2 c. cbn [app].
      rewrite (IHt Hncs); [|assumption|assumption|assumption|assumption|clear - Hf; lia].
      cbn [rev]. rewrite app_nil_r. lnorm. reflexivity.
    + destruct f as [|f]; [clear - Hf; lia|]. cbn [cond_loop]. rewrite cur_is_st, Hhd.
      rewrite Hands by (clear - Hf; lia). cbn [bind].
      rewrite (IHt Hncs); [|assumption|assumption|assumption|assumption|clear - Hf; lia].
      cbn [rev]. lnorm. reflexivity.
  - (* ors *)
    intros allow T c T' cs HT IHi HT' IHt. red. intros Hnr als g R cons f Hna HR Hand Hor Hend Hf.
    cbn [forallb] in Hnr. apply andb_true_iff in Hnr. destruct Hnr as [Hnc Hncs].
    nah_split Hna. destruct Hna as [HnT HnT'].
    assert (HandT' : hd_is c02_T_AND (T' ++ R) = false).
    { destruct HT' as [|o' Tx cx Ty cy Ho' _ _]; [assumption|]. cbn [app hd_is]. rewrite Ho'. reflexivity. }
    destruct (IHi Hnc als (T' ++ R) cons HnT (nahd_app _ _ _ HnT' HR) HandT')
      as [lv [T1 [T2 [HeqT [HT1 [Hps Hcase]]]]]].
    rewrite app_length in Hf. subst T. rewrite app_length in Hf.
    destruct f as [|f]; [clear - Hf; lia|]. rewrite <- app_assoc.
    destruct T1 as [|t1 T1']; [contradiction HT1; reflexivity|].
    rewrite pc_unfold by (cbn; discriminate).
    rewrite Hps by (clear - Hf; lia). cbn [bind].
    destruct Hcase as [[HT2 Hc]|[Hhd Hands]].
    + subst T2 c. cbn [app].
      rewrite (IHt Hncs); [|assumption|assumption|assumption|assumption|clear - Hf; cbn [length] in Hf; lia].
      cbn [bind]. rewrite Hend. cbn [bind rev app]. rewrite app_nil_r. lnorm. reflexivity.
    + destruct f as [|f]; [clear - Hf; lia|]. cbn [cond_loop]. rewrite cur_is_st, Hhd.
      rewrite Hands by (clear - Hf; lia). cbn [bind].
      rewrite (IHt Hncs); [|assumption|assumption|assumption|assumption|clear - Hf; cbn [length] in Hf; lia].
      cbn [bind]. rewrite Hend. cbn [bind rev app]. lnorm. reflexivity.
Qed.

(* ====================================================================== *)
(* I. round trip of the condition text                                     *)
(* ====================================================================== *)

(* --- I1. str(n) and int(text) --- *)
Definition dstep (a c : Z) : Z := a * 10 + (c - 48).
Lemma int_of_fold : forall s, int_of s = fold_left dstep s 0.
Proof. reflexivity. Qed.

Lemma dec_digits_S : forall f n acc, dec_digits (S f) n acc =
  if n <? 10 then (48 + n mod 10) :: acc else dec_digits f (n / 10) ((48 + n mod 10) :: acc).
Proof. intros. cbn [dec_digits]. destruct (n <? 10); reflexivity. Qed.

Lemma dec_digits_spec : forall f n acc, 0 <= n < 2 ^ Z.of_nat (S f) ->
  fold_left dstep (dec_digits (S f) n acc) 0 = fold_left dstep acc n /\
  exists ds, ds <> [] /\ forallb is_digit ds = true /\ dec_digits (S f) n acc = ds ++ acc.
Proof.
  induction f as [|f IH]; intros n acc Hn.
  - assert (Hlt : (n <? 10) = true) by (change (2 ^ Z.of_nat 1) with 2 in Hn; lia).
    rewrite dec_digits_S. rewrite Hlt. split.
    + cbn [fold_left]. unfold dstep at 2. rewrite Z.mod_small by lia. f_equal. lia.
    + exists [48 + n mod 10]. split; [discriminate|]. split; [|reflexivity].
      cbn [forallb]. rewrite Z.mod_small by lia. unfold is_digit. lia.
  - rewrite (dec_digits_S (S f)). destruct (n <? 10) eqn:Hlt.
    + split.
      * cbn [fold_left]. unfold dstep at 2. rewrite Z.mod_small by lia. f_equal. lia.
      * exists [48 + n mod 10]. split; [discriminate|]. split; [|reflexivity].
        cbn [forallb]. rewrite Z.mod_small by lia. unfold is_digit. lia.
    + assert (Hd : 0 <= n / 10 < 2 ^ Z.of_nat (S f)).
      { split; [apply Z.div_pos; lia|]. apply Z.div_lt_upper_bound; [lia|].
        rewrite (Nat2Z.inj_succ (S f)), Z.pow_succ_r in Hn by lia.
        assert (0 < 2 ^ Z.of_nat (S f)) by (apply Z.pow_pos_nonneg; lia). lia. }
      destruct (IH (n / 10) ((48 + n mod 10) :: acc) Hd) as [H1 [ds [Hne [Hdig Heq]]]]. split.
      * rewrite H1. cbn [fold_left]. unfold dstep at 2. f_equal.
        pose proof (Z.div_mod n 10 ltac:(lia)). lia.
      * exists (ds ++ [48 + n mod 10]). split; [destruct ds; discriminate|]. split.
        -- rewrite forallb_app, Hdig. cbn [forallb andb]. pose proof (Z.mod_pos_bound n 10 ltac:(lia)).
           unfold is_digit. lia.
        -- rewrite Heq, <- app_assoc. reflexivity.
Qed.

Lemma show_Z_nonneg : forall n, 0 <= n ->
  int_of (show_Z n) = n /\ all_digits (show_Z n) = true.
Proof.
  intros n Hn. unfold show_Z. assert (E : (n <? 0) = false) by lia. rewrite E.
  assert (Hb : 0 <= n < 2 ^ Z.of_nat (S (Z.to_nat (Z.log2 n)))).
  { split; [assumption|]. rewrite Nat2Z.inj_succ, Z2Nat.id by apply Z.log2_nonneg.
    destruct (Z.eq_dec n 0) as [->|Hz]; [reflexivity|]. apply Z.log2_spec. lia. }
  destruct (dec_digits_spec _ n [] Hb) as [H1 [ds [Hne [Hdig Heq]]]]. split.
  - rewrite int_of_fold, H1. reflexivity.
  - rewrite Heq, app_nil_r. unfold all_digits. destruct ds; [contradiction Hne; reflexivity|assumption].
Qed.

(* --- I2. character classes --- *)
Lemma is_single_cases : forall c, is_single c = true -> c = 40 \/ c = 41 \/ c = 91 \/ c = 93 \/ c = 44 \/ c = 46.
Proof.
  intros c H. unfold is_single in H. apply existsb_exists in H. destruct H as [kv [Hin He]].
  unfold c02_token_mapping in Hin. cbn [In] in Hin.
  repeat (destruct Hin as [Hin|Hin]; [subst kv; unfold str_eqb in He; cbn [fst list_eqb] in He; try discriminate He;
                                       try (rewrite andb_false_r in He; discriminate He);
                                       rewrite ?andb_true_r in He; apply Z.eqb_eq in He; lia|]).
  contradiction.
Qed.

Definition idchar (c : Z) : bool := is_alpha c || is_digit c || (c =? 95) || (c =? 45).

Lemma idchar_wc : forall c, idchar c = true -> wc c = true /\ wc2 c = true.
Proof.
  intros c H. assert (Hs : is_single c = false).
  { destruct (is_single c) eqn:E; [|reflexivity]. apply is_single_cases in E.
    unfold idchar, is_alpha, is_digit in H. lia. }
  assert (Hw : is_ws c = false) by (unfold idchar, is_alpha, is_digit in H; unfold is_ws; lia).
  assert (Hy : is_symchar c = true) by (unfold idchar, is_alpha, is_digit in H; unfold is_symchar, is_alnum, is_alpha, is_digit; lia).
  unfold wc, wc2. rewrite Hs, Hw, Hy. split; reflexivity.
Qed.

Lemma idchars_word : forall s, s <> [] -> forallb idchar s = true -> is_word s = true.
Proof.
  intros [|c0 cs] Hne H; [contradiction Hne; reflexivity|]. cbn [forallb] in H. apply andb_true_iff in H.
  destruct H as [H0 Hcs]. cbn [is_word]. rewrite (proj1 (idchar_wc _ H0)). cbn [andb].
  apply forallb_forall. intros x Hx. rewrite forallb_forall in Hcs. apply idchar_wc. apply Hcs. assumption.
Qed.

Definition is_id (s : str) : bool := classify s =? c02_T_IDENTIFIER.

Lemma is_id_word : forall s, is_id s = true -> is_word s = true.
Proof.
  intros s H. unfold is_id in H. apply Z.eqb_eq in H. unfold classify in H.
  destruct (map_get s c02_token_mapping) eqn:E.
  - apply map_get_Some in E. subst z.
    assert (F : forallb (fun kv => negb (snd kv =? c02_T_IDENTIFIER)) c02_token_mapping = true) by (vm_compute; reflexivity).
    rewrite forallb_forall in F. specialize (F _ E). cbn [snd] in F. rewrite Z.eqb_refl in F. discriminate F.
  - destruct (all_digits s); [vm_compute in H; discriminate H|].
    destruct (is_legal_identifier s) eqn:L; [|vm_compute in H; discriminate H].
    unfold is_legal_identifier in L.
    destruct (existsb is_alpha s) eqn:X; [|discriminate L]. cbn [negb] in L.
    destruct (forallb (fun c => is_alpha c || is_digit c || (c =? 95) || (c =? 45)) s) eqn:F; [|discriminate L].
    apply idchars_word; [|exact F]. intros ->. discriminate X.
Qed.

Lemma digits_word : forall s, all_digits s = true -> is_word s = true.
Proof.
  intros s H. unfold all_digits in H. destruct s as [|c cs] eqn:E; [discriminate H|]. rewrite <- E in *.
  apply idchars_word; [subst; discriminate|]. apply forallb_forall. intros x Hx. rewrite forallb_forall in H.
  specialize (H x Hx). unfold idchar. rewrite H. rewrite orb_true_r. reflexivity.
Qed.

Lemma digits_classify : forall s, all_digits s = true -> classify s = c02_T_INT.
Proof.
  intros s H. unfold classify. destruct (map_get s c02_token_mapping) eqn:E.
  - apply map_get_Some in E.
    assert (F : forallb (fun kv => negb (all_digits (fst kv))) c02_token_mapping = true) by (vm_compute; reflexivity).
    rewrite forallb_forall in F. specialize (F _ E). cbn [fst] in F. rewrite H in F. discriminate F.
  - rewrite H. reflexivity.
Qed.

(* --- I3. the tokeniser on words, punctuation and spaces --- *)
Definition term_ok (rest : str) : Prop :=
  match rest with [] => True | c :: _ => is_ws c = true \/ is_single c = true end.

Lemma flush_term : forall rest sym, term_ok rest ->
  tok_aux rest sym false = pre (flush sym) (tok_aux rest [] false).
Proof.
  intros [|c r] sym H.
  - cbn [tok_aux flush pre]. rewrite app_nil_r. reflexivity.
  - cbn [term_ok] in H. cbn [tok_aux]. destruct (is_ws c) eqn:W.
    + cbn [flush]. rewrite pre_nil. reflexivity.
    + destruct H as [H|H]; [discriminate H|]. rewrite H. cbn [flush app]. rewrite pre_pre. reflexivity.
Qed.

Lemma word_lex : forall w rest, is_word w = true -> term_ok rest ->
  tok_aux (w ++ rest) [] false = pre [w] (tok_aux rest [] false).
Proof.
  intros [|c0 cs] rest Hw Ht; [discriminate Hw|]. cbn [is_word] in Hw. apply andb_true_iff in Hw.
  destruct Hw as [H0 Hcs]. unfold wc in H0. apply andb_true_iff in H0. destruct H0 as [H0 H03].
  apply andb_true_iff in H0. destruct H0 as [H01 H02]. apply negb_true_iff in H01. apply negb_true_iff in H02.
  cbn [app tok_aux]. rewrite H01, H02, H03.
  rewrite word_tail; [|discriminate|assumption]. rewrite flush_term by assumption.
  rewrite flush_word. reflexivity.
Qed.

Lemma punct_lex : forall c rest, is_ws c = false -> is_single c = true ->
  tok_aux (c :: rest) [] false = pre [[c]] (tok_aux rest [] false).
Proof. intros c rest H1 H2. cbn [tok_aux]. rewrite H1, H2. reflexivity. Qed.

Lemma space_lex : forall rest, tok_aux (32 :: rest) [] false = tok_aux rest [] false.
Proof. intros rest. cbn [tok_aux]. replace (is_ws 32) with true by reflexivity. cbn [flush]. apply pre_nil. Qed.

(* --- I4. the tokens of a printed condition --- *)
Fixpoint ljoin (sep : str) (l : list (list str)) : list str :=
  match l with
  | [] => []
  | [x] => x
  | x :: r => x ++ sep :: ljoin sep r
  end.
Definition lt_neg (n : bool) : list str := if n then [codes "not"] else [].
Fixpoint lt (c : cond) : list str :=
  match c with
  | CSingle n a => lt_neg n ++ [a]
  | CScore n a s => lt_neg n ++ [codes "minscore"; codes "("; a; codes ","; show_Z s; codes ")"]
  | CMin n k opts => lt_neg n ++ [codes "minimum"; codes "("; show_Z k; codes ","; codes "["]
                     ++ ljoin (codes ",") (map (fun o => [o]) (sorted_set opts)) ++ [codes "]"; codes ")"]
  | CCds n subs =>
    let inner := ljoin (codes "or") (map lt subs) in
    lt_neg n ++ [codes "cds"; codes "("]
    ++ (if cds_wraps subs (join s_or_sep (map show subs)) then codes "(" :: inner ++ [codes ")"] else inner)
    ++ [codes ")"]
  | CGroup n subs =>
    match subs with
    | [sub] => if is_and sub then lt_neg n ++ codes "(" :: lt sub ++ [codes ")"]
               else if n && starts_with s_not (show sub) then lt_neg n ++ codes "(" :: lt sub ++ [codes ")"]
               else lt_neg n ++ lt sub
    | _ => lt_neg n ++ codes "(" :: ljoin (codes "or") (map lt subs) ++ [codes ")"]
    end
  | CAnd ops => ljoin (codes "and") (map lt ops)
  end.

(* names are identifiers, numbers are not negative *)
Fixpoint lexable (c : cond) : bool :=
  match c with
  | CSingle _ a => is_id a
  | CScore _ a s => is_id a && (0 <=? s)
  | CMin _ k opts => (0 <=? k) && forallb is_id opts
  | CCds _ subs | CGroup _ subs => forallb lexable subs
  | CAnd ops => forallb lexable ops
  end.

Definition lexes (x : cond) : Prop := forall rest, term_ok rest ->
  tok_aux (show x ++ rest) [] false = pre (lt x) (tok_aux rest [] false).

Ltac pnorm := rewrite ?pre_pre; rewrite <- ?app_assoc; cbn [app].
Ltac tk_r := right; reflexivity.
Ltac tk_l := left; reflexivity.

Lemma lex_prefix : forall n Y, tok_aux (prefix n ++ Y) [] false = pre (lt_neg n) (tok_aux Y [] false).
Proof.
  intros [|] Y; cbn [prefix lt_neg].
  - change s_not with (codes "not" ++ [32]). anorm.
    rewrite word_lex; [|reflexivity|tk_l]. rewrite space_lex. reflexivity.
  - cbn [app]. rewrite pre_nil. reflexivity.
Qed.

Lemma lex_join : forall kw, is_word kw = true -> forall l : list cond, Forall lexes l ->
  forall rest, term_ok rest ->
  tok_aux (join (32 :: kw ++ [32]) (map show l) ++ rest) [] false
  = pre (ljoin kw (map lt l)) (tok_aux rest [] false).
Proof.
  intros kw Hkw. induction l as [|x l IH]; intros HF rest Hr.
  - cbn [map join ljoin app]. rewrite pre_nil. reflexivity.
  - inversion HF as [|x' l' Hx Hl]; subst. destruct l as [|y r].
    + cbn [map join ljoin]. apply Hx. assumption.
    + change (join (32 :: kw ++ [32]) (map show (x :: y :: r)))
        with (show x ++ (32 :: kw ++ [32]) ++ join (32 :: kw ++ [32]) (map show (y :: r))).
      change (ljoin kw (map lt (x :: y :: r))) with (lt x ++ kw :: ljoin kw (map lt (y :: r))).
      anorm. rewrite Hx by tk_l. rewrite space_lex. rewrite word_lex; [|assumption|tk_l]. rewrite space_lex.
      rewrite (IH Hl) by assumption. pnorm. reflexivity.
Qed.

Lemma lex_ids : forall l, forallb is_id l = true -> forall rest, term_ok rest ->
  tok_aux (join (codes ", ") l ++ rest) [] false
  = pre (ljoin (codes ",") (map (fun o => [o]) l)) (tok_aux rest [] false).
Proof.
  induction l as [|x l IH]; intros HF rest Hr.
  - cbn [map join ljoin app]. rewrite pre_nil. reflexivity.
  - cbn [forallb] in HF. apply andb_true_iff in HF. destruct HF as [Hx Hl]. destruct l as [|y r].
    + cbn [map join ljoin]. apply word_lex; [apply is_id_word; assumption|assumption].
    + change (join (codes ", ") (x :: y :: r)) with (x ++ [44; 32] ++ join (codes ", ") (y :: r)).
      change (ljoin (codes ",") (map (fun o => [o]) (x :: y :: r)))
        with ([x] ++ codes "," :: ljoin (codes ",") (map (fun o => [o]) (y :: r))).
      anorm. rewrite word_lex; [|apply is_id_word; assumption|tk_r].
      rewrite punct_lex by reflexivity. rewrite space_lex. rewrite (IH Hl) by assumption. pnorm. reflexivity.
Qed.

Lemma sorted_set_forallb : forall p l, forallb p l = true -> forallb p (sorted_set l) = true.
Proof.
  intros p l H. rewrite forallb_forall in *. intros x Hx. apply H. apply sorted_set_In. assumption.
Qed.

Lemma lex_show : forall c, lexable c = true -> lexes c.
Proof.
  induction c using cond_ind_nested; intros Hl rest Hr; cbn [lexable] in Hl.
  - (* CSingle *)
    cbn [show lt]. anorm. rewrite lex_prefix. rewrite word_lex; [|apply is_id_word; assumption|assumption].
    pnorm. reflexivity.
  - (* CScore *)
    apply andb_true_iff in Hl. destruct Hl as [Hid Hs]. destruct (show_Z_nonneg s ltac:(lia)) as [_ Hdig].
    cbn [show lt]. change (codes "minscore(") with (codes "minscore" ++ [40]). change (codes ", ") with [44; 32].
    change (codes ")") with [41]. anorm. rewrite lex_prefix.
    rewrite word_lex; [|reflexivity|tk_r]. rewrite punct_lex by reflexivity.
    rewrite word_lex; [|apply is_id_word; assumption|tk_r]. rewrite punct_lex by reflexivity. rewrite space_lex.
    rewrite word_lex; [|apply digits_word; assumption|tk_r]. rewrite punct_lex by reflexivity.
    pnorm. reflexivity.
  - (* CMin *)
    apply andb_true_iff in Hl. destruct Hl as [Hk Hids]. destruct (show_Z_nonneg k ltac:(lia)) as [_ Hdig].
    cbn [show lt]. change (codes "minimum(") with (codes "minimum" ++ [40]). change (codes ", [") with [44; 32; 91].
    change (codes "])") with [93; 41]. anorm. rewrite lex_prefix.
    rewrite word_lex; [|reflexivity|tk_r]. rewrite punct_lex by reflexivity.
    rewrite word_lex; [|apply digits_word; assumption|tk_r]. rewrite punct_lex by reflexivity. rewrite space_lex.
    rewrite punct_lex by reflexivity.
    rewrite lex_ids; [|apply sorted_set_forallb; assumption|tk_r].
    rewrite punct_lex by reflexivity. rewrite punct_lex by reflexivity.
    pnorm. reflexivity.
  - (* CCds *)
    assert (HF : Forall lexes subs).
    { rewrite forallb_forall in Hl. rewrite Forall_forall in *. intros x Hx. apply H; [assumption|apply Hl; assumption]. }
    assert (Join : forall rest', term_ok rest' ->
              tok_aux (join s_or_sep (map show subs) ++ rest') [] false
              = pre (ljoin (codes "or") (map lt subs)) (tok_aux rest' [] false)).
    { intros rest' Hr'. change s_or_sep with (32 :: codes "or" ++ [32]). apply lex_join; [reflexivity|assumption|assumption]. }
    cbn [show lt]. change (codes "cds(") with (codes "cds" ++ [40]).
    destruct (cds_wraps subs (join s_or_sep (map show subs))).
    + change (codes ")") with [41]. change (codes "(" ++ join s_or_sep (map show subs) ++ [41])
        with (40 :: join s_or_sep (map show subs) ++ [41]).
      anorm. rewrite lex_prefix.
      rewrite word_lex; [|reflexivity|tk_r]. rewrite punct_lex by reflexivity. rewrite punct_lex by reflexivity.
      rewrite Join by tk_r. rewrite punct_lex by reflexivity. rewrite punct_lex by reflexivity.
      pnorm. reflexivity.
    + change (codes ")") with [41]. anorm. rewrite lex_prefix.
      rewrite word_lex; [|reflexivity|tk_r]. rewrite punct_lex by reflexivity.
      rewrite Join by tk_r. rewrite punct_lex by reflexivity.
      pnorm. reflexivity.
  - (* CGroup *)
    assert (HF : Forall lexes subs).
    { rewrite forallb_forall in Hl. rewrite Forall_forall in *. intros x Hx. apply H; [assumption|apply Hl; assumption]. }
    assert (Par : forall body toks, (forall rest', term_ok rest' -> tok_aux (body ++ rest') [] false = pre toks (tok_aux rest' [] false)) ->
              tok_aux ((prefix n ++ codes "(" ++ body ++ codes ")") ++ rest) [] false
              = pre (lt_neg n ++ codes "(" :: toks ++ [codes ")"]) (tok_aux rest [] false)).
    { intros body toks Hb. change (codes "(") with [40]. change (codes ")") with [41]. anorm. rewrite lex_prefix.
      rewrite punct_lex by reflexivity. rewrite Hb by tk_r. rewrite punct_lex by reflexivity. pnorm. reflexivity. }
    assert (Join : forall rest', term_ok rest' ->
              tok_aux (join s_or_sep (map show subs) ++ rest') [] false
              = pre (ljoin (codes "or") (map lt subs)) (tok_aux rest' [] false)).
    { intros rest' Hr'. change s_or_sep with (32 :: codes "or" ++ [32]). apply lex_join; [reflexivity|assumption|assumption]. }
    cbn [show lt]. destruct subs as [|sub [|sub2 r]]; [apply Par; exact Join| |apply Par; exact Join].
    inversion HF as [|x l Hsub _]; subst.
    destruct (is_and sub); [apply Par; exact Hsub|].
    destruct (n && starts_with s_not (show sub)); [apply Par; exact Hsub|].
    anorm. rewrite lex_prefix. rewrite Hsub by assumption. pnorm. reflexivity.
  - (* CAnd *)
    assert (HF : Forall lexes ops).
    { rewrite forallb_forall in Hl. rewrite Forall_forall in *. intros x Hx. apply H; [assumption|apply Hl; assumption]. }
    cbn [show lt]. change s_and_sep with (32 :: codes "and" ++ [32]). apply lex_join; [reflexivity|assumption|assumption].
Qed.

Lemma tokenise_show : forall c, lexable c = true -> tokenise (show c) = Ok (lt c).
Proof.
  intros c H. unfold tokenise. rewrite <- (app_nil_r (show c)). rewrite (lex_show c H [] I).
  cbn [tok_aux flush pre]. rewrite app_nil_r. reflexivity.
Qed.

(* --- I5. what the printed text reads back as --- *)
Lemma NoDup_has_dup : forall l, NoDup l -> has_dup l = false.
Proof.
  induction l as [|x xs IH]; intros H; [reflexivity|]. inversion H; subst. cbn [has_dup].
  rewrite IH by assumption. rewrite orb_false_r. apply smem_false. assumption.
Qed.

Lemma dedupe_acc_id : forall l seen, NoDup l -> (forall x, In x l -> ~ In x seen) -> dedupe_acc seen l = l.
Proof.
  induction l as [|x xs IH]; intros seen Hd Hs; [reflexivity|]. inversion Hd; subst. cbn [dedupe_acc].
  assert (E : smem x seen = false) by (apply smem_false; apply Hs; left; reflexivity). rewrite E. f_equal.
  apply IH; [assumption|]. intros y Hy [C|C]; [subst; contradiction|]. apply (Hs y); [right; assumption|assumption].
Qed.

Lemma insert_by_end : forall x acc, Forall (fun y => str_ltb x y = false) acc -> insert_by str_ltb x acc = acc ++ [x].
Proof.
  induction acc as [|y ys IH]; intros H; [reflexivity|]. inversion H; subst. cbn [insert_by app].
  match goal with E : str_ltb x y = false |- _ => rewrite E end. f_equal. apply IH. assumption.
Qed.

Lemma ss_app_inv : forall (a : list str) x b, StronglySorted str_le (a ++ x :: b) -> Forall (fun y => str_le y x) a.
Proof.
  induction a as [|y a IH]; intros x b H; [constructor|]. cbn [app] in H. inversion H as [|y' l' Hs Hall]; subst.
  constructor; [|eapply IH; eassumption]. rewrite Forall_forall in Hall. apply Hall. apply in_elt.
Qed.

Lemma fold_insert_sorted : forall l acc, StronglySorted str_le (acc ++ l) ->
  fold_left (fun acc y => insert_by str_ltb y acc) l acc = acc ++ l.
Proof.
  induction l as [|x xs IH]; intros acc H; [cbn [fold_left]; rewrite app_nil_r; reflexivity|].
  cbn [fold_left]. rewrite insert_by_end by (eapply ss_app_inv; eassumption).
  rewrite IH; rewrite <- app_assoc; [reflexivity|assumption].
Qed.

Lemma sorted_set_idem : forall l, sorted_set (sorted_set l) = sorted_set l.
Proof.
  intros l. unfold sorted_set at 1. unfold dedupe.
  rewrite dedupe_acc_id; [|apply sorted_set_NoDup|intros x _ []].
  unfold sort_by. rewrite fold_insert_sorted; [reflexivity|]. cbn [app]. unfold sorted_set. apply sort_by_sorted.
Qed.

Definition cneg (c : cond) : bool :=
  match c with CSingle n _ | CScore n _ _ | CMin n _ _ | CCds n _ | CGroup n _ => n | CAnd _ => false end.
Definition negate (c : cond) : cond :=
  match c with
  | CSingle _ a => CSingle true a | CScore _ a s => CScore true a s | CMin _ k o => CMin true k o
  | CCds _ s => CCds true s | CGroup _ s => CGroup true s | CAnd o => CAnd o
  end.

(* the tree that the printed text denotes: a one-member group that is printed without parentheses is its
   member (negated once more if the group is negated); the options of minimum() come back sorted; the only
   member of a cds() that is printed with the explicit group of CDSCondition.__str__ comes back in that group *)
Fixpoint norm (c : cond) : cond :=
  match c with
  | CSingle n a => CSingle n a
  | CScore n a s => CScore n a s
  | CMin n k opts => CMin n k (sorted_set opts)
  | CCds n subs =>
    if cds_wraps subs (join s_or_sep (map show subs)) then CCds n [CGroup false (map norm subs)]
    else CCds n (map norm subs)
  | CGroup n subs =>
    match subs with
    | [sub] => if is_and sub then CGroup n [norm sub]
               else if n && starts_with s_not (show sub) then CGroup n [norm sub]
               else if n then negate (norm sub) else norm sub
    | _ => CGroup n (map norm subs)
    end
  | CAnd ops => CAnd (map norm ops)
  end.

Definition is_nil {A} (l : list A) : bool := match l with [] => true | _ => false end.
(* the shapes the parser builds: operands of an AndCondition are not AndConditions and there are at least two,
   groups are not empty, cds/minimum only outside cds *)
Fixpoint shape (allow : bool) (c : cond) : bool :=
  match c with
  | CSingle _ _ | CScore _ _ _ => true
  | CMin _ _ opts => allow && negb (is_nil opts)
  | CCds _ subs => allow && negb (is_nil subs) && forallb (shape false) subs
  | CGroup _ subs => negb (is_nil subs) && forallb (shape allow) subs
  | CAnd ops => match ops with _ :: _ :: _ => true | _ => false end
                && forallb (fun o => negb (is_and o) && shape allow o) ops
  end.
Lemma cds_wraps_single : forall subs inner, cds_wraps subs inner = true ->
  exists sub, subs = [sub] /\ has_open inner = false /\ is_and sub = false.
Proof.
  intros [|sub [|s2 r]] inner H; cbn [cds_wraps] in H; try discriminate H.
  apply andb_true_iff in H. destruct H as [H1 H2]. apply negb_true_iff in H1. apply negb_true_iff in H2.
  exists sub. repeat split; assumption.
Qed.

Definition nf_top (x : cond) : bool :=
  match x with CGroup n [y] => is_and y || (n && starts_with s_not (show y)) | _ => true end.

Lemma is_and_negate : forall x, is_and (negate x) = is_and x.
Proof. intros []; reflexivity. Qed.

Lemma norm_is_and : forall c, is_and (norm c) = is_and c.
Proof.
  induction c using cond_ind_nested; try reflexivity.
  { cbn [norm]. destruct (cds_wraps subs (join s_or_sep (map show subs))); reflexivity. }
  cbn [norm]. destruct subs as [|sub [|s2 r]]; try reflexivity.
  inversion H as [|x l Hs _]; subst. destruct (is_and sub) eqn:E; [reflexivity|].
  destruct (n && starts_with s_not (show sub)); [reflexivity|].
  destruct n; [rewrite is_and_negate|]; rewrite Hs; reflexivity.
Qed.

Lemma cneg_negate : forall x, is_and x = false -> cneg (negate x) = true.
Proof. intros []; intros H; try reflexivity. discriminate H. Qed.

Lemma is_id_name_ok : forall a, is_id a = true -> name_ok a = true.
Proof. intros a H. apply identifier_name_ok. apply Z.eqb_eq. exact H. Qed.

Lemma sw_prefix : forall n r, mismatch s_not r = true -> starts_with s_not (prefix n ++ r) = n.
Proof.
  intros [|] r H; cbn [prefix].
  - apply starts_with_self_app.
  - cbn [app]. rewrite <- (app_nil_r r). apply mismatch_app. assumption.
Qed.

(* the text starts with "not " exactly when the tree read back is negated *)
Lemma sw_norm : forall c, lexable c = true -> is_and c = false -> starts_with s_not (show c) = cneg (norm c).
Proof.
  induction c using cond_ind_nested; intros Hl Ha; cbn [lexable] in Hl.
  - cbn [show norm cneg]. destruct n; cbn [prefix].
    + apply starts_with_self_app.
    + cbn [app]. rewrite <- (app_nil_r name). apply name_tail; [apply is_id_name_ok; assumption|exact I].
  - cbn [show norm cneg]. apply (sw_prefix n (codes "minscore(" ++ _)). reflexivity.
  - cbn [show norm cneg]. apply (sw_prefix n (codes "minimum(" ++ _)). reflexivity.
  - cbn [show norm]. destruct (cds_wraps subs (join s_or_sep (map show subs))); cbn [cneg];
      apply (sw_prefix n (codes "cds(" ++ _)); reflexivity.
  - assert (Par : forall r, starts_with s_not (prefix n ++ codes "(" ++ r) = n)
      by (intros r; apply (sw_prefix n (codes "(" ++ r)); reflexivity).
    cbn [show norm]. destruct subs as [|sub [|s2 r]]; [apply Par| |apply Par].
    inversion H as [|x l Hs _]; subst. cbn [forallb] in Hl. rewrite andb_true_r in Hl.
    destruct (is_and sub) eqn:E; [apply Par|].
    destruct (n && starts_with s_not (show sub)) eqn:E2; [apply Par|].
    destruct n; cbn [prefix].
    + rewrite starts_with_self_app. symmetry. apply cneg_negate. rewrite norm_is_and. assumption.
    + cbn [app]. apply Hs; assumption.
  - discriminate Ha.
Qed.

Lemma nf_top_negate : forall x, nf_top x = true -> nf_top (negate x) = true.
Proof.
  intros [] H; try reflexivity. cbn [negate nf_top] in *. destruct subs as [|y [|z r]]; try reflexivity.
  destruct (is_and y); [reflexivity|]. cbn [orb andb] in *. destruct neg; [assumption|discriminate H].
Qed.

Lemma show_negate : forall x, is_and x = false -> cneg x = false -> nf_top x = true ->
  show (negate x) = s_not ++ show x.
Proof.
  intros [] Ha Hc Hn; cbn [cneg] in Hc; subst; try reflexivity; [|discriminate Ha].
  cbn [negate show nf_top] in *. destruct subs as [|y [|z r]]; try reflexivity.
  rewrite andb_false_l, orb_false_r in Hn. rewrite Hn. reflexivity.
Qed.

Lemma map_ext_Forall : forall {A B} (f g : A -> B) l, Forall (fun x => f x = g x) l -> map f l = map g l.
Proof. induction 1; [reflexivity|]. cbn [map]. congruence. Qed.

(* printing the tree read back gives the same text again *)
Lemma show_norm : forall c, lexable c = true -> show (norm c) = show c /\ nf_top (norm c) = true.
Proof.
  induction c using cond_ind_nested; intros Hl; cbn [lexable] in Hl; try (split; reflexivity).
  - split; [|reflexivity]. cbn [norm show]. rewrite sorted_set_idem. reflexivity.
  - assert (HM : map show (map norm subs) = map show subs).
    { rewrite map_map. apply map_ext_Forall. rewrite forallb_forall in Hl. rewrite Forall_forall in *.
      intros x Hx. apply H; [assumption|apply Hl; assumption]. }
    cbn [norm]. destruct (cds_wraps subs (join s_or_sep (map show subs))) eqn:W.
    + split; [|reflexivity]. destruct (cds_wraps_single _ _ W) as [sub [-> [Ho Ha]]].
      cbn [map join] in *. injection HM as HM.
      cbn [show map join is_and andb prefix app cds_wraps negb]. rewrite norm_is_and, Ha, HM, Ho. reflexivity.
    + split; [|reflexivity]. cbn [show]. rewrite HM.
      replace (cds_wraps (map norm subs) (join s_or_sep (map show subs))) with false; [rewrite W; reflexivity|].
      rewrite <- W. destruct subs as [|sub [|s2 r]]; try reflexivity. cbn [map cds_wraps]. rewrite norm_is_and. reflexivity.
  - assert (HM : map show (map norm subs) = map show subs).
    { rewrite map_map. apply map_ext_Forall. rewrite forallb_forall in Hl. rewrite Forall_forall in *.
      intros x Hx. apply H; [assumption|apply Hl; assumption]. }
    cbn [norm]. destruct subs as [|sub [|s2 r]].
    + split; reflexivity.
    + inversion H as [|x l Hs _]; subst. cbn [forallb] in Hl. rewrite andb_true_r in Hl.
      destruct (Hs Hl) as [Hshow Hnf].
      destruct (is_and sub) eqn:E.
      * cbn [show nf_top]. rewrite norm_is_and, E, Hshow. split; reflexivity.
      * destruct (n && starts_with s_not (show sub)) eqn:E2.
        -- cbn [show nf_top]. rewrite norm_is_and, E, Hshow, E2. split; reflexivity.
        -- destruct n.
           ++ cbn [andb] in E2. split; [|apply nf_top_negate; assumption].
              rewrite show_negate; [rewrite Hshow; cbn [show]; rewrite E; cbn [andb]; rewrite E2; reflexivity|rewrite norm_is_and; assumption| |assumption].
              rewrite <- sw_norm; assumption.
           ++ split; [rewrite Hshow; cbn [show]; rewrite E; reflexivity|assumption].
    + split; [|reflexivity]. cbn [show]. cbn [map] in HM |- *. rewrite HM. reflexivity.
  - split; [|reflexivity]. cbn [norm show]. rewrite map_map.
    rewrite (map_ext_Forall (fun x => show (norm x)) show ops); [reflexivity|].
    rewrite forallb_forall in Hl. rewrite Forall_forall in *. intros x Hx. apply H; [assumption|apply Hl; assumption].
Qed.

Lemma nrb_negate : forall x, nrb (negate x) = nrb x.
Proof. intros []; reflexivity. Qed.

Lemma nrb_list_norm : forall subs,
  Forall (fun c => lexable c = true -> nrb c = true -> nrb (norm c) = true) subs ->
  forallb lexable subs = true -> negb (has_dup (map show subs)) && forallb nrb subs = true ->
  negb (has_dup (map show (map norm subs))) && forallb nrb (map norm subs) = true.
Proof.
  intros subs HF Hl H. apply andb_true_iff in H. destruct H as [H1 H2].
  assert (HM : map show (map norm subs) = map show subs).
  { rewrite map_map. apply map_ext_Forall. rewrite forallb_forall in Hl. rewrite Forall_forall. intros x Hx.
    apply show_norm. apply Hl. assumption. }
  rewrite HM, H1. cbn [andb]. rewrite forallb_forall in *. rewrite Forall_forall in HF.
  intros y Hy. apply in_map_iff in Hy. destruct Hy as [x [<- Hx]]. apply HF; auto.
Qed.

Lemma nrb_norm : forall c, lexable c = true -> nrb c = true -> nrb (norm c) = true.
Proof.
  induction c using cond_ind_nested; intros Hl Hn; cbn [lexable] in Hl; try reflexivity.
  - cbn [norm nrb] in *. apply andb_true_iff in Hn. destruct Hn as [_ Hk]. rewrite Hk.
    rewrite NoDup_has_dup by apply sorted_set_NoDup. reflexivity.
  - cbn [norm]. destruct (cds_wraps subs (join s_or_sep (map show subs))) eqn:W;
      [|cbn [nrb] in *; apply nrb_list_norm; assumption].
    destruct (cds_wraps_single _ _ W) as [sub [-> _]]. inversion H as [|x l Hs _]; subst.
    cbn [forallb] in Hl. rewrite andb_true_r in Hl.
    cbn [nrb map forallb] in Hn. apply andb_true_iff in Hn. destruct Hn as [_ Hn]. rewrite andb_true_r in Hn.
    specialize (Hs Hl Hn). cbn [nrb map forallb has_dup smem existsb orb negb andb]. rewrite Hs. reflexivity.
  - cbn [norm]. destruct subs as [|sub [|s2 r]]; [reflexivity| |cbn [nrb] in *; apply nrb_list_norm; assumption].
    inversion H as [|x l Hs _]; subst. cbn [forallb] in Hl. rewrite andb_true_r in Hl.
    cbn [nrb map forallb] in Hn. apply andb_true_iff in Hn. destruct Hn as [_ Hn]. rewrite andb_true_r in Hn.
    specialize (Hs Hl Hn).
    destruct (is_and sub); [cbn [nrb map forallb has_dup smem existsb orb negb andb]; rewrite Hs; reflexivity|].
    destruct (n && starts_with s_not (show sub)); [cbn [nrb map forallb has_dup smem existsb orb negb andb]; rewrite Hs; reflexivity|].
    destruct n; [rewrite nrb_negate|]; assumption.
  - cbn [norm nrb] in *. apply nrb_list_norm; assumption.
Qed.

(* --- I6. the printed tokens are a sentence of the grammar, with reading norm c --- *)
Definition tk (c : cond) : list token := map mk_token (lt c).
Definition tkn (n : bool) : list token := map mk_token (lt_neg n).

Lemma notp_tkn : forall n, notp n (tkn n).
Proof. intros [|]; cbn [notp tkn lt_neg map]; [eexists; split; reflexivity|reflexivity]. Qed.

Lemma H_un_negate : forall allow T x nt, H_un allow T x -> cneg x = false -> ttype nt = c02_T_NOT ->
  H_un allow (nt :: T) (negate x).
Proof.
  intros allow T x nt H Hc Hnt.
  assert (HN : notp true [nt]) by (exists nt; split; [reflexivity|assumption]).
  destruct H; cbn [cneg] in Hc; subst neg;
    match goal with Hn : notp false _ |- _ => cbn [notp] in Hn; subst end; cbn [app negate].
  - apply (HU_id allow true [nt]); assumption.
  - apply (HU_score allow true [nt]); assumption.
  - apply (HU_min _ true [nt]); try assumption; reflexivity.
  - apply (HU_grp allow true [nt]); assumption.
  - apply (HU_cds _ true [nt]); try assumption; reflexivity.
Qed.

Lemma tk_ljoin : forall sep r x,
  map mk_token (ljoin sep (lt x :: map lt r)) = tk x ++ flat_map (fun y => mk_token sep :: tk y) r.
Proof.
  intros sep. induction r as [|y r IH]; intros x.
  - cbn [map ljoin flat_map]. rewrite app_nil_r. reflexivity.
  - cbn [map]. change (ljoin sep (lt x :: lt y :: map lt r)) with (lt x ++ sep :: ljoin sep (lt y :: map lt r)).
    rewrite map_app. cbn [map]. rewrite IH. reflexivity.
Qed.

Lemma ortail_flat : forall allow r, Forall (fun x => H_item allow (tk x) (norm x)) r ->
  H_ortail allow (flat_map (fun y => mk_token (codes "or") :: tk y) r) (map norm r).
Proof.
  induction 1 as [|y r Hy _ IH]; [constructor|]. cbn [flat_map map app].
  apply HO_cons; [reflexivity|assumption|assumption].
Qed.

Lemma andtail_flat : forall allow r, Forall (fun x => H_un allow (tk x) (norm x)) r ->
  H_andtail allow (flat_map (fun y => mk_token (codes "and") :: tk y) r) (map norm r).
Proof.
  induction 1 as [|y r Hy _ IH]; [constructor|]. cbn [flat_map map app].
  apply HA_cons; [reflexivity|assumption|assumption].
Qed.

Lemma ors_ljoin : forall allow subs, subs <> [] -> Forall (fun x => H_item allow (tk x) (norm x)) subs ->
  H_ors allow (map mk_token (ljoin (codes "or") (map lt subs))) (map norm subs).
Proof.
  intros allow [|x r] Hne HF; [contradiction Hne; reflexivity|]. inversion HF; subst.
  cbn [map]. rewrite tk_ljoin. apply HO_ors; [assumption|apply ortail_flat; assumption].
Qed.

Lemma idtail_ljoin : forall l x, forallb is_id (x :: l) = true ->
  exists Tt, map mk_token (ljoin (codes ",") (map (fun o => [o]) (x :: l))) = mk_token x :: Tt /\ H_idtail Tt l.
Proof.
  induction l as [|y r IH]; intros x H.
  - exists []. split; [reflexivity|constructor].
  - cbn [forallb] in H. apply andb_true_iff in H. destruct H as [_ H]. destruct (IH y H) as [Tt [Heq HT]].
    exists (mk_token (codes ",") :: mk_token y :: Tt). split.
    + change (ljoin (codes ",") (map (fun o => [o]) (x :: y :: r)))
        with ([x] ++ codes "," :: ljoin (codes ",") (map (fun o => [o]) (y :: r))).
      rewrite map_app. cbn [map app]. cbn [map] in Heq. rewrite Heq. reflexivity.
    + apply (HT_cons (mk_token (codes ",")) (mk_token y)); [reflexivity| |assumption].
      cbn [forallb] in H. apply andb_true_iff in H. destruct H as [H _]. apply Z.eqb_eq. exact H.
Qed.

(* a tree that reads back as a bare, possibly negated, identifier is printed without any parenthesis: the only
   member of a cds() is then kept in an explicit group by CDSCondition.__str__, so what is read back inside
   cds( ) is never a single identifier (finding cds_single_wrapped, repaired) *)
Lemma not_single_not_open : forall c, is_single c = false -> (c =? 40) = false.
Proof.
  intros c H. destruct (c =? 40) eqn:E; [|reflexivity]. apply Z.eqb_eq in E. subst c. vm_compute in H. discriminate H.
Qed.

Lemma word_no_open : forall s, is_word s = true -> has_open s = false.
Proof.
  intros [|c0 cs] H; [discriminate H|]. cbn [is_word] in H. apply andb_true_iff in H. destruct H as [H0 Hcs].
  unfold has_open. cbn [existsb].
  unfold wc in H0. repeat rewrite andb_true_iff in H0. destruct H0 as [[_ H0] _]. apply negb_true_iff in H0.
  rewrite (not_single_not_open _ H0). cbn [orb].
  apply not_true_is_false. intros C. apply existsb_exists in C. destruct C as [x [Hx Ex]].
  rewrite forallb_forall in Hcs. specialize (Hcs x Hx). unfold wc2 in Hcs. repeat rewrite andb_true_iff in Hcs.
  destruct Hcs as [[_ H1] _]. apply negb_true_iff in H1. rewrite (not_single_not_open _ H1) in Ex. discriminate Ex.
Qed.

Lemma has_open_app : forall a b, has_open (a ++ b) = has_open a || has_open b.
Proof. intros. unfold has_open. apply existsb_app. Qed.

Lemma has_open_prefix : forall n, has_open (prefix n) = false.
Proof. intros [|]; reflexivity. Qed.

Lemma is_single_negate : forall x, is_single_cond (negate x) = is_single_cond x.
Proof. intros []; reflexivity. Qed.

Lemma norm_single_show : forall c, lexable c = true -> is_single_cond (norm c) = true -> has_open (show c) = false.
Proof.
  induction c using cond_ind_nested; intros Hl Hs; cbn [lexable] in Hl.
  - cbn [show]. rewrite has_open_app, has_open_prefix. cbn [orb]. apply word_no_open. apply is_id_word. assumption.
  - discriminate Hs.
  - discriminate Hs.
  - cbn [norm] in Hs. destruct (cds_wraps subs (join s_or_sep (map show subs))); discriminate Hs.
  - cbn [norm] in Hs. destruct subs as [|sub [|s2 r]]; try discriminate Hs.
    inversion H as [|x l IH _]; subst. cbn [forallb] in Hl. rewrite andb_true_r in Hl.
    cbn [show].
    destruct (is_and sub); [discriminate Hs|]. destruct (n && starts_with s_not (show sub)); [discriminate Hs|].
    rewrite has_open_app, has_open_prefix. cbn [orb]. apply IH; [assumption|].
    destruct n; [rewrite is_single_negate in Hs|]; assumption.
  - discriminate Hs.
Qed.

Lemma cds_content_norm : forall subs, subs <> [] -> forallb lexable subs = true ->
  cds_wraps subs (join s_or_sep (map show subs)) = false -> cds_content (map norm subs) = true.
Proof.
  intros [|sub [|s2 r]] Hne Hl W; [contradiction Hne; reflexivity| |reflexivity].
  cbn [map cds_content]. destruct (is_single_cond (norm sub)) eqn:E; [|reflexivity]. exfalso.
  cbn [forallb] in Hl. rewrite andb_true_r in Hl.
  cbn [map join cds_wraps] in W. rewrite (norm_single_show sub Hl E) in W.
  assert (Ha : is_and sub = false).
  { rewrite <- norm_is_and. destruct (norm sub); try reflexivity. discriminate E. }
  rewrite Ha in W. discriminate W.
Qed.

Definition derives (allow : bool) (c : cond) : Prop :=
  if is_and c then H_item allow (tk c) (norm c) else H_un allow (tk c) (norm c).

Lemma derives_item : forall allow c, derives allow c -> H_item allow (tk c) (norm c).
Proof. intros allow c H. unfold derives in H. destruct (is_and c); [assumption|apply HI_un; assumption]. Qed.

Lemma derives_list : forall allow subs,
  Forall (fun c => forall allow, lexable c = true -> shape allow c = true -> derives allow c) subs ->
  forallb lexable subs = true -> forallb (shape allow) subs = true ->
  Forall (fun x => H_item allow (tk x) (norm x)) subs.
Proof.
  intros allow subs HF H1 H2. rewrite forallb_forall in *. rewrite Forall_forall in *. intros x Hx.
  apply derives_item. apply HF; auto.
Qed.

Lemma derive : forall c allow, lexable c = true -> shape allow c = true -> derives allow c.
Proof.
  induction c using cond_ind_nested; intros allow Hl Hs; unfold derives; cbn [is_and]; cbn [lexable] in Hl.
  - (* CSingle *)
    unfold tk. cbn [lt norm]. rewrite map_app. cbn [map].
    apply (HU_id allow n (tkn n) (mk_token name)); [apply notp_tkn|apply Z.eqb_eq; exact Hl].
  - (* CScore *)
    apply andb_true_iff in Hl. destruct Hl as [Hid Hs0]. destruct (show_Z_nonneg s ltac:(lia)) as [Hint Hdig].
    unfold tk. cbn [lt norm]. rewrite map_app. cbn [map].
    replace (CScore n name s) with (CScore n (ttext (mk_token name)) (int_of (ttext (mk_token (show_Z s)))))
      by (cbn [ttext mk_token]; rewrite Hint; reflexivity).
    apply (HU_score allow n (tkn n)); try reflexivity; [apply notp_tkn|apply Z.eqb_eq; exact Hid|].
    apply digits_classify. assumption.
  - (* CMin *)
    apply andb_true_iff in Hl. destruct Hl as [Hk Hids]. destruct (show_Z_nonneg k ltac:(lia)) as [Hint Hdig].
    cbn [shape] in Hs. apply andb_true_iff in Hs. destruct Hs as [Hal Hne]. subst allow.
    destruct (sorted_set opts) as [|i l] eqn:E.
    { destruct opts as [|o1 opts']; [discriminate Hne|]. exfalso.
      assert (Hin : In o1 (sorted_set (o1 :: opts'))) by (apply sorted_set_In; left; reflexivity).
      rewrite E in Hin. exact Hin. }
    assert (Hids' : forallb is_id (i :: l) = true) by (rewrite <- E; apply sorted_set_forallb; assumption).
    destruct (idtail_ljoin l i Hids') as [Tt [Heq HT]].
    unfold tk. cbn [lt norm]. rewrite E. rewrite !map_app. rewrite Heq. cbn [map app].
    replace (CMin n k (i :: l)) with (CMin n (int_of (ttext (mk_token (show_Z k)))) (ttext (mk_token i) :: l))
      by (cbn [ttext mk_token]; rewrite Hint; reflexivity).
    apply (HU_min true n (tkn n)); try reflexivity; try assumption; [apply notp_tkn|apply digits_classify; assumption|].
    cbn [forallb] in Hids'. apply andb_true_iff in Hids'. destruct Hids' as [Hi _]. apply Z.eqb_eq. exact Hi.
  - (* CCds *)
    cbn [shape] in Hs. apply andb_true_iff in Hs. destruct Hs as [Hs Hsh]. apply andb_true_iff in Hs.
    destruct Hs as [Hal Hne]. subst allow.
    assert (HI : Forall (fun x => H_item false (tk x) (norm x)) subs) by (apply derives_list; assumption).
    assert (Cds : forall X cs, H_ors false (map mk_token X) cs -> cds_content cs = true ->
              H_un true (map mk_token (lt_neg n ++ [codes "cds"; codes "("] ++ X ++ [codes ")"])) (CCds n cs)).
    { intros X cs HX Hcont. rewrite !map_app. cbn [map app].
      apply (HU_cds true n (tkn n)); try reflexivity; [apply notp_tkn|assumption|assumption]. }
    unfold tk. cbn [lt norm]. destruct (cds_wraps subs (join s_or_sep (map show subs))) eqn:W.
    + (* the only member prints without a parenthesis: cds((member)) *)
      destruct (cds_wraps_single _ _ W) as [sub [-> _]]. inversion HI as [|x l Hsub _]; subst.
      apply Cds; [|reflexivity]. cbn [map ljoin].
      match goal with |- H_ors _ ?L _ => rewrite <- (app_nil_r L) end. apply HO_ors; [|constructor].
      apply HI_un. cbn [map]. rewrite map_app. cbn [map].
      apply (HU_grp false false []); try reflexivity.
      rewrite <- (app_nil_r (map mk_token (lt sub))). apply HO_ors; [exact Hsub|constructor].
    + apply Cds; [|apply cds_content_norm; [destruct subs; [discriminate Hne|discriminate]|assumption|assumption]].
      apply (ors_ljoin false subs); [destruct subs; [discriminate Hne|discriminate]|]. assumption.
  - (* CGroup *)
    cbn [shape] in Hs. apply andb_true_iff in Hs. destruct Hs as [Hne Hsh].
    assert (HI : Forall (fun x => H_item allow (tk x) (norm x)) subs) by (apply derives_list; assumption).
    unfold tk. cbn [lt norm]. destruct subs as [|sub [|s2 r]]; [discriminate Hne| |].
    + inversion HI as [|x l Hsub _]; subst.
      assert (Grp : H_un allow (map mk_token (lt_neg n ++ codes "(" :: lt sub ++ [codes ")"])) (CGroup n [norm sub])).
      { rewrite map_app. cbn [map]. rewrite map_app. cbn [map].
        apply (HU_grp allow n (tkn n)); try reflexivity; [apply notp_tkn|].
        rewrite <- (app_nil_r (map mk_token (lt sub))). apply HO_ors; [exact Hsub|constructor]. }
      destruct (is_and sub) eqn:E; [exact Grp|].
      destruct (n && starts_with s_not (show sub)) eqn:E2; [exact Grp|].
      inversion H as [|x l Hd _]; subst. cbn [forallb] in Hl, Hsh. rewrite andb_true_r in Hl, Hsh.
      specialize (Hd allow Hl Hsh). unfold derives in Hd. rewrite E in Hd.
      destruct n.
      * cbn [andb] in E2. cbn [lt_neg app map]. apply H_un_negate; [exact Hd| |reflexivity].
        rewrite <- sw_norm; assumption.
      * cbn [lt_neg app]. exact Hd.
    + rewrite map_app. cbn [map]. rewrite map_app. cbn [map].
      apply (HU_grp allow n (tkn n)); try reflexivity; [apply notp_tkn|].
      apply (ors_ljoin allow (sub :: s2 :: r)); [discriminate|assumption].
  - (* CAnd *)
    cbn [shape] in Hs. apply andb_true_iff in Hs. destruct Hs as [Hlen Hsh].
    destruct ops as [|o1 [|o2 r]]; try discriminate Hlen.
    assert (HU : Forall (fun x => H_un allow (tk x) (norm x)) (o1 :: o2 :: r)).
    { rewrite forallb_forall in *. rewrite Forall_forall in *. intros x Hx.
      specialize (Hsh x Hx). apply andb_true_iff in Hsh. destruct Hsh as [Hna Hshx]. apply negb_true_iff in Hna.
      specialize (H x Hx allow (Hl x Hx) Hshx). unfold derives in H. rewrite Hna in H. exact H. }
    inversion HU as [|x l Hu1 Hur]; subst.
    unfold tk. cbn [lt norm map]. pose proof (tk_ljoin (codes "and") (o2 :: r) o1) as Etk. cbn [map] in Etk. rewrite Etk.
    apply HI_and; [assumption|apply (andtail_flat allow (o2 :: r)); assumption|discriminate].
Qed.

(* --- I7. meaning: any interpretation of the leaves, groups as OR, AndConditions as AND, cds(...) evaluated
       in some gene's own environment --- *)
Record env := mkEnv { eS : str -> bool; eSc : str -> Z -> bool; eM : Z -> list str -> bool }.
Fixpoint den (g : env) (genes : list env) (c : cond) : bool :=
  match c with
  | CSingle n a => xorb n (eS g a)
  | CScore n a s => xorb n (eSc g a s)
  | CMin n k opts => xorb n (eM g k (sorted_set opts))
  | CCds n subs => xorb n (existsb (fun e => existsb (den e []) subs) genes)
  | CGroup n subs => xorb n (existsb (den g genes) subs)
  | CAnd ops => forallb (den g genes) ops
  end.

Lemma existsb_map_ext : forall {A B} (f : B -> bool) (h : A -> B) (k : A -> bool) l,
  Forall (fun x => f (h x) = k x) l -> existsb f (map h l) = existsb k l.
Proof. induction 1; [reflexivity|]. cbn [map existsb]. congruence. Qed.
Lemma forallb_map_ext : forall {A B} (f : B -> bool) (h : A -> B) (k : A -> bool) l,
  Forall (fun x => f (h x) = k x) l -> forallb f (map h l) = forallb k l.
Proof. induction 1; [reflexivity|]. cbn [map forallb]. congruence. Qed.
Lemma existsb_ext_all : forall {A} (f k : A -> bool) l, (forall x, f x = k x) -> existsb f l = existsb k l.
Proof. intros A f k l H. induction l as [|x l IH]; [reflexivity|]. cbn [existsb]. rewrite H, IH. reflexivity. Qed.

Lemma den_negate : forall g genes x, is_and x = false -> cneg x = false -> den g genes (negate x) = negb (den g genes x).
Proof.
  intros g genes [] Ha Hc; cbn [cneg is_and] in Hc, Ha; subst; try discriminate Ha;
    cbn [negate den]; rewrite ?xorb_true_l, ?xorb_false_l; reflexivity.
Qed.

Lemma den_norm : forall c, lexable c = true -> forall g genes, den g genes (norm c) = den g genes c.
Proof.
  induction c using cond_ind_nested; intros Hl g genes; cbn [lexable] in Hl; try reflexivity.
  - cbn [norm den]. rewrite sorted_set_idem. reflexivity.
  - assert (HM : forall e, existsb (den e []) (map norm subs) = existsb (den e []) subs).
    { intros e. apply existsb_map_ext.
      rewrite forallb_forall in Hl. rewrite Forall_forall in *. intros x Hx. apply H; [assumption|apply Hl; assumption]. }
    cbn [norm]. destruct (cds_wraps subs (join s_or_sep (map show subs))); cbn [den]; f_equal;
      apply existsb_ext_all; intros e; [|apply HM].
    cbn [existsb den]. rewrite HM. rewrite xorb_false_l, orb_false_r. reflexivity.
  - assert (HM : forall g genes, existsb (den g genes) (map norm subs) = existsb (den g genes) subs).
    { intros g' genes'. apply existsb_map_ext. rewrite forallb_forall in Hl. rewrite Forall_forall in *.
      intros x Hx. apply H; [assumption|apply Hl; assumption]. }
    cbn [norm]. destruct subs as [|sub [|s2 r]]; [reflexivity| |cbn [den]; rewrite HM; reflexivity].
    inversion H as [|x l Hs _]; subst. cbn [forallb] in Hl. rewrite andb_true_r in Hl. specialize (Hs Hl).
    destruct (is_and sub) eqn:E; [cbn [den existsb]; rewrite Hs; reflexivity|].
    destruct (n && starts_with s_not (show sub)) eqn:E2; [cbn [den existsb]; rewrite Hs; reflexivity|].
    destruct n.
    + cbn [andb] in E2. rewrite den_negate; [|rewrite norm_is_and; assumption|rewrite <- sw_norm; assumption].
      cbn [den existsb]. rewrite Hs. destruct (den g genes sub); reflexivity.
    + cbn [den existsb]. rewrite Hs. destruct (den g genes sub); reflexivity.
  - cbn [norm den]. apply forallb_map_ext.
    rewrite forallb_forall in Hl. rewrite Forall_forall in *. intros x Hx. apply H; [assumption|apply Hl; assumption].
Qed.

(* --- I8. the round trip --- *)
Definition rt_ok (c : cond) : bool := lexable c && shape true c && nrb c.

Lemma roundtrip_conds : forall cs, cs <> [] -> forallb rt_ok cs = true ->
  let toks := ljoin (codes "or") (map lt cs) in
  tokenise (join s_or_sep (map show cs)) = Ok toks /\
  (forall als cons f, nah als (map mk_token toks) = true -> (2 * length toks + 3 <= f)%nat ->
     parse_conditions f true false (st (map mk_token toks) cons als)
     = Ok (map norm cs, st [] (rev (map mk_token toks) ++ cons) als)) /\
  map show (map norm cs) = map show cs /\
  (forall g genes, map (den g genes) (map norm cs) = map (den g genes) cs).
Proof.
  intros cs Hne Hok toks.
  assert (H4 : Forall (fun c => lexable c = true /\ shape true c = true /\ nrb c = true) cs).
  { rewrite forallb_forall in Hok. rewrite Forall_forall. intros x Hx. specialize (Hok x Hx). unfold rt_ok in Hok.
    repeat rewrite andb_true_iff in Hok. tauto. }
  rewrite Forall_forall in H4.
  split; [|split; [|split]].
  - unfold tokenise. rewrite <- (app_nil_r (join s_or_sep (map show cs))).
    change s_or_sep with (32 :: codes "or" ++ [32]).
    rewrite (lex_join (codes "or")); [|reflexivity| |exact I].
    + cbn [tok_aux flush pre]. rewrite app_nil_r. reflexivity.
    + rewrite Forall_forall. intros x Hx. apply lex_show. apply H4. assumption.
  - intros als cons f Hna Hf.
    assert (HD : H_ors true (map mk_token toks) (map norm cs)).
    { apply ors_ljoin; [assumption|]. rewrite Forall_forall. intros x Hx. apply derives_item.
      destruct (H4 x Hx) as [A [B _]]. apply derive; assumption. }
    destruct (parser_complete true) as [_ [_ [_ [_ Hors]]]].
    assert (Hnr : forallb nrb (map norm cs) = true).
    { rewrite forallb_forall. intros y Hy. apply in_map_iff in Hy. destruct Hy as [x [<- Hx]].
      destruct (H4 x Hx) as [A [_ D]]. apply nrb_norm; assumption. }
    pose proof (Hors _ _ HD Hnr als false [] cons f Hna eq_refl eq_refl eq_refl (fun _ => eq_refl)) as P.
    rewrite app_nil_r in P. apply P. rewrite map_length. exact Hf.
  - rewrite map_map. apply map_ext_Forall. rewrite Forall_forall. intros x Hx. apply show_norm. apply H4. assumption.
  - intros g genes. rewrite map_map. apply map_ext_Forall. rewrite Forall_forall. intros x Hx. apply den_norm. apply H4. assumption.
Qed.

(* ====================================================================== *)
(* J. the two presentations of the grammar agree (left- and right-        *)
(*    recursive lists), hence: accepted <-> grammatical                    *)
(* ====================================================================== *)
Scheme G_core_mut := Minimality for G_core Sort Prop
  with G_un_mut := Minimality for G_un Sort Prop
  with G_andsR_mut := Minimality for G_andsR Sort Prop
  with G_item_mut := Minimality for G_item Sort Prop
  with G_orsR_mut := Minimality for G_orsR Sort Prop.
Combined Scheme G_mutind from G_core_mut, G_un_mut, G_andsR_mut, G_item_mut, G_orsR_mut.

Lemma andtail_snoc : forall allow T cs a T' c, H_andtail allow T cs -> ttype a = c02_T_AND -> H_un allow T' c ->
  H_andtail allow (T ++ a :: T') (cs ++ [c]).
Proof.
  intros allow T cs a T' c H Ha Hc. induction H as [|al a0 T0 c0 T0' cs0 Ha0 Hu0 Ht0 IH].
  - cbn [app]. rewrite <- (app_nil_r T'). apply HA_cons; [assumption|assumption|constructor].
  - cbn [app]. rewrite <- app_assoc. apply HA_cons; [assumption|assumption|apply IH; assumption].
Qed.

Lemma ortail_snoc : forall allow T cs o T' c, H_ortail allow T cs -> ttype o = c02_T_OR -> H_item allow T' c ->
  H_ortail allow (T ++ o :: T') (cs ++ [c]).
Proof.
  intros allow T cs o T' c H Ho Hc. induction H as [|al o0 T0 c0 T0' cs0 Ho0 Hi0 Ht0 IH].
  - cbn [app]. rewrite <- (app_nil_r T'). apply HO_cons; [assumption|assumption|constructor].
  - cbn [app]. rewrite <- app_assoc. apply HO_cons; [assumption|assumption|apply IH; assumption].
Qed.

Lemma ors_snoc : forall allow T cs o T' c, H_ors allow T cs -> ttype o = c02_T_OR -> H_item allow T' c ->
  H_ors allow (T ++ o :: T') (cs ++ [c]).
Proof.
  intros allow T cs o T' c H Ho Hc. destruct H as [Ti ci Tt cst Hi Ht].
  rewrite <- app_assoc. cbn [app]. apply HO_ors; [assumption|]. apply ortail_snoc; assumption.
Qed.

Lemma G_to_H : forall allow,
  (forall neg T c, G_core allow neg T c -> forall N, notp neg N -> H_un allow (N ++ T) c) /\
  (forall T c, G_un allow T c -> H_un allow T c) /\
  (forall T ra, G_andsR allow T ra -> exists T1 c1 T2 cs, T = T1 ++ T2 /\ H_un allow T1 c1 /\
                                        H_andtail allow T2 cs /\ rev ra = c1 :: cs) /\
  (forall T c, G_item allow T c -> H_item allow T c) /\
  (forall T racc, G_orsR allow T racc -> H_ors allow T (rev racc)).
Proof.
  apply G_mutind.
  - intros allow neg t Ht N HN. apply HU_id; assumption.
  - intros allow neg o c T racc Ho Hc _ IH N HN. apply HU_grp; assumption.
  - intros allow neg k o c T racc Hal Hk Ho Hc _ IH Hcont N HN. apply HU_cds; assumption.
  - intros allow neg m o k cm lo i Tt l lc c Hal Hm Ho Hk Hcm Hlo Hi Hid Hlc Hc N HN. apply HU_min; assumption.
  - intros allow neg m o i cm sc c Hm Ho Hi Hcm Hsc Hc N HN. apply HU_score; assumption.
  - intros allow T c _ IH. apply (IH []). reflexivity.
  - intros allow nt T c Hnt _ IH. apply (IH [nt]). exists nt. split; [reflexivity|assumption].
  - intros allow T c _ IH. exists T, c, [], []. split; [rewrite app_nil_r; reflexivity|]. split; [assumption|].
    split; [constructor|reflexivity].
  - intros allow T ra a T' c _ IH Ha _ IHu. destruct IH as [T1 [c1 [T2 [cs [HT [H1 [H2 Hr]]]]]]]. subst T.
    exists T1, c1, (T2 ++ a :: T'), (cs ++ [c]). split; [rewrite <- app_assoc; reflexivity|]. split; [assumption|].
    split; [apply andtail_snoc; assumption|]. cbn [rev]. rewrite Hr. reflexivity.
  - intros allow T c _ IH. apply HI_un. assumption.
  - intros allow T ra _ IH Hlen. destruct IH as [T1 [c1 [T2 [cs [HT [H1 [H2 Hr]]]]]]]. subst T. rewrite Hr.
    apply HI_and; [assumption|assumption|]. intros ->.
    assert (Hl : length (rev ra) = 1%nat) by (rewrite Hr; reflexivity). rewrite rev_length in Hl. lia.
  - intros allow T c _ IH. cbn [rev app]. rewrite <- (app_nil_r T). apply HO_ors; [assumption|constructor].
  - intros allow T racc o T' c _ IH Ho _ IHi. cbn [rev]. apply ors_snoc; assumption.
Qed.

Lemma G_ors_H_ors : forall allow T cs, G_ors allow T cs -> H_ors allow T cs.
Proof.
  intros allow T cs H. unfold G_ors in H. destruct (G_to_H allow) as [_ [_ [_ [_ Hors]]]].
  apply Hors in H. rewrite rev_involutive in H. exact H.
Qed.

(* completeness of _parse_conditions for the grammar of section E *)
Lemma precedence_complete : forall allow T cs, G_ors allow T cs -> forallb nrb cs = true ->
  forall als g R cons f, nah als T = true -> nahd als R = true ->
  hd_is c02_T_AND R = false -> hd_is c02_T_OR R = false ->
  (forall cons', conditions_end g (st R cons' als) = Ok tt) -> (2 * length T + 3 <= f)%nat ->
  parse_conditions f allow g (st (T ++ R) cons als) = Ok (cs, st R (rev T ++ cons) als).
Proof.
  intros allow T cs HG Hn. apply G_ors_H_ors in HG. destruct (parser_complete allow) as [_ [_ [_ [_ Hors]]]].
  exact (Hors T cs HG Hn).
Qed.

(* ====================================================================== *)
(* K. what every tree of a grammatical token list looks like              *)
(* ====================================================================== *)
Definition tok_wf (t : token) : Prop := ttype t = classify (ttext t).

Lemma tok_wf_id : forall t, tok_wf t -> ttype t = c02_T_IDENTIFIER -> is_id (ttext t) = true.
Proof. intros t H Ht. unfold is_id. rewrite <- H, Ht. reflexivity. Qed.

Lemma classify_int_digits : forall s, classify s = c02_T_INT -> all_digits s = true.
Proof.
  intros s H. unfold classify in H. destruct (map_get s c02_token_mapping) eqn:E.
  - apply map_get_Some in E. subst z.
    assert (F : forallb (fun kv => negb (snd kv =? c02_T_INT)) c02_token_mapping = true) by (vm_compute; reflexivity).
    rewrite forallb_forall in F. specialize (F _ E). cbn [snd] in F. rewrite Z.eqb_refl in F. discriminate F.
  - destruct (all_digits s); [reflexivity|]. destruct (is_legal_identifier s); vm_compute in H; discriminate H.
Qed.

Lemma int_of_nonneg : forall s, forallb is_digit s = true -> 0 <= int_of s.
Proof.
  intros s H. unfold int_of.
  assert (G : forall l a, forallb is_digit l = true -> 0 <= a -> 0 <= fold_left (fun a c => a * 10 + (c - 48)) l a).
  { induction l as [|c l IH]; intros a Hl Ha; [exact Ha|]. cbn [forallb] in Hl. apply andb_true_iff in Hl.
    destruct Hl as [Hc Hl]. cbn [fold_left]. apply IH; [assumption|]. unfold is_digit in Hc. lia. }
  apply G; [assumption|lia].
Qed.

Lemma tok_wf_int : forall t, tok_wf t -> ttype t = c02_T_INT -> 0 <= int_of (ttext t).
Proof.
  intros t H Ht. apply int_of_nonneg. rewrite H in Ht. apply classify_int_digits in Ht.
  unfold all_digits in Ht. destruct (ttext t); [discriminate Ht|assumption].
Qed.

Lemma idtail_ids : forall T l, H_idtail T l -> Forall tok_wf T -> forallb is_id l = true.
Proof.
  induction 1 as [|c t T l Hc Ht _ IH]; intros HF; [reflexivity|].
  inversion HF as [|x1 l1 _ HF1]; subst. inversion HF1 as [|x2 l2 Hw HF2]; subst.
  cbn [forallb]. rewrite (tok_wf_id t Hw Ht). apply IH. assumption.
Qed.

Ltac fa_split H := repeat (rewrite Forall_app in H || rewrite Forall_cons_iff in H).

Lemma H_shape : forall allow,
  (forall T c, H_un allow T c -> Forall tok_wf T -> lexable c = true /\ shape allow c = true /\ is_and c = false) /\
  (forall T cs, H_andtail allow T cs -> Forall tok_wf T ->
     forallb lexable cs = true /\ forallb (fun o => negb (is_and o) && shape allow o) cs = true) /\
  (forall T c, H_item allow T c -> Forall tok_wf T -> lexable c = true /\ shape allow c = true) /\
  (forall T cs, H_ortail allow T cs -> Forall tok_wf T -> forallb lexable cs = true /\ forallb (shape allow) cs = true) /\
  (forall T cs, H_ors allow T cs -> Forall tok_wf T ->
     forallb lexable cs = true /\ forallb (shape allow) cs = true /\ cs <> []).
Proof.
  apply H_mutind.
  - intros allow neg N t _ Ht HF. fa_split HF. destruct HF as [_ [Hw _]].
    cbn [lexable shape is_and]. rewrite (tok_wf_id t Hw Ht). repeat split.
  - intros allow neg N m o i cm sc c _ Hm Ho Hi Hcm Hsc Hc HF. fa_split HF.
    destruct HF as [_ [_ [_ [Hwi [_ [Hwsc _]]]]]].
    cbn [lexable shape is_and]. rewrite (tok_wf_id i Hwi Hi). pose proof (tok_wf_int sc Hwsc Hsc).
    repeat split. cbn [andb]. lia.
  - intros allow neg N m o k cm lo i Tt l lc c _ Hal Hm Ho Hk Hcm Hlo Hi Hid Hlc Hc HF. fa_split HF.
    destruct HF as [_ [_ [_ [Hwk [_ [_ [Hwi [HwT _]]]]]]]]. subst allow.
    cbn [lexable shape is_and forallb is_nil]. rewrite (tok_wf_id i Hwi Hi), (idtail_ids Tt l Hid HwT).
    pose proof (tok_wf_int k Hwk Hk). repeat split. cbn [andb]. lia.
  - intros allow neg N o T cs c _ Ho Hc _ IH HF. fa_split HF. destruct HF as [_ [_ [HwT _]]].
    destruct (IH HwT) as [H1 [H2 H3]]. cbn [lexable shape is_and]. rewrite H1, H2.
    destruct cs; [contradiction H3; reflexivity|]. repeat split.
  - intros allow neg N k o T cs c _ Hal Hk Ho Hc _ IH Hcont HF. fa_split HF. destruct HF as [_ [_ [_ [HwT _]]]].
    destruct (IH HwT) as [H1 [H2 H3]]. subst allow. cbn [lexable shape is_and]. rewrite H1, H2.
    destruct cs; [contradiction H3; reflexivity|]. repeat split.
  - intros allow _. split; reflexivity.
  - intros allow a T c T' cs Ha _ IHu _ IHt HF. fa_split HF. destruct HF as [_ [HwT HwT']].
    destruct (IHu HwT) as [H1 [H2 H3]]. destruct (IHt HwT') as [H4 H5].
    cbn [forallb]. rewrite H1, H2, H3, H4, H5. split; reflexivity.
  - intros allow T c _ IH HF. destruct (IH HF) as [H1 [H2 _]]. split; assumption.
  - intros allow T1 c1 T2 cs _ IHu _ IHt Hne HF. fa_split HF. destruct HF as [HwT1 HwT2].
    destruct (IHu HwT1) as [H1 [H2 H3]]. destruct (IHt HwT2) as [H4 H5].
    cbn [lexable shape forallb]. rewrite H1, H2, H3, H4, H5.
    destruct cs; [contradiction Hne; reflexivity|]. split; reflexivity.
  - intros allow _. split; reflexivity.
  - intros allow o T c T' cs Ho _ IHi _ IHt HF. fa_split HF. destruct HF as [_ [HwT HwT']].
    destruct (IHi HwT) as [H1 H2]. destruct (IHt HwT') as [H3 H4]. cbn [forallb]. rewrite H1, H2, H3, H4. split; reflexivity.
  - intros allow T c T' cs _ IHi _ IHt HF. fa_split HF. destruct HF as [HwT HwT'].
    destruct (IHi HwT) as [H1 H2]. destruct (IHt HwT') as [H3 H4]. cbn [forallb]. rewrite H1, H2, H3, H4.
    split; [reflexivity|]. split; [reflexivity|discriminate].
Qed.

(* the trees returned by _parse_conditions have the shape, names and numbers the round trip asks for *)
Lemma parsed_shape : forall f allow g s cs s', parse_conditions f allow g s = Ok (cs, s') ->
  Forall tok_wf (consumed s') ->
  forallb (fun c => lexable c && shape allow c && nrb c) cs = true /\ cs <> [].
Proof.
  intros f allow g s cs s' H HF.
  pose proof (parse_conditions_nrb _ _ _ _ _ _ H) as Hn.
  destruct (precedence_sound _ _ _ _ _ _ H) as [T [HT HG]]. apply G_ors_H_ors in HG.
  rewrite HT in HF. apply Forall_app in HF. destruct HF as [HF _]. apply Forall_rev in HF. rewrite rev_involutive in HF.
  destruct (H_shape allow) as [_ [_ [_ [_ Hors]]]]. destruct (Hors T cs HG HF) as [H1 [H2 H3]].
  split; [|assumption]. rewrite forallb_forall in *. intros x Hx. rewrite (H1 x Hx), (H2 x Hx), (Hn x Hx). reflexivity.
Qed.

(* hence the round trip holds, without any further hypothesis, for everything _parse_conditions returns
   outside cds( ) from tokens as the tokeniser makes them (finding cds_single_wrapped, repaired) *)
Lemma roundtrip_parsed : forall f g s cs s', parse_conditions f true g s = Ok (cs, s') ->
  Forall tok_wf (consumed s') ->
  let toks := ljoin (codes "or") (map lt cs) in
  tokenise (join s_or_sep (map show cs)) = Ok toks /\
  (forall als cons f', nah als (map mk_token toks) = true -> (2 * length toks + 3 <= f')%nat ->
     parse_conditions f' true false (st (map mk_token toks) cons als)
     = Ok (map norm cs, st [] (rev (map mk_token toks) ++ cons) als)) /\
  map show (map norm cs) = map show cs /\
  (forall e genes, map (den e genes) (map norm cs) = map (den e genes) cs).
Proof.
  intros f g s cs s' H HF. destruct (parsed_shape _ _ _ _ _ _ H HF) as [Hok Hne].
  apply roundtrip_conds; [assumption|exact Hok].
Qed.

(* ====================================================================== *)
(* L. ill-formed classes are rejected                                      *)
(* ====================================================================== *)

(* --- duplicate alias name, duplicate rule name: the step of Parser.__init__ raises ValueError --- *)
Lemma consume_aliases : forall k s t s', consume k s = Ok (t, s') -> aliases s' = aliases s.
Proof.
  intros k s t s' H. unfold consume in H. destruct (cur s); [|discriminate H].
  destruct (negb (ttype t0 =? k)); [discriminate H|]. repeat step H; inversion H; subst; reflexivity.
Qed.

Lemma alias_loop_aliases : forall f acc s toks s', alias_loop f acc s = Ok (toks, s') -> aliases s' = aliases s.
Proof.
  induction f as [|f IH]; intros acc s toks s' H; cbn [alias_loop] in H; [discriminate H|].
  repeat step H; try (inversion H; subst; reflexivity).
  apply IH in H. match goal with E : consume _ _ = Ok _ |- _ => apply consume_aliases in E end. congruence.
Qed.

Lemma parse_alias_aliases : forall f s name toks s', parse_alias f s = Ok (name, toks, s') -> aliases s' = aliases s.
Proof.
  intros f s name toks s' H. unfold parse_alias in H. repeat step H. inversion H; subst.
  repeat match goal with E : consume _ _ = Ok _ |- _ => apply consume_aliases in E end.
  match goal with E : alias_loop _ _ _ = Ok _ |- _ => apply alias_loop_aliases in E end. congruence.
Qed.

Lemma rejects_duplicate_alias : forall n sigs cats m rules s t name toks s1,
  cur s = Some t -> ttype t = c02_T_DEFINE -> parse_alias (fuel_for s) s = Ok (name, toks, s1) ->
  isSomeB (alias_get name (aliases s)) = true ->
  main_loop (S n) sigs cats m rules s = Err E_Value.
Proof.
  intros n sigs cats m rules s t name toks s1 Hc Ht Hp Hd. cbn [main_loop]. rewrite Hc, Ht.
  change (negb (is_starter c02_T_DEFINE)) with false. change (c02_T_DEFINE =? c02_T_DEFINE) with true. cbv iota.
  rewrite Hp. cbn [bind]. rewrite (parse_alias_aliases _ _ _ _ _ Hp), Hd.
  destruct (negb (alias_name_ok name sigs rules cats)); reflexivity.
Qed.

Lemma rejects_duplicate_rule : forall n sigs cats m rules s t r s1,
  cur s = Some t -> ttype t = c02_T_RULE -> parse_rule (fuel_for s) rules cats s = Ok (r, s1) ->
  isSomeB (known_get (r_name r) rules) = true ->
  main_loop (S n) sigs cats m rules s = Err E_Value.
Proof.
  intros n sigs cats m rules s t r s1 Hc Ht Hp Hd. cbn [main_loop]. rewrite Hc, Ht.
  change (negb (is_starter c02_T_RULE)) with false. change (c02_T_RULE =? c02_T_DEFINE) with false. cbv iota.
  rewrite Hp. cbn [bind]. rewrite Hd. reflexivity.
Qed.

(* an alias may not be named like a signature, an earlier rule or a category either *)
Lemma rejects_alias_name_clash : forall n sigs cats m rules s t name toks s1,
  cur s = Some t -> ttype t = c02_T_DEFINE -> parse_alias (fuel_for s) s = Ok (name, toks, s1) ->
  (In name sigs \/ In name cats \/ In name (map r_name rules)) ->
  main_loop (S n) sigs cats m rules s = Err E_Value.
Proof.
  intros n sigs cats m rules s t name toks s1 Hc Ht Hp Hd. cbn [main_loop]. rewrite Hc, Ht.
  change (negb (is_starter c02_T_DEFINE)) with false. change (c02_T_DEFINE =? c02_T_DEFINE) with true. cbv iota.
  rewrite Hp. cbn [bind].
  assert (E : alias_name_ok name sigs rules cats = false).
  { unfold alias_name_ok. destruct Hd as [Hd|[Hd|Hd]].
    - apply smem_In in Hd. rewrite Hd. cbn [negb]. rewrite andb_false_r. reflexivity.
    - apply smem_In in Hd. rewrite Hd. cbn [negb]. rewrite andb_false_r. reflexivity.
    - destruct (known_get name rules) eqn:K; [rewrite andb_false_r; reflexivity|].
      apply known_get_none in K. contradiction. }
  rewrite E. reflexivity.
Qed.

(* --- minimum(): a count below 1 or a repeated option raises ValueError --- *)
Lemma mk_min_rejects : forall n k opts, (k < 1 \/ has_dup opts = true) -> mk_min n k opts = Err E_Value.
Proof.
  intros n k opts H. unfold mk_min. destruct (has_dup opts); [reflexivity|].
  destruct H as [H|H]; [|discriminate H]. destruct (k <? 1) eqn:E; [reflexivity|]. lia.
Qed.

(* --- unbalanced group: the tokens that _parse_conditions consumes are balanced --- *)
Fixpoint depth_ok (T : list token) (d : nat) : bool :=
  match T with
  | [] => match d with O => true | _ => false end
  | t :: r => if ttype t =? c02_T_GROUP_OPEN then depth_ok r (S d)
              else if ttype t =? c02_T_GROUP_CLOSE then match d with O => false | S d' => depth_ok r d' end
              else depth_ok r d
  end.
Definition balanced (T : list token) : Prop := depth_ok T O = true.
Definition bal_seg (T : list token) : Prop := forall r d, depth_ok (T ++ r) d = depth_ok r d.

Lemma bal_skip : forall t, (ttype t =? c02_T_GROUP_OPEN) = false -> (ttype t =? c02_T_GROUP_CLOSE) = false -> bal_seg [t].
Proof. intros t H1 H2 r d. cbn [app depth_ok]. rewrite H1, H2. reflexivity. Qed.
Lemma bal_app : forall A B, bal_seg A -> bal_seg B -> bal_seg (A ++ B).
Proof. intros A B HA HB r d. rewrite <- app_assoc, HA, HB. reflexivity. Qed.
Lemma bal_nil : bal_seg [].
Proof. intros r d. reflexivity. Qed.
Lemma bal_paren : forall o c T, ttype o = c02_T_GROUP_OPEN -> ttype c = c02_T_GROUP_CLOSE -> bal_seg T -> bal_seg (o :: T ++ [c]).
Proof.
  intros o c T Ho Hc HT r d. cbn [app depth_ok]. rewrite Ho. change (c02_T_GROUP_OPEN =? c02_T_GROUP_OPEN) with true. cbv iota.
  rewrite <- app_assoc, HT. cbn [app depth_ok]. rewrite Hc.
  change (c02_T_GROUP_CLOSE =? c02_T_GROUP_OPEN) with false. change (c02_T_GROUP_CLOSE =? c02_T_GROUP_CLOSE) with true. reflexivity.
Qed.
Lemma bal_ty : forall t k, ttype t = k -> (k =? c02_T_GROUP_OPEN) = false -> (k =? c02_T_GROUP_CLOSE) = false -> bal_seg [t].
Proof. intros t k <- H1 H2. apply bal_skip; assumption. Qed.
Lemma bal_cons : forall t T, bal_seg [t] -> bal_seg T -> bal_seg (t :: T).
Proof. intros t T H1 H2. apply (bal_app [t] T); assumption. Qed.

Lemma bal_notp : forall neg N, notp neg N -> bal_seg N.
Proof.
  intros [|] N H; cbn [notp] in H.
  - destruct H as [nt [-> Hnt]]. eapply bal_ty; [eassumption|reflexivity|reflexivity].
  - subst. apply bal_nil.
Qed.

Lemma bal_idtail : forall T l, H_idtail T l -> bal_seg T.
Proof.
  induction 1 as [|c t T l Hc Ht _ IH]; [apply bal_nil|].
  apply bal_cons; [eapply bal_ty; [eassumption|reflexivity|reflexivity]|].
  apply bal_cons; [eapply bal_ty; [eassumption|reflexivity|reflexivity]|assumption].
Qed.

Ltac balk := eapply bal_ty; [eassumption|reflexivity|reflexivity].

Lemma H_balanced : forall allow,
  (forall T c, H_un allow T c -> bal_seg T) /\ (forall T cs, H_andtail allow T cs -> bal_seg T) /\
  (forall T c, H_item allow T c -> bal_seg T) /\ (forall T cs, H_ortail allow T cs -> bal_seg T) /\
  (forall T cs, H_ors allow T cs -> bal_seg T).
Proof.
  apply H_mutind.
  - intros allow neg N t HN Ht. apply bal_app; [eapply bal_notp; eassumption|balk].
  - intros allow neg N m o i cm sc c HN Hm Ho Hi Hcm Hsc Hc. apply bal_app; [eapply bal_notp; eassumption|].
    apply bal_cons; [balk|]. apply (bal_paren o c [i; cm; sc]); [assumption|assumption|].
    apply bal_cons; [balk|]. apply bal_cons; [balk|]. balk.
  - intros allow neg N m o k cm lo i Tt l lc c HN Hal Hm Ho Hk Hcm Hlo Hi Hid Hlc Hc.
    apply bal_app; [eapply bal_notp; eassumption|]. apply bal_cons; [balk|].
    replace (k :: cm :: lo :: i :: Tt ++ [lc; c]) with ((k :: cm :: lo :: i :: Tt ++ [lc]) ++ [c])
      by (cbn [app]; rewrite <- app_assoc; reflexivity).
    apply bal_paren; [assumption|assumption|].
    apply bal_cons; [balk|]. apply bal_cons; [balk|]. apply bal_cons; [balk|]. apply bal_cons; [balk|].
    apply bal_app; [eapply bal_idtail; eassumption|balk].
  - intros allow neg N o T cs c HN Ho Hc _ IH. apply bal_app; [eapply bal_notp; eassumption|].
    apply bal_paren; assumption.
  - intros allow neg N k o T cs c HN Hal Hk Ho Hc _ IH _. apply bal_app; [eapply bal_notp; eassumption|].
    apply bal_cons; [balk|]. apply bal_paren; assumption.
  - intros allow. apply bal_nil.
  - intros allow a T c T' cs Ha _ IHu _ IHt. apply bal_cons; [balk|]. apply bal_app; assumption.
  - intros allow T c _ IH. assumption.
  - intros allow T1 c1 T2 cs _ IH1 _ IH2 _. apply bal_app; assumption.
  - intros allow. apply bal_nil.
  - intros allow o T c T' cs Ho _ IHi _ IHt. apply bal_cons; [balk|]. apply bal_app; assumption.
  - intros allow T c T' cs _ IHi _ IHt. apply bal_app; assumption.
Qed.

Lemma consumed_balanced : forall f allow g s cs s', parse_conditions f allow g s = Ok (cs, s') ->
  exists T, consumed s' = rev T ++ consumed s /\ balanced T.
Proof.
  intros f allow g s cs s' H. destruct (precedence_sound _ _ _ _ _ _ H) as [T [HT HG]]. exists T. split; [assumption|].
  apply G_ors_H_ors in HG. destruct (H_balanced allow) as [_ [_ [_ [_ Hors]]]].
  unfold balanced. rewrite <- (app_nil_r T). rewrite (Hors T cs HG [] O). reflexivity.
Qed.

(* --- missing section keyword: an accepted RULE block has consumed RULE id CATEGORY id ... CUTOFF int
       NEIGHBOURHOOD int CONDITIONS ..., in this order --- *)
Definition trx (s s' : pst) : Prop := exists T, trace s s' T.
Lemma trx_refl : forall s, trx s s.
Proof. intros s. exists []. apply trace_nil. Qed.
Lemma trx_trans : forall a b c, trx a b -> trx b c -> trx a c.
Proof. intros a b c [T1 H1] [T2 H2]. exists (T1 ++ T2). eapply trace_app; eassumption. Qed.
Lemma consume_trx : forall k s t s', consume k s = Ok (t, s') -> trx s s'.
Proof. intros k s t s' H. apply consume_trace in H. destruct H as [H _]. exists [t]. exact H. Qed.

Lemma parse_description_trx : forall s d s', parse_description s = Ok (d, s') -> trx s s'.
Proof.
  intros s d s' H. unfold parse_description in H. repeat step H. inversion H; subst.
  match goal with E : consume _ _ = Ok _ |- _ => apply consume_trx in E; destruct E as [T HT] end.
  exists T. exact HT.
Qed.

Lemma parse_example_trx : forall s e s', parse_example s = Ok (e, s') -> trx s s'.
Proof.
  intros s e s' H. unfold parse_example in H.
  destruct (consume c02_T_EXAMPLE s) as [[x1 s1]|] eqn:E1; [cbn [bind] in H|discriminate H].
  destruct (consume c02_T_IDENTIFIER s1) as [[x2 s2]|] eqn:E2; [cbn [bind] in H|discriminate H].
  destruct (consume c02_T_IDENTIFIER s2) as [[x3 s3]|] eqn:E3; [cbn [bind] in H|discriminate H].
  destruct (consume c02_T_DOT s3) as [[x4 s4]|] eqn:E4; [cbn [bind] in H|discriminate H].
  destruct (consume c02_T_INT s4) as [[x5 s5]|] eqn:E5; [cbn [bind] in H|discriminate H].
  destruct (consume c02_T_TEXT s5) as [[x6 s6]|] eqn:E6; [cbn [bind] in H|discriminate H].
  assert (H6 : trx s s6).
  { eapply trx_trans; [eapply consume_trx; eassumption|]. eapply trx_trans; [eapply consume_trx; eassumption|].
    eapply trx_trans; [eapply consume_trx; eassumption|]. eapply trx_trans; [eapply consume_trx; eassumption|].
    eapply trx_trans; [eapply consume_trx; eassumption|]. eapply consume_trx; eassumption. }
  match type of H with bind ?e _ = _ => destruct e as [[cmp s7]|] eqn:E7; [cbn [bind] in H|discriminate H] end.
  assert (H7 : trx s6 s7).
  { destruct (cur s6); [|inversion E7; subst; apply trx_refl]. repeat step E7. inversion E7; subst.
    exists []. reflexivity. }
  repeat step H. inversion H; subst. eapply trx_trans; eassumption.
Qed.

Lemma examples_loop_trx : forall f acc s l s', examples_loop f acc s = Ok (l, s') -> trx s s'.
Proof.
  induction f as [|f IH]; intros acc s l s' H; cbn [examples_loop] in H; [discriminate H|].
  repeat step H.
  - eapply trx_trans; [eapply parse_example_trx; eassumption|eapply IH; eassumption].
  - inversion H; subst. apply trx_refl.
Qed.

Lemma parse_comma_ids_trx : forall f s l s', parse_comma_ids f s = Ok (l, s') -> trx s s'.
Proof.
  intros f s l s' H. apply parse_comma_ids_trace in H. destruct H as [i [Tt [l' [HT _]]]]. eexists. exact HT.
Qed.

Lemma parse_cds_trx : forall f s cs s', parse_cds f s = Ok (cs, s') -> trx s s'.
Proof.
  intros f s cs s' H. destruct (parser_grammar f) as [_ [Hc _]]. apply Hc in H.
  destruct H as [k [o [T [c [HT _]]]]]. eexists. exact HT.
Qed.
Lemma parse_single_trx : forall f a s c s', parse_single f a s = Ok (c, s') -> trx s s'.
Proof.
  intros f a s c s' H. destruct (parser_grammar f) as [Hs _]. apply Hs in H. destruct H as [T [HT _]]. eexists. exact HT.
Qed.

Lemma parse_extenders_trx : forall f s e s', parse_extenders f s = Ok (e, s') -> trx s s'.
Proof.
  intros f s e s' H. unfold parse_extenders in H. destruct (cur_is c02_T_EXTENDERS s); [|inversion H; subst; apply trx_refl].
  repeat step H; inversion H; subst;
    (eapply trx_trans; [eapply consume_trx; eassumption|]);
    first [eapply parse_cds_trx; eassumption | eapply parse_single_trx; eassumption].
Qed.

Lemma rule_sections : forall f known cats s r s', parse_rule f known cats s = Ok (r, s') ->
  exists tR tN tCat tC A tCut tCi tNe tNi tCo B,
    trace s s' ([tR; tN; tCat; tC] ++ A ++ [tCut; tCi; tNe; tNi; tCo] ++ B) /\
    ttype tR = c02_T_RULE /\ ttype tN = c02_T_IDENTIFIER /\ ttype tCat = c02_T_CATEGORY /\
    ttype tC = c02_T_IDENTIFIER /\ ttype tCut = c02_T_CUTOFF /\ ttype tCi = c02_T_INT /\
    ttype tNe = c02_T_NEIGHBOURHOOD /\ ttype tNi = c02_T_INT /\ ttype tCo = c02_T_CONDITIONS /\
    r_name r = ttext tN /\ r_cat r = ttext tC.
Proof.
  intros f known cats s r s' H. unfold parse_rule in H.
  destruct (consume c02_T_RULE s) as [[tR s1]|] eqn:E1; [cbn [bind] in H|discriminate H].
  destruct (cur_aliased s1); [discriminate H|].
  destruct (consume c02_T_IDENTIFIER s1) as [[tN s2]|] eqn:E2; [cbn [bind] in H|discriminate H].
  destruct (cur_none s2); [discriminate H|].
  destruct (consume c02_T_CATEGORY s2) as [[tCat s3]|] eqn:E3; [cbn [bind] in H|discriminate H].
  destruct (consume c02_T_IDENTIFIER s3) as [[tC s4]|] eqn:E4; [cbn [bind] in H|discriminate H].
  destruct (negb (smem (ttext tC) cats)); [discriminate H|].
  destruct (cur_none s4); [discriminate H|].
  match type of H with bind ?e _ = _ => destruct e as [[desc s5]|] eqn:E5; [cbn [bind] in H|discriminate H] end.
  assert (H5 : trx s4 s5).
  { destruct (cur_is c02_T_DESCRIPTION s4); [eapply parse_description_trx; eassumption|inversion E5; subst; apply trx_refl]. }
  destruct (examples_loop f [] s5) as [[exs s6]|] eqn:E6; [cbn [bind] in H|discriminate H].
  assert (H6 : trx s5 s6) by (eapply examples_loop_trx; eassumption).
  match type of H with bind ?e _ = _ => destruct e as [[rel s7]|] eqn:E7; [cbn [bind] in H|discriminate H] end.
  assert (H7 : trx s6 s7).
  { destruct (cur_is c02_T_RELATED s6); [|inversion E7; subst; apply trx_refl].
    destruct (consume c02_T_RELATED s6) as [[x sx]|] eqn:Ex; [cbn [bind] in E7|discriminate E7].
    eapply trx_trans; [eapply consume_trx; eassumption|eapply parse_comma_ids_trx; eassumption]. }
  destruct (cur_none s7); [discriminate H|].
  match type of H with bind ?e _ = _ => destruct e as [[sups s8]|] eqn:E8; [cbn [bind] in H|discriminate H] end.
  assert (H8 : trx s7 s8).
  { destruct (cur_is c02_T_SUPERIORS s7); [|inversion E8; subst; apply trx_refl].
    unfold parse_superiors in E8.
    destruct (consume c02_T_SUPERIORS s7) as [[x sx]|] eqn:Ex; [cbn [bind] in E8|discriminate E8].
    destruct (parse_comma_ids f sx) as [[ids sy]|] eqn:Ey; [cbn [bind] in E8|discriminate E8].
    destruct (close_superiors known ids); [cbn [bind] in E8|discriminate E8]. inversion E8; subst.
    eapply trx_trans; [eapply consume_trx; eassumption|eapply parse_comma_ids_trx; eassumption]. }
  destruct (consume c02_T_CUTOFF s8) as [[tCut s9]|] eqn:E9; [cbn [bind] in H|discriminate H].
  destruct (consume c02_T_INT s9) as [[tCi s10]|] eqn:E10; [cbn [bind] in H|discriminate H].
  destruct (consume c02_T_NEIGHBOURHOOD s10) as [[tNe s11]|] eqn:E11; [cbn [bind] in H|discriminate H].
  destruct (consume c02_T_INT s11) as [[tNi s12]|] eqn:E12; [cbn [bind] in H|discriminate H].
  destruct (consume c02_T_CONDITIONS s12) as [[tCo s13]|] eqn:E13; [cbn [bind] in H|discriminate H].
  destruct (parse_conditions f true false s13) as [[subs s14]|] eqn:E14; [cbn [bind] in H|discriminate H].
  destruct (mk_group false subs) as [cond0|] eqn:E15; [cbn [bind] in H|discriminate H].
  destruct (parse_extenders f s14) as [[ext s15]|] eqn:E16; [cbn [bind] in H|discriminate H].
  repeat step H. inversion H; subst; clear H. cbn [r_name r_cat].
  apply consume_trace in E1, E2, E3, E4, E9, E10, E11, E12, E13.
  destruct E1 as [T1 K1], E2 as [T2 K2], E3 as [T3 K3], E4 as [T4 K4], E9 as [T9 K9], E10 as [T10 K10],
           E11 as [T11 K11], E12 as [T12 K12], E13 as [T13 K13].
  destruct H5 as [A5 H5], H6 as [A6 H6], H7 as [A7 H7], H8 as [A8 H8].
  destruct (precedence_sound _ _ _ _ _ _ E14) as [Tc [HTc _]].
  destruct (parse_extenders_trx _ _ _ _ E16) as [Te HTe].
  exists tR, tN, tCat, tC, (A5 ++ A6 ++ A7 ++ A8), tCut, tCi, tNe, tNi, tCo, (Tc ++ Te).
  split; [|repeat split; assumption].
  assert (TA : trace s s4 [tR; tN; tCat; tC]).
  { exact (trace_app _ _ _ [tR] _ T1 (trace_app _ _ _ [tN] _ T2 (trace_app _ _ _ [tCat] _ T3 T4))). }
  assert (TB : trace s4 s8 (A5 ++ A6 ++ A7 ++ A8)).
  { exact (trace_app _ _ _ _ _ H5 (trace_app _ _ _ _ _ H6 (trace_app _ _ _ _ _ H7 H8))). }
  assert (TC : trace s8 s13 [tCut; tCi; tNe; tNi; tCo]).
  { exact (trace_app _ _ _ [tCut] _ T9 (trace_app _ _ _ [tCi] _ T10 (trace_app _ _ _ [tNe] _ T11
             (trace_app _ _ _ [tNi] _ T12 T13)))). }
  assert (TD : trace s13 s' (Tc ++ Te)) by (exact (trace_app _ _ _ _ _ HTc HTe)).
  exact (trace_app _ _ _ _ _ TA (trace_app _ _ _ _ _ TB (trace_app _ _ _ _ _ TC TD))).
Qed.

(* --- the text that reconstruct_rule_text prints after CONDITIONS --- *)
Lemma strip_parens_wrapped : forall X, strip_parens (40 :: X ++ [41]) = X.
Proof. intros X. unfold strip_parens. rewrite rev_app_distr. cbn [rev app]. apply rev_involutive. Qed.

Lemma conditions_text : forall cs,
  match cs with [] => false | [c] => is_and c | _ => true end = true ->
  strip_parens (show (CGroup false cs)) = join s_or_sep (map show cs).
Proof.
  intros cs H. cbn [show]. destruct cs as [|c [|c2 r]]; [discriminate H| |].
  - rewrite H. cbn [prefix app map join]. change (codes "(") with [40]. change (codes ")") with [41].
    cbn [app]. apply strip_parens_wrapped.
  - cbn [prefix app]. change (codes "(") with [40]. change (codes ")") with [41]. cbn [app]. apply strip_parens_wrapped.
Qed.

(* ====================================================================== *)
(* M. DEFINE = textual substitution over the whole token stream of the conditions *)
(* ====================================================================== *)
(* ====================================================================== *)
(* M. DEFINE = textual substitution, for the whole CONDITIONS stream       *)
(* ====================================================================== *)

(* Xp als L L' : L' is L with every alias use expanded, recursively, the way _consume does it
   (the first token of a spliced definition is not looked up again, so it must not be an alias name) *)
Inductive Xp (als : list (str * list token)) : list token -> list token -> Prop :=
| Xp_nil : Xp als [] []
| Xp_keep : forall n r r', alias_head als n = false -> Xp als r r' -> Xp als (n :: r) (n :: r')
| Xp_splice : forall n r b B r', ttype n = c02_T_IDENTIFIER -> alias_get (ttext n) als = Some (b :: B) ->
    alias_head als b = false -> Xp als (B ++ r) r' -> Xp als (n :: r) (b :: r').

(* the expanded stream mentions no alias *)
Lemma Xp_nah : forall als L L', Xp als L L' -> nah als L' = true.
Proof.
  intros als L L' H. induction H as [|n r r' Hn _ IH|n r b B r' _ _ Hb _ IH].
  - reflexivity.
  - cbn [nah forallb]. rewrite Hn. exact IH.
  - cbn [nah forallb]. rewrite Hb. exact IH.
Qed.

(* a stream without alias names is its own expansion *)
Lemma Xp_refl : forall als L, nah als L = true -> Xp als L L.
Proof.
  intros als L. induction L as [|n r IH]; intros H; [constructor|].
  cbn [nah forallb] in H. apply andb_true_iff in H. destruct H as [H1 H2]. apply negb_true_iff in H1.
  apply Xp_keep; [assumption|apply IH; assumption].
Qed.

Definition sim (s s' : pst) : Prop :=
  cur s = cur s' /\ consumed s = consumed s' /\ aliases s = aliases s' /\ Xp (aliases s) (rest s) (rest s').

Definition simr {A} (r r' : res (A * pst)) : Prop :=
  match r, r' with
  | Ok (v, s1), Ok (v', s1') => v = v' /\ sim s1 s1'
  | Err k, Err k' => k = k'
  | _, _ => False
  end.

Lemma alias_head_false_lookup : forall als n, alias_head als n = false ->
  (if ttype n =? c02_T_IDENTIFIER then alias_get (ttext n) als else None) = None.
Proof.
  intros als n H. unfold alias_head in H. destruct (ttype n =? c02_T_IDENTIFIER); [|reflexivity].
  cbn [andb] in H. destruct (alias_get (ttext n) als); [discriminate H|reflexivity].
Qed.

(* step 3: one _consume *)
Lemma consume_sim : forall k s s', sim s s' -> simr (consume k s) (consume k s').
Proof.
  intros k [c L cons als] [c' L' cons' als'] [Hc [Hcons [Hal Hx]]].
  cbn [cur rest consumed aliases] in *. subst c' cons' als'.
  unfold consume. cbn [cur rest consumed aliases].
  destruct c as [t|]; [|reflexivity].
  destruct (negb (ttype t =? k)); [reflexivity|].
  inversion Hx as [|n r r' Hn Hr|n r b B r' Hn Hg Hb Hr]; subst.
  - cbn [simr]. split; [reflexivity|]. repeat split. cbn [aliases rest]. constructor.
  - rewrite (alias_head_false_lookup als n Hn). cbn [simr]. split; [reflexivity|]. repeat split.
    cbn [aliases rest]. assumption.
  - rewrite Hn, Z.eqb_refl, Hg. cbn [app]. rewrite (alias_head_false_lookup als b Hb).
    cbn [simr]. split; [reflexivity|]. repeat split. cbn [aliases rest]. assumption.
Qed.

(* step 4 *)
Lemma simr_bind : forall A B (r r' : res (A * pst)) (k k' : A * pst -> res (B * pst)),
  simr r r' -> (forall v s1 s1', sim s1 s1' -> simr (k (v, s1)) (k' (v, s1'))) ->
  simr (bind r k) (bind r' k').
Proof.
  intros A B r r' k k' H Hk. destruct r as [[v s1]|e], r' as [[v' s1']|e']; cbn [simr] in H; try contradiction.
  - destruct H as [-> Hs]. cbn [bind]. apply Hk. assumption.
  - cbn [bind simr]. assumption.
Qed.

Lemma simr_bind0 : forall A B (r : res A) (k k' : A -> res (B * pst)),
  (forall v, simr (k v) (k' v)) -> simr (bind r k) (bind r k').
Proof.
  intros A B r k k' Hk. destruct r as [v|e]; cbn [bind]; [apply Hk|reflexivity].
Qed.

Lemma simr_ok : forall A (v : A) s s', sim s s' -> simr (Ok (v, s)) (Ok (v, s')).
Proof. intros A v s s' H. cbn [simr]. split; [reflexivity|assumption]. Qed.

Lemma simr_err : forall A k, @simr A (Err k) (Err k).
Proof. intros. reflexivity. Qed.

Lemma sim_cur : forall s s', sim s s' -> cur s = cur s'.
Proof. intros s s' [H _]. exact H. Qed.

Lemma cur_is_sim : forall ty s s', sim s s' -> cur_is ty s = cur_is ty s'.
Proof. intros ty s s' H. unfold cur_is. rewrite (sim_cur _ _ H). reflexivity. Qed.

Lemma conditions_end_sim : forall g s s', sim s s' -> conditions_end g s = conditions_end g s'.
Proof. intros g s s' H. unfold conditions_end. rewrite (sim_cur _ _ H). reflexivity. Qed.

(* ---------- step 5: lifting ---------- *)

(* premise solver for the first argument of simr_bind *)
Ltac sim_prem :=
  first [ apply consume_sim; assumption
        | assumption
        | match goal with H : _ |- _ => apply H; assumption end ].

(* peel one monadic step *)
Ltac sb :=
  lazymatch goal with
  | |- simr (bind _ _) (bind _ _) =>
    first [ apply simr_bind; [sim_prem | intros ? ? ? ?; cbv beta iota]
          | apply simr_bind0; intros ?; cbv beta iota ]
  | |- simr (Ok (_, _)) (Ok (_, _)) => apply simr_ok; assumption
  | |- simr (Err _) (Err _) => reflexivity
  end.

(* make both sides test the same boolean / look at the same current token *)
Ltac same_cur_is :=
  match goal with
  | H : sim ?s ?s' |- context [cur_is ?ty ?s] => rewrite (cur_is_sim ty s s' H)
  end.
Ltac same_cur :=
  match goal with
  | H : sim ?s ?s' |- context [cur ?s] => rewrite (sim_cur s s' H)
  end.

Lemma is_not_sim : forall s s', sim s s' -> simr (is_not s) (is_not s').
Proof.
  intros s s' H. unfold is_not. same_cur_is. destruct (cur_is c02_T_NOT s'); repeat sb.
Qed.

Lemma comma_loop_sim : forall f acc s s', sim s s' -> simr (comma_loop f acc s) (comma_loop f acc s').
Proof.
  induction f as [|f IH]; intros acc s s' H; [reflexivity|].
  cbn [comma_loop]. same_cur_is. destruct (cur_is c02_T_COMMA s'); [|sb].
  sb. sb. apply IH. assumption.
Qed.

Lemma parse_comma_ids_sim : forall f s s', sim s s' -> simr (parse_comma_ids f s) (parse_comma_ids f s').
Proof.
  intros f s s' H. unfold parse_comma_ids. sb. apply comma_loop_sim. assumption.
Qed.

Lemma parse_score_sim : forall n s s', sim s s' -> simr (parse_score n s) (parse_score n s').
Proof.
  intros n s s' H. unfold parse_score. repeat sb.
Qed.

Lemma parse_minimum_sim : forall f n s s', sim s s' -> simr (parse_minimum f n s) (parse_minimum f n s').
Proof.
  intros f n s s' H. unfold parse_minimum. do 5 sb.
  apply simr_bind; [apply parse_comma_ids_sim; assumption|intros ? ? ? ?; cbv beta iota].
  repeat sb.
Qed.

Definition S_single f := forall allow s s', sim s s' -> simr (parse_single f allow s) (parse_single f allow s').
Definition S_cds f := forall s s', sim s s' -> simr (parse_cds f s) (parse_cds f s').
Definition S_ands f := forall allow lv s s', sim s s' -> simr (parse_ands f allow lv s) (parse_ands f allow lv s').
Definition S_andloop f := forall allow acc s s', sim s s' -> simr (and_loop f allow acc s) (and_loop f allow acc s').
Definition S_conds f := forall allow g s s', sim s s' ->
  simr (parse_conditions f allow g s) (parse_conditions f allow g s').
Definition S_condloop f := forall allow acc lv app s s', sim s s' ->
  simr (cond_loop f allow acc lv app s) (cond_loop f allow acc lv app s').

Lemma parser_sim : forall f, S_single f /\ S_cds f /\ S_ands f /\ S_andloop f /\ S_conds f /\ S_condloop f.
Proof.
  induction f as [|f IH].
  - repeat split; red; intros; reflexivity.
  - destruct IH as [IHs [IHc [IHa [IHal [IHcs IHcl]]]]].
    red in IHs, IHc, IHa, IHal, IHcs, IHcl.
    repeat split; red.
    + (* parse_single *)
      intros allow s s' H. cbn [parse_single].
      apply simr_bind; [apply is_not_sim; assumption|intros negated s1 s1' H1; cbv beta iota].
      same_cur. destruct (cur s1') as [t|]; [|reflexivity].
      destruct (ttype t =? c02_T_GROUP_OPEN).
      { sb. apply simr_bind; [apply IHcs; assumption|intros ? ? ? ?; cbv beta iota]. repeat sb. }
      destruct (allow && (ttype t =? c02_T_MINIMUM)).
      { apply parse_minimum_sim; assumption. }
      destruct (allow && (ttype t =? c02_T_CDS)).
      { apply simr_bind; [apply IHc; assumption|intros ? ? ? ?; cbv beta iota]. repeat sb. }
      destruct (ttype t =? c02_T_SCORE).
      { apply parse_score_sim; assumption. }
      repeat sb.
    + (* parse_cds *)
      intros s s' H. cbn [parse_cds]. sb. sb.
      apply simr_bind; [apply IHcs; assumption|intros subs ? ? ?; cbv beta iota].
      destruct subs as [|c [|c2 subs]]; [reflexivity| |repeat sb].
      destruct (is_single_cond c); [reflexivity|repeat sb].
    + (* parse_ands *)
      intros allow lv s s' H. cbn [parse_ands]. sb.
      apply simr_bind; [apply IHs; assumption|intros ? ? ? ?; cbv beta iota].
      apply simr_bind; [apply IHal; assumption|intros ? ? ? ?; cbv beta iota].
      repeat sb.
    + (* and_loop *)
      intros allow acc s s' H. cbn [and_loop]. same_cur_is. destruct (cur_is c02_T_AND s'); [|sb].
      sb. apply simr_bind; [apply IHs; assumption|intros ? ? ? ?; cbv beta iota].
      apply IHal. assumption.
    + (* parse_conditions *)
      intros allow g s s' H. cbn [parse_conditions]. same_cur. destruct (cur s'); [|reflexivity].
      apply simr_bind; [apply IHs; assumption|intros ? ? ? ?; cbv beta iota].
      apply simr_bind; [apply IHcl; assumption|intros conds s2 s2' H2; cbv beta iota].
      rewrite (conditions_end_sim g s2 s2' H2). repeat sb.
    + (* cond_loop *)
      intros allow acc lv app s s' H. cbn [cond_loop]. same_cur_is. destruct (cur_is c02_T_AND s').
      { apply simr_bind; [apply IHa; assumption|intros ? ? ? ?; cbv beta iota]. apply IHcl. assumption. }
      same_cur_is. destruct (cur_is c02_T_OR s'); [|sb].
      sb. apply simr_bind; [apply IHs; assumption|intros ? ? ? ?; cbv beta iota].
      apply IHcl. assumption.
Qed.

Lemma parse_conditions_sim : forall f allow g s s', sim s s' ->
  simr (parse_conditions f allow g s) (parse_conditions f allow g s').
Proof. intros f. destruct (parser_sim f) as [_ [_ [_ [_ [H _]]]]]. exact H. Qed.

(* step 6 *)
Lemma alias_subst_whole : forall f allow g c L L' cons als,
  Xp als L L' ->
  simr (parse_conditions f allow g (mkP (Some c) L cons als))
       (parse_conditions f allow g (mkP (Some c) L' cons als)).
Proof.
  intros f allow g c L L' cons als H. apply parse_conditions_sim.
  repeat split. cbn [aliases rest]. exact H.
Qed.

(* in plain words: parsing the conditions from a stream that uses alias names, and parsing the stream with
   every alias name replaced by its definition, either both fail with the same kind of error or both
   succeed with the same conditions, the same current token and the same consumed tokens; what is left
   of the second stream is the expansion of what is left of the first *)
Corollary alias_subst_whole_plain : forall f allow g c L L' cons als,
  Xp als L L' ->
  (forall cs s1, parse_conditions f allow g (mkP (Some c) L cons als) = Ok (cs, s1) ->
     exists s1', parse_conditions f allow g (mkP (Some c) L' cons als) = Ok (cs, s1') /\
                 cur s1 = cur s1' /\ consumed s1 = consumed s1' /\ aliases s1 = aliases s1' /\
                 Xp (aliases s1) (rest s1) (rest s1')) /\
  (forall k, parse_conditions f allow g (mkP (Some c) L cons als) = Err k ->
     parse_conditions f allow g (mkP (Some c) L' cons als) = Err k).
Proof.
  intros f allow g c L L' cons als H. pose proof (alias_subst_whole f allow g c L L' cons als H) as S.
  split.
  - intros cs s1 E. rewrite E in S.
    destruct (parse_conditions f allow g (mkP (Some c) L' cons als)) as [[cs' s1']|k']; cbn [simr] in S; [|contradiction].
    destruct S as [-> Hs]. exists s1'. split; [reflexivity|exact Hs].
  - intros k E. rewrite E in S.
    destruct (parse_conditions f allow g (mkP (Some c) L' cons als)) as [[cs' s1']|k']; cbn [simr] in S; [contradiction|].
    subst. reflexivity.
Qed.

(* and the other direction: the result on the expanded stream determines the result on the alias stream *)
Corollary alias_subst_whole_conv : forall f allow g c L L' cons als,
  Xp als L L' ->
  (forall cs s1', parse_conditions f allow g (mkP (Some c) L' cons als) = Ok (cs, s1') ->
     exists s1, parse_conditions f allow g (mkP (Some c) L cons als) = Ok (cs, s1) /\ sim s1 s1') /\
  (forall k, parse_conditions f allow g (mkP (Some c) L' cons als) = Err k ->
     parse_conditions f allow g (mkP (Some c) L cons als) = Err k).
Proof.
  intros f allow g c L L' cons als H. pose proof (alias_subst_whole f allow g c L L' cons als H) as S.
  split.
  - intros cs s1' E. rewrite E in S.
    destruct (parse_conditions f allow g (mkP (Some c) L cons als)) as [[cs' s1]|k']; cbn [simr] in S; [|contradiction].
    destruct S as [-> Hs]. exists s1. split; [reflexivity|exact Hs].
  - intros k E. rewrite E in S.
    destruct (parse_conditions f allow g (mkP (Some c) L cons als)) as [[cs' s1]|k']; cbn [simr] in S; [contradiction|].
    subst. reflexivity.
Qed.

(* ---------- step 7: a closed instance ----------
   DEFINE x AS a or b      DEFINE y AS c and x      (y's definition uses x, not in first position)
   CONDITIONS d or y or e   is read as   d or c and a or b or e *)
Definition ex_als : list (str * list token) :=
  [(codes "y", [set_aliased (mk_token (codes "c")); set_aliased (mk_token (codes "and")); set_aliased (mk_token (codes "x"))]);
   (codes "x", [set_aliased (mk_token (codes "a")); set_aliased (mk_token (codes "or")); set_aliased (mk_token (codes "b"))])].
Definition ex_cur : token := mk_token (codes "d").
Definition ex_L : list token :=
  [mk_token (codes "or"); mk_token (codes "y"); mk_token (codes "or"); mk_token (codes "e")].
Definition ex_L' : list token :=
  [mk_token (codes "or");
   set_aliased (mk_token (codes "c")); set_aliased (mk_token (codes "and"));
   set_aliased (mk_token (codes "a")); set_aliased (mk_token (codes "or")); set_aliased (mk_token (codes "b"));
   mk_token (codes "or"); mk_token (codes "e")].

Lemma ex_Xp : Xp ex_als ex_L ex_L'.
Proof.
  unfold ex_L, ex_L'.
  apply Xp_keep; [vm_compute; reflexivity|].
  apply (Xp_splice ex_als (mk_token (codes "y")) _ (set_aliased (mk_token (codes "c")))
           [set_aliased (mk_token (codes "and")); set_aliased (mk_token (codes "x"))]);
    [vm_compute; reflexivity|vm_compute; reflexivity|vm_compute; reflexivity|cbn [app]].
  apply Xp_keep; [vm_compute; reflexivity|].
  apply (Xp_splice ex_als (set_aliased (mk_token (codes "x"))) _ (set_aliased (mk_token (codes "a")))
           [set_aliased (mk_token (codes "or")); set_aliased (mk_token (codes "b"))]);
    [vm_compute; reflexivity|vm_compute; reflexivity|vm_compute; reflexivity|cbn [app]].
  repeat (apply Xp_keep; [vm_compute; reflexivity|]). apply Xp_nil.
Qed.

Definition ex_conds : list cond :=
  [CSingle false (codes "d");
   CAnd [CSingle false (codes "c"); CSingle false (codes "a")];
   CSingle false (codes "b"); CSingle false (codes "e")].

Lemma ex_parse_alias_stream :
  exists s1, parse_conditions 20 true false (mkP (Some ex_cur) ex_L [] ex_als) = Ok (ex_conds, s1)
             /\ cur s1 = None /\ rest s1 = [].
Proof. eexists. split; [vm_compute; reflexivity|]. split; reflexivity. Qed.

Lemma ex_parse_expanded_stream :
  exists s1, parse_conditions 20 true false (mkP (Some ex_cur) ex_L' [] ex_als) = Ok (ex_conds, s1)
             /\ cur s1 = None /\ rest s1 = [].
Proof. eexists. split; [vm_compute; reflexivity|]. split; reflexivity. Qed.

(* the two runs end in the very same state: same consumed tokens (with their aliased flags) *)
Lemma ex_same_result :
  parse_conditions 20 true false (mkP (Some ex_cur) ex_L [] ex_als)
  = parse_conditions 20 true false (mkP (Some ex_cur) ex_L' [] ex_als).
Proof. vm_compute. reflexivity. Qed.

(* the instance of the general statement is not vacuous: its hypothesis holds and its Ok branch is taken *)
Lemma ex_instance :
  simr (parse_conditions 20 true false (mkP (Some ex_cur) ex_L [] ex_als))
       (parse_conditions 20 true false (mkP (Some ex_cur) ex_L' [] ex_als)).
Proof. apply alias_subst_whole. exact ex_Xp. Qed.

(* the proviso matters: with  DEFINE q AS b   DEFINE y AS q and a  the stream "or y" is NOT read like "or b and a";
   no expansion L' of [y] exists at all *)
Definition bad_als : list (str * list token) :=
  [(codes "q", [set_aliased (mk_token (codes "b"))]);
   (codes "y", [set_aliased (mk_token (codes "q")); set_aliased (mk_token (codes "and")); set_aliased (mk_token (codes "a"))])].
Lemma ex_proviso_needed : forall L', ~ Xp bad_als [mk_token (codes "y")] L'.
Proof.
  intros L' H. inversion H as [|n r r' Hn Hr|n r b B r' Hn Hg Hb Hr]; subst.
  - vm_compute in Hn. discriminate Hn.
  - vm_compute in Hg. inversion Hg; subst. vm_compute in Hb. discriminate Hb.
Qed.

(* ====================================================================== *)
(* N. unknown profile: every name in the CONDITIONS of an accepted rule is a signature *)
(* ====================================================================== *)
(* ====================================================================== *)
(* L. an unknown profile name in the CONDITIONS of a rule is rejected      *)
(* ====================================================================== *)

Fixpoint cond_names (c : cond) : list str :=
  match c with
  | CSingle _ a => [a] | CScore _ a _ => [a] | CMin _ _ opts => opts
  | CCds _ subs | CGroup _ subs => flat_map cond_names subs
  | CAnd ops => flat_map cond_names ops
  end.
Definition tok_ids (T : list token) : list str :=
  map ttext (filter (fun t => ttype t =? c02_T_IDENTIFIER) T).

Lemma tok_ids_nil : tok_ids [] = [].
Proof. reflexivity. Qed.
Lemma tok_ids_app : forall A B, tok_ids (A ++ B) = tok_ids A ++ tok_ids B.
Proof. intros A B. unfold tok_ids. rewrite filter_app, map_app. reflexivity. Qed.
Lemma tok_ids_cons : forall t T,
  tok_ids (t :: T) = (if ttype t =? c02_T_IDENTIFIER then [ttext t] else []) ++ tok_ids T.
Proof. intros t T. unfold tok_ids. cbn [filter]. destruct (ttype t =? c02_T_IDENTIFIER); reflexivity. Qed.

Lemma notp_ids : forall neg N, notp neg N -> tok_ids N = [].
Proof.
  intros neg N H. destruct neg; cbn [notp] in H.
  - destruct H as [nt [HN Hnt]]. subst N. rewrite tok_ids_cons, Hnt. reflexivity.
  - subst N. reflexivity.
Qed.

Ltac tys := repeat match goal with H : ttype ?t = _ |- context [ttype ?t] => rewrite H end.
Ltac idn := repeat first [rewrite tok_ids_app | rewrite tok_ids_cons | rewrite tok_ids_nil];
            tys; tyc; cbn [app]; rewrite ?app_nil_r.

Lemma idtail_names : forall T l, H_idtail T l -> incl l (tok_ids T).
Proof.
  induction 1 as [|c t T l Hc Ht _ IH]; [apply incl_refl|].
  idn. apply incl_cons; [left; reflexivity|]. apply incl_tl. exact IH.
Qed.

(* Lemma A *)
Lemma H_names : forall allow,
  (forall T c, H_un allow T c -> incl (cond_names c) (tok_ids T)) /\
  (forall T cs, H_andtail allow T cs -> incl (flat_map cond_names cs) (tok_ids T)) /\
  (forall T c, H_item allow T c -> incl (cond_names c) (tok_ids T)) /\
  (forall T cs, H_ortail allow T cs -> incl (flat_map cond_names cs) (tok_ids T)) /\
  (forall T cs, H_ors allow T cs -> incl (flat_map cond_names cs) (tok_ids T)).
Proof.
  apply H_mutind.
  - intros allow neg N t HN Ht. idn. rewrite (notp_ids _ _ HN). cbn [app cond_names]. apply incl_refl.
  - intros allow neg N m o i cm sc c HN Hm Ho Hi Hcm Hsc Hc. idn. rewrite (notp_ids _ _ HN).
    cbn [app cond_names]. apply incl_refl.
  - intros allow neg N m o k cm lo i Tt l lc c HN Hal Hm Ho Hk Hcm Hlo Hi Hid Hlc Hc. idn.
    rewrite (notp_ids _ _ HN). cbn [app cond_names].
    apply incl_cons; [left; reflexivity|]. apply incl_tl. apply idtail_names. exact Hid.
  - intros allow neg N o T cs c HN Ho Hc _ IH. idn. rewrite (notp_ids _ _ HN). cbn [app cond_names]. exact IH.
  - intros allow neg N k o T cs c HN Hal Hk Ho Hc _ IH Hcont. idn. rewrite (notp_ids _ _ HN).
    cbn [app cond_names]. exact IH.
  - intros allow. apply incl_refl.
  - intros allow a T c T' cs Ha _ IHu _ IHt. idn. cbn [flat_map].
    apply incl_app; [apply incl_appl; exact IHu|apply incl_appr; exact IHt].
  - intros allow T c _ IH. exact IH.
  - intros allow T1 c1 T2 cs _ IHu _ IHt Hne. idn. cbn [cond_names flat_map].
    apply incl_app; [apply incl_appl; exact IHu|apply incl_appr; exact IHt].
  - intros allow. apply incl_refl.
  - intros allow o T c T' cs Ho _ IHi _ IHt. idn. cbn [flat_map].
    apply incl_app; [apply incl_appl; exact IHi|apply incl_appr; exact IHt].
  - intros allow T c T' cs _ IHi _ IHt. idn. cbn [flat_map].
    apply incl_app; [apply incl_appl; exact IHi|apply incl_appr; exact IHt].
Qed.

(* Lemma A': every token of a grammatical token list is a condition token (type < 100) *)
Definition lowb (T : list token) : bool := forallb (fun t => ttype t <? 100) T.

Lemma lowb_app : forall A B, lowb (A ++ B) = lowb A && lowb B.
Proof. intros. apply forallb_app. Qed.
Lemma lowb_cons : forall t T, lowb (t :: T) = (ttype t <? 100) && lowb T.
Proof. reflexivity. Qed.

Lemma notp_low : forall neg N, notp neg N -> lowb N = true.
Proof.
  intros neg N H. destruct neg; cbn [notp] in H.
  - destruct H as [nt [HN Hnt]]. subst N. rewrite lowb_cons, Hnt. reflexivity.
  - subst N. reflexivity.
Qed.

Lemma idtail_low : forall T l, H_idtail T l -> lowb T = true.
Proof.
  induction 1 as [|c t T l Hc Ht _ IH]; [reflexivity|].
  rewrite !lowb_cons, Hc, Ht, IH. reflexivity.
Qed.

Ltac lown := repeat first [rewrite lowb_app | rewrite lowb_cons]; tys.

Lemma H_low : forall allow,
  (forall T c, H_un allow T c -> lowb T = true) /\
  (forall T cs, H_andtail allow T cs -> lowb T = true) /\
  (forall T c, H_item allow T c -> lowb T = true) /\
  (forall T cs, H_ortail allow T cs -> lowb T = true) /\
  (forall T cs, H_ors allow T cs -> lowb T = true).
Proof.
  apply H_mutind.
  - intros allow neg N t HN Ht. lown. rewrite (notp_low _ _ HN). reflexivity.
  - intros allow neg N m o i cm sc c HN Hm Ho Hi Hcm Hsc Hc. lown. rewrite (notp_low _ _ HN). reflexivity.
  - intros allow neg N m o k cm lo i Tt l lc c HN Hal Hm Ho Hk Hcm Hlo Hi Hid Hlc Hc. lown.
    rewrite (notp_low _ _ HN), (idtail_low _ _ Hid). reflexivity.
  - intros allow neg N o T cs c HN Ho Hc _ IH. lown. rewrite (notp_low _ _ HN), IH. reflexivity.
  - intros allow neg N k o T cs c HN Hal Hk Ho Hc _ IH Hcont. lown. rewrite (notp_low _ _ HN), IH. reflexivity.
  - intros allow. reflexivity.
  - intros allow a T c T' cs Ha _ IHu _ IHt. lown. rewrite IHu, IHt. reflexivity.
  - intros allow T c _ IH. exact IH.
  - intros allow T1 c1 T2 cs _ IHu _ IHt Hne. lown. rewrite IHu, IHt. reflexivity.
  - intros allow. reflexivity.
  - intros allow o T c T' cs Ho _ IHi _ IHt. lown. rewrite IHi, IHt. reflexivity.
  - intros allow T c T' cs _ IHi _ IHt. lown. rewrite IHi, IHt. reflexivity.
Qed.

Definition no_keyword (T : list token) : bool := forallb (fun t => negb (is_rule_keyword (ttype t))) T.

Lemma low_no_keyword : forall T, lowb T = true -> no_keyword T = true.
Proof.
  intros T H. unfold lowb, no_keyword in *. rewrite forallb_forall in *. intros t Ht. specialize (H t Ht).
  unfold is_rule_keyword. apply Z.ltb_lt in H.
  destruct (c02_T_RULE <=? ttype t) eqn:E; [|reflexivity]. apply Z.leb_le in E.
  change c02_T_RULE with 100 in E. clear - H E. lia.
Qed.

Lemma low_no_conditions : forall T, lowb T = true -> forallb (fun t => negb (ttype t =? c02_T_CONDITIONS)) T = true.
Proof.
  intros T H. unfold lowb in *. rewrite forallb_forall in *. intros t Ht. specialize (H t Ht).
  apply Z.ltb_lt in H. destruct (ttype t =? c02_T_CONDITIONS) eqn:E; [|reflexivity]. apply Z.eqb_eq in E.
  change c02_T_CONDITIONS with 104 in E. clear - H E. lia.
Qed.

Lemma H_ors_no_keyword : forall allow T cs, H_ors allow T cs ->
  no_keyword T = true /\ forallb (fun t => negb (ttype t =? c02_T_CONDITIONS)) T = true.
Proof.
  intros allow T cs H. destruct (H_low allow) as [_ [_ [_ [_ Hors]]]]. apply Hors in H.
  split; [apply low_no_keyword|apply low_no_conditions]; exact H.
Qed.

(* Lemma B: find_condition_identifiers returns every identifier between CONDITIONS and the next keyword *)
Lemma ci_section : forall Tc B, no_keyword Tc = true ->
  incl (tok_ids Tc) (condition_identifiers (Tc ++ B) true).
Proof.
  induction Tc as [|t Tc IH]; intros B H; [intros a Ha; destruct Ha|].
  unfold no_keyword in H. cbn [forallb] in H. apply andb_true_iff in H. destruct H as [Ht H].
  apply negb_true_iff in Ht. specialize (IH B H).
  cbn [app condition_identifiers]. rewrite Ht.
  assert (Hc : ttype t =? c02_T_CONDITIONS = false).
  { destruct (ttype t =? c02_T_CONDITIONS) eqn:E; [|reflexivity]. apply Z.eqb_eq in E. rewrite E in Ht.
    vm_compute in Ht. discriminate Ht. }
  rewrite Hc. rewrite tok_ids_cons. cbn [andb].
  destruct (ttype t =? c02_T_IDENTIFIER); cbn [app].
  - apply incl_cons; [left; reflexivity|]. apply incl_tl. exact IH.
  - exact IH.
Qed.

Lemma ci_conditions : forall A ck Tc B flag, ttype ck = c02_T_CONDITIONS -> no_keyword Tc = true ->
  incl (tok_ids Tc) (condition_identifiers (A ++ ck :: Tc ++ B) flag).
Proof.
  induction A as [|a A IH]; intros ck Tc B flag Hck Hn.
  - cbn [app condition_identifiers]. rewrite Hck. rewrite Z.eqb_refl. apply ci_section. exact Hn.
  - cbn [app condition_identifiers].
    destruct (ttype a =? c02_T_CONDITIONS); [apply IH; assumption|].
    destruct (is_rule_keyword (ttype a)); [apply IH; assumption|].
    destruct (flag && (ttype a =? c02_T_IDENTIFIER)); [apply incl_tl|]; apply IH; assumption.
Qed.

(* Lemma C: every parsing function only prepends to the consumed tokens *)
Definition ext (s s' : pst) : Prop := exists T, trace s s' T.

Lemma ext_refl : forall s, ext s s.
Proof. intros s. exists []. apply trace_nil. Qed.
Lemma ext_trans : forall s s1 s2, ext s s1 -> ext s1 s2 -> ext s s2.
Proof. intros s s1 s2 [a Ha] [b Hb]. exists (a ++ b). eapply trace_app; eassumption. Qed.
Lemma ext_same : forall s s', consumed s' = consumed s -> ext s s'.
Proof. intros s s' H. exists []. unfold trace. rewrite H. reflexivity. Qed.
Lemma trace_ext : forall s s' T, trace s s' T -> ext s s'.
Proof. intros s s' T H. exists T. exact H. Qed.

Ltac ex := first [eassumption | apply ext_refl | (eapply ext_trans; [eassumption | ex])].

Lemma consume_ext : forall k s t s', consume k s = Ok (t, s') -> ext s s'.
Proof. intros k s t s' H. apply consume_trace in H. destruct H as [H _]. eapply trace_ext; eassumption. Qed.

Lemma parse_comma_ids_ext : forall f s l s', parse_comma_ids f s = Ok (l, s') -> ext s s'.
Proof.
  intros f s l s' H. apply parse_comma_ids_trace in H. destruct H as [i [Tt [l' [H _]]]].
  eapply trace_ext; eassumption.
Qed.

Lemma parse_conditions_ext : forall f allow g s cs s', parse_conditions f allow g s = Ok (cs, s') -> ext s s'.
Proof.
  intros f allow g s cs s' H. apply precedence_sound in H. destruct H as [T [H _]]. exists T. exact H.
Qed.

Lemma parse_single_ext : forall f allow s c s', parse_single f allow s = Ok (c, s') -> ext s s'.
Proof.
  intros f. destruct (parser_grammar f) as [Hs _]. intros allow s c s' H. apply Hs in H.
  destruct H as [T [H _]]. exists T. exact H.
Qed.

Lemma parse_cds_ext : forall f s cs s', parse_cds f s = Ok (cs, s') -> ext s s'.
Proof.
  intros f. destruct (parser_grammar f) as [_ [Hc _]]. intros s cs s' H. apply Hc in H.
  destruct H as [k [o [T [c [H _]]]]]. eapply trace_ext; eassumption.
Qed.

Ltac cext :=
  repeat match goal with
         | E : consume _ _ = Ok _ |- _ => apply consume_ext in E
         | E : parse_comma_ids _ _ = Ok _ |- _ => apply parse_comma_ids_ext in E
         | E : parse_single _ _ _ = Ok _ |- _ => apply parse_single_ext in E
         | E : parse_cds _ _ = Ok _ |- _ => apply parse_cds_ext in E
         | E : parse_conditions _ _ _ _ = Ok _ |- _ => apply parse_conditions_ext in E
         end.

Lemma parse_extenders_ext : forall f s e s', parse_extenders f s = Ok (e, s') -> ext s s'.
Proof.
  intros f s e s' H. unfold parse_extenders in H. repeat step H; inversion H; subst; clear H; cext; ex.
Qed.

Lemma parse_superiors_ext : forall f known s l s', parse_superiors f known s = Ok (l, s') -> ext s s'.
Proof.
  intros f known s l s' H. unfold parse_superiors in H. repeat step H; inversion H; subst; clear H; cext; ex.
Qed.

Lemma parse_description_ext : forall s d s', parse_description s = Ok (d, s') -> ext s s'.
Proof.
  intros s d s' H. unfold parse_description in H. repeat step H; inversion H; subst; clear H; cext.
  eapply ext_trans; [eassumption|]. apply ext_same. reflexivity.
Qed.

Lemma parse_example_ext : forall s e s', parse_example s = Ok (e, s') -> ext s s'.
Proof.
  intros s e s' H. unfold parse_example in H. repeat step H; inversion H; subst; clear H; cext;
  match goal with
  | E : match cur ?s6 with _ => _ end = Ok (_, ?s7) |- _ =>
    assert (Hs : ext s6 s7) by (repeat step E; inversion E; subst; clear E; apply ext_same; reflexivity)
  end; ex.
Qed.

Lemma examples_loop_ext : forall f acc s l s', examples_loop f acc s = Ok (l, s') -> ext s s'.
Proof.
  induction f as [|f IH]; intros acc s l s' H; cbn [examples_loop] in H; [discriminate H|].
  repeat step H.
  - apply IH in H. match goal with E : parse_example _ = Ok _ |- _ => apply parse_example_ext in E end. ex.
  - inversion H; subst. apply ext_refl.
Qed.

Lemma alias_loop_ext : forall f acc s l s', alias_loop f acc s = Ok (l, s') -> ext s s'.
Proof.
  induction f as [|f IH]; intros acc s l s' H; cbn [alias_loop] in H; [discriminate H|].
  repeat step H; try (inversion H; subst; apply ext_refl).
  apply IH in H. cext. ex.
Qed.

Lemma parse_alias_ext : forall f s name toks s', parse_alias f s = Ok (name, toks, s') -> ext s s'.
Proof.
  intros f s name toks s' H. unfold parse_alias in H. repeat step H; inversion H; subst; clear H; cext;
  match goal with E : alias_loop _ _ _ = Ok _ |- _ => apply alias_loop_ext in E end; ex.
Qed.

Lemma opt_desc_ext : forall (c : bool) s d s',
  (if c then parse_description s else Ok ([], s)) = Ok (d, s') -> ext s s'.
Proof. intros c s d s' H. destruct c; [eapply parse_description_ext; eassumption|inversion H; apply ext_refl]. Qed.

Lemma opt_related_ext : forall (c : bool) f s l s',
  (if c then do (_, s1) <- consume c02_T_RELATED s; parse_comma_ids f s1 else Ok ([], s)) = Ok (l, s') -> ext s s'.
Proof.
  intros c f s l s' H. destruct c; [|inversion H; apply ext_refl]. repeat step H. cext. ex.
Qed.

Lemma opt_sup_ext : forall (c : bool) f known s l s',
  (if c then parse_superiors f known s else Ok ([], s)) = Ok (l, s') -> ext s s'.
Proof. intros c f known s l s' H. destruct c; [eapply parse_superiors_ext; eassumption|inversion H; apply ext_refl]. Qed.

(* the consumed tokens of one RULE block: ... CONDITIONS <a grammatical condition list> ... *)
Lemma parse_rule_trace : forall f known cats s r s',
  parse_rule f known cats s = Ok (r, s') ->
  exists A ck Tc B, trace s s' (A ++ ck :: Tc ++ B) /\ ttype ck = c02_T_CONDITIONS /\
    exists cs, r_cond r = CGroup false cs /\ G_ors true Tc cs.
Proof.
  intros f known cats s r s' H. unfold parse_rule in H. repeat step H. inversion H; subst; clear H.
  cbn [r_cond].
  match goal with E : mk_group _ _ = Ok _ |- _ => apply mk_group_ok in E; subst end.
  match goal with E : parse_conditions _ _ _ _ = Ok _ |- _ =>
    apply precedence_sound in E; destruct E as [Tc [HTc HG]] end.
  match goal with E : consume c02_T_CONDITIONS _ = Ok _ |- _ =>
    apply consume_trace in E; destruct E as [Hck Htck] end.
  match goal with E : parse_extenders _ _ = Ok _ |- _ => apply parse_extenders_ext in E; destruct E as [B HB] end.
  match goal with E : examples_loop _ _ _ = Ok _ |- _ => apply examples_loop_ext in E end.
  match goal with E : (if _ then parse_description _ else _) = Ok _ |- _ => apply opt_desc_ext in E end.
  match goal with E : (if _ then parse_superiors _ _ _ else _) = Ok _ |- _ => apply opt_sup_ext in E end.
  match goal with E : (if _ then bind _ _ else _) = Ok _ |- _ => apply opt_related_ext in E end.
  cext.
  match goal with Hck : trace ?s12 _ [?ck] |- _ =>
    assert (HA : ext s s12) by ex; destruct HA as [A HA]; exists A, ck, Tc, B end.
  split; [|split; [assumption|]].
  - eapply trace_app; [eassumption|]. eapply (trace_app _ _ _ [_]); [eassumption|].
    eapply trace_app; [exact HTc|exact HB].
  - eexists. split; [reflexivity|assumption].
Qed.

(* T covers r: wherever T sits in the consumed tokens, find_condition_identifiers returns the names of r *)
Definition covers (T : list token) (r : rule) : Prop :=
  forall P Q flag, incl (cond_names (r_cond r)) (condition_identifiers (P ++ T ++ Q) flag).

Lemma covers_ext : forall X T Y r, covers T r -> covers (X ++ T ++ Y) r.
Proof.
  intros X T Y r H P Q flag. specialize (H (P ++ X) (Y ++ Q) flag).
  repeat rewrite <- app_assoc in *. exact H.
Qed.

Lemma rule_covers : forall A ck Tc B cs r, ttype ck = c02_T_CONDITIONS -> G_ors true Tc cs ->
  r_cond r = CGroup false cs -> covers (A ++ ck :: Tc ++ B) r.
Proof.
  intros A ck Tc B cs r Hck HG Hr P Q flag. rewrite Hr. cbn [cond_names].
  apply G_ors_H_ors in HG. destruct (H_names true) as [_ [_ [_ [_ Hn]]]].
  eapply incl_tran; [apply Hn; exact HG|].
  replace (P ++ (A ++ ck :: Tc ++ B) ++ Q) with ((P ++ A) ++ ck :: Tc ++ (B ++ Q))
    by (repeat rewrite <- app_assoc; cbn [app]; repeat rewrite <- app_assoc; reflexivity).
  apply ci_conditions; [exact Hck|]. eapply H_ors_no_keyword. exact HG.
Qed.

Lemma main_loop_covers : forall n sigs cats m rules s rules' s',
  main_loop n sigs cats m rules s = Ok (rules', s') ->
  exists new T, rules' = rules ++ new /\ trace s s' T /\ Forall (covers T) new.
Proof.
  induction n as [|n IH]; intros sigs cats m rules s rules' s' H; cbn [main_loop] in H; [discriminate H|].
  destruct (cur s) as [t|].
  2:{ inversion H; subst. exists [], []. split; [rewrite app_nil_r; reflexivity|]. split; [apply trace_nil|constructor]. }
  destruct (negb (is_starter (ttype t))); [discriminate H|].
  destruct (ttype t =? c02_T_DEFINE).
  - repeat step H.
    match goal with E : parse_alias _ _ = Ok _ |- _ => apply parse_alias_ext in E; destruct E as [T1 HT1] end.
    apply IH in H. destruct H as [new [T2 [Hr [HT2 Hc]]]].
    exists new, (T1 ++ T2). split; [exact Hr|]. split.
    + unfold trace in *. cbn [consumed] in HT2. rewrite HT2, HT1, rev_app_distr, app_assoc. reflexivity.
    + eapply Forall_impl; [|exact Hc]. intros r Hcr.
      pose proof (covers_ext T1 T2 [] r Hcr) as Hx. rewrite app_nil_r in Hx. exact Hx.
  - repeat step H.
    match goal with E : parse_rule _ _ _ _ = Ok _ |- _ =>
      apply parse_rule_trace in E; destruct E as [A [ck [Tc [B [HT1 [Hck [cs [Hrc HG]]]]]]]] end.
    apply IH in H. destruct H as [new [T2 [Hr [HT2 Hc]]]].
    eexists (_ :: new), ((A ++ ck :: Tc ++ B) ++ T2). split; [|split].
    + rewrite Hr, <- app_assoc. reflexivity.
    + eapply trace_app; eassumption.
    + constructor.
      * pose proof (rule_covers A ck Tc B cs) as Hx.
        match goal with |- covers _ ?r' => specialize (Hx r' Hck HG Hrc) end.
        pose proof (covers_ext [] _ T2 _ Hx) as Hy. exact Hy.
      * eapply Forall_impl; [|exact Hc]. intros r0 Hcr.
        pose proof (covers_ext (A ++ ck :: Tc ++ B) T2 [] r0 Hcr) as Hx. rewrite app_nil_r in Hx. exact Hx.
Qed.

Lemma unknown_profile_rejected : forall text sigs cats m rules als rules' als',
  parse_text text sigs cats m rules als = Ok (rules', als') ->
  exists new, rules' = rules ++ new /\
    Forall (fun r => forall a, In a (cond_names (r_cond r)) -> In a sigs) new.
Proof.
  intros text sigs cats m rules als rules' als' H. unfold parse_text in H. repeat step H.
  inversion H; subst; clear H.
  match goal with E : main_loop _ _ _ _ _ _ = Ok _ |- _ =>
    apply main_loop_covers in E; destruct E as [new [T [Hr [HT Hc]]]] end.
  exists new. split; [exact Hr|].
  unfold trace in HT. cbn [consumed] in HT. rewrite app_nil_r in HT.
  match goal with C : forallb _ (condition_identifiers (rev (consumed ?p)) false) = true |- _ =>
    rewrite HT, rev_involutive in C; rename C into Hall end.
  rewrite forallb_forall in Hall.
  eapply Forall_impl; [|exact Hc]. intros r Hcr nm Hnm.
  apply smem_In. apply Hall. specialize (Hcr [] [] false). rewrite app_nil_r in Hcr. cbn [app] in Hcr.
  apply Hcr. exact Hnm.
Qed.

Lemma unknown_profile_extenders_refuted : exists text sigs cats r,
  parse_text text sigs cats (mkM 1 1 1 1) [] [] = Ok ([r], []) /\
  exists e a, r_ext r = Some e /\ In a (cond_names e) /\ ~ In a sigs.
Proof.
  exists (codes "RULE r1 CATEGORY cat CUTOFF 1 NEIGHBOURHOOD 1 CONDITIONS a EXTENDERS zz"),
         [codes "a"], [codes "cat"].
  eexists. split; [vm_compute; reflexivity|].
  eexists. exists (codes "zz"). split; [reflexivity|]. split; [left; reflexivity|].
  intros [H|[]]. vm_compute in H. discriminate H.
Qed.
