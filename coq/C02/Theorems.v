(* C02 - property theorems (about the model of rule_parser.py in Model.v). *)
From ASV.C02 Require Import Model Proofs.
From ASV.Gen Require Import Tables_gen.
From Coq Require Import String Sorting.Sorted.
Close Scope string_scope.
Open Scope Z_scope.

(* --- whitespace and # comments are irrelevant ---
   For every list of tokens (words over [A-Za-z0-9_-] that may continue with ':' '/', and the
   single-character tokens of Tokeniser.mapping) and every choice of separators - any mix of whitespace
   characters and "# ... newline" comments, non-empty between two words - the tokeniser returns exactly
   the tokens. *)
Theorem C02_tokens_ws : forall s0 ts, sep_ok s0 -> chain ts -> tokenise (render s0 ts) = Ok (map fst ts).
Proof. exact tokens_ws. Qed.
Print Assumptions C02_tokens_ws.

Theorem C02_tokens_ws_irrelevant : forall s0 s0' ts ts',
  sep_ok s0 -> sep_ok s0' -> chain ts -> chain ts' -> map fst ts = map fst ts' ->
  tokenise (render s0 ts) = tokenise (render s0' ts').
Proof. exact tokens_ws_irrelevant. Qed.
Print Assumptions C02_tokens_ws_irrelevant.

(* non-vacuity: "a #c<newline>and(b ,x:y)" preceded by a tab *)
Example C02_tokens_ws_example :
  let ts := [(codes "a", codes " #c" ++ [10]); (codes "and", []); (codes "(", []); (codes "b", codes " ");
             (codes ",", []); (codes "x:y", []); (codes ")", [])] in
  sep_ok [9] /\ chain ts /\ tokenise (render [9] ts) = Ok (map codes ["a"; "and"; "("; "b"; ","; "x:y"; ")"]%string).
Proof.
  cbv zeta. split; [apply sep_ws; [reflexivity|apply sep_nil]|]. split.
  - cbn [chain]. repeat split; try (left; vm_compute; reflexivity); try (right; vm_compute; reflexivity);
      try apply sep_nil; try (intros; vm_compute; reflexivity); try discriminate.
    + apply sep_ws; [reflexivity|]. apply (sep_comment [99] []); [repeat constructor; discriminate|apply sep_nil].
    + apply sep_ws; [reflexivity|apply sep_nil].
  - vm_compute. reflexivity.
Qed.

(* --- SUPERIORS are closed transitively ---
   For every list of rule files that create_rules' loop parses: rule names are unique, and the superiors
   of every rule are duplicate-free, sorted (str_le a b := not (b < a) in Python's order on str), name only
   rules defined earlier, and contain the superiors of each of them. *)
Theorem C02_superiors_closed : forall files sigs cats m rules als,
  parse_files files 0 sigs cats m [] [] = inl (rules, als) ->
  forall pre r post, rules = pre ++ r :: post ->
    ~ In (r_name r) (map r_name pre) /\ (NoDup (r_sup r) /\ StronglySorted str_le (r_sup r)) /\
    forall s, In s (r_sup r) -> exists p, In p pre /\ r_name p = s /\ incl (r_sup p) (r_sup r).
Proof. exact superiors_closed. Qed.
Print Assumptions C02_superiors_closed.

Definition example_files : list str :=
  [codes "RULE r1 CATEGORY cat CUTOFF 5 NEIGHBOURHOOD 3 CONDITIONS a or b and c";
   codes "DEFINE x AS a or b RULE r2 CATEGORY cat SUPERIORS r1 CUTOFF 5 NEIGHBOURHOOD 5 CONDITIONS x and not c";
   codes "RULE r3 CATEGORY cat SUPERIORS r2 CUTOFF 5 NEIGHBOURHOOD 5 CONDITIONS cds(a and b) or minimum(2,[a,b])"].
Definition example_run :=
  parse_files example_files 0 (map codes ["a"; "b"; "c"]%string) [codes "cat"] (mkM 3 2 1 2) [] [].

(* non-vacuity: three files, a three-level chain of superiors; r3 ends up below r1 and r2 *)
Example C02_superiors_closed_example :
  match example_run with
  | inl (rules, _) => map r_sup rules = [[]; [codes "r1"]; [codes "r1"; codes "r2"]]
                      /\ map r_cutoff rules = [7500; 7500; 7500] /\ map r_neigh rules = [1500; 2500; 2500]
  | inr _ => False
  end.
Proof. vm_compute. repeat split. Qed.

(* --- ill-formed input never yields a rule ---
   Every rule that comes out of the parser has conditions in which no operator node has two operands
   with the same text and no minimum() has a repeated option or a count below 1 (repeated operand), has
   at least one positive requirement (also in its EXTENDERS), and has a category from the valid set. *)
Theorem C02_rejects_repeated_operand : forall files sigs cats m rules als,
  parse_files files 0 sigs cats m [] [] = inl (rules, als) ->
  Forall (fun r => nrb (r_cond r) = true) rules.
Proof.
  intros. eapply Forall_impl; [|eapply parsed_rules_ok; eassumption].
  intros r Hr. destruct Hr as [H1 _]. exact H1.
Qed.
Print Assumptions C02_rejects_repeated_operand.

(* what nrb says, node by node *)
Theorem C02_no_repeat_meaning : forall c, nrb c = true ->
  match c with
  | CCds _ subs | CGroup _ subs | CAnd subs => NoDup (map show subs) /\ forallb nrb subs = true
  | CMin _ k opts => NoDup opts /\ 1 <= k
  | _ => True
  end.
Proof. exact nrb_NoDup. Qed.
Print Assumptions C02_no_repeat_meaning.

(* and at the constructors (Conditions.__init__, MinimumCondition.__init__): ValueError *)
Theorem C02_rejects_repeated_operand_ctor : forall n subs, has_dup (map show subs) = true ->
  mk_group n subs = Err E_Value /\ mk_cds n subs = Err E_Value /\ mk_and subs = Err E_Value.
Proof.
  intros n subs H. split; [apply mk_group_repeated|split; [apply mk_cds_repeated|apply mk_and_repeated]]; assumption.
Qed.
Print Assumptions C02_rejects_repeated_operand_ctor.

Theorem C02_rejects_no_positive : forall files sigs cats m rules als,
  parse_files files 0 sigs cats m [] [] = inl (rules, als) ->
  Forall (fun r => positive (r_cond r) = true /\
                   match r_ext r with Some e => positive e = true | None => True end) rules.
Proof.
  intros. eapply Forall_impl; [|eapply parsed_rules_ok; eassumption].
  intros r Hr. destruct Hr as [_ [H2 [_ [_ [_ H6]]]]]. split; assumption.
Qed.
Print Assumptions C02_rejects_no_positive.

Theorem C02_rejects_unknown_category : forall files sigs cats m rules als,
  parse_files files 0 sigs cats m [] [] = inl (rules, als) ->
  Forall (fun r => In (r_cat r) cats) rules.
Proof.
  intros. eapply Forall_impl; [|eapply parsed_rules_ok; eassumption].
  intros r Hr. destruct Hr as [_ [_ [H3 _]]]. apply smem_In. exact H3.
Qed.
Print Assumptions C02_rejects_unknown_category.

(* non-vacuity of the rejection theorems: the hypothesis holds for example_run (see above), and the
   rejected classes are indeed rejected *)
Example C02_rejects_examples :
  let run text := parse_files [codes text] 0 (map codes ["a"; "b"; "c"]%string) [codes "cat"] (mkM 1 1 1 1) [] [] in
  run "RULE r CATEGORY cat CUTOFF 1 NEIGHBOURHOOD 1 CONDITIONS a and b and a"%string = inr (E_Value, 0)
  /\ run "RULE r CATEGORY cat CUTOFF 1 NEIGHBOURHOOD 1 CONDITIONS not a and not b"%string = inr (E_Value, 0)
  /\ run "RULE r CATEGORY dog CUTOFF 1 NEIGHBOURHOOD 1 CONDITIONS a"%string = inr (E_RuleSyntax, 0)
  /\ run "RULE r CATEGORY cat CUTOFF 1 NEIGHBOURHOOD 1 CONDITIONS a or zz"%string = inr (E_Value, 0)
  /\ run "RULE r CATEGORY cat SUPERIORS q CUTOFF 1 NEIGHBOURHOOD 1 CONDITIONS a"%string = inr (E_Value, 0)
  /\ run "RULE r CATEGORY cat CUTOFF 1 NEIGHBOURHOOD 1 CONDITIONS (a or b"%string = inr (E_RuleSyntax, 0)
  /\ run "RULE r CATEGORY cat CUTOFF 1 CONDITIONS a"%string = inr (E_RuleSyntax, 0)
  /\ run "DEFINE x AS a or x RULE r CATEGORY cat CUTOFF 1 NEIGHBOURHOOD 1 CONDITIONS x"%string = inr (E_RuleSyntax, 0).
Proof. vm_compute. repeat split. Qed.

(* --- precedence: not > and > or, parentheses and cds(...) group ---
   The documented grammar, as the relations G_ors / G_item / G_andsR / G_un / G_core of Proofs.v (section E):
     ors  ::= item { OR item }        item ::= un | un AND un { AND un }   (an AndCondition)
     un   ::= [NOT] core              core ::= ID | ( ors ) | cds( ors' ) | minimum( INT , [ ID {, ID} ] ) | minscore( ID , INT )
   cds/minimum only outside cds (ors' = ors with allow = false); the contents of cds() are more than one identifier.
   Soundness: whatever _parse_conditions returns is the reading of the tokens it consumed (after alias splicing).
   Completeness (C02_precedence_complete): every grammatical token list T whose reading has no repeated operand
   (nrb: what Conditions.__init__ / MinimumCondition.__init__ check) is accepted and read as the grammar says, from
   any state in front of T ++ R in which no token of T (and not the first of R) is an alias name, R does not go on
   with AND/OR and is a legal end of the conditions, with fuel 2|T|+3. *)
Theorem C02_precedence_sound : forall f allow g s cs s',
  parse_conditions f allow g s = Ok (cs, s') ->
  exists T, consumed s' = rev T ++ consumed s /\ G_ors allow T cs.
Proof. exact precedence_sound. Qed.
Print Assumptions C02_precedence_sound.

Theorem C02_precedence_complete : forall allow T cs, G_ors allow T cs -> forallb nrb cs = true ->
  forall als g R cons f, nah als T = true -> nahd als R = true ->
  hd_is c02_T_AND R = false -> hd_is c02_T_OR R = false ->
  (forall cons', conditions_end g (st R cons' als) = Ok tt) -> (2 * List.length T + 3 <= f)%nat ->
  parse_conditions f allow g (st (T ++ R) cons als) = Ok (cs, st R (rev T ++ cons) als).
Proof. exact precedence_complete. Qed.
Print Assumptions C02_precedence_complete.

(* the same grammar with right-recursive lists (H_ors ... of section H), which is what the completeness proof
   runs on; every G-sentence is an H-sentence with the same reading *)
Theorem C02_grammar_presentations : forall allow T cs, G_ors allow T cs -> H_ors allow T cs.
Proof. exact G_ors_H_ors. Qed.
Print Assumptions C02_grammar_presentations.

Theorem C02_rule_conditions_grammar : forall f known cats s r s',
  parse_rule f known cats s = Ok (r, s') ->
  exists cs T, r_cond r = CGroup false cs /\ G_ors true T cs.
Proof. exact parse_rule_conditions. Qed.
Print Assumptions C02_rule_conditions_grammar.

(* non-vacuity and the three precedence levels on one text: a or not b and c and (d or e) *)
Example C02_precedence_example :
  match tokenise (codes "a or not b and c and (d or e)") with
  | Ok (t :: r) =>
    match parse_conditions 100 true false (mkP (Some (mk_token t)) (map mk_token r) [] []) with
    | Ok (cs, _) => cs = [CSingle false (codes "a");
                          CAnd [CSingle true (codes "b"); CSingle false (codes "c");
                                CGroup false [CSingle false (codes "d"); CSingle false (codes "e")]]]
    | Err _ => False
    end
  | _ => False
  end.
Proof. vm_compute. reflexivity. Qed.

(* non-vacuity of C02_precedence_complete: a grammatical token list with minimum, minscore, cds, groups and the
   three operators (obtained from the soundness theorem), no repeated operand *)
Example C02_precedence_complete_example : exists T cs,
  G_ors true T cs /\ forallb nrb cs = true /\ List.length cs = 3%nat /\ List.length T = 40%nat.
Proof.
  destruct (tokenise (codes "a or not b and minimum(2,[a,b,c]) and (d or minscore(e, 5)) or cds(a and (b or not c))"))
    as [[|t r]|] eqn:E; try (vm_compute in E; discriminate E).
  destruct (parse_conditions 200 true false (mkP (Some (mk_token t)) (map mk_token r) [] [])) as [[cs s']|] eqn:P;
    [|vm_compute in E; inversion E; subst; vm_compute in P; discriminate P].
  destruct (precedence_sound _ _ _ _ _ _ P) as [T [HT HG]]. exists T, cs. split; [exact HG|].
  vm_compute in E. inversion E; subst. vm_compute in P. inversion P; subst. cbn [consumed] in HT.
  rewrite app_nil_r in HT. apply (f_equal (@rev token)) in HT. rewrite rev_involutive in HT. subst T.
  vm_compute. repeat split.
Qed.

(* --- DEFINE aliases are textual substitution (one step of the token stream; partial) ---
   Moving on to an alias name is the same as moving on to the tokens of its definition, provided the
   definition does not itself start with an alias name; without the proviso the statement is false
   (finding alias_first_token): the first token of a spliced definition is never expanded. *)
Theorem C02_alias_subst_step_partial : forall k c n r cons als b B,
  ttype n = c02_T_IDENTIFIER -> alias_get (ttext n) als = Some (b :: B) -> alias_head als b = false ->
  consume k (mkP (Some c) (n :: r) cons als) = consume k (mkP (Some c) (b :: B ++ r) cons als).
Proof. exact alias_subst_step. Qed.
Print Assumptions C02_alias_subst_step_partial.

Theorem C02_alias_subst_first_token_refuted : exists k c n r cons als b B,
  ttype n = c02_T_IDENTIFIER /\ alias_get (ttext n) als = Some (b :: B) /\
  consume k (mkP (Some c) (n :: r) cons als) <> consume k (mkP (Some c) (b :: B ++ r) cons als).
Proof. exact alias_subst_first_token_refuted. Qed.
Print Assumptions C02_alias_subst_first_token_refuted.

(* non-vacuity of the step lemma: x := a or b, stream "c and x" *)
Example C02_alias_subst_example :
  let al := [(codes "x", map (fun s => set_aliased (mk_token (codes s))) ["a"; "or"; "b"]%string)] in
  alias_get (codes "x") al = Some (map (fun s => set_aliased (mk_token (codes s))) ["a"; "or"; "b"]%string)
  /\ alias_head al (set_aliased (mk_token (codes "a"))) = false.
Proof. vm_compute. split; reflexivity. Qed.

(* --- DEFINE aliases are textual substitution, whole token stream of the conditions (C02_alias_subst) ---
   Xp als L L' : L' is the stream L with every alias use replaced by its definition, recursively, the way _consume
   does it - defined only when no definition that gets spliced starts with an alias name (the proviso of
   alias_first_token: C02_alias_subst_proviso_needed shows a stream without any expansion).  Parsing the conditions
   from L and from L' gives the same conditions, current token and consumed tokens, or the same kind of error;
   L' itself mentions no alias (C02_alias_subst_expanded_alias_free), so the second run is alias-free parsing. *)
Theorem C02_alias_subst : forall f allow g c L L' cons als,
  Xp als L L' ->
  (forall cs s1, parse_conditions f allow g (mkP (Some c) L cons als) = Ok (cs, s1) ->
     exists s1', parse_conditions f allow g (mkP (Some c) L' cons als) = Ok (cs, s1') /\
                 cur s1 = cur s1' /\ consumed s1 = consumed s1' /\ aliases s1 = aliases s1' /\
                 Xp (aliases s1) (rest s1) (rest s1')) /\
  (forall k, parse_conditions f allow g (mkP (Some c) L cons als) = Err k ->
     parse_conditions f allow g (mkP (Some c) L' cons als) = Err k).
Proof. exact alias_subst_whole_plain. Qed.
Print Assumptions C02_alias_subst.

Theorem C02_alias_subst_converse : forall f allow g c L L' cons als,
  Xp als L L' ->
  (forall cs s1', parse_conditions f allow g (mkP (Some c) L' cons als) = Ok (cs, s1') ->
     exists s1, parse_conditions f allow g (mkP (Some c) L cons als) = Ok (cs, s1) /\ sim s1 s1') /\
  (forall k, parse_conditions f allow g (mkP (Some c) L' cons als) = Err k ->
     parse_conditions f allow g (mkP (Some c) L cons als) = Err k).
Proof. exact alias_subst_whole_conv. Qed.
Print Assumptions C02_alias_subst_converse.

Theorem C02_alias_subst_expanded_alias_free : forall als L L', Xp als L L' -> nah als L' = true.
Proof. exact Xp_nah. Qed.
Print Assumptions C02_alias_subst_expanded_alias_free.

Theorem C02_alias_subst_proviso_needed : forall L', ~ Xp bad_als [mk_token (codes "y")] L'.
Proof. exact ex_proviso_needed. Qed.
Print Assumptions C02_alias_subst_proviso_needed.

(* non-vacuity: x := a or b, y := c and x (alias inside an alias, not in first position); "d or y or e" is read
   like "d or c and a or b or e" *)
Example C02_alias_subst_whole_example :
  Xp ex_als ex_L ex_L' /\
  parse_conditions 20 true false (mkP (Some ex_cur) ex_L [] ex_als)
  = parse_conditions 20 true false (mkP (Some ex_cur) ex_L' [] ex_als) /\
  exists s1, parse_conditions 20 true false (mkP (Some ex_cur) ex_L [] ex_als) = Ok (ex_conds, s1).
Proof. split; [exact ex_Xp|]. split; [exact ex_same_result|]. eexists. vm_compute. reflexivity. Qed.

(* --- kilobases and multipliers ---
   cutoff and neighbourhood of every parsed rule are floor(1000 * n * multiplier) for the INT tokens n of
   the text (multiplier = num/den exactly; applied once). *)
Theorem C02_scaling : forall files sigs cats m rules als,
  parse_files files 0 sigs cats m [] [] = inl (rules, als) ->
  Forall (fun r => exists tc tn, ttype tc = c02_T_INT /\ ttype tn = c02_T_INT /\
                   r_cutoff r = scale (int_of (ttext tc) * 1000) (mc_num m) (mc_den m) /\
                   r_neigh r = scale (int_of (ttext tn) * 1000) (mn_num m) (mn_den m)) rules.
Proof.
  intros. eapply Forall_impl; [|eapply parsed_rules_ok; eassumption].
  intros r Hr. destruct Hr as [_ [_ [_ [_ [H5 _]]]]]. exact H5.
Qed.
Print Assumptions C02_scaling.

Theorem C02_scale_is_floor : forall v num den, 0 < den ->
  den * scale v num den <= v * num < den * (scale v num den + 1).
Proof. exact scale_floor. Qed.
Print Assumptions C02_scale_is_floor.

(* --- a doubled negation keeps its parentheses (finding double_negation_wrapped, repaired) ---
   The text of a condition never starts with "not not " (which the parser rejects), however many non-negated
   one-member groups lie between two negations - for every condition tree whose profile names contain no
   space and are not the word "not"; every IDENTIFIER token is such a name.  The statement holds for the
   whole tree, hence for every operand printed inside it.  Before the repair the model printed
   CGroup true [CGroup false [CSingle true b]] as "not not b". *)
Theorem C02_no_doubled_not :
  (forall s, classify s = c02_T_IDENTIFIER -> name_ok s = true) /\
  (forall c, names_ok c = true -> starts_with (codes "not not ") (show c) = false).
Proof. split; [exact identifier_name_ok|exact no_doubled_not]. Qed.
Print Assumptions C02_no_doubled_not.

(* non-vacuity, the recorded witness: "not ((not b))" is regenerated as "not (not b)" and parses back to a
   rule with the same text *)
Example C02_no_doubled_not_example :
  let sigs := map codes ["a"; "b"]%string in
  match parse_files [codes "RULE r1 CATEGORY cat CUTOFF 1 NEIGHBOURHOOD 1 CONDITIONS a and not ((not b))"] 0 sigs
                    [codes "cat"] (mkM 1 1 1 1) [] [] with
  | inl ([r], _) =>
    names_ok (r_cond r) = true /\
    reconstruct r = codes "RULE r1 CATEGORY cat CUTOFF 1 NEIGHBOURHOOD 1 CONDITIONS a and not (not b)" /\
    match parse_files [reconstruct r] 0 sigs [codes "cat"] (mkM 1 1 1 1) [] [] with
    | inl ([r2], _) => reconstruct r2 = reconstruct r
    | _ => False
    end
  | _ => False
  end.
Proof. vm_compute. repeat split; reflexivity. Qed.

(* --- round trip, refuted in full generality (finding fractional_kb, known) ---
   the text regenerated from a parsed rule does not always parse back to the same distances:
   5 kb x 1.5 = 7500 is written as "CUTOFF 7". *)
Theorem C02_roundtrip_distances_refuted : exists text sigs cats m r r2,
  parse_files [text] 0 sigs cats m [] [] = inl ([r], []) /\
  parse_files [reconstruct r] 0 sigs cats (mkM 1 1 1 1) [] [] = inl ([r2], []) /\
  r_cutoff r2 <> r_cutoff r.
Proof.
  exists (codes "RULE r1 CATEGORY cat CUTOFF 5 NEIGHBOURHOOD 3 CONDITIONS a or b and c"),
         (map codes ["a"; "b"; "c"]%string), [codes "cat"], (mkM 3 2 1 2).
  eexists. eexists. split; [vm_compute; reflexivity|]. split; [vm_compute; reflexivity|].
  vm_compute. discriminate.
Qed.
Print Assumptions C02_roundtrip_distances_refuted.

(* --- round trip of the condition text (C02_roundtrip_cond) ---
   For every non-empty list cs of condition trees of the shapes the parser builds (rt_ok: names are IDENTIFIER
   tokens, numbers not negative, groups non-empty, AndConditions with >= 2 operands that are not AndConditions,
   cds/minimum only outside cds, no repeated operand):
   the text  str(c1) or str(c2) or ...  tokenises to the token texts toks, and from every parser state in front of
   these tokens that knows no alias used in them, with fuel 2|toks|+3, _parse_conditions returns the trees
   norm c1, norm c2, ... - norm removes the one-member groups the printer does not print (negating the member
   once more when the group is negated), sorts the options of minimum() and keeps the only member of a cds( ) in the
   explicit group CDSCondition.__str__ prints around it when its text holds no parenthesis.  norm c prints the same text as c
   (the regenerated text is a fixed point) and has the same meaning under every interpretation of the leaves
   (den: groups = OR, AndCondition = AND, not = negation, cds(...) = some gene satisfies the inside on its own).
   No guard on doubled negations any more (repair dceca0db), and no guard on the content of cds( ) any more
   (finding cds_single_wrapped, repaired: cds((a)) is printed as cds((a))). *)
Theorem C02_roundtrip_cond : forall cs, cs <> [] -> forallb rt_ok cs = true ->
  let toks := ljoin (codes "or") (map lt cs) in
  tokenise (join s_or_sep (map show cs)) = Ok toks /\
  (forall als cons f, nah als (map mk_token toks) = true -> (2 * List.length toks + 3 <= f)%nat ->
     parse_conditions f true false (st (map mk_token toks) cons als)
     = Ok (map norm cs, st [] (rev (map mk_token toks) ++ cons) als)) /\
  map show (map norm cs) = map show cs /\
  (forall g genes, map (den g genes) (map norm cs) = map (den g genes) cs).
Proof. exact roundtrip_conds. Qed.
Print Assumptions C02_roundtrip_cond.

(* the text that reconstruct_rule_text writes after CONDITIONS is that joined text (two or more members, or one
   AndCondition; a single other member is printed as itself) *)
Theorem C02_roundtrip_conditions_text : forall cs,
  match cs with [] => false | [c] => is_and c | _ => true end = true ->
  strip_parens (show (CGroup false cs)) = join s_or_sep (map show cs).
Proof. exact conditions_text. Qed.
Print Assumptions C02_roundtrip_conditions_text.

(* the hypotheses of the round trip hold for everything _parse_conditions returns, when the consumed tokens carry
   the type of their text (as the tokeniser makes them) *)
Theorem C02_parsed_conditions_shape : forall f allow g s cs s', parse_conditions f allow g s = Ok (cs, s') ->
  Forall tok_wf (consumed s') ->
  forallb (fun c => lexable c && shape allow c && nrb c) cs = true /\ cs <> [].
Proof. exact parsed_shape. Qed.
Print Assumptions C02_parsed_conditions_shape.

(* hence: the text regenerated from ANY conditions _parse_conditions has returned (outside cds( ), tokens as the
   tokeniser makes them) tokenises and parses back to norm of them, which prints the same text and means the same.
   Before the repair of finding cds_single_wrapped this was false (cds((a)) was printed as cds(a), which is rejected)
   and C02_roundtrip_cond carried the guard cds_ok. *)
Theorem C02_roundtrip_parsed : forall f g s cs s', parse_conditions f true g s = Ok (cs, s') ->
  Forall tok_wf (consumed s') ->
  let toks := ljoin (codes "or") (map lt cs) in
  tokenise (join s_or_sep (map show cs)) = Ok toks /\
  (forall als cons f', nah als (map mk_token toks) = true -> (2 * List.length toks + 3 <= f')%nat ->
     parse_conditions f' true false (st (map mk_token toks) cons als)
     = Ok (map norm cs, st [] (rev (map mk_token toks) ++ cons) als)) /\
  map show (map norm cs) = map show cs /\
  (forall e genes, map (den e genes) (map norm cs) = map (den e genes) cs).
Proof. exact roundtrip_parsed. Qed.
Print Assumptions C02_roundtrip_parsed.

(* the recorded witness of finding cds_single_wrapped (repaired): cds((a)) is accepted, regenerated as cds((a)), and
   that text parses back to a rule with the same conditions and the same text; likewise cds(((a))) and
   not cds(not (c)), whose regenerated texts are cds((a)) and not cds((not c)) *)
Theorem C02_roundtrip_cds_single : exists text sigs cats r r2,
  parse_files [text] 0 sigs cats (mkM 1 1 1 1) [] [] = inl ([r], []) /\
  reconstruct r = codes "RULE r1 CATEGORY cat CUTOFF 1 NEIGHBOURHOOD 1 CONDITIONS b and cds((a))" /\
  parse_files [reconstruct r] 0 sigs cats (mkM 1 1 1 1) [] [] = inl ([r2], []) /\
  r_cond r2 = r_cond r /\ reconstruct r2 = reconstruct r.
Proof.
  exists (codes "RULE r1 CATEGORY cat CUTOFF 1 NEIGHBOURHOOD 1 CONDITIONS b and cds((a))"),
         (map codes ["a"; "b"]%string), [codes "cat"].
  eexists. eexists. split; [vm_compute; reflexivity|]. split; [vm_compute; reflexivity|].
  split; [vm_compute; reflexivity|]. split; vm_compute; reflexivity.
Qed.
Print Assumptions C02_roundtrip_cds_single.

Example C02_roundtrip_cds_single_example :
  let sigs := map codes ["a"; "b"; "c"]%string in
  match parse_files [codes "RULE r1 CATEGORY cat CUTOFF 1 NEIGHBOURHOOD 1 CONDITIONS b and cds(((a))) or a and not cds(not (c))"] 0 sigs
                    [codes "cat"] (mkM 1 1 1 1) [] [] with
  | inl ([r], _) =>
    reconstruct r = codes "RULE r1 CATEGORY cat CUTOFF 1 NEIGHBOURHOOD 1 CONDITIONS b and cds((a)) or a and not cds((not c))" /\
    match parse_files [reconstruct r] 0 sigs [codes "cat"] (mkM 1 1 1 1) [] [] with
    | inl ([r2], _) => reconstruct r2 = reconstruct r /\ r_cond r2 = norm (r_cond r)
    | _ => False
    end
  | _ => False
  end.
Proof. vm_compute. repeat split; reflexivity. Qed.

(* non-vacuity: trees as the parser returns them for a text with a doubled negation in one-member groups, a
   negated one-member group, minimum with unsorted options, cds (one with a one-member group as only member) and
   minscore satisfy rt_ok; norm changes them;
   the text is unchanged *)
Example C02_roundtrip_cond_example :
  match tokenise (codes "a and not ((not b)) or not (c) and minimum(2,[c,a]) or cds(a and (b or not c)) or ((minscore(d, 07))) or cds(((e)))") with
  | Ok (t :: r) =>
    match parse_conditions 200 true false (mkP (Some (mk_token t)) (map mk_token r) [] []) with
    | Ok (cs, _) => forallb rt_ok cs = true /\ map norm cs <> cs /\ List.length cs = 5%nat /\
                    join s_or_sep (map show cs)
                    = codes "a and not (not b) or not c and minimum(2, [a, c]) or cds(a and (b or not c)) or minscore(d, 7) or cds((e))"
    | Err _ => False
    end
  | _ => False
  end.
Proof. vm_compute. repeat split. discriminate. Qed.

(* --- further ill-formed classes ---
   duplicate alias name / alias named like a signature, rule or category / duplicate rule name: the step of
   Parser.__init__ that has just read such a DEFINE or RULE block raises ValueError *)
Theorem C02_rejects_duplicate_alias : forall n sigs cats m rules s t name toks s1,
  cur s = Some t -> ttype t = c02_T_DEFINE -> parse_alias (fuel_for s) s = Ok (name, toks, s1) ->
  isSomeB (alias_get name (aliases s)) = true ->
  main_loop (S n) sigs cats m rules s = Err E_Value.
Proof. exact rejects_duplicate_alias. Qed.
Print Assumptions C02_rejects_duplicate_alias.

Theorem C02_rejects_alias_name_clash : forall n sigs cats m rules s t name toks s1,
  cur s = Some t -> ttype t = c02_T_DEFINE -> parse_alias (fuel_for s) s = Ok (name, toks, s1) ->
  (In name sigs \/ In name cats \/ In name (map r_name rules)) ->
  main_loop (S n) sigs cats m rules s = Err E_Value.
Proof. exact rejects_alias_name_clash. Qed.
Print Assumptions C02_rejects_alias_name_clash.

Theorem C02_rejects_duplicate_rule : forall n sigs cats m rules s t r s1,
  cur s = Some t -> ttype t = c02_T_RULE -> parse_rule (fuel_for s) rules cats s = Ok (r, s1) ->
  isSomeB (known_get (r_name r) rules) = true ->
  main_loop (S n) sigs cats m rules s = Err E_Value.
Proof. exact rejects_duplicate_rule. Qed.
Print Assumptions C02_rejects_duplicate_rule.

(* minimum() with a count below 1 or a repeated option: ValueError at the constructor *)
Theorem C02_rejects_minimum_ctor : forall n k opts, (k < 1 \/ has_dup opts = true) -> mk_min n k opts = Err E_Value.
Proof. exact mk_min_rejects. Qed.
Print Assumptions C02_rejects_minimum_ctor.

(* unbalanced group: the tokens consumed by a successful _parse_conditions are balanced in ( and ) *)
Theorem C02_rejects_unbalanced_group : forall f allow g s cs s', parse_conditions f allow g s = Ok (cs, s') ->
  exists T, consumed s' = rev T ++ consumed s /\ balanced T.
Proof. exact consumed_balanced. Qed.
Print Assumptions C02_rejects_unbalanced_group.

(* missing section: a RULE block is only accepted if it consumed RULE id CATEGORY id ... CUTOFF int NEIGHBOURHOOD int
   CONDITIONS ..., in this order (A: description / examples / related / superiors, B: conditions and extenders) *)
Theorem C02_rejects_missing_section : forall f known cats s r s', parse_rule f known cats s = Ok (r, s') ->
  exists tR tN tCat tC A tCut tCi tNe tNi tCo B,
    consumed s' = rev ([tR; tN; tCat; tC] ++ A ++ [tCut; tCi; tNe; tNi; tCo] ++ B) ++ consumed s /\
    ttype tR = c02_T_RULE /\ ttype tN = c02_T_IDENTIFIER /\ ttype tCat = c02_T_CATEGORY /\
    ttype tC = c02_T_IDENTIFIER /\ ttype tCut = c02_T_CUTOFF /\ ttype tCi = c02_T_INT /\
    ttype tNe = c02_T_NEIGHBOURHOOD /\ ttype tNi = c02_T_INT /\ ttype tCo = c02_T_CONDITIONS /\
    r_name r = ttext tN /\ r_cat r = ttext tC.
Proof. exact rule_sections. Qed.
Print Assumptions C02_rejects_missing_section.

(* unknown profile: every profile name in the CONDITIONS of a rule that Parser.__init__ newly accepts is one of
   the signature names (names of single conditions, of minscore, options of minimum, at any depth) *)
Theorem C02_rejects_unknown_profile : forall text sigs cats m rules als rules' als',
  parse_text text sigs cats m rules als = Ok (rules', als') ->
  exists new, rules' = rules ++ new /\
    Forall (fun r => forall a, In a (cond_names (r_cond r)) -> In a sigs) new.
Proof. exact unknown_profile_rejected. Qed.
Print Assumptions C02_rejects_unknown_profile.

(* the same for EXTENDERS is false (finding extenders_unknown_profile): find_condition_identifiers stops
   collecting at the EXTENDERS keyword *)
Theorem C02_rejects_unknown_profile_extenders_refuted : exists text sigs cats r,
  parse_text text sigs cats (mkM 1 1 1 1) [] [] = Ok ([r], []) /\
  exists e a, r_ext r = Some e /\ In a (cond_names e) /\ ~ In a sigs.
Proof. exact unknown_profile_extenders_refuted. Qed.
Print Assumptions C02_rejects_unknown_profile_extenders_refuted.
