(* C02 - property theorems (about the model of rule_parser.py in Model.v). *)
From ASV.C02 Require Import Model Proofs.
From ASV.Gen Require Import Tables_gen.
From Coq Require Import String Sorting.Sorted.
Close Scope string_scope.
Open Scope Z_scope.

(* --- whitespace and # comments are irrelevant ---
   For every list of tokens (words over [A-Za-z0-9_-] that may continue with ':' '/', and the
   single-character tokens of Tokeniser.mapping) and every choice of separators - any mix of whitespace
   characters and "# ... newline" comments, non-empty between two words - the tokeniser returns exactly
   the tokens. *)
Theorem C02_tokens_ws : forall s0 ts, sep_ok s0 -> chain ts -> tokenise (render s0 ts) = Ok (map fst ts).
Proof. exact tokens_ws. Qed.
Print Assumptions C02_tokens_ws.

Theorem C02_tokens_ws_irrelevant : forall s0 s0' ts ts',
  sep_ok s0 -> sep_ok s0' -> chain ts -> chain ts' -> map fst ts = map fst ts' ->
  tokenise (render s0 ts) = tokenise (render s0' ts').
Proof. exact tokens_ws_irrelevant. Qed.
Print Assumptions C02_tokens_ws_irrelevant.

(* non-vacuity: "a #c<newline>and(b ,x:y)" preceded by a tab *)
Example C02_tokens_ws_example :
  let ts := [(codes "a", codes " #c" ++ [10]); (codes "and", []); (codes "(", []); (codes "b", codes " ");
             (codes ",", []); (codes "x:y", []); (codes ")", [])] in
  sep_ok [9] /\ chain ts /\ tokenise (render [9] ts) = Ok (map codes ["a"; "and"; "("; "b"; ","; "x:y"; ")"]%string).
Proof.
  cbv zeta. split; [apply sep_ws; [reflexivity|apply sep_nil]|]. split.
  - cbn [chain]. repeat split; try (left; vm_compute; reflexivity); try (right; vm_compute; reflexivity);
      try apply sep_nil; try (intros; vm_compute; reflexivity); try discriminate.
    + apply sep_ws; [reflexivity|]. apply (sep_comment [99] []); [repeat constructor; discriminate|apply sep_nil].
    + apply sep_ws; [reflexivity|apply sep_nil].
  - vm_compute. reflexivity.
Qed.

(* --- SUPERIORS are closed transitively ---
   For every list of rule files that create_rules' loop parses: rule names are unique, and the superiors
   of every rule are duplicate-free, sorted (str_le a b := not (b < a) in Python's order on str), name only
   rules defined earlier, and contain the superiors of each of them. *)
Theorem C02_superiors_closed : forall files sigs cats m rules als,
  parse_files files 0 sigs cats m [] [] = inl (rules, als) ->
  forall pre r post, rules = pre ++ r :: post ->
    ~ In (r_name r) (map r_name pre) /\ (NoDup (r_sup r) /\ StronglySorted str_le (r_sup r)) /\
    forall s, In s (r_sup r) -> exists p, In p pre /\ r_name p = s /\ incl (r_sup p) (r_sup r).
Proof. exact superiors_closed. Qed.
Print Assumptions C02_superiors_closed.

Definition example_files : list str :=
  [codes "RULE r1 CATEGORY cat CUTOFF 5 NEIGHBOURHOOD 3 CONDITIONS a or b and c";
   codes "DEFINE x AS a or b RULE r2 CATEGORY cat SUPERIORS r1 CUTOFF 5 NEIGHBOURHOOD 5 CONDITIONS x and not c";
   codes "RULE r3 CATEGORY cat SUPERIORS r2 CUTOFF 5 NEIGHBOURHOOD 5 CONDITIONS cds(a and b) or minimum(2,[a,b])"].
Definition example_run :=
  parse_files example_files 0 (map codes ["a"; "b"; "c"]%string) [codes "cat"] (mkM 3 2 1 2) [] [].

(* non-vacuity: three files, a three-level chain of superiors; r3 ends up below r1 and r2 *)
Example C02_superiors_closed_example :
  match example_run with
  | inl (rules, _) => map r_sup rules = [[]; [codes "r1"]; [codes "r1"; codes "r2"]]
                      /\ map r_cutoff rules = [7500; 7500; 7500] /\ map r_neigh rules = [1500; 2500; 2500]
  | inr _ => False
  end.
Proof. vm_compute. repeat split. Qed.

(* --- ill-formed input never yields a rule ---
   Every rule that comes out of the parser has conditions in which no operator node has two operands
   with the same text and no minimum() has a repeated option or a count below 1 (repeated operand), has
   at least one positive requirement (also in its EXTENDERS), and has a category from the valid set. *)
Theorem C02_rejects_repeated_operand : forall files sigs cats m rules als,
  parse_files files 0 sigs cats m [] [] = inl (rules, als) ->
  Forall (fun r => nrb (r_cond r) = true) rules.
Proof.
  intros. eapply Forall_impl; [|eapply parsed_rules_ok; eassumption].
  intros r Hr. destruct Hr as [H1 _]. exact H1.
Qed.
Print Assumptions C02_rejects_repeated_operand.

(* what nrb says, node by node *)
Theorem C02_no_repeat_meaning : forall c, nrb c = true ->
  match c with
  | CCds _ subs | CGroup _ subs | CAnd subs => NoDup (map show subs) /\ forallb nrb subs = true
  | CMin _ k opts => NoDup opts /\ 1 <= k
  | _ => True
  end.
Proof. exact nrb_NoDup. Qed.
Print Assumptions C02_no_repeat_meaning.

(* and at the constructors (Conditions.__init__, MinimumCondition.__init__): ValueError *)
Theorem C02_rejects_repeated_operand_ctor : forall n subs, has_dup (map show subs) = true ->
  mk_group n subs = Err E_Value /\ mk_cds n subs = Err E_Value /\ mk_and subs = Err E_Value.
Proof.
  intros n subs H. split; [apply mk_group_repeated|split; [apply mk_cds_repeated|apply mk_and_repeated]]; assumption.
Qed.
Print Assumptions C02_rejects_repeated_operand_ctor.

Theorem C02_rejects_no_positive : forall files sigs cats m rules als,
  parse_files files 0 sigs cats m [] [] = inl (rules, als) ->
  Forall (fun r => positive (r_cond r) = true /\
                   match r_ext r with Some e => positive e = true | None => True end) rules.
Proof.
  intros. eapply Forall_impl; [|eapply parsed_rules_ok; eassumption].
  intros r Hr. destruct Hr as [_ [H2 [_ [_ [_ H6]]]]]. split; assumption.
Qed.
Print Assumptions C02_rejects_no_positive.

Theorem C02_rejects_unknown_category : forall files sigs cats m rules als,
  parse_files files 0 sigs cats m [] [] = inl (rules, als) ->
  Forall (fun r => In (r_cat r) cats) rules.
Proof.
  intros. eapply Forall_impl; [|eapply parsed_rules_ok; eassumption].
  intros r Hr. destruct Hr as [_ [_ [H3 _]]]. apply smem_In. exact H3.
Qed.
Print Assumptions C02_rejects_unknown_category.

(* non-vacuity of the rejection theorems: the hypothesis holds for example_run (see above), and the
   rejected classes are indeed rejected *)
Example C02_rejects_examples :
  let run text := parse_files [codes text] 0 (map codes ["a"; "b"; "c"]%string) [codes "cat"] (mkM 1 1 1 1) [] [] in
  run "RULE r CATEGORY cat CUTOFF 1 NEIGHBOURHOOD 1 CONDITIONS a and b and a"%string = inr (E_Value, 0)
  /\ run "RULE r CATEGORY cat CUTOFF 1 NEIGHBOURHOOD 1 CONDITIONS not a and not b"%string = inr (E_Value, 0)
  /\ run "RULE r CATEGORY dog CUTOFF 1 NEIGHBOURHOOD 1 CONDITIONS a"%string = inr (E_RuleSyntax, 0)
  /\ run "RULE r CATEGORY cat CUTOFF 1 NEIGHBOURHOOD 1 CONDITIONS a or zz"%string = inr (E_Value, 0)
  /\ run "RULE r CATEGORY cat SUPERIORS q CUTOFF 1 NEIGHBOURHOOD 1 CONDITIONS a"%string = inr (E_Value, 0)
  /\ run "RULE r CATEGORY cat CUTOFF 1 NEIGHBOURHOOD 1 CONDITIONS (a or b"%string = inr (E_RuleSyntax, 0)
  /\ run "RULE r CATEGORY cat CUTOFF 1 CONDITIONS a"%string = inr (E_RuleSyntax, 0)
  /\ run "DEFINE x AS a or x RULE r CATEGORY cat CUTOFF 1 NEIGHBOURHOOD 1 CONDITIONS x"%string = inr (E_RuleSyntax, 0).
Proof. vm_compute. repeat split. Qed.

(* --- precedence: not > and > or, parentheses and cds(...) group ---
   Whatever _parse_conditions returns is the reading of the tokens it consumed (after alias splicing) by
   the stratified grammar G_ors / G_item / G_andsR / G_un / G_core of Proofs.v:
     ors  ::= item { OR item }        item ::= un | un AND un { AND un }   (an AndCondition)
     un   ::= [NOT] core              core ::= ID | ( ors ) | cds( ors without cds/minimum ) | minimum... | minscore...
   Soundness only (partial): that every grammatical token list is accepted, given enough fuel, is covered
   by the correspondence run; the inner syntax of minimum(...) and minscore(...) is not part of G_core. *)
Theorem C02_precedence_sound_partial : forall f allow g s cs s',
  parse_conditions f allow g s = Ok (cs, s') ->
  exists T, consumed s' = rev T ++ consumed s /\ G_ors allow T cs.
Proof. exact precedence_sound. Qed.
Print Assumptions C02_precedence_sound_partial.

Theorem C02_rule_conditions_grammar_partial : forall f known cats s r s',
  parse_rule f known cats s = Ok (r, s') ->
  exists cs T, r_cond r = CGroup false cs /\ G_ors true T cs.
Proof. exact parse_rule_conditions. Qed.
Print Assumptions C02_rule_conditions_grammar_partial.

(* non-vacuity and the three precedence levels on one text: a or not b and c and (d or e) *)
Example C02_precedence_example :
  match tokenise (codes "a or not b and c and (d or e)") with
  | Ok (t :: r) =>
    match parse_conditions 100 true false (mkP (Some (mk_token t)) (map mk_token r) [] []) with
    | Ok (cs, _) => cs = [CSingle false (codes "a");
                          CAnd [CSingle true (codes "b"); CSingle false (codes "c");
                                CGroup false [CSingle false (codes "d"); CSingle false (codes "e")]]]
    | Err _ => False
    end
  | _ => False
  end.
Proof. vm_compute. reflexivity. Qed.

(* --- DEFINE aliases are textual substitution (one step of the token stream; partial) ---
   Moving on to an alias name is the same as moving on to the tokens of its definition, provided the
   definition does not itself start with an alias name; without the proviso the statement is false
   (finding alias_first_token): the first token of a spliced definition is never expanded. *)
Theorem C02_alias_subst_step_partial : forall k c n r cons als b B,
  ttype n = c02_T_IDENTIFIER -> alias_get (ttext n) als = Some (b :: B) -> alias_head als b = false ->
  consume k (mkP (Some c) (n :: r) cons als) = consume k (mkP (Some c) (b :: B ++ r) cons als).
Proof. exact alias_subst_step. Qed.
Print Assumptions C02_alias_subst_step_partial.

Theorem C02_alias_subst_first_token_refuted : exists k c n r cons als b B,
  ttype n = c02_T_IDENTIFIER /\ alias_get (ttext n) als = Some (b :: B) /\
  consume k (mkP (Some c) (n :: r) cons als) <> consume k (mkP (Some c) (b :: B ++ r) cons als).
Proof. exact alias_subst_first_token_refuted. Qed.
Print Assumptions C02_alias_subst_first_token_refuted.

(* non-vacuity of the step lemma: x := a or b, stream "c and x" *)
Example C02_alias_subst_example :
  let al := [(codes "x", map (fun s => set_aliased (mk_token (codes s))) ["a"; "or"; "b"]%string)] in
  alias_get (codes "x") al = Some (map (fun s => set_aliased (mk_token (codes s))) ["a"; "or"; "b"]%string)
  /\ alias_head al (set_aliased (mk_token (codes "a"))) = false.
Proof. vm_compute. split; reflexivity. Qed.

(* --- kilobases and multipliers ---
   cutoff and neighbourhood of every parsed rule are floor(1000 * n * multiplier) for the INT tokens n of
   the text (multiplier = num/den exactly; applied once). *)
Theorem C02_scaling : forall files sigs cats m rules als,
  parse_files files 0 sigs cats m [] [] = inl (rules, als) ->
  Forall (fun r => exists tc tn, ttype tc = c02_T_INT /\ ttype tn = c02_T_INT /\
                   r_cutoff r = scale (int_of (ttext tc) * 1000) (mc_num m) (mc_den m) /\
                   r_neigh r = scale (int_of (ttext tn) * 1000) (mn_num m) (mn_den m)) rules.
Proof.
  intros. eapply Forall_impl; [|eapply parsed_rules_ok; eassumption].
  intros r Hr. destruct Hr as [_ [_ [_ [_ [H5 _]]]]]. exact H5.
Qed.
Print Assumptions C02_scaling.

Theorem C02_scale_is_floor : forall v num den, 0 < den ->
  den * scale v num den <= v * num < den * (scale v num den + 1).
Proof. exact scale_floor. Qed.
Print Assumptions C02_scale_is_floor.

(* --- a doubled negation keeps its parentheses (finding double_negation_wrapped, repaired) ---
   The text of a condition never starts with "not not " (which the parser rejects), however many non-negated
   one-member groups lie between two negations - for every condition tree whose profile names contain no
   space and are not the word "not"; every IDENTIFIER token is such a name.  The statement holds for the
   whole tree, hence for every operand printed inside it.  Before the repair the model printed
   CGroup true [CGroup false [CSingle true b]] as "not not b". *)
Theorem C02_no_doubled_not :
  (forall s, classify s = c02_T_IDENTIFIER -> name_ok s = true) /\
  (forall c, names_ok c = true -> starts_with (codes "not not ") (show c) = false).
Proof. split; [exact identifier_name_ok|exact no_doubled_not]. Qed.
Print Assumptions C02_no_doubled_not.

(* non-vacuity, the recorded witness: "not ((not b))" is regenerated as "not (not b)" and parses back to a
   rule with the same text *)
Example C02_no_doubled_not_example :
  let sigs := map codes ["a"; "b"]%string in
  match parse_files [codes "RULE r1 CATEGORY cat CUTOFF 1 NEIGHBOURHOOD 1 CONDITIONS a and not ((not b))"] 0 sigs
                    [codes "cat"] (mkM 1 1 1 1) [] [] with
  | inl ([r], _) =>
    names_ok (r_cond r) = true /\
    reconstruct r = codes "RULE r1 CATEGORY cat CUTOFF 1 NEIGHBOURHOOD 1 CONDITIONS a and not (not b)" /\
    match parse_files [reconstruct r] 0 sigs [codes "cat"] (mkM 1 1 1 1) [] [] with
    | inl ([r2], _) => reconstruct r2 = reconstruct r
    | _ => False
    end
  | _ => False
  end.
Proof. vm_compute. repeat split; reflexivity. Qed.

(* --- round trip, refuted in full generality (finding fractional_kb, known) ---
   the text regenerated from a parsed rule does not always parse back to the same distances:
   5 kb x 1.5 = 7500 is written as "CUTOFF 7". *)
Theorem C02_roundtrip_distances_refuted : exists text sigs cats m r r2,
  parse_files [text] 0 sigs cats m [] [] = inl ([r], []) /\
  parse_files [reconstruct r] 0 sigs cats (mkM 1 1 1 1) [] [] = inl ([r2], []) /\
  r_cutoff r2 <> r_cutoff r.
Proof.
  exists (codes "RULE r1 CATEGORY cat CUTOFF 5 NEIGHBOURHOOD 3 CONDITIONS a or b and c"),
         (map codes ["a"; "b"; "c"]%string), [codes "cat"], (mkM 3 2 1 2).
  eexists. eexists. split; [vm_compute; reflexivity|]. split; [vm_compute; reflexivity|].
  vm_compute. discriminate.
Qed.
Print Assumptions C02_roundtrip_distances_refuted.
