(* C14 - property theorems. *)
From ASV.C14 Require Import Model Proofs Proofs2 Proofs3 Proofs4 Proofs5.
From Coq Require Import Sorting.Permutation Sorting.Sorted.

(* module construction never fails and partitions the (stably sorted, non-docking) domains in order,
   without loss or duplication, into non-empty modules - for every finite domain sequence over the
   generated label table *)
Theorem C14_build_total_partition : forall domains,
  Forall (fun c => c_classified c = true) domains ->
  exists ms, build_modules_for_cds domains = Ok ms /\
             flat ms = keep (sort_comps domains) /\
             Forall (fun m => m_comps m <> []) ms.
Proof. exact build_modules_total_partition. Qed.
Print Assumptions C14_build_total_partition.

(* a module is complete iff it has starter, loader and carrier protein (and is not a loader-only
   module in a non-first position), or it is a trans-AT module with a carrier protein *)
Theorem C14_complete_iff : forall m,
  is_complete m = true <->
  ((isSome (m_starter m) = true /\ isSome (m_loader m) = true /\ isSome (m_cp m) = true /\
    ~ (same_comp (m_starter m) (m_loader m) = true /\ m_first m = false))
   \/ (is_trans_at m = true /\ isSome (m_cp m) = true)).
Proof. exact is_complete_iff. Qed.
Print Assumptions C14_complete_iff.

(* the layout rules are an invariant of add_component: whatever look-ahead (a prefix of the remaining
   input) is supplied, an accepted component keeps the slots functions of the component list and the
   rules true of it (LQ: first starter / the loader / first carrier protein / the end are the slots;
   explicit starter only in front; one loader; no NRPS/PKS mix; one end and only special domains
   after it; every further carrier protein directly followed by a registered pair; modifications
   after a carrier protein only as trans-AT KR or member of such a pair) *)
Theorem C14_layout_step : forall m c la rest m',
  inv12 m (c :: rest) -> LQ m (c :: rest) -> la = firstn (length la) rest ->
  add_component m c la = Ok m' -> LQ m' rest.
Proof. exact LQ_step. Qed.
Print Assumptions C14_layout_step.

(* every module returned by build_modules_for_cds obeys the module rules (layout_spec: the decidable
   specification over the component list alone, Model.v - explicit starter only in front, one loader,
   no NRPS/PKS mix, one end, at most two carrier proteins and the second one directly followed by a
   registered DOUBLE_TRANSPORTER_CASES pair, modifications after a carrier protein only as trans-AT KR
   or pair member) and its slots and trans-AT flag are the documented functions of its components *)
Theorem C14_layout_inv : forall domains ms,
  Forall (fun c => c_classified c = true) domains ->
  build_modules_for_cds domains = Ok ms -> Forall rules_ok ms.
Proof. exact build_layout. Qed.
Print Assumptions C14_layout_inv.

(* one carrier protein, or two in the documented double-transporter case - never more (was refuted by
   KS ACP ACP LPG Beta ACP LPG Beta before the repair of finding F52: ensure_suitable now refuses a
   carrier protein when the module already holds the extra one) *)
Theorem C14_layout_cp_at_most_two : forall domains ms,
  Forall (fun c => c_classified c = true) domains ->
  build_modules_for_cds domains = Ok ms -> Forall (fun m => (cnt c_cp (m_comps m) <= 2)%nat) ms.
Proof. exact build_cp_at_most_two. Qed.
Print Assumptions C14_layout_cp_at_most_two.

(* a module rebuilt from its saved form (replay of add_component over the stored components, look-ahead
   = the rest of the module) is accepted and is the identical module: all slots, lists and flags *)
Theorem C14_reload : forall domains ms,
  Forall (fun c => c_classified c = true) domains ->
  build_modules_for_cds domains = Ok ms -> Forall (fun m => reload m = Ok m) ms.
Proof. exact build_reload. Qed.
Print Assumptions C14_reload.

(* the modules do not depend on the order in which the hits are supplied: any two arrangements of the same
   hits with pairwise different positions give the same result (modules, slots, borders - or the same failure,
   which C14_build_total_partition excludes).  The components AND the two-component look-ahead of the tandem
   carrier protein rule are both taken from the list sorted by query_start (Model.v build: la = firstn 2 rest) *)
Theorem C14_supply_order_independent : forall domains domains',
  Permutation domains domains' -> NoDup (map qstart domains) ->
  build_modules_for_cds domains = build_modules_for_cds domains'.
Proof. exact build_order_independent. Qed.
Print Assumptions C14_supply_order_independent.

(* with tied positions too: handing the hits over in protein order (stable sort) changes nothing, and hits
   already in protein order are processed exactly as supplied *)
Theorem C14_position_order_is_canonical : forall domains,
  build_modules_for_cds (sort_comps domains) = build_modules_for_cds domains /\
  (StronglySorted (fun a b => qstart a <= qstart b) domains -> sort_comps domains = domains).
Proof. exact position_order_canonical. Qed.
Print Assumptions C14_position_order_is_canonical.

(* one gene, everything the run-time specification spec_fn4 evaluates on the implementation's output: for
   every hit list in any supply order construction succeeds, the modules partition the position-sorted
   non-docking domains, each is non-empty, obeys the rules and is rebuilt identically from its saved form,
   and the hits handed over in protein order give the same modules *)
Theorem C14_single_gene : forall domains,
  Forall (fun c => c_classified c = true) domains ->
  exists ms, build_modules_for_cds domains = Ok ms /\
             flat ms = keep (sort_comps domains) /\
             Forall (fun m => m_comps m <> [] /\ rules_ok m /\ reload m = Ok m) ms /\
             mapM reload ms = Ok ms /\
             build_modules_for_cds (sort_comps domains) = Ok ms.
Proof. exact single_gene_all. Qed.
Print Assumptions C14_single_gene.

(* the carrier protein clauses read out of layout_spec, for every module build_modules_for_cds returns:
   (1) at most one carrier protein, or exactly two and then the second one is directly followed by the two members
   of a DOUBLE_TRANSPORTER_CASES entry in the registered order (the documented tandem case, exactly as tabulated;
   no carrier protein anywhere else in the module); (2) a modification domain behind a carrier protein is a KR
   in a module that is trans-AT up to there, or one of the two domains directly behind the second carrier
   protein (pair_open: two carrier proteins seen, fewer than two domains since the last one) *)
Theorem C14_carrier_protein_clauses : forall domains ms,
  Forall (fun c => c_classified c = true) domains -> build_modules_for_cds domains = Ok ms ->
  Forall (fun m =>
    ((cnt c_cp (m_comps m) <= 1)%nat \/
     exists pre cp1 mid cp2 a b post,
       m_comps m = pre ++ cp1 :: mid ++ cp2 :: a :: b :: post /\ c_cp cp1 = true /\ c_cp cp2 = true /\
       existsb c_cp pre = false /\ existsb c_cp mid = false /\ existsb c_cp (a :: b :: post) = false /\
       In [lab a; lab b] Tables_gen.c14_double_transporter_cases) /\
    (forall pre c post, m_comps m = pre ++ c :: post -> c_mod c = true -> existsb c_cp pre = true ->
       (c_kr c = true /\ spec_trans_at pre = true) \/ pair_open pre = true)) ms.
Proof. exact build_carrier_clauses. Qed.
Print Assumptions C14_carrier_protein_clauses.

(* the two list slots are functions of the component list as well: _modifications holds exactly the
   modification domains, _others everything that is neither starter/loader class, modification nor end, except
   the first carrier protein (others_pos, by position) - for every module that is rebuilt identically from its
   saved form, i.e. (C14_reload, C14_combine_total) every module build_modules_for_cds and combine_modules return *)
Theorem C14_slot_lists : forall m, reload m = Ok m ->
  m_mods m = filter c_mod (m_comps m) /\ m_others m = others_pos (m_comps m).
Proof. exact reload_lists. Qed.
Print Assumptions C14_slot_lists.

Theorem C14_build_slot_lists : forall domains ms,
  Forall (fun c => c_classified c = true) domains -> build_modules_for_cds domains = Ok ms ->
  Forall (fun m => m_mods m = filter c_mod (m_comps m) /\ m_others m = others_pos (m_comps m)) ms.
Proof. exact build_lists. Qed.
Print Assumptions C14_build_slot_lists.

(* the loader stands in front of every modification, carrier protein and terminating domain of its module
   (L_order, a clause of the run-time specification) - again for every module that reloads identically, and
   directly for the modules of build_modules_for_cds *)
Theorem C14_loader_in_front : forall m, reload m = Ok m -> L_order (m_comps m) = true.
Proof. exact reload_loader_order. Qed.
Print Assumptions C14_loader_in_front.

Theorem C14_build_loader_in_front : forall domains ms,
  Forall (fun c => c_classified c = true) domains -> build_modules_for_cds domains = Ok ms ->
  Forall (fun m => L_order (m_comps m) = true) ms.
Proof. exact build_loader_order. Qed.
Print Assumptions C14_build_loader_in_front.

(* the run-time specification identifies components by their index in the input (others_spec); with pairwise
   different indices that is the positional description *)
Theorem C14_others_spec_positional : forall cs, NoDup (map cid cs) -> others_spec cs = others_pos cs.
Proof. exact others_spec_pos. Qed.
Print Assumptions C14_others_spec_positional.

(* merging keeps all domains of head and tail in order (plus the trailing KR of the documented
   trans-AT case), replaces exactly the last module of the previous gene and removes exactly the
   merged modules of the current gene, happens only for an incomplete head and only if the merged
   module is complete; otherwise both lists are returned untouched *)
Theorem C14_combine_shape : forall same current previous om p' c',
  combine_modules same current previous = Ok (om, p', c') ->
  match om with
  | None => p' = previous /\ c' = current
  | Some m =>
    exists head tail crest,
      last_opt previous = Some head /\ current = tail :: crest /\
      is_complete head = false /\
      p' = removelast previous ++ [m] /\
      ((m_comps m = keep (m_comps head) ++ keep (m_comps tail) /\ c' = crest /\ is_complete m = true)
       \/ (exists next kr rest', crest = next :: rest' /\ m_comps next = [kr] /\ c' = rest' /\
             m_comps m = (keep (m_comps head) ++ keep (m_comps tail)) ++ keep [kr]))
  end.
Proof. exact combine_shape. Qed.
Print Assumptions C14_combine_shape.

(* for every pair of genes and either strand relation: both constructions succeed, combine_modules
   never raises, every module of the two resulting lists (the merged one included) obeys the module
   rules and reloads identically, a merged module is complete and is produced only on the same strand,
   and without a merge both lists are returned untouched *)
Theorem C14_combine_total : forall prev cur same,
  Forall (fun c => c_classified c = true) prev -> Forall (fun c => c_classified c = true) cur ->
  exists p c om p' c',
    build_modules_for_cds prev = Ok p /\ build_modules_for_cds cur = Ok c /\
    combine_modules same c p = Ok (om, p', c') /\
    Forall (fun m => rules_ok m /\ reload m = Ok m) p' /\
    Forall (fun m => rules_ok m /\ reload m = Ok m) c' /\
    match om with
    | Some m => rules_ok m /\ reload m = Ok m /\ is_complete m = true /\ same = true
    | None => p' = p /\ c' = c
    end.
Proof. exact combine_total. Qed.
Print Assumptions C14_combine_total.

(* ---- subtypes.  A component carries the LIST of its domain's subtype hits (HMMResult.internal_hits, a forest:
   find_subtypes attaches every subtype hit overlapping the domain, and transATor hits below a Trans-AT-KS hit);
   Component.subtype / subtypes are modelled through HMMResult.detailed_names.  All theorems above quantify over
   components of this type. ---- *)

(* Component.subtypes (detailed_names[1:]) is exactly the chain of names obtained by walking down while a depth
   holds exactly one hit: it stops at the first depth with no hit or with several hits *)
Theorem C14_subtypes_is_single_hit_chain : forall c ns, subtypes c = ns <-> chain (sub c) ns.
Proof. exact subtypes_chain. Qed.
Print Assumptions C14_subtypes_is_single_hit_chain.

(* Component.subtype is a name iff the domain holds EXACTLY ONE first-level subtype hit (then it is that hit's
   name); with no hit or with several hits - equal or different names, in any order - there is no subtype; and the
   two views agree: subtype is the head of subtypes *)
Theorem C14_subtype_unambiguous_only : forall c,
  (forall k, subtype c = Some k <-> exists hs, sub c = [Hit k hs]) /\
  (subtype c = None <-> length (sub c) <> 1%nat) /\
  subtype c = hd_error (subtypes c).
Proof. exact subtype_unambiguous_only. Qed.
Print Assumptions C14_subtype_unambiguous_only.

(* is_trans_at: PKS, a starter, no loader, and the starter is an UNAMBIGUOUS Trans-AT-KS (its only first-level
   subtype hit is Trans-AT-KS, whatever lies below it) or a Trans-AT docking domain is among the others *)
Theorem C14_trans_at_iff : forall m,
  is_trans_at m = true <->
  exists s, m_starter m = Some s /\ is_pks m = true /\ m_loader m = None /\
            ((exists hs, sub s = [Hit S_Trans_AT_KS hs]) \/ existsb c_atd (m_others m) = true).
Proof. exact is_trans_at_iff. Qed.
Print Assumptions C14_trans_at_iff.

Theorem C14_iterative_iff : forall m,
  is_iterative m = true <-> exists s hs, m_starter m = Some s /\ sub s = [Hit S_Iterative_KS hs].
Proof. exact is_iterative_iff. Qed.
Print Assumptions C14_iterative_iff.

(* the trans-AT test of the layout rules and of the run-time specification (spec_trans_at, used in
   C14_layout_inv, C14_carrier_protein_clauses: "a KR behind the carrier protein only in a trans-AT module"),
   spelled out on the component list *)
Theorem C14_spec_trans_at_iff : forall cs,
  spec_trans_at cs = true <->
  existsb c_pks cs = true /\ existsb c_loader cs = false /\
  exists s, find c_starter cs = Some s /\
            ((exists hs, sub s = [Hit S_Trans_AT_KS hs]) \/ existsb c_atd cs = true).
Proof. exact spec_trans_at_iff. Qed.
Print Assumptions C14_spec_trans_at_iff.

(* an ambiguous (or missing) subtype call never makes a module trans-AT: in every module of
   build_modules_for_cds whose starter holds no or several first-level subtype hits and which has no Trans-AT
   docking domain, is_trans_at is false and completeness needs a loader *)
Theorem C14_ambiguous_subtype_not_trans_at : forall domains ms,
  Forall (fun c => c_classified c = true) domains -> build_modules_for_cds domains = Ok ms ->
  Forall (fun m => forall s, find c_starter (m_comps m) = Some s -> length (sub s) <> 1%nat ->
                   existsb c_atd (m_comps m) = false ->
                   is_trans_at m = false /\ (is_complete m = true -> isSome (m_loader m) = true)) ms.
Proof. exact build_ambiguous_not_trans_at. Qed.
Print Assumptions C14_ambiguous_subtype_not_trans_at.

(* the same for every module that obeys the rules, i.e. (C14_combine_total) for merged modules too *)
Theorem C14_rules_ambiguous_subtype_not_trans_at : forall m s,
  rules_ok m -> find c_starter (m_comps m) = Some s -> length (sub s) <> 1%nat ->
  existsb c_atd (m_comps m) = false ->
  is_trans_at m = false /\ (is_complete m = true -> isSome (m_loader m) = true).
Proof. exact ambiguous_not_trans_at. Qed.
Print Assumptions C14_rules_ambiguous_subtype_not_trans_at.

(* the generated tables satisfy what the proofs need (re-checked when the source changes) *)
Theorem C14_table_double_cases_plain :
  forallb (fun case => forallb plain_mod_label case) Tables_gen.c14_double_transporter_cases = true.
Proof. exact table_double_cases_plain. Qed.
Print Assumptions C14_table_double_cases_plain.

(* every registered pair fits the two-component look-ahead window of build_modules_for_cds *)
Theorem C14_table_cases_fit_window :
  forallb (fun case => (length case =? 2)%nat) Tables_gen.c14_double_transporter_cases = true.
Proof. exact table_cases_len2. Qed.
Print Assumptions C14_table_cases_fit_window.

(* the classes are disjoint as far as the state machine relies on it *)
Theorem C14_table_classes :
  forallb (fun l => class_ok (mkComp l [] 0 0)) (concat Tables_gen.c14_classification_order) = true.
Proof. exact table_class_ok. Qed.
Print Assumptions C14_table_classes.

(* ---- non-vacuity: a real assembly line, incl. the double carrier protein case ---- *)
Example C14_ex_build :
  exists ms, build_modules_for_cds
    [mkComp 41 [Hit 1 []] 0 10; mkComp 1 [] 1 20; mkComp 1 [] 2 30; mkComp 28 [] 3 40; mkComp 11 [] 4 50; mkComp 41 [] 5 60]
    = Ok ms /\ length ms = 2%nat /\ Forall (fun m => reload m = Ok m /\ layout_spec (m_comps m) = true) ms.
Proof. eexists. split; [vm_compute; reflexivity|]. split; [reflexivity|]. repeat constructor. Qed.

(* a merge that happens, with the trailing KR of the trans-AT case: [KS(trans-AT)] + [ACP] [KR] *)
Example C14_ex_combine :
  exists p c m p' c',
    build_modules_for_cds [mkComp 41 [Hit 1 []] 0 10] = Ok p /\
    build_modules_for_cds [mkComp 1 [] 1 10; mkComp 40 [] 2 20] = Ok c /\
    combine_modules true c p = Ok (Some m, p', c') /\ length (m_comps m) = 3%nat /\ c' = [].
Proof. do 5 eexists. repeat split; vm_compute; reflexivity. Qed.

(* regression (finding F52, repaired): the third carrier protein of KS ACP ACP LPG Beta ACP LPG Beta is
   refused although the registered pair follows it again; the modules are [KS,CP,CP,+,+] [CP] [+,+] *)
Example C14_ex_third_cp_refused :
  exists m1 m2 m3,
    build_modules_for_cds
      [mkComp 41 [] 0 10; mkComp 1 [] 1 20; mkComp 1 [] 2 30; mkComp 28 [] 3 40; mkComp 11 [] 4 50;
       mkComp 1 [] 5 60; mkComp 28 [] 6 70; mkComp 11 [] 7 80] = Ok [m1; m2; m3] /\
    map cid (m_comps m1) = [0; 1; 2; 3; 4] /\ map cid (m_comps m2) = [5] /\ map cid (m_comps m3) = [6; 7] /\
    cnt c_cp (m_comps m1) = 2%nat /\ layout_spec (m_comps m1) = true.
Proof. exact third_cp_refused. Qed.

(* supply order: the LnmJ layout KS ACP ACP LPG Beta listed by profile (ACP ACP Beta LPG KS) is the same
   single module as in position order; both hypotheses of C14_supply_order_independent are met *)
Example C14_ex_supply_order :
  let by_position := [mkComp 41 [Hit 1 []] 0 10; mkComp 1 [] 1 20; mkComp 1 [] 2 30; mkComp 28 [] 3 40; mkComp 11 [] 4 50] in
  let by_profile := [mkComp 1 [] 1 20; mkComp 1 [] 2 30; mkComp 11 [] 4 50; mkComp 28 [] 3 40; mkComp 41 [Hit 1 []] 0 10] in
  Permutation by_position by_profile /\ NoDup (map qstart by_position) /\
  exists m, build_modules_for_cds by_profile = Ok [m] /\ build_modules_for_cds by_position = Ok [m] /\
            map cid (m_comps m) = [0; 1; 2; 3; 4] /\ cnt c_cp (m_comps m) = 2%nat.
Proof. exact supply_order_example. Qed.

(* the list slots of the LnmJ module: the second carrier protein is the only entry of _others, the pair
   members are the modifications; the module meets the hypothesis of C14_slot_lists *)
Example C14_ex_slot_lists :
  exists m, build_modules_for_cds
      [mkComp 41 [Hit 1 []] 0 10; mkComp 1 [] 1 20; mkComp 1 [] 2 30; mkComp 28 [] 3 40; mkComp 11 [] 4 50] = Ok [m] /\
    reload m = Ok m /\ map cid (m_mods m) = [3; 4] /\ map cid (m_others m) = [2] /\
    map cid (others_pos (m_comps m)) = [2].
Proof. exact slot_lists_example. Qed.

(* the partner domains in the opposite order are NOT the documented case: KS ACP ACP Beta LPG is split in
   front of the second carrier protein *)
Example C14_ex_reversed_pair_refused :
  exists m1 m2 m3,
    build_modules_for_cds
      [mkComp 41 [Hit 1 []] 0 10; mkComp 1 [] 1 20; mkComp 1 [] 2 30; mkComp 11 [] 3 40; mkComp 28 [] 4 50] = Ok [m1; m2; m3] /\
    map cid (m_comps m1) = [0; 1] /\ map cid (m_comps m2) = [2] /\ map cid (m_comps m3) = [3; 4].
Proof. exact reversed_pair_refused. Qed.

(* the step invariant is met by a real intermediate state: [KS, ACP] about to take a second ACP *)
Example C14_ex_step_hyps :
  exists m, replay (empty_module true) [mkComp 41 [Hit 1 []] 0 10; mkComp 1 [] 1 20] = Ok m /\
    inv12 m [mkComp 1 [] 2 30; mkComp 28 [] 3 40; mkComp 11 [] 4 50] /\
    LQ m [mkComp 1 [] 2 30; mkComp 28 [] 3 40; mkComp 11 [] 4 50].
Proof.
  eexists. split; [vm_compute; reflexivity|]. split.
  - split; [discriminate|left; reflexivity].
  - constructor; try reflexivity.
    + split; intros H; vm_compute in H; [exfalso; inversion H as [|? H1]; inversion H1|discriminate].
    + split; vm_compute; [reflexivity|repeat constructor].
Qed.

(* a KS with two first-level subtype hits, Trans-AT-KS listed first (hypotheses of
   C14_ambiguous_subtype_not_trans_at met): KS, ACP, KR is [KS, ACP] (incomplete, not trans-AT) and [KR] *)
Example C14_ex_ambiguous_ks :
  exists m1 m2,
    build_modules_for_cds
      [mkComp 41 [Hit 1 []; Hit 3 []] 0 10; mkComp 1 [] 1 20; mkComp 40 [] 2 30] = Ok [m1; m2] /\
    map cid (m_comps m1) = [0; 1] /\ map cid (m_comps m2) = [2] /\
    is_trans_at m1 = false /\ is_complete m1 = false /\
    map subtype (m_comps m1) = [None; None] /\ map subtypes (m_comps m1) = [[]; []].
Proof. exact ambiguous_ks_example. Qed.

(* an unambiguous Trans-AT-KS with a transATor clade below it: one complete trans-AT module, subtypes = both names *)
Example C14_ex_nested_trans_at :
  exists m,
    build_modules_for_cds
      [mkComp 41 [Hit 1 [Hit 6 []]] 0 10; mkComp 1 [] 1 20; mkComp 40 [] 2 30] = Ok [m] /\
    is_trans_at m = true /\ is_complete m = true /\
    map subtype (m_comps m) = [Some 1; None; None] /\ map subtypes (m_comps m) = [[1; 6]; []; []].
Proof. exact nested_tat_example. Qed.

(* a lone ambiguous KS is not merged with the ACP, KR of the next gene (compare C14_ex_combine) *)
Example C14_ex_ambiguous_ks_not_merged :
  exists p c,
    build_modules_for_cds [mkComp 41 [Hit 1 []; Hit 3 []] 0 10] = Ok p /\
    build_modules_for_cds [mkComp 1 [] 1 10; mkComp 40 [] 2 20] = Ok c /\
    combine_modules true c p = Ok (None, p, c).
Proof. exact ambiguous_ks_combine_example. Qed.


(* ---- domain_identification.generate_domains: the loop that merges modules across gene boundaries.  Only a gene and the
   gene met directly before it (same region, both with modules) are handed to combine_modules; a gene without hits
   resets the chain; a gene WITH hits that form no module still becomes `prev` (so its neighbours are not merged over
   it): the variant that skips it (seeded change of round 6) merges KS AT | docking only | KR ACP into one module *)
Theorem C14_generate_gap_resets_chain : forall stale st, gd_step stale st (mkGI [] false 0 0) =
  match st with Ok (acc, _) => Ok (acc ++ [None], None) | Err k => Err k end.
Proof. exact gd_step_gap. Qed.
Print Assumptions C14_generate_gap_resets_chain.

Theorem C14_generate_single_gene : forall g, (nonempty (g_doms g) || g_motifs g) = true ->
  generate_modules [g] = do ms <- build_modules_for_cds (g_doms g); Ok [Some (filter (fun m => 1 <? zlen (m_comps m)) ms)].
Proof. exact generate_single. Qed.
Print Assumptions C14_generate_single_gene.

Theorem C14_generate_stale_prev_refuted : exists genes,
  generate_modules genes <> generate_modules_gen true genes /\
  match generate_modules genes with
  | Ok [Some [m1]; Some []; Some [m3]] => map cid (m_comps m1) = [0; 1] /\ map cid (m_comps m3) = [3; 4]
  | _ => False
  end.
Proof. exact generate_stale_prev_differs. Qed.
Print Assumptions C14_generate_stale_prev_refuted.
