(* C14 - property theorems. *)
From ASV.C14 Require Import Model Proofs Proofs2 Proofs3.

(* module construction never fails and partitions the (stably sorted, non-docking) domains in order,
   without loss or duplication, into non-empty modules - for every finite domain sequence over the
   generated label table *)
Theorem C14_build_total_partition : forall domains,
  Forall (fun c => c_classified c = true) domains ->
  exists ms, build_modules_for_cds domains = Ok ms /\
             flat ms = keep (sort_comps domains) /\
             Forall (fun m => m_comps m <> []) ms.
Proof. exact build_modules_total_partition. Qed.
Print Assumptions C14_build_total_partition.

(* a module is complete iff it has starter, loader and carrier protein (and is not a loader-only
   module in a non-first position), or it is a trans-AT module with a carrier protein *)
Theorem C14_complete_iff : forall m,
  is_complete m = true <->
  ((isSome (m_starter m) = true /\ isSome (m_loader m) = true /\ isSome (m_cp m) = true /\
    ~ (same_comp (m_starter m) (m_loader m) = true /\ m_first m = false))
   \/ (is_trans_at m = true /\ isSome (m_cp m) = true)).
Proof. exact is_complete_iff. Qed.
Print Assumptions C14_complete_iff.

(* the layout rules are an invariant of add_component: whatever look-ahead (a prefix of the remaining
   input) is supplied, an accepted component keeps the slots functions of the component list and the
   rules true of it (LQ: first starter / the loader / first carrier protein / the end are the slots;
   explicit starter only in front; one loader; no NRPS/PKS mix; one end and only special domains
   after it; every further carrier protein directly followed by a registered pair; modifications
   after a carrier protein only as trans-AT KR or member of such a pair) *)
Theorem C14_layout_step : forall m c la rest m',
  inv12 m (c :: rest) -> LQ m (c :: rest) -> la = firstn (length la) rest ->
  add_component m c la = Ok m' -> LQ m' rest.
Proof. exact LQ_step. Qed.
Print Assumptions C14_layout_step.

(* every module returned by build_modules_for_cds obeys the module rules (layout_spec: the decidable
   specification over the component list alone, Model.v - explicit starter only in front, one loader,
   no NRPS/PKS mix, one end, at most two carrier proteins and the second one directly followed by a
   registered DOUBLE_TRANSPORTER_CASES pair, modifications after a carrier protein only as trans-AT KR
   or pair member) and its slots and trans-AT flag are the documented functions of its components *)
Theorem C14_layout_inv : forall domains ms,
  Forall (fun c => c_classified c = true) domains ->
  build_modules_for_cds domains = Ok ms -> Forall rules_ok ms.
Proof. exact build_layout. Qed.
Print Assumptions C14_layout_inv.

(* one carrier protein, or two in the documented double-transporter case - never more (was refuted by
   KS ACP ACP LPG Beta ACP LPG Beta before the repair of finding F52: ensure_suitable now refuses a
   carrier protein when the module already holds the extra one) *)
Theorem C14_layout_cp_at_most_two : forall domains ms,
  Forall (fun c => c_classified c = true) domains ->
  build_modules_for_cds domains = Ok ms -> Forall (fun m => (cnt c_cp (m_comps m) <= 2)%nat) ms.
Proof. exact build_cp_at_most_two. Qed.
Print Assumptions C14_layout_cp_at_most_two.

(* a module rebuilt from its saved form (replay of add_component over the stored components, look-ahead
   = the rest of the module) is accepted and is the identical module: all slots, lists and flags *)
Theorem C14_reload : forall domains ms,
  Forall (fun c => c_classified c = true) domains ->
  build_modules_for_cds domains = Ok ms -> Forall (fun m => reload m = Ok m) ms.
Proof. exact build_reload. Qed.
Print Assumptions C14_reload.

(* merging keeps all domains of head and tail in order (plus the trailing KR of the documented
   trans-AT case), replaces exactly the last module of the previous gene and removes exactly the
   merged modules of the current gene, happens only for an incomplete head and only if the merged
   module is complete; otherwise both lists are returned untouched *)
Theorem C14_combine_shape : forall same current previous om p' c',
  combine_modules same current previous = Ok (om, p', c') ->
  match om with
  | None => p' = previous /\ c' = current
  | Some m =>
    exists head tail crest,
      last_opt previous = Some head /\ current = tail :: crest /\
      is_complete head = false /\
      p' = removelast previous ++ [m] /\
      ((m_comps m = keep (m_comps head) ++ keep (m_comps tail) /\ c' = crest /\ is_complete m = true)
       \/ (exists next kr rest', crest = next :: rest' /\ m_comps next = [kr] /\ c' = rest' /\
             m_comps m = (keep (m_comps head) ++ keep (m_comps tail)) ++ keep [kr]))
  end.
Proof. exact combine_shape. Qed.
Print Assumptions C14_combine_shape.

(* for every pair of genes and either strand relation: both constructions succeed, combine_modules
   never raises, every module of the two resulting lists (the merged one included) obeys the module
   rules and reloads identically, a merged module is complete and is produced only on the same strand,
   and without a merge both lists are returned untouched *)
Theorem C14_combine_total : forall prev cur same,
  Forall (fun c => c_classified c = true) prev -> Forall (fun c => c_classified c = true) cur ->
  exists p c om p' c',
    build_modules_for_cds prev = Ok p /\ build_modules_for_cds cur = Ok c /\
    combine_modules same c p = Ok (om, p', c') /\
    Forall (fun m => rules_ok m /\ reload m = Ok m) p' /\
    Forall (fun m => rules_ok m /\ reload m = Ok m) c' /\
    match om with
    | Some m => rules_ok m /\ reload m = Ok m /\ is_complete m = true /\ same = true
    | None => p' = p /\ c' = c
    end.
Proof. exact combine_total. Qed.
Print Assumptions C14_combine_total.

(* the generated tables satisfy what the proofs need (re-checked when the source changes) *)
Theorem C14_table_double_cases_plain :
  forallb (fun case => forallb plain_mod_label case) Tables_gen.c14_double_transporter_cases = true.
Proof. exact table_double_cases_plain. Qed.
Print Assumptions C14_table_double_cases_plain.

(* every registered pair fits the two-component look-ahead window of build_modules_for_cds *)
Theorem C14_table_cases_fit_window :
  forallb (fun case => (length case =? 2)%nat) Tables_gen.c14_double_transporter_cases = true.
Proof. exact table_cases_len2. Qed.
Print Assumptions C14_table_cases_fit_window.

(* the classes are disjoint as far as the state machine relies on it *)
Theorem C14_table_classes :
  forallb (fun l => class_ok (mkComp l 0 0 0)) (concat Tables_gen.c14_classification_order) = true.
Proof. exact table_class_ok. Qed.
Print Assumptions C14_table_classes.

(* ---- non-vacuity: a real assembly line, incl. the double carrier protein case ---- *)
Example C14_ex_build :
  exists ms, build_modules_for_cds
    [mkComp 41 1 0 10; mkComp 1 0 1 20; mkComp 1 0 2 30; mkComp 28 0 3 40; mkComp 11 0 4 50; mkComp 41 0 5 60]
    = Ok ms /\ length ms = 2%nat /\ Forall (fun m => reload m = Ok m /\ layout_spec (m_comps m) = true) ms.
Proof. eexists. split; [vm_compute; reflexivity|]. split; [reflexivity|]. repeat constructor. Qed.

(* a merge that happens, with the trailing KR of the trans-AT case: [KS(trans-AT)] + [ACP] [KR] *)
Example C14_ex_combine :
  exists p c m p' c',
    build_modules_for_cds [mkComp 41 1 0 10] = Ok p /\
    build_modules_for_cds [mkComp 1 0 1 10; mkComp 40 0 2 20] = Ok c /\
    combine_modules true c p = Ok (Some m, p', c') /\ length (m_comps m) = 3%nat /\ c' = [].
Proof. do 5 eexists. repeat split; vm_compute; reflexivity. Qed.

(* regression (finding F52, repaired): the third carrier protein of KS ACP ACP LPG Beta ACP LPG Beta is
   refused although the registered pair follows it again; the modules are [KS,CP,CP,+,+] [CP] [+,+] *)
Example C14_ex_third_cp_refused :
  exists m1 m2 m3,
    build_modules_for_cds
      [mkComp 41 0 0 10; mkComp 1 0 1 20; mkComp 1 0 2 30; mkComp 28 0 3 40; mkComp 11 0 4 50;
       mkComp 1 0 5 60; mkComp 28 0 6 70; mkComp 11 0 7 80] = Ok [m1; m2; m3] /\
    map cid (m_comps m1) = [0; 1; 2; 3; 4] /\ map cid (m_comps m2) = [5] /\ map cid (m_comps m3) = [6; 7] /\
    cnt c_cp (m_comps m1) = 2%nat /\ layout_spec (m_comps m1) = true.
Proof. exact third_cp_refused. Qed.

(* the step invariant is met by a real intermediate state: [KS, ACP] about to take a second ACP *)
Example C14_ex_step_hyps :
  exists m, replay (empty_module true) [mkComp 41 1 0 10; mkComp 1 0 1 20] = Ok m /\
    inv12 m [mkComp 1 0 2 30; mkComp 28 0 3 40; mkComp 11 0 4 50] /\
    LQ m [mkComp 1 0 2 30; mkComp 28 0 3 40; mkComp 11 0 4 50].
Proof.
  eexists. split; [vm_compute; reflexivity|]. split.
  - split; [discriminate|left; reflexivity].
  - constructor; try reflexivity.
    + split; intros H; vm_compute in H; [exfalso; inversion H as [|? H1]; inversion H1|discriminate].
    + split; vm_compute; [reflexivity|repeat constructor].
Qed.
