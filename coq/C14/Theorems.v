(* C14 - property theorems. *)
From ASV.C14 Require Import Model Proofs.

(* module construction never fails and partitions the (stably sorted, non-docking) domains in order,
   without loss or duplication, into non-empty modules - for every finite domain sequence over the
   generated label table *)
Theorem C14_build_total_partition : forall domains,
  Forall (fun c => c_classified c = true) domains ->
  exists ms, build_modules_for_cds domains = Ok ms /\
             flat ms = keep (sort_comps domains) /\
             Forall (fun m => m_comps m <> []) ms.
Proof. exact build_modules_total_partition. Qed.
Print Assumptions C14_build_total_partition.

(* a module is complete iff it has starter, loader and carrier protein (and is not a loader-only
   module in a non-first position), or it is a trans-AT module with a carrier protein *)
Theorem C14_complete_iff : forall m,
  is_complete m = true <->
  ((isSome (m_starter m) = true /\ isSome (m_loader m) = true /\ isSome (m_cp m) = true /\
    ~ (same_comp (m_starter m) (m_loader m) = true /\ m_first m = false))
   \/ (is_trans_at m = true /\ isSome (m_cp m) = true)).
Proof. exact is_complete_iff. Qed.
Print Assumptions C14_complete_iff.

(* merging keeps all domains of head and tail in order (plus the trailing KR of the documented
   trans-AT case), replaces exactly the last module of the previous gene and removes exactly the
   merged modules of the current gene, happens only for an incomplete head and only if the merged
   module is complete; otherwise both lists are returned untouched.
   Partial: that combine_modules never raises is covered by the correspondence run only. *)
Theorem C14_combine_shape_partial : forall same current previous om p' c',
  combine_modules same current previous = Ok (om, p', c') ->
  match om with
  | None => p' = previous /\ c' = current
  | Some m =>
    exists head tail crest,
      last_opt previous = Some head /\ current = tail :: crest /\
      is_complete head = false /\
      p' = removelast previous ++ [m] /\
      ((m_comps m = keep (m_comps head) ++ keep (m_comps tail) /\ c' = crest /\ is_complete m = true)
       \/ (exists next kr rest', crest = next :: rest' /\ m_comps next = [kr] /\ c' = rest' /\
             m_comps m = (keep (m_comps head) ++ keep (m_comps tail)) ++ keep [kr]))
  end.
Proof. exact combine_shape. Qed.
Print Assumptions C14_combine_shape_partial.

(* the generated tables satisfy what the proofs need (re-checked when the source changes) *)
Theorem C14_table_double_cases_plain :
  forallb (fun case => forallb plain_mod_label case) Tables_gen.c14_double_transporter_cases = true.
Proof. exact table_double_cases_plain. Qed.
Print Assumptions C14_table_double_cases_plain.

(* ---- non-vacuity: a real assembly line, incl. the double carrier protein case ---- *)
Example C14_ex_build :
  let ks := Tables_gen.c14_L_PKS_KR in
  exists ms, build_modules_for_cds
    [mkComp 41 1 0 10; mkComp 1 0 1 20; mkComp 1 0 2 30; mkComp 28 0 3 40; mkComp 11 0 4 50; mkComp 41 0 5 60]
    = Ok ms /\ length ms = 2%nat.
Proof. eexists. split; [vm_compute; reflexivity|reflexivity]. Qed.
