(* C14: proofs about the module-construction state machine. *)
From ASV.C14 Require Import Model.
From ASV.Gen Require Import Tables_gen.
From Coq Require Import ZifyBool.

(* ---------- facts about the generated tables (re-checked whenever the source changes) ---------- *)
(* a label that the look-ahead acceptance may skip the suitability test for must be a plain
   modification domain: then no assertion of add_component can be reached for it *)
Definition plain_mod_label (l : Z) : bool :=
  let c := mkComp l [] 0 0 in
  c_mod c && negb (c_ignored c) && negb (c_starter c) && negb (c_loader c) && c_classified c.

Lemma table_double_cases_plain :
  forallb (fun case => forallb plain_mod_label case) c14_double_transporter_cases = true.
Proof. vm_compute. reflexivity. Qed.

(* every loader is a starter (ADENYLATIONS, ACYLTRANSFERASES, CAL_domain are all starter classes) *)
Lemma table_loader_is_starter :
  forallb (fun l => let c := mkComp l [] 0 0 in implb (c_loader c) (c_starter c))
          (map Z.of_nat (seq 0 (length c14_labels))) = true.
Proof. vm_compute. reflexivity. Qed.

Arguments c_adenylation : simpl never.
Arguments c_acyltransferase : simpl never.
Arguments c_coa_ligase : simpl never.
Arguments c_condensation : simpl never.
Arguments c_starter : simpl never.
Arguments c_loader : simpl never.
Arguments c_mod : simpl never.
Arguments c_cp : simpl never.
Arguments c_end : simpl never.
Arguments c_ignored : simpl never.
Arguments c_special : simpl never.
Arguments c_fused_starter : simpl never.
Arguments c_pks : simpl never.
Arguments c_nrps : simpl never.
Arguments c_kr : simpl never.
Arguments c_classified : simpl never.
Arguments is_trans_at : simpl never.
Arguments is_pks : simpl never.
Arguments double_case : simpl never.
Arguments double_len : simpl never.

(* the class predicates only look at the label *)
Lemma pred_label_only (f : comp -> bool) :
  (forall c, f c = f (mkComp (lab c) [] 0 0)) -> forall c d, lab c = lab d -> f c = f d.
Proof. intros H c d E. rewrite (H c), (H d), E. reflexivity. Qed.

(* ---------- subtypes: detailed_names against the hits themselves ---------- *)
Arguments subtype_is : simpl never.
(* Component.subtype (through HMMResult.detailed_names) is the name of the ONLY first-level subtype hit *)
Lemma subtype_spec c : subtype c = spec_subtype c.
Proof.
  unfold subtype, subtypes, spec_subtype, detailed_tail.
  destruct (sub c) as [|[i hs] [|y r]]; reflexivity.
Qed.
Lemma subtype_is_tat c : subtype_is c S_Trans_AT_KS = c_tat c.
Proof.
  unfold subtype_is, c_tat. rewrite subtype_spec. unfold spec_subtype.
  destruct (sub c) as [|[i hs] [|y r]]; reflexivity.
Qed.
Lemma subtype_is_iter c : subtype_is c S_Iterative_KS = c_iter c.
Proof.
  unfold subtype_is, c_iter. rewrite subtype_spec. unfold spec_subtype.
  destruct (sub c) as [|[i hs] [|y r]]; reflexivity.
Qed.

(* ---------- components list after add_component ---------- *)
Lemma add_comps m c la m' :
  add_component m c la = Ok m' ->
  m_comps m' = if c_ignored c then m_comps m else m_comps m ++ [c].
Proof.
  unfold add_component.
  destruct (negb (c_classified c)); [discriminate|].
  destruct (c_ignored c); [intros H; inversion H; reflexivity|].
  destruct (if 0 <? m_unamb m then Ok tt else ensure_suitable m c la) as [[]|k]; cbn [bind]; [|discriminate].
  repeat match goal with
         | |- context [if ?b then _ else _] => destruct b
         end; intros H; inversion H; reflexivity.
Qed.

Lemma add_first m c la m' : add_component m c la = Ok m' -> m_first m' = m_first m.
Proof.
  unfold add_component.
  destruct (negb (c_classified c)); [discriminate|].
  destruct (c_ignored c); [intros H; inversion H; reflexivity|].
  destruct (if 0 <? m_unamb m then Ok tt else ensure_suitable m c la) as [[]|k]; cbn [bind]; [|discriminate].
  repeat match goal with
         | |- context [if ?b then _ else _] => destruct b
         end; intros H; inversion H; reflexivity.
Qed.

(* ---------- adding to an empty module cannot fail ---------- *)
Lemma ensure_empty first c la : ensure_suitable (empty_module first) c la = Ok tt.
Proof.
  unfold ensure_suitable. cbn.
  destruct (c_ignored c || c_special c); [reflexivity|].
  destruct (c_starter c && negb (c_loader c)); [reflexivity|].
  destruct (c_loader c); [reflexivity|].
  destruct (c_mod c); [reflexivity|].
  destruct (c_cp c); [reflexivity|].
  destruct (c_end c); reflexivity.
Qed.

Lemma add_empty_total first c la : c_classified c = true ->
  exists m, add_component (empty_module first) c la = Ok m.
Proof.
  intros Hc. unfold add_component. rewrite Hc. cbn [negb].
  destruct (c_ignored c); [eexists; reflexivity|].
  cbn [m_unamb empty_module]. cbn [Z.ltb Z.compare]. rewrite ensure_empty. cbn [bind].
  cbn.
  repeat match goal with
         | |- context [if ?b then _ else _] => destruct b
         end; eexists; reflexivity.
Qed.

(* ---------- the invariant that makes every assertion unreachable ---------- *)
(* I1: no loader without a starter.
   I2: if the look-ahead acceptance counter is k > 0, the next k components of the input are the
       last k labels of a registered double-transporter case (all plain modification domains). *)
Definition pending_ok (m : module) (rest : list comp) : Prop :=
  m_unamb m = 0 \/
  exists case, In case c14_double_transporter_cases /\
    0 < m_unamb m /\ m_unamb m <= zlen case /\
    map lab (firstn (Z.to_nat (m_unamb m)) rest) = skipn (length case - Z.to_nat (m_unamb m)) case /\
    (Z.to_nat (m_unamb m) <= length rest)%nat.
Definition inv12 (m : module) (rest : list comp) : Prop :=
  (m_starter m = None -> m_loader m = None) /\ pending_ok m rest.

Lemma inv12_empty first rest : inv12 (empty_module first) rest.
Proof. split; [reflexivity|left; reflexivity]. Qed.

Lemma case_plain case l :
  In case c14_double_transporter_cases -> In l case -> plain_mod_label l = true.
Proof.
  intros Hc Hl. pose proof table_double_cases_plain as H.
  rewrite forallb_forall in H. specialize (H case Hc). rewrite forallb_forall in H. exact (H l Hl).
Qed.

Lemma plain_comp c : plain_mod_label (lab c) = true ->
  c_mod c = true /\ c_ignored c = false /\ c_starter c = false /\ c_loader c = false /\ c_classified c = true.
Proof.
  unfold plain_mod_label. cbn zeta.
  replace (c_mod (mkComp (lab c) [] 0 0)) with (c_mod c) by reflexivity.
  replace (c_ignored (mkComp (lab c) [] 0 0)) with (c_ignored c) by reflexivity.
  replace (c_starter (mkComp (lab c) [] 0 0)) with (c_starter c) by reflexivity.
  replace (c_loader (mkComp (lab c) [] 0 0)) with (c_loader c) by reflexivity.
  replace (c_classified (mkComp (lab c) [] 0 0)) with (c_classified c) by reflexivity.
  destruct (c_mod c), (c_ignored c), (c_starter c), (c_loader c), (c_classified c); cbn; intros H;
    try discriminate; auto.
Qed.

Lemma skipn_cons_nth {A} (l : list A) n x r : skipn n l = x :: r -> skipn (S n) l = r.
Proof.
  revert n. induction l as [|a l IH]; intros n H.
  - destruct n; discriminate.
  - destruct n; cbn in *; [inversion H; reflexivity|]. apply IH. assumption.
Qed.

Lemma skipn_in {A} (l : list A) n x r : skipn n l = x :: r -> In x l.
Proof.
  intros H. assert (Hin : In x (skipn n l)) by (rewrite H; left; reflexivity).
  rewrite <- (firstn_skipn n l). apply in_or_app. right. assumption.
Qed.

(* the first pending component is a plain modification *)
Lemma pending_head m c rest :
  pending_ok m (c :: rest) -> 0 < m_unamb m -> plain_mod_label (lab c) = true.
Proof.
  intros [H0|[case [Hc [Hpos [Hle [Hmap Hlen]]]]]] Hu; [lia|].
  destruct (Z.to_nat (m_unamb m)) as [|k] eqn:Ek; [lia|].
  cbn [firstn map] in Hmap. symmetry in Hmap.
  apply (case_plain case); [assumption|]. eapply skipn_in. exact Hmap.
Qed.

(* the double-CP acceptance: the case that matched gives the pending obligation *)
Lemma case_matches_firstn up case : case_matches up case = true ->
  firstn (length case) up = case.
Proof.
  unfold case_matches. revert up. induction case as [|x case IH]; intros up H.
  - reflexivity.
  - cbn [length firstn] in *. destruct up as [|y up]; cbn in H; [discriminate|].
    apply andb_prop in H. destruct H as [Hxy H]. apply Z.eqb_eq in Hxy. subst y.
    f_equal. apply IH. assumption.
Qed.

Lemma double_len_case la : forall cases acc,
  let r := fold_left (fun acc case => if case_matches (map lab la) case then zlen case else acc) cases acc in
  r = acc \/ exists case, In case cases /\ case_matches (map lab la) case = true /\ r = zlen case.
Proof.
  induction cases as [|case cases IH]; intros acc; cbn.
  - left. reflexivity.
  - destruct (case_matches (map lab la) case) eqn:E.
    + destruct (IH (zlen case)) as [H|[c' [Hin [Hm Hr]]]].
      * right. exists case. split; [left; reflexivity|]. split; assumption.
      * right. exists c'. split; [right; assumption|]. split; assumption.
    + destruct (IH acc) as [H|[c' [Hin [Hm Hr]]]].
      * left. assumption.
      * right. exists c'. split; [right; assumption|]. split; assumption.
Qed.

Lemma zlen_nat {A} (l : list A) : Z.to_nat (zlen l) = length l.
Proof. unfold zlen. lia. Qed.

Lemma firstn_map {A B} (f : A -> B) n (l : list A) : firstn n (map f l) = map f (firstn n l).
Proof. revert l; induction n as [|n IH]; intros [|x l]; cbn; try reflexivity. rewrite IH. reflexivity. Qed.

Lemma firstn_length_le {A} n (l : list A) : (length (firstn n l) <= length l)%nat.
Proof. rewrite firstn_length. lia. Qed.

(* one step preserves the invariant; [la] must be a prefix of the remaining input *)
Lemma add_inv12 m c la rest m' :
  inv12 m (c :: rest) -> la = firstn (length la) rest ->
  add_component m c la = Ok m' -> inv12 m' rest.
Proof.
  intros [I1 I2] Hla Hadd.
  destruct (0 <? m_unamb m) eqn:Eu.
  - (* pending acceptance: c is a plain modification *)
    assert (Hu : 0 < m_unamb m) by lia.
    pose proof (pending_head m c rest I2 Hu) as Hp. apply plain_comp in Hp.
    destruct Hp as [Hm [Hi [Hs [Hl Hcl]]]].
    unfold add_component in Hadd. rewrite Hcl, Hi, Eu in Hadd. cbn [negb bind] in Hadd.
    rewrite Hs, Hl, Hm in Hadd. cbn [andb] in Hadd. inversion Hadd; subst m'; clear Hadd.
    split; [exact I1|]. unfold pending_ok. cbn [m_unamb].
    destruct I2 as [H0|[case [Hc [Hpos [Hle [Hmap Hlen]]]]]]; [lia|].
    destruct (Z.eq_dec (m_unamb m) 1) as [E1|E1].
    + left. lia.
    + right. exists case. split; [assumption|]. split; [lia|]. split; [lia|].
      destruct (Z.to_nat (m_unamb m)) as [|k] eqn:Ek; [lia|].
      replace (Z.to_nat (m_unamb m - 1)) with k by lia.
      cbn [firstn map length] in Hmap, Hlen. symmetry in Hmap.
      split; [|lia].
      replace (length case - k)%nat with (S (length case - S k)).
      * symmetry. eapply skipn_cons_nth. exact Hmap.
      * unfold zlen in Hle. lia.
  - (* normal step *)
    assert (Hu : m_unamb m <= 0) by lia.
    unfold add_component in Hadd.
    destruct (negb (c_classified c)); [discriminate|].
    destruct (c_ignored c).
    { inversion Hadd; subst m'. split; [exact I1|].
      destruct I2 as [H0|[case [_ [Hpos _]]]]; [left; assumption|lia]. }
    rewrite Eu in Hadd.
    destruct (ensure_suitable m c la) as [[]|k] eqn:Ens; cbn [bind] in Hadd; [|discriminate].
    assert (Hpend0 : forall u, u = m_unamb m -> u = 0).
    { intros u ->. destruct I2 as [H0|[case [_ [Hpos _]]]]; [assumption|lia]. }
    destruct (c_starter c && negb (isSome (m_starter m))) eqn:B1.
    { destruct (c_loader c).
      - destruct (isSome (m_loader m)); [discriminate|]. inversion Hadd; subst m'.
        split; [cbn; discriminate|]. left. cbn. apply Hpend0. reflexivity.
      - inversion Hadd; subst m'. split; [cbn; discriminate|]. left. cbn. apply Hpend0. reflexivity. }
    assert (Hkeep : m_starter m = None -> c_starter c = false).
    { intros Hn. rewrite Hn in B1. cbn in B1. destruct (c_starter c); [discriminate|reflexivity]. }
    destruct (c_loader c) eqn:Bl.
    { destruct (isSome (m_loader m)); [discriminate|]. inversion Hadd; subst m'.
      split.
      - cbn. intros Hn. specialize (Hkeep Hn).
        (* a loader is always a starter: contradiction with the table *)
        exfalso.
        pose proof table_loader_is_starter as T. rewrite forallb_forall in T.
        assert (Hcl : c_loader (mkComp (lab c) [] 0 0) = true) by exact Bl.
        assert (Hcs : c_starter (mkComp (lab c) [] 0 0) = false) by exact Hkeep.
        (* the label is in range because it is a loader label *)
        assert (Hin : In (lab c) (map Z.of_nat (seq 0 (length c14_labels)))).
        { unfold c_loader, c_acyltransferase, c_adenylation, c_coa_ligase in Hcl. cbn [lab] in Hcl.
          unfold zmem in Hcl.
          assert (Hmem : In (lab c) (c14_acyltransferases ++ c14_adenylations ++ [c14_L_CAL_domain])).
          { apply orb_prop in Hcl. destruct Hcl as [Hcl|Hcl].
            - apply orb_prop in Hcl. destruct Hcl as [Hcl|Hcl].
              + apply existsb_exists in Hcl. destruct Hcl as [x [Hx Ex]]. apply Z.eqb_eq in Ex. subst x.
                apply in_or_app. left. assumption.
              + apply existsb_exists in Hcl. destruct Hcl as [x [Hx Ex]]. apply Z.eqb_eq in Ex. subst x.
                apply in_or_app. right. apply in_or_app. left. assumption.
            - apply Z.eqb_eq in Hcl. apply in_or_app. right. apply in_or_app. right. left. symmetry. assumption. }
          assert (Hsub : forallb (fun x => existsb (Z.eqb x) (map Z.of_nat (seq 0 (length c14_labels))))
                                 (c14_acyltransferases ++ c14_adenylations ++ [c14_L_CAL_domain]) = true)
            by (vm_compute; reflexivity).
          rewrite forallb_forall in Hsub. specialize (Hsub _ Hmem).
          apply existsb_exists in Hsub. destruct Hsub as [x [Hx Ex]]. apply Z.eqb_eq in Ex. subst x. assumption. }
        specialize (T _ Hin). cbn zeta in T. rewrite Hcl, Hcs in T. discriminate.
      - left. cbn. apply Hpend0. reflexivity. }
    destruct (c_mod c).
    { inversion Hadd; subst m'. split; [exact I1|]. left. cbn. apply Hpend0. reflexivity. }
    destruct (c_cp c).
    { destruct (negb (isSome (m_cp m))).
      - inversion Hadd; subst m'. split; [exact I1|]. left. cbn. apply Hpend0. reflexivity.
      - destruct (0 <? double_len la) eqn:Edl.
        + inversion Hadd; subst m'. split; [exact I1|]. right. cbn [m_unamb].
          unfold double_len in *.
          destruct (double_len_case la c14_double_transporter_cases 0) as [H0|[case [Hin [Hm Hr]]]].
          * cbn zeta in H0. lia.
          * cbn zeta in Hr. exists case. split; [assumption|]. rewrite Hr. split; [lia|]. split; [lia|].
            rewrite zlen_nat. rewrite Nat.sub_diag. cbn [skipn].
            apply case_matches_firstn in Hm.
            assert (Hlen_la : (length case <= length la)%nat).
            { rewrite <- Hm. rewrite firstn_length. rewrite map_length.
              destruct (Nat.le_gt_cases (length case) (length la)) as [Hle|Hgt]; [lia|].
              exfalso. assert (length (firstn (length case) (map lab la)) = length case) by (rewrite Hm; reflexivity).
              rewrite firstn_length, map_length in H. lia. }
            split.
            -- rewrite Hla in Hm. rewrite <- firstn_map. rewrite <- Hm at 2.
               rewrite firstn_map. rewrite firstn_map. f_equal.
               rewrite firstn_firstn. f_equal. lia.
            -- pose proof (firstn_length_le (length la) rest) as Hl2. rewrite <- Hla in Hl2. lia.
        + inversion Hadd; subst m'. split; [exact I1|]. left. cbn. apply Hpend0. reflexivity. }
    destruct (c_end c).
    { destruct (isSome (m_end m)); [discriminate|]. inversion Hadd; subst m'.
      split; [exact I1|]. left. cbn. apply Hpend0. reflexivity. }
    inversion Hadd; subst m'. split; [exact I1|]. left. cbn. apply Hpend0. reflexivity.
Qed.

(* under the invariant add_component can only fail with IncompatibleComponentError *)
Lemma add_no_assert m c la rest k :
  inv12 m (c :: rest) -> c_classified c = true ->
  add_component m c la = Err k -> k = E_Incompatible.
Proof.
  intros [I1 I2] Hcl Hadd.
  unfold add_component in Hadd. rewrite Hcl in Hadd. cbn [negb] in Hadd.
  destruct (c_ignored c) eqn:Hi; [discriminate|].
  destruct (0 <? m_unamb m) eqn:Eu.
  - assert (Hu : 0 < m_unamb m) by lia.
    pose proof (pending_head m c rest I2 Hu) as Hp. apply plain_comp in Hp.
    destruct Hp as [Hm [_ [Hs [Hl _]]]]. cbn [bind] in Hadd.
    rewrite Hs, Hl, Hm in Hadd. cbn [andb] in Hadd. discriminate.
  - destruct (ensure_suitable m c la) as [[]|k'] eqn:Ens; cbn [bind] in Hadd.
    + (* suitable: the assertions hold *)
      assert (Hsp : c_special c = true -> c_starter c = false /\ c_loader c = false /\ c_end c = false).
      { intros Hspecial.
        assert (Hdisj : forallb (fun l => let d := mkComp l [] 0 0 in
                          negb (c_starter d) && negb (c_loader d) && negb (c_end d)) c14_special = true)
          by (vm_compute; reflexivity).
        rewrite forallb_forall in Hdisj.
        unfold c_special, zmem in Hspecial. apply existsb_exists in Hspecial.
        destruct Hspecial as [x [Hx Ex]]. apply Z.eqb_eq in Ex. subst x.
        specialize (Hdisj _ Hx). cbn zeta in Hdisj.
        replace (c_starter (mkComp (lab c) [] 0 0)) with (c_starter c) in Hdisj by reflexivity.
        replace (c_loader (mkComp (lab c) [] 0 0)) with (c_loader c) in Hdisj by reflexivity.
        replace (c_end (mkComp (lab c) [] 0 0)) with (c_end c) in Hdisj by reflexivity.
        destruct (c_starter c), (c_loader c), (c_end c); cbn in Hdisj; try discriminate. auto. }
      assert (Hlo : isSome (m_loader m) = true -> isSome (m_starter m) = true).
      { destruct (m_starter m); [reflexivity|]. rewrite (I1 eq_refl). intros; discriminate. }
      unfold ensure_suitable in Ens. rewrite Hi in Ens. cbn [orb] in Ens.
      destruct (c_special c) eqn:Bsp.
      * destruct (Hsp eq_refl) as [Hs [Hl He]]. rewrite Hs, Hl, He in Hadd. cbn [andb] in Hadd.
        destruct (c_mod c); [discriminate|]. destruct (c_cp c); [|discriminate].
        destruct (negb (isSome (m_cp m))); [discriminate|]. destruct (0 <? double_len la); discriminate.
      * destruct (isSome (m_end m)) eqn:Bend; [discriminate|].
        destruct (isSome (m_loader m)) eqn:Blo; destruct (isSome (m_starter m)) eqn:Bst;
          try (specialize (Hlo eq_refl); discriminate);
          destruct (c_starter c) eqn:Bs; destruct (c_loader c) eqn:Bl; cbn [andb negb] in *;
          try discriminate;
          destruct (c_mod c); try discriminate;
          destruct (c_cp c); try discriminate;
          try (destruct (negb (isSome (m_cp m))); [discriminate|]; destruct (0 <? double_len la); discriminate);
          destruct (c_end c); try discriminate;
          try (destruct (nonempty (m_comps m)); discriminate).
    + (* ensure_suitable failed: which error? *)
      inversion Hadd; subst k'; clear Hadd.
      unfold ensure_suitable in Ens.
      repeat match type of Ens with
             | (if ?b then _ else _) = _ => destruct b eqn:?
             end; try discriminate; try (inversion Ens; reflexivity).
      (* the only assertion: an end component when an end is present - excluded earlier *)
      all: try congruence.
Qed.


(* I3: a module without components is a pristine empty module *)
Definition pristine (m : module) : Prop := m_comps m = [] -> m = empty_module (m_first m).
Definition inv (m : module) (rest : list comp) : Prop := inv12 m rest /\ pristine m.

Lemma inv_empty first rest : inv (empty_module first) rest.
Proof. split; [apply inv12_empty|]. intros _. reflexivity. Qed.

Lemma add_ignored m c la m' : c_ignored c = true -> add_component m c la = Ok m' -> m' = m.
Proof.
  intros Hi. unfold add_component. destruct (negb (c_classified c)); [discriminate|].
  rewrite Hi. intros H. inversion H. reflexivity.
Qed.

Lemma add_inv m c la rest m' :
  inv m (c :: rest) -> la = firstn (length la) rest ->
  add_component m c la = Ok m' -> inv m' rest.
Proof.
  intros [H12 H3] Hla Hadd. split; [eapply add_inv12; eassumption|].
  intros Hnil. pose proof (add_comps _ _ _ _ Hadd) as Hc.
  destruct (c_ignored c) eqn:Hi.
  - apply add_ignored in Hadd; [|assumption]. subst m'. apply H3. assumption.
  - rewrite Hc in Hnil. destruct (m_comps m); discriminate.
Qed.

(* ---------- build: total, and a partition of the input ---------- *)
Definition flat (ms : list module) : list comp := concat (map m_comps ms).
Definition keep (cs : list comp) : list comp := filter (fun c => negb (c_ignored c)) cs.

Lemma flat_app a b : flat (a ++ b) = flat a ++ flat b.
Proof. unfold flat. rewrite map_app, concat_app. reflexivity. Qed.

Lemma firstn_firstn_self {A} n (l : list A) : firstn n l = firstn (length (firstn n l)) l.
Proof.
  rewrite firstn_length. destruct (Nat.le_gt_cases n (length l)) as [H|H].
  - rewrite Nat.min_l by assumption. reflexivity.
  - rewrite Nat.min_r by lia. rewrite !firstn_all2 by lia. reflexivity.
Qed.

Lemma flat_single m : flat [m] = m_comps m.
Proof. unfold flat. cbn. apply app_nil_r. Qed.

Lemma build_total_partition cs : Forall (fun c => c_classified c = true) cs ->
  forall done cur, inv cur cs ->
  exists ms, build done cur cs = Ok ms /\ flat ms = flat done ++ m_comps cur ++ keep cs /\
             (Forall (fun m => nonempty (m_comps m) = true) done ->
              Forall (fun m => nonempty (m_comps m) = true) ms).
Proof.
  induction 1 as [|c rest Hc Hrest IH]; intros done cur Hinv.
  - cbn [build keep filter]. eexists. split; [reflexivity|]. split.
    + rewrite flat_app, app_nil_r. f_equal.
      destruct (m_comps cur) eqn:E; cbn [nonempty]; [reflexivity|].
      rewrite flat_single. assumption.
    + intros Hd. apply Forall_app. split; [assumption|].
      destruct (nonempty (m_comps cur)) eqn:E; constructor; [assumption|constructor].
  - cbn [build].
    destruct (c_starter c && negb (c_loader c) && nonempty (m_comps cur)) eqn:Hs.
    + (* an explicit starter begins a new module; cur is non-empty *)
      assert (Hne : nonempty (m_comps cur) = true) by (destruct (nonempty (m_comps cur)); [reflexivity|rewrite andb_false_r in Hs; discriminate]).
      destruct (add_empty_total false c (firstn 2 rest) Hc) as [cur2 Ha]. rewrite Ha.
      assert (Hinv2 : inv cur2 rest).
      { eapply add_inv; [apply inv_empty| |exact Ha]. apply firstn_firstn_self. }
      destruct (IH (done ++ [cur]) cur2 Hinv2) as [ms [Hb [Hf Hn]]]. exists ms. split; [exact Hb|]. split.
      * rewrite Hf, flat_app, flat_single. apply add_comps in Ha. rewrite Ha. cbn [keep filter empty_module m_comps].
        destruct (c_ignored c); cbn [negb app]; rewrite <- ?app_assoc; reflexivity.
      * intros Hd. apply Hn. apply Forall_app. split; [assumption|]. constructor; [assumption|constructor].
    + destruct (add_component cur c (firstn 2 rest)) as [cur2|k] eqn:Ha.
      * assert (Hinv2 : inv cur2 rest).
        { eapply add_inv; [exact Hinv| |exact Ha]. apply firstn_firstn_self. }
        destruct (IH done cur2 Hinv2) as [ms [Hb [Hf Hn]]]. exists ms. split; [exact Hb|]. split; [|exact Hn].
        rewrite Hf. apply add_comps in Ha. rewrite Ha. cbn [keep filter].
        destruct (c_ignored c); cbn [negb app]; rewrite <- ?app_assoc; reflexivity.
      * assert (Hk : k = E_Incompatible) by (eapply add_no_assert; [exact (proj1 Hinv)|exact Hc|exact Ha]). subst k.
        cbn [Z.eqb E_Incompatible Pos.eqb].
        destruct (add_empty_total false c [] Hc) as [cur2 Ha2]. rewrite Ha2. cbn [bind].
        assert (Hinv2 : inv cur2 rest).
        { eapply add_inv; [apply inv_empty| |exact Ha2]. reflexivity. }
        (* the rejected module is non-empty: an empty module accepts anything *)
        assert (Hne : nonempty (m_comps cur) = true).
        { destruct (m_comps cur) eqn:Ecomps; [|reflexivity]. exfalso.
          destruct Hinv as [_ H3]. rewrite (H3 Ecomps) in Ha.
          destruct (add_empty_total (m_first cur) c (firstn 2 rest) Hc) as [mm Hmm]. congruence. }
        destruct (IH (done ++ [cur]) cur2 Hinv2) as [ms [Hb [Hf Hn]]]. exists ms. split; [exact Hb|]. split.
        -- rewrite Hf, flat_app, flat_single. apply add_comps in Ha2. rewrite Ha2. cbn [keep filter empty_module m_comps].
           destruct (c_ignored c); cbn [negb app]; rewrite <- ?app_assoc; reflexivity.
        -- intros Hd. apply Hn. apply Forall_app. split; [assumption|]. constructor; [assumption|constructor].
Qed.

(* ---------- sorting keeps the elements ---------- *)
Lemma insert_by_Forall {A} (P : A -> Prop) lt x l : P x -> Forall P l -> Forall P (insert_by lt x l).
Proof.
  intros Hx. induction 1 as [|y l Hy Hl IH]; cbn.
  - constructor; [assumption|constructor].
  - destruct (lt x y); constructor; auto.
Qed.
Lemma sort_by_Forall_acc {A} (P : A -> Prop) lt l : forall acc,
  Forall P acc -> Forall P l -> Forall P (fold_left (fun acc x => insert_by lt x acc) l acc).
Proof.
  induction l as [|x l IH]; intros acc Ha Hl; cbn; [assumption|].
  inversion Hl; subst. apply IH; [apply insert_by_Forall; assumption|assumption].
Qed.
Lemma sort_by_Forall {A} (P : A -> Prop) lt l : Forall P l -> Forall P (sort_by lt l).
Proof. intros H. unfold sort_by. apply sort_by_Forall_acc; [constructor|assumption]. Qed.

(* ---------- build_modules_for_cds: never fails, partitions the sorted non-ignored domains ---------- *)
Lemma build_modules_total_partition domains :
  Forall (fun c => c_classified c = true) domains ->
  exists ms, build_modules_for_cds domains = Ok ms /\
             flat ms = keep (sort_comps domains) /\
             Forall (fun m => m_comps m <> []) ms.
Proof.
  intros Hc. unfold build_modules_for_cds.
  assert (Hs : Forall (fun c => c_classified c = true) (sort_comps domains)) by (apply sort_by_Forall; assumption).
  destruct (build_total_partition _ Hs [] (empty_module true) (inv_empty true _)) as [ms [Hb [Hf Hn]]].
  rewrite Hb. cbn [bind].
  specialize (Hn (Forall_nil _)).
  assert (Hall : forallb (fun m => nonempty (m_comps m)) ms = true).
  { apply forallb_forall. rewrite Forall_forall in Hn. assumption. }
  rewrite Hall. exists ms. split; [reflexivity|]. split.
  - rewrite Hf. reflexivity.
  - rewrite Forall_forall in *. intros m Hm. specialize (Hn m Hm). destruct (m_comps m); [discriminate|discriminate].
Qed.

(* ---------- completeness ---------- *)
Lemma is_complete_iff m :
  is_complete m = true <->
  ((isSome (m_starter m) = true /\ isSome (m_loader m) = true /\ isSome (m_cp m) = true /\
    ~ (same_comp (m_starter m) (m_loader m) = true /\ m_first m = false))
   \/ (is_trans_at m = true /\ isSome (m_cp m) = true)).
Proof.
  unfold is_complete.
  assert (Hta : is_trans_at m = true -> same_comp (m_starter m) (m_loader m) = false).
  { unfold is_trans_at. destruct (m_starter m) as [s|]; [|discriminate].
    destruct (m_loader m) as [l|]; [|reflexivity]. cbn. rewrite andb_false_r. discriminate. }
  destruct (isSome (m_starter m)) eqn:Bs, (same_comp (m_starter m) (m_loader m)) eqn:Bsl,
           (m_first m) eqn:Bf, (isSome (m_loader m)) eqn:Bl, (isSome (m_cp m)) eqn:Bc,
           (is_trans_at m) eqn:Bt; cbn; split; intros H;
    try discriminate; try (specialize (Hta eq_refl); discriminate);
    try (left; repeat split; try reflexivity; intros [? ?]; discriminate);
    try (right; split; reflexivity);
    try reflexivity;
    try (destruct H as [[? [? [? Hn]]]|[? ?]]; try discriminate; exfalso; apply Hn; split; reflexivity).
Qed.

(* ---------- replay keeps the components in order ---------- *)
Lemma replay_comps cs : forall m m', replay m cs = Ok m' -> m_comps m' = m_comps m ++ keep cs.
Proof.
  induction cs as [|c cs IH]; intros m m' H; cbn in H.
  - inversion H. cbn. rewrite app_nil_r. reflexivity.
  - destruct (add_component m c cs) as [m1|k] eqn:Ha; cbn [bind] in H; [|discriminate].
    rewrite (IH _ _ H). rewrite (add_comps _ _ _ _ Ha). cbn [keep filter].
    destruct (c_ignored c); cbn [negb]; rewrite <- ?app_assoc; reflexivity.
Qed.

Lemma keep_idem_comps cs : Forall (fun c => c_ignored c = false) cs -> keep cs = cs.
Proof.
  induction 1 as [|c cs Hc _ IH]; cbn [keep filter]; [reflexivity|]. rewrite Hc. cbn [negb]. fold (keep cs). rewrite IH. reflexivity.
Qed.

(* ---------- combine_modules: what a successful merge looks like ---------- *)
Lemma combine_shape same current previous om p' c' :
  combine_modules same current previous = Ok (om, p', c') ->
  match om with
  | None => p' = previous /\ c' = current
  | Some m =>
    exists head tail crest,
      last_opt previous = Some head /\ current = tail :: crest /\
      is_complete head = false /\
      p' = removelast previous ++ [m] /\
      ((m_comps m = keep (m_comps head) ++ keep (m_comps tail) /\ c' = crest /\ is_complete m = true)
       \/ (exists next kr rest', crest = next :: rest' /\ m_comps next = [kr] /\ c' = rest' /\
             m_comps m = (keep (m_comps head) ++ keep (m_comps tail)) ++ keep [kr]))
  end.
Proof.
  unfold combine_modules. intros H.
  destruct (negb same); [injection H as H1 H2 H3; subst om p' c'; auto|].
  destruct (last_opt previous) as [head|] eqn:Eh; [|injection H as H1 H2 H3; subst om p' c'; auto].
  destruct current as [|tail crest]; [injection H as H1 H2 H3; subst om p' c'; auto|].
  destruct (is_complete head) eqn:Ech; cbn [orb] in H; [injection H as H1 H2 H3; subst om p' c'; auto|].
  match type of H with (if ?b then _ else _) = _ => destruct b end; [injection H as H1 H2 H3; subst om p' c'; auto|].
  match type of H with (if ?b then _ else _) = _ => destruct b end; [injection H as H1 H2 H3; subst om p' c'; auto|].
  destruct (replay (empty_module false) (m_comps head)) as [m1|k] eqn:E1; cbn [bind] in H; [|discriminate].
  destruct (replay m1 (m_comps tail)) as [m2|k] eqn:E2.
  2:{ destruct (k =? E_Incompatible); [injection H as H1 H2 H3; subst om p' c'; auto|discriminate]. }
  destruct (negb (is_complete m2)) eqn:Ec2; [injection H as H1 H2 H3; subst om p' c'; auto|].
  assert (Hm2 : m_comps m2 = keep (m_comps head) ++ keep (m_comps tail)).
  { rewrite (replay_comps _ _ _ E2), (replay_comps _ _ _ E1). reflexivity. }
  assert (Hc2 : is_complete m2 = true) by (destruct (is_complete m2); [reflexivity|discriminate]).
  destruct crest as [|next rest'].
  { injection H as H1 H2 H3; subst om p' c'. exists head, tail, []. repeat split; auto. }
  destruct (m_comps next) as [|kr [|x xs]] eqn:En.
  - injection H as H1 H2 H3; subst om p' c'. exists head, tail, (next :: rest'). repeat split; auto.
  - destruct (is_trans_at m2 && (lab kr =? c14_L_PKS_KR)).
    + destruct (add_component m2 kr []) as [m3|k] eqn:E3.
      * injection H as H1 H2 H3; subst om p' c'. exists head, tail, (next :: rest'). repeat split; auto.
        right. exists next, kr, rest'. repeat split; auto.
        rewrite (add_comps _ _ _ _ E3), Hm2. cbn [keep filter].
        destruct (c_ignored kr); cbn [negb]; rewrite ?app_nil_r; reflexivity.
      * destruct (k =? E_Incompatible); [|discriminate].
        injection H as H1 H2 H3; subst om p' c'. exists head, tail, (next :: rest'). repeat split; auto.
    + injection H as H1 H2 H3; subst om p' c'. exists head, tail, (next :: rest'). repeat split; auto.
  - injection H as H1 H2 H3; subst om p' c'. exists head, tail, (next :: rest'). repeat split; auto.
Qed.


(* ---------- generate_domains: modules are only merged across DIRECTLY neighbouring genes with hits ---------- *)
(* a gene without any hit resets the chain: whatever came before it, the genes after it are processed as if they
   were the first ones (their module lists do not depend on the genes before the gap) *)
Lemma gd_step_gap stale st : gd_step stale st (mkGI [] false 0 0) =
  match st with Ok (acc, _) => Ok (acc ++ [None], None) | Err k => Err k end.
Proof. destruct st as [[acc prev]|k]; reflexivity. Qed.

(* the seeded variant (a gene whose hits form no module does not become `prev`) merges two genes that are not
   neighbours: KS AT | docking domain only | KR ACP *)
Lemma generate_stale_prev_differs : exists genes,
  generate_modules genes <> generate_modules_gen true genes /\
  match generate_modules genes with
  | Ok [Some [m1]; Some []; Some [m3]] => map cid (m_comps m1) = [0; 1] /\ map cid (m_comps m3) = [3; 4]
  | _ => False
  end.
Proof.
  exists [mkGI [mkComp 41 [] 0 0; mkComp 33 [] 1 100] false 1 0; mkGI [mkComp 30 [] 2 0] false 1 0;
          mkGI [mkComp 40 [] 3 0; mkComp 1 [] 4 100] false 1 0].
  split; [vm_compute; discriminate|vm_compute; split; reflexivity].
Qed.

(* a single gene: its own modules, minus the single-component ones *)
Lemma generate_single g : (nonempty (g_doms g) || g_motifs g) = true ->
  generate_modules [g] = do ms <- build_modules_for_cds (g_doms g); Ok [Some (filter (fun m => 1 <? zlen (m_comps m)) ms)].
Proof.
  intros H. unfold generate_modules, generate_modules_gen. cbn [fold_left gd_step bind]. rewrite H. cbn [negb].
  destruct (build_modules_for_cds (g_doms g)) as [ms|k]; [|reflexivity]. reflexivity.
Qed.
