(* C14, continued: the two list slots of a module (_modifications, _others) are functions of its component
   list, for every module that is rebuilt identically from its saved form - hence for every module
   build_modules_for_cds and combine_modules hand out (C14_reload, C14_combine_total). *)
From ASV.C14 Require Import Model Proofs Proofs2 Proofs3.
From ASV.Gen Require Import Tables_gen.

(* neither starter-class nor modification nor terminating domain *)
Definition nso (c : comp) : bool := negb (c_starter c || c_mod c || c_end c).
Fixpoint remove_first (f : comp -> bool) (cs : list comp) : list comp :=
  match cs with [] => [] | c :: r => if f c then r else c :: remove_first f r end.
(* _others: everything that is no starter/loader, modification or end, except the first carrier protein
   (which sits in its own slot) - by position, no identities involved *)
Definition others_pos (cs : list comp) : list comp := filter nso (remove_first c_cp cs).

Definition SL (m : module) : Prop :=
  m_mods m = filter c_mod (m_comps m) /\ m_others m = others_pos (m_comps m).

Lemma remove_first_none f l : existsb f l = false -> remove_first f l = l.
Proof.
  induction l as [|x l IH]; cbn; [reflexivity|]. destruct (f x); cbn; [discriminate|]. intros H. rewrite IH; auto.
Qed.

Lemma remove_first_snoc f l c :
  remove_first f (l ++ [c]) = if existsb f l then remove_first f l ++ [c] else if f c then l else l ++ [c].
Proof.
  induction l as [|x l IH]; cbn; [destruct (f c); reflexivity|].
  destruct (f x) eqn:E; cbn; [reflexivity|]. rewrite IH. destruct (existsb f l); [reflexivity|].
  destruct (f c); reflexivity.
Qed.

Lemma others_pos_snoc cs c :
  others_pos (cs ++ [c]) =
  if existsb c_cp cs || negb (c_cp c) then others_pos cs ++ (if nso c then [c] else []) else others_pos cs.
Proof.
  unfold others_pos. rewrite remove_first_snoc. destruct (existsb c_cp cs) eqn:E; cbn [orb].
  - rewrite filter_app. cbn [filter]. destruct (nso c); reflexivity.
  - rewrite (remove_first_none _ _ E). destruct (c_cp c); cbn [negb]; [reflexivity|].
    rewrite filter_app. cbn [filter]. destruct (nso c); reflexivity.
Qed.

Lemma filter_snoc {A} (f : A -> bool) l c : filter f (l ++ [c]) = filter f l ++ (if f c then [c] else []).
Proof. rewrite filter_app. cbn. destruct (f c); reflexivity. Qed.

(* the four ways a component changes the two lists *)
Lemma lists_keep cs c mods oth : c_mod c = false -> nso c = false -> c_cp c = false ->
  mods = filter c_mod cs -> oth = others_pos cs ->
  mods = filter c_mod (cs ++ [c]) /\ oth = others_pos (cs ++ [c]).
Proof.
  intros Em En Ec Hm Ho. rewrite filter_snoc, others_pos_snoc, Em, En, Ec, orb_true_r, !app_nil_r. split; assumption.
Qed.
Lemma lists_mod cs c mods oth : c_mod c = true -> c_cp c = false ->
  mods = filter c_mod cs -> oth = others_pos cs ->
  mods ++ [c] = filter c_mod (cs ++ [c]) /\ oth = others_pos (cs ++ [c]).
Proof.
  intros Em Ec Hm Ho. rewrite filter_snoc, others_pos_snoc, Em, Ec, orb_true_r. unfold nso. rewrite Em, orb_true_r.
  cbn [orb negb]. rewrite app_nil_r. split; [rewrite Hm; reflexivity|assumption].
Qed.
Lemma lists_first_cp cs c mods oth : c_cp c = true -> c_mod c = false -> existsb c_cp cs = false ->
  mods = filter c_mod cs -> oth = others_pos cs ->
  mods = filter c_mod (cs ++ [c]) /\ oth = others_pos (cs ++ [c]).
Proof.
  intros Ec Em Ex Hm Ho. rewrite filter_snoc, others_pos_snoc, Em, Ec, Ex, app_nil_r. cbn. split; assumption.
Qed.
Lemma lists_other cs c mods oth : c_mod c = false -> nso c = true -> existsb c_cp cs || negb (c_cp c) = true ->
  mods = filter c_mod cs -> oth = others_pos cs ->
  mods = filter c_mod (cs ++ [c]) /\ oth ++ [c] = others_pos (cs ++ [c]).
Proof.
  intros Em En Ex Hm Ho. rewrite filter_snoc, others_pos_snoc, Em, En, Ex, app_nil_r.
  split; [assumption|rewrite Ho; reflexivity].
Qed.

(* one accepted component keeps the two lists functions of the components *)
Lemma SL_step m c la rest m' :
  inv12 m (c :: rest) -> LQ m (c :: rest) -> SL m -> add_component m c la = Ok m' -> SL m'.
Proof.
  intros Hinv HL [Hm Ho] Ha.
  destruct (c_ignored c) eqn:Hi.
  { apply add_ignored in Ha; [|exact Hi]. subst m'. split; assumption. }
  assert (Hk : class_ok c = true) by (apply classified_class_ok; eapply add_classified; exact Ha).
  destruct (add_split _ _ _ _ Ha Hi) as [Hens Has].
  pose proof (class_facts c Hk) as [Fls [Fmod [Fcp [Fend _]]]].
  pose proof (lq_st _ _ HL) as Hst. pose proof (lq_cp _ _ HL) as Hcp.
  assert (Est : isSome (m_starter m) = existsb c_starter (m_comps m)) by (rewrite Hst; apply find_existsb).
  assert (Ecp : isSome (m_cp m) = existsb c_cp (m_comps m)) by (rewrite Hcp; apply find_existsb).
  unfold SL.
  destruct (0 <? m_unamb m) eqn:Eu.
  - (* a pending member of a registered pair: a plain modification domain *)
    apply Z.ltb_lt in Eu. pose proof (pending_head _ _ _ (proj2 Hinv) Eu) as Hp.
    apply plain_comp in Hp. destruct Hp as [Emod [_ [Es [El _]]]].
    destruct (Fmod Emod) as [_ [Ec _]].
    unfold assign in Has. rewrite Es, El, Emod in Has. cbn [andb] in Has. inversion Has; subst m'.
    cbn [with_comp m_comps m_mods m_others]. apply lists_mod; assumption.
  - pose proof (ens_facts m c la Hk Hi Hens) as [_ [Fx [_ [_ Fcp2]]]].
    unfold assign in Has. cbn zeta in Has.
    destruct (c_mod c) eqn:Emod.
    + (* modification *)
      destruct (Fmod eq_refl) as [Es [Ec _]]. rewrite Es in Has. cbn [andb] in Has.
      rewrite (loader_starter c Hk Es) in Has. inversion Has; subst m'.
      cbn [with_comp m_comps m_mods m_others]. apply lists_mod; assumption.
    + destruct (c_starter c) eqn:Es.
      * (* starter class *)
        assert (Ec : c_cp c = false).
        { destruct (c_cp c) eqn:E; [|reflexivity]. destruct (Fcp eq_refl) as [X _]. discriminate. }
        assert (En : nso c = false) by (unfold nso; rewrite Es; reflexivity).
        cbn [andb] in Has.
        destruct (negb (isSome (m_starter m))) eqn:Ens.
        { destruct (c_loader c); [destruct (isSome (m_loader m)); [discriminate|]|];
            inversion Has; subst m'; cbn [with_comp m_comps m_mods m_others]; apply lists_keep; assumption. }
        destruct (c_loader c) eqn:El.
        { destruct (isSome (m_loader m)); [discriminate|].
          inversion Has; subst m'; cbn [with_comp m_comps m_mods m_others]; apply lists_keep; assumption. }
        (* an explicit starter is only accepted by an empty module, which has no starter yet *)
        exfalso. assert (Hx : c_xstarter c = true) by (unfold c_xstarter; rewrite Es, El; reflexivity).
        specialize (Fx Hx). apply negb_false_iff in Ens. rewrite Est in Ens.
        destruct (m_comps m); [discriminate|discriminate].
      * cbn [andb] in Has. rewrite (loader_starter c Hk Es) in Has.
        destruct (c_cp c) eqn:Ec.
        -- destruct (Fcp eq_refl) as [_ [Ee _]].
           destruct (isSome (m_cp m)) eqn:Ecs; cbn [negb] in Has.
           ++ destruct (Fcp2 eq_refl eq_refl) as [Hd _]. rewrite double_case_len in Hd. rewrite Hd in Has.
              inversion Has; subst m'. cbn [with_comp m_comps m_mods m_others].
              apply lists_other; try assumption.
              ** unfold nso. rewrite Es, Emod, Ee. reflexivity.
              ** rewrite <- Ecp. reflexivity.
           ++ inversion Has; subst m'. cbn [with_comp m_comps m_mods m_others].
              apply lists_first_cp; try assumption. rewrite <- Ecp. reflexivity.
        -- destruct (c_end c) eqn:Ee.
           ++ destruct (isSome (m_end m)); [discriminate|]. inversion Has; subst m'.
              cbn [with_comp m_comps m_mods m_others]. apply lists_keep; try assumption.
              unfold nso. rewrite Ee, !orb_true_r. reflexivity.
           ++ inversion Has; subst m'. cbn [with_comp m_comps m_mods m_others].
              apply lists_other; try assumption.
              ** unfold nso. rewrite Es, Emod, Ee. reflexivity.
              ** rewrite Ec. apply orb_true_r.
Qed.

Lemma SL_empty f : SL (empty_module f).
Proof. split; reflexivity. Qed.

Lemma replay_SL cs : forall m m', inv12 m cs -> LQ m cs -> SL m -> replay m cs = Ok m' -> SL m'.
Proof.
  induction cs as [|c r IH]; intros m m' Hinv HL HS H; cbn [replay] in H.
  - inversion H; subst. exact HS.
  - destruct (add_component m c r) as [m1|k] eqn:Ha; cbn [bind] in H; [|discriminate].
    apply (IH m1 m'); [| | |exact H].
    + eapply add_inv12; [exact Hinv| |exact Ha]. symmetry. apply firstn_all.
    + eapply LQ_step; [exact Hinv|exact HL| |exact Ha]. symmetry. apply firstn_all.
    + eapply SL_step; eassumption.
Qed.

(* a module that is rebuilt identically from its saved form has its two lists determined by its components *)
Lemma reload_lists m : reload m = Ok m ->
  m_mods m = filter c_mod (m_comps m) /\ m_others m = others_pos (m_comps m).
Proof.
  intros H. unfold reload in H.
  apply (replay_SL (m_comps m) (empty_module (m_first m)) m); [apply inv12_empty|apply LQ_empty|apply SL_empty|exact H].
Qed.

(* ... and all its slots: the same argument for the four option slots *)
Lemma reload_slots m : reload m = Ok m ->
  m_starter m = find c_starter (m_comps m) /\ m_loader m = find c_loader (m_comps m) /\
  m_cp m = find c_cp (m_comps m) /\ m_end m = find c_end (m_comps m).
Proof.
  intros H. unfold reload in H.
  pose proof (replay_LQ (m_comps m) (empty_module (m_first m)) m (inv12_empty _ _) (LQ_empty _ _) H) as HL.
  destruct HL as [? ? ? ? _ _ _ _ _ _ _ _ _]. repeat split; assumption.
Qed.

Lemma build_lists domains ms :
  Forall (fun c => c_classified c = true) domains -> build_modules_for_cds domains = Ok ms ->
  Forall (fun m => m_mods m = filter c_mod (m_comps m) /\ m_others m = others_pos (m_comps m)) ms.
Proof.
  intros Hc Hb. eapply Forall_impl; [|eapply build_reload; eassumption]. intros m. apply reload_lists.
Qed.

(* with pairwise different identities (as in the harness) the positional description is the one the
   run-time specification uses (Model.v others_spec) *)
Lemma others_spec_pos cs : NoDup (map cid cs) -> others_spec cs = others_pos cs.
Proof.
  unfold others_spec, others_pos. intros Hn.
  induction cs as [|c cs IH]; [reflexivity|].
  cbn [find remove_first]. destruct (c_cp c) eqn:Ec.
  - (* c is the first carrier protein: dropped on both sides; nothing else has its identity *)
    cbn [filter same_comp]. rewrite Z.eqb_refl, andb_false_r.
    inversion Hn as [|? ? Hnotin Hn']; subst.
    apply filter_ext_in. intros x Hx. unfold nso.
    assert (E : (cid x =? cid c) = false).
    { apply Z.eqb_neq. intros E. apply Hnotin. rewrite <- E. apply in_map. exact Hx. }
    rewrite E. cbn [negb]. rewrite andb_true_r. reflexivity.
  - inversion Hn as [|? ? Hnotin Hn']; subst. cbn [filter].
    assert (Hrest : filter (fun x => negb (c_starter x || c_mod x || c_end x) && negb (same_comp (Some x) (find c_cp cs))) cs
                    = filter nso (remove_first c_cp cs)) by (apply IH; exact Hn').
    rewrite Hrest.
    assert (Hc : negb (same_comp (Some c) (find c_cp cs)) = true).
    { destruct (find c_cp cs) as [y|] eqn:Ef; [|reflexivity]. cbn [same_comp]. apply negb_true_iff. apply Z.eqb_neq.
      intros E. apply Hnotin. rewrite E. apply in_map. apply find_some in Ef. apply Ef. }
    rewrite Hc, andb_true_r. reflexivity.
Qed.

(* ---------- the loader precedes every modification, carrier protein and terminating domain ---------- *)
Lemma before_first_none f (l : list comp) : existsb f l = false -> before_first f l = l.
Proof.
  induction l as [|x l IH]; cbn; [reflexivity|]. destruct (f x); cbn; [discriminate|]. intros H. rewrite IH; auto.
Qed.
Lemma before_first_snoc f (l : list comp) c :
  before_first f (l ++ [c]) = if existsb f l then before_first f l else l ++ (if f c then [] else [c]).
Proof.
  induction l as [|x l IH]; cbn; [destruct (f c); reflexivity|].
  destruct (f x); cbn; [reflexivity|]. rewrite IH. destruct (existsb f l); reflexivity.
Qed.

Lemma forallb_no3 (f g h : comp -> bool) l :
  existsb f l = false -> existsb g l = false -> existsb h l = false ->
  forallb (fun c => negb (f c || g c || h c)) l = true.
Proof.
  induction l as [|x l IH]; cbn; [reflexivity|]. intros Hf Hg Hh.
  apply orb_false_elim in Hf, Hg, Hh. destruct Hf as [F1 F2], Hg as [G1 G2], Hh as [H1 H2].
  rewrite F1, G1, H1. cbn. apply IH; assumption.
Qed.

Lemma filter_nil_existsb (f : comp -> bool) l : filter f l = [] -> existsb f l = false.
Proof.
  induction l as [|x l IH]; cbn; [reflexivity|]. destruct (f x); [discriminate|]. exact IH.
Qed.

(* a passed suitability test for a loader: no modification has been taken yet *)
Lemma ens_loader_mods m c la : class_ok c = true -> c_ignored c = false -> c_loader c = true ->
  ensure_suitable m c la = Ok tt -> m_mods m = [].
Proof.
  intros Hk Hi El. pose proof (class_facts c Hk) as [Fls [_ [_ [_ [Fsp _]]]]].
  pose proof (Fls El) as Es.
  assert (Esp : c_special c = false).
  { destruct (c_special c) eqn:E; [|reflexivity]. rewrite (Fsp eq_refl) in Es. discriminate. }
  unfold ensure_suitable. rewrite Hi, Esp, Es, El. cbn [orb andb negb].
  destruct (isSome (m_end m)); [discriminate|].
  destruct (isSome (m_loader m)); [discriminate|].
  destruct (match m_starter m with Some s => (c_pks s && c_nrps c) || (c_nrps s && c_pks c) | None => false end);
    [discriminate|].
  cbn [orb]. destruct (isSome (m_cp m)); cbn [orb]; [discriminate|].
  destruct (m_mods m); [reflexivity|discriminate].
Qed.

Lemma LO_step m c la rest m' :
  inv12 m (c :: rest) -> LQ m (c :: rest) -> SL m -> L_order (m_comps m) = true ->
  add_component m c la = Ok m' -> L_order (m_comps m') = true.
Proof.
  intros Hinv HL [Hm _] HO Ha. rewrite (add_comps _ _ _ _ Ha).
  destruct (c_ignored c) eqn:Hi; [exact HO|].
  unfold L_order in *. rewrite existsb_snoc, before_first_snoc.
  destruct (existsb c_loader (m_comps m)) eqn:Ex; cbn [orb negb] in *; [exact HO|].
  destruct (c_loader c) eqn:El; cbn [negb orb]; [|reflexivity].
  rewrite app_nil_r.
  assert (Hk : class_ok c = true) by (apply classified_class_ok; eapply add_classified; exact Ha).
  destruct (add_split _ _ _ _ Ha Hi) as [Hens _].
  destruct (0 <? m_unamb m) eqn:Eu.
  { apply Z.ltb_lt in Eu. pose proof (pending_head _ _ _ (proj2 Hinv) Eu) as Hp.
    apply plain_comp in Hp. destruct Hp as [_ [_ [_ [El' _]]]]. congruence. }
  pose proof (ens_facts m c la Hk Hi Hens) as [Fend [_ [Flo _]]].
  destruct (Flo El) as [_ [Ecp _]].
  pose proof (class_facts c Hk) as [Fls [_ [_ [_ [Fsp _]]]]].
  assert (Esp : c_special c = false).
  { destruct (c_special c) eqn:E; [|reflexivity]. rewrite (Fsp eq_refl) in Fls. specialize (Fls El). discriminate. }
  specialize (Fend Esp).
  pose proof (ens_loader_mods m c la Hk Hi El Hens) as Emods.
  apply forallb_no3.
  - apply filter_nil_existsb. rewrite <- Hm. exact Emods.
  - rewrite <- find_existsb, <- (lq_cp _ _ HL). exact Ecp.
  - rewrite <- find_existsb, <- (lq_en _ _ HL). exact Fend.
Qed.

Lemma replay_LO cs : forall m m', inv12 m cs -> LQ m cs -> SL m -> L_order (m_comps m) = true ->
  replay m cs = Ok m' -> L_order (m_comps m') = true.
Proof.
  induction cs as [|c r IH]; intros m m' Hinv HL HS HO H; cbn [replay] in H.
  - inversion H; subst. exact HO.
  - destruct (add_component m c r) as [m1|k] eqn:Ha; cbn [bind] in H; [|discriminate].
    apply (IH m1 m'); [| | | |exact H].
    + eapply add_inv12; [exact Hinv| |exact Ha]. symmetry. apply firstn_all.
    + eapply LQ_step; [exact Hinv|exact HL| |exact Ha]. symmetry. apply firstn_all.
    + eapply SL_step; eassumption.
    + eapply LO_step; eassumption.
Qed.

Lemma reload_loader_order m : reload m = Ok m -> L_order (m_comps m) = true.
Proof.
  intros H. unfold reload in H.
  apply (replay_LO (m_comps m) (empty_module (m_first m)) m);
    [apply inv12_empty|apply LQ_empty|apply SL_empty|reflexivity|exact H].
Qed.

Lemma build_loader_order domains ms :
  Forall (fun c => c_classified c = true) domains -> build_modules_for_cds domains = Ok ms ->
  Forall (fun m => L_order (m_comps m) = true) ms.
Proof.
  intros Hc Hb. eapply Forall_impl; [|eapply build_reload; eassumption]. intros m. apply reload_loader_order.
Qed.

Lemma slot_lists_example :
  exists m, build_modules_for_cds
      [mkComp 41 [Hit 1 []] 0 10; mkComp 1 [] 1 20; mkComp 1 [] 2 30; mkComp 28 [] 3 40; mkComp 11 [] 4 50] = Ok [m] /\
    reload m = Ok m /\ map cid (m_mods m) = [3; 4] /\ map cid (m_others m) = [2] /\
    map cid (others_pos (m_comps m)) = [2].
Proof. eexists. split; [vm_compute; reflexivity|]. repeat split. Qed.

(* ====================================================================================== *)
(* subtypes: a component carries the LIST of its domain's subtype hits (HMMResult.internal_hits); *)
(* Component.subtype / subtypes go through HMMResult.detailed_names                          *)
(* ====================================================================================== *)

(* detailed_names[1:] as a relation on the hits: one name per depth while the depth holds exactly one hit *)
Inductive chain : list hit -> list Z -> Prop :=
| chain_stop hs : (forall x, hs <> [x]) -> chain hs []
| chain_step i hs ns : chain hs ns -> chain [Hit i hs] (i :: ns).

Lemma names_from_chain : forall h, chain [h] (names_from h).
Proof.
  fix IH 1. intros [i hs]. cbn [names_from].
  destruct hs as [|x [|y r]].
  - apply chain_step. apply chain_stop. intros x; discriminate.
  - apply chain_step. apply IH.
  - apply chain_step. apply chain_stop. intros z; discriminate.
Qed.

Lemma detailed_tail_chain hs : chain hs (detailed_tail hs).
Proof.
  destruct hs as [|x [|y r]]; cbn [detailed_tail].
  - apply chain_stop. intros x; discriminate.
  - apply names_from_chain.
  - apply chain_stop. intros z; discriminate.
Qed.

Lemma chain_unique : forall hs ns, chain hs ns -> forall ns', chain hs ns' -> ns = ns'.
Proof.
  induction 1 as [hs Hn|i hs ns _ IH]; intros ns' H'.
  - inversion H' as [|i' hs' ns0 _ E]; subst; [reflexivity|]. exfalso. exact (Hn _ eq_refl).
  - inversion H' as [hs0 Hn|i' hs' ns0 Hc]; subst.
    + exfalso. exact (Hn _ eq_refl).
    + f_equal. apply IH. exact Hc.
Qed.

(* Component.subtypes is THE chain of single hits below the domain *)
Lemma subtypes_chain c ns : subtypes c = ns <-> chain (sub c) ns.
Proof.
  unfold subtypes. split.
  - intros <-. apply detailed_tail_chain.
  - intros H. apply (chain_unique _ _ (detailed_tail_chain (sub c)) _ H).
Qed.

(* Component.subtype = Some k iff the domain holds exactly one first-level subtype hit, named k *)
Lemma subtype_some_iff c k : subtype c = Some k <-> exists hs, sub c = [Hit k hs].
Proof.
  rewrite subtype_spec. unfold spec_subtype. split.
  - destruct (sub c) as [|[i hs] [|y r]]; try discriminate. intros H; inversion H; subst. eexists; reflexivity.
  - intros [hs ->]. reflexivity.
Qed.
Lemma subtype_none_iff c : subtype c = None <-> length (sub c) <> 1%nat.
Proof.
  rewrite subtype_spec. unfold spec_subtype.
  destruct (sub c) as [|[i hs] [|y r]]; cbn [length]; split; intros H; try reflexivity; try discriminate; try lia.
Qed.
(* the two views of a component agree: the subtype is the first of the subtypes *)
Lemma subtype_head c : subtype c = hd_error (subtypes c).
Proof. unfold subtype. destruct (subtypes c); reflexivity. Qed.

Lemma subtype_unambiguous_only c :
  (forall k, subtype c = Some k <-> exists hs, sub c = [Hit k hs]) /\
  (subtype c = None <-> length (sub c) <> 1%nat) /\
  subtype c = hd_error (subtypes c).
Proof. split; [intros k; apply subtype_some_iff|]. split; [apply subtype_none_iff|apply subtype_head]. Qed.

Lemma c_tat_iff c : c_tat c = true <-> exists hs, sub c = [Hit S_Trans_AT_KS hs].
Proof.
  unfold c_tat. split.
  - destruct (sub c) as [|[i hs] [|y r]]; try discriminate. intros H. apply Z.eqb_eq in H. subst. eexists; reflexivity.
  - intros [hs ->]. reflexivity.
Qed.
Lemma c_iter_iff c : c_iter c = true <-> exists hs, sub c = [Hit S_Iterative_KS hs].
Proof.
  unfold c_iter. split.
  - destruct (sub c) as [|[i hs] [|y r]]; try discriminate. intros H. apply Z.eqb_eq in H. subst. eexists; reflexivity.
  - intros [hs ->]. reflexivity.
Qed.

(* Module.is_trans_at, read off the definition: PKS, starter, no loader, and the starter carries exactly one
   first-level subtype hit and that is Trans-AT-KS, or a Trans-AT docking domain is among the others *)
Lemma is_trans_at_iff m :
  is_trans_at m = true <->
  exists s, m_starter m = Some s /\ is_pks m = true /\ m_loader m = None /\
            ((exists hs, sub s = [Hit S_Trans_AT_KS hs]) \/ existsb c_atd (m_others m) = true).
Proof.
  unfold is_trans_at. change (fun c : comp => lab c =? c14_L_Trans_AT_docking) with c_atd. split.
  - destruct (m_starter m) as [s|]; [|discriminate].
    destruct (is_pks m); cbn [andb]; [|discriminate].
    destruct (m_loader m) as [l|]; cbn [isSome negb]; [discriminate|].
    rewrite subtype_is_tat. intros H. exists s. repeat split.
    apply orb_prop in H. destruct H as [H|H]; [left; apply c_tat_iff; exact H|right; exact H].
  - intros [s [-> [-> [-> H]]]]. cbn [isSome negb andb]. rewrite subtype_is_tat.
    destruct H as [H|H]; [apply c_tat_iff in H; rewrite H; reflexivity|rewrite H; apply orb_true_r].
Qed.

Lemma is_iterative_iff m :
  is_iterative m = true <-> exists s hs, m_starter m = Some s /\ sub s = [Hit S_Iterative_KS hs].
Proof.
  unfold is_iterative. split.
  - destruct (m_starter m) as [s|]; [|discriminate]. rewrite subtype_is_iter. intros H.
    apply c_iter_iff in H. destruct H as [hs H]. exists s, hs. split; [reflexivity|exact H].
  - intros [s [hs [-> H]]]. rewrite subtype_is_iter. apply c_iter_iff. eexists; exact H.
Qed.

(* trans-AT as the run-time specification reads it off the component list *)
Lemma spec_trans_at_iff cs :
  spec_trans_at cs = true <->
  existsb c_pks cs = true /\ existsb c_loader cs = false /\
  exists s, find c_starter cs = Some s /\
            ((exists hs, sub s = [Hit S_Trans_AT_KS hs]) \/ existsb c_atd cs = true).
Proof.
  unfold spec_trans_at. split.
  - intros H. apply andb_prop in H. destruct H as [H H3]. apply andb_prop in H. destruct H as [H1 H2].
    split; [exact H1|]. split; [destruct (existsb c_loader cs); [discriminate|reflexivity]|].
    destruct (find c_starter cs) as [s|]; [|discriminate]. exists s. split; [reflexivity|].
    apply orb_prop in H3. destruct H3 as [H3|H3]; [left; apply c_tat_iff; exact H3|right; exact H3].
  - intros [-> [-> [s [-> H]]]]. cbn [negb andb].
    destruct H as [H|H]; [apply c_tat_iff in H; rewrite H; reflexivity|rewrite H; apply orb_true_r].
Qed.

(* a module that obeys the rules and whose starter's subtype call is missing or AMBIGUOUS (no or several
   first-level subtype hits, whatever their names and order) is trans-AT only through a docking domain; without
   one it is not trans-AT and can be complete only with a loader *)
Lemma ambiguous_not_trans_at m s :
  rules_ok m -> find c_starter (m_comps m) = Some s -> length (sub s) <> 1%nat ->
  existsb c_atd (m_comps m) = false ->
  is_trans_at m = false /\ (is_complete m = true -> isSome (m_loader m) = true).
Proof.
  intros [_ [_ [_ [_ [_ [Hta _]]]]]] Hs Hn Ha.
  assert (Hf : is_trans_at m = false).
  { rewrite Hta. destruct (spec_trans_at (m_comps m)) eqn:E; [|reflexivity]. exfalso.
    apply spec_trans_at_iff in E. destruct E as [_ [_ [s' [Hs' [[hs Hh]|Hd]]]]].
    - rewrite Hs in Hs'. inversion Hs'; subst s'. rewrite Hh in Hn. apply Hn. reflexivity.
    - rewrite Ha in Hd. discriminate. }
  split; [exact Hf|]. intros Hc. apply is_complete_iff in Hc.
  destruct Hc as [[_ [Hl _]]|[Ht _]]; [exact Hl|rewrite Hf in Ht; discriminate].
Qed.

Lemma build_ambiguous_not_trans_at domains ms :
  Forall (fun c => c_classified c = true) domains -> build_modules_for_cds domains = Ok ms ->
  Forall (fun m => forall s, find c_starter (m_comps m) = Some s -> length (sub s) <> 1%nat ->
                   existsb c_atd (m_comps m) = false ->
                   is_trans_at m = false /\ (is_complete m = true -> isSome (m_loader m) = true)) ms.
Proof.
  intros Hc Hb. eapply Forall_impl; [|eapply build_layout; eassumption].
  intros m Hr s. apply ambiguous_not_trans_at. exact Hr.
Qed.

(* the seed-7 shape: KS with two first-level subtype hits (Trans-AT-KS listed first), ACP, KR *)
Lemma ambiguous_ks_example :
  exists m1 m2,
    build_modules_for_cds
      [mkComp 41 [Hit 1 []; Hit 3 []] 0 10; mkComp 1 [] 1 20; mkComp 40 [] 2 30] = Ok [m1; m2] /\
    map cid (m_comps m1) = [0; 1] /\ map cid (m_comps m2) = [2] /\
    is_trans_at m1 = false /\ is_complete m1 = false /\
    map subtype (m_comps m1) = [None; None] /\ map subtypes (m_comps m1) = [[]; []].
Proof. do 2 eexists. split; [vm_compute; reflexivity|]. repeat split. Qed.

(* an unambiguous Trans-AT-KS with a nested transATor clade call: one complete trans-AT module *)
Lemma nested_tat_example :
  exists m,
    build_modules_for_cds
      [mkComp 41 [Hit 1 [Hit 6 []]] 0 10; mkComp 1 [] 1 20; mkComp 40 [] 2 30] = Ok [m] /\
    is_trans_at m = true /\ is_complete m = true /\
    map subtype (m_comps m) = [Some 1; None; None] /\ map subtypes (m_comps m) = [[1; 6]; []; []].
Proof. eexists. split; [vm_compute; reflexivity|]. repeat split. Qed.

(* across genes: a lone ambiguous KS is not merged with the next gene's ACP, KR; an unambiguous one is *)
Lemma ambiguous_ks_combine_example :
  exists p c,
    build_modules_for_cds [mkComp 41 [Hit 1 []; Hit 3 []] 0 10] = Ok p /\
    build_modules_for_cds [mkComp 1 [] 1 10; mkComp 40 [] 2 20] = Ok c /\
    combine_modules true c p = Ok (None, p, c).
Proof. do 2 eexists. repeat split; vm_compute; reflexivity. Qed.
