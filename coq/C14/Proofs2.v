(* C14, continued: look-ahead, reload identity, totality of combine_modules. *)
From ASV.C14 Require Import Model Proofs.
From ASV.Gen Require Import Tables_gen.
From Coq Require Import ZifyBool.

(* ================= part A: look-ahead, reload, combine totality ================= *)

(* the look-ahead window of build_modules_for_cds is two components: every registered case must fit *)
Lemma table_cases_len2 :
  forallb (fun case => (length case =? 2)%nat) c14_double_transporter_cases = true.
Proof. vm_compute. reflexivity. Qed.

Lemma case_len2 case : In case c14_double_transporter_cases -> length case = 2%nat.
Proof.
  intros H. pose proof table_cases_len2 as T. rewrite forallb_forall in T.
  specialize (T _ H). apply Nat.eqb_eq in T. exact T.
Qed.

Lemma fold_cases_ext up1 up2 cases :
  (forall case, In case cases -> case_matches up1 case = case_matches up2 case) ->
  forall acc,
    fold_left (fun acc case => if case_matches up1 case then zlen case else acc) cases acc =
    fold_left (fun acc case => if case_matches up2 case then zlen case else acc) cases acc.
Proof.
  induction cases as [|case cases IH]; intros H acc; cbn; [reflexivity|].
  rewrite (H case (or_introl eq_refl)). apply IH. intros c Hc. apply H. right. exact Hc.
Qed.

Lemma double_len_firstn2 la : double_len (firstn 2 la) = double_len la.
Proof.
  unfold double_len. apply fold_cases_ext. intros case Hc.
  rewrite <- firstn_map. unfold case_matches. rewrite (case_len2 _ Hc).
  rewrite firstn_firstn. reflexivity.
Qed.

Lemma fold_cases_pos up cases :
  (forall case, In case cases -> 0 < zlen case) ->
  forall acc, 0 <= acc ->
    (0 <? fold_left (fun acc case => if case_matches up case then zlen case else acc) cases acc)
    = (0 <? acc) || existsb (case_matches up) cases.
Proof.
  induction cases as [|case cases IH]; intros H acc Hacc; cbn.
  - rewrite orb_false_r. reflexivity.
  - destruct (case_matches up case) eqn:E.
    + rewrite IH; [|intros c Hc; apply H; right; exact Hc|unfold zlen; lia].
      assert (0 < zlen case) by (apply H; left; reflexivity).
      replace (0 <? zlen case) with true by lia. cbn. rewrite orb_true_r. reflexivity.
    + rewrite IH; [reflexivity|intros c Hc; apply H; right; exact Hc|exact Hacc].
Qed.

Lemma double_case_len la : double_case la = (0 <? double_len la).
Proof.
  unfold double_case, double_len. rewrite fold_cases_pos; [reflexivity| |lia].
  intros case Hc. unfold zlen. rewrite (case_len2 _ Hc). lia.
Qed.

Lemma double_len_val la : 0 < double_len la -> double_len la = 2.
Proof.
  intros H. unfold double_len in *.
  destruct (double_len_case la c14_double_transporter_cases 0) as [H0|[case [Hin [_ Hr]]]];
    cbn zeta in *; [lia|].
  rewrite Hr. unfold zlen. rewrite (case_len2 _ Hin). reflexivity.
Qed.

Lemma add_la_eq m c la1 la2 :
  double_len la1 = double_len la2 -> add_component m c la1 = add_component m c la2.
Proof.
  intros H. unfold add_component, ensure_suitable. rewrite !double_case_len, H. reflexivity.
Qed.

(* ---------- class facts from the generated tables ---------- *)
Definition class_ok (c : comp) : bool :=
  implb (c_loader c) (c_starter c)
  && implb (c_mod c) (negb (c_starter c) && negb (c_cp c) && negb (c_end c) && negb (c_special c) && negb (c_ignored c))
  && implb (c_cp c) (negb (c_starter c) && negb (c_end c) && negb (c_special c) && negb (c_ignored c))
  && implb (c_end c) (negb (c_starter c) && negb (c_special c) && negb (c_ignored c))
  && implb (c_special c) (negb (c_starter c) && negb (c_ignored c))
  && implb (c_starter c) (negb (c_ignored c))
  && implb (lab c =? c14_L_Trans_AT_docking) (c_special c)
  && implb (c_kr c) (c_mod c)
  && negb (c_pks c && c_nrps c).

Lemma table_class_ok :
  forallb (fun l => class_ok (mkComp l [] 0 0)) (concat c14_classification_order) = true.
Proof. vm_compute. reflexivity. Qed.

Lemma existsb_concat_in x (ll : list (list Z)) :
  existsb (zmem x) ll = true -> In x (concat ll).
Proof.
  intros H. apply existsb_exists in H. destruct H as [l [Hl Hx]].
  unfold zmem in Hx. apply existsb_exists in Hx. destruct Hx as [y [Hy E]]. apply Z.eqb_eq in E. subst y.
  apply in_concat. exists l. split; assumption.
Qed.

Lemma classified_class_ok c : c_classified c = true -> class_ok c = true.
Proof.
  intros H. unfold c_classified in H. apply existsb_concat_in in H.
  pose proof table_class_ok as T. rewrite forallb_forall in T. exact (T _ H).
Qed.

Lemma add_classified m c la m' : add_component m c la = Ok m' -> c_classified c = true.
Proof.
  unfold add_component. destruct (c_classified c); [reflexivity|discriminate].
Qed.

(* ---------- a pending look-ahead acceptance takes the next component unconditionally ---------- *)
Definition pend_result (m : module) (c : comp) : module :=
  mkModule (m_comps m ++ [c]) (m_starter m) (m_loader m) (m_mods m ++ [c]) (m_cp m) (m_end m)
           (m_others m) (m_first m) (m_unamb m - 1).

Lemma add_pending m c la : 0 < m_unamb m -> plain_mod_label (lab c) = true ->
  add_component m c la = Ok (pend_result m c).
Proof.
  intros Hu Hp. apply plain_comp in Hp. destruct Hp as [Hm [Hi [Hs [Hl Hcl]]]].
  unfold add_component. rewrite Hcl, Hi. replace (0 <? m_unamb m) with true by lia.
  cbn [negb bind]. rewrite Hs, Hl, Hm. cbn [andb]. reflexivity.
Qed.

Lemma pending_is_zero_if m c rest : pending_ok m (c :: rest) ->
  plain_mod_label (lab c) = false -> m_unamb m = 0.
Proof.
  intros Hp Hn. destruct (Z_lt_le_dec 0 (m_unamb m)) as [H|H].
  - rewrite (pending_head _ _ _ Hp H) in Hn. discriminate.
  - destruct Hp as [H0|[case [_ [Hpos _]]]]; [assumption|lia].
Qed.

Lemma pending_nil m : pending_ok m [] -> m_unamb m = 0.
Proof.
  intros [H0|[case [_ [Hpos [_ [_ Hlen]]]]]]; [assumption|]. cbn in Hlen. lia.
Qed.

Lemma pending_nonneg m rest : pending_ok m rest -> 0 <= m_unamb m.
Proof. intros [H0|[case [_ [Hpos _]]]]; lia. Qed.

(* in a normal step the look-ahead matters only when a second carrier protein is accepted *)
Lemma add_la_cases m c la m' : m_unamb m <= 0 ->
  add_component m c la = Ok m' ->
  (forall la2, add_component m c la2 = Ok m') \/ (0 < double_len la /\ m_unamb m' = double_len la).
Proof.
  intros Hu Hadd. pose proof (classified_class_ok _ (add_classified _ _ _ _ Hadd)) as Hk.
  unfold add_component in *.
  destruct (negb (c_classified c)); [discriminate|].
  destruct (c_ignored c) eqn:Hi; [left; intros; exact Hadd|].
  replace (0 <? m_unamb m) with false in * by lia.
  unfold ensure_suitable in *. rewrite Hi in *. rewrite double_case_len in *.
  unfold class_ok in Hk. rewrite Hi in Hk.
  destruct (c_special c), (c_starter c), (c_loader c), (c_mod c), (c_cp c), (c_end c);
    cbn in Hk; try discriminate; cbn [andb orb negb bind] in *;
    try (left; intros la2; rewrite ?double_case_len; exact Hadd).
  (* a carrier protein *)
  destruct (isSome (m_end m)); cbn [bind] in *; [discriminate|].
  destruct (isSome (m_cp m)); cbn [negb bind] in *; [|left; intros; exact Hadd].
  destruct (existsb c_cp (m_others m)); cbn [bind] in *; [discriminate|].
  destruct (0 <? double_len la) eqn:E; cbn [bind] in *; [|discriminate].
  right. split; [lia|]. inversion Hadd. reflexivity.
Qed.

(* ---------- replay with an extension of the look-ahead ---------- *)
Fixpoint replay_ext (m : module) (cs ext : list comp) : res module :=
  match cs with
  | [] => Ok m
  | c :: r => do m' <- add_component m c (r ++ ext); replay_ext m' r ext
  end.

Lemma replay_ext_nil cs : forall m, replay_ext m cs [] = replay m cs.
Proof.
  induction cs as [|c cs IH]; intros m; cbn; [reflexivity|]. rewrite app_nil_r.
  destruct (add_component m c cs); cbn [bind]; [apply IH|reflexivity].
Qed.

Lemma replay_ext_app a : forall m b ext,
  replay_ext m (a ++ b) ext = do m1 <- replay_ext m a (b ++ ext); replay_ext m1 b ext.
Proof.
  induction a as [|c a IH]; intros m b ext; cbn; [reflexivity|]. rewrite <- app_assoc.
  destruct (add_component m c (a ++ b ++ ext)); cbn [bind]; [apply IH|reflexivity].
Qed.

Lemma replay_ext_snoc m cs c ext :
  replay_ext m (cs ++ [c]) ext = do m1 <- replay_ext m cs (c :: ext); add_component m1 c ext.
Proof.
  rewrite replay_ext_app. cbn [app]. destruct (replay_ext m cs (c :: ext)); cbn [bind replay_ext app]; [|reflexivity].
  destruct (add_component a c ext); reflexivity.
Qed.

(* an accepted step stays accepted, with the same result, when the look-ahead is extended *)
Lemma double_len_app r ext : 0 < double_len r -> double_len (r ++ ext) = double_len r.
Proof.
  intros H. rewrite <- (double_len_firstn2 (r ++ ext)), <- (double_len_firstn2 r).
  assert (Hl : (2 <= length r)%nat).
  { unfold double_len in H.
    destruct (double_len_case r c14_double_transporter_cases 0) as [H0|[case [Hin [Hm _]]]]; cbn zeta in *; [lia|].
    apply case_matches_firstn in Hm. rewrite (case_len2 _ Hin) in Hm.
    assert (length (firstn 2 (map lab r)) = 2%nat) by (rewrite Hm; apply case_len2; assumption).
    rewrite firstn_length, map_length in H0. lia. }
  rewrite firstn_app. replace (2 - length r)%nat with 0%nat by lia. cbn [firstn]. rewrite app_nil_r. reflexivity.
Qed.

Lemma add_ext m c r ext m' : pending_ok m (c :: r) ->
  add_component m c r = Ok m' -> add_component m c (r ++ ext) = Ok m'.
Proof.
  intros Hp Hadd. destruct (Z_lt_le_dec 0 (m_unamb m)) as [Hu|Hu].
  - pose proof (pending_head _ _ _ Hp Hu) as Hpl.
    rewrite (add_pending _ _ r Hu Hpl) in Hadd. rewrite (add_pending _ _ (r ++ ext) Hu Hpl). exact Hadd.
  - destruct (add_la_cases _ _ _ _ Hu Hadd) as [H|[Hpos _]]; [apply H|].
    rewrite <- Hadd. apply add_la_eq. apply double_len_app. exact Hpos.
Qed.

Lemma replay_to_ext cs : forall m m' ext, inv12 m cs ->
  replay m cs = Ok m' -> replay_ext m cs ext = Ok m'.
Proof.
  induction cs as [|c r IH]; intros m m' ext Hinv H; cbn in *; [exact H|].
  destruct (add_component m c r) as [m1|k] eqn:Ha; cbn [bind] in H; [|discriminate].
  rewrite (add_ext _ _ _ ext _ (proj2 Hinv) Ha). cbn [bind]. apply IH; [|exact H].
  eapply add_inv12; [exact Hinv| |exact Ha]. symmetry. apply firstn_all.
Qed.

(* ---------- first_in_cds plays no role in add_component ---------- *)
Definition set_first (b : bool) (m : module) : module :=
  mkModule (m_comps m) (m_starter m) (m_loader m) (m_mods m) (m_cp m) (m_end m) (m_others m) b (m_unamb m).
Definition res_map {A B} (f : A -> B) (r : res A) : res B := match r with Ok a => Ok (f a) | Err k => Err k end.

Lemma is_trans_at_set_first b m : is_trans_at (set_first b m) = is_trans_at m.
Proof. reflexivity. Qed.

Lemma add_set_first b m c la :
  add_component (set_first b m) c la = res_map (set_first b) (add_component m c la).
Proof.
  unfold add_component, ensure_suitable. rewrite is_trans_at_set_first. cbn [set_first m_comps m_starter m_loader m_mods m_cp m_end m_others m_first m_unamb with_comp].
  destruct (negb (c_classified c)); [reflexivity|].
  destruct (c_ignored c); [reflexivity|].
  repeat match goal with
         | |- context [if ?b then _ else _] => destruct b; cbn [bind res_map orb andb negb]
         end; try reflexivity.
Qed.

Lemma replay_ext_set_first b cs : forall m ext,
  replay_ext (set_first b m) cs ext = res_map (set_first b) (replay_ext m cs ext).
Proof.
  induction cs as [|c r IH]; intros m ext; cbn [replay_ext]; [reflexivity|].
  rewrite add_set_first. destruct (add_component m c (r ++ ext)); cbn [bind res_map]; [apply IH|reflexivity].
Qed.

Lemma set_first_empty b f : set_first b (empty_module f) = empty_module b.
Proof. reflexivity. Qed.

Lemma set_first_id m : set_first (m_first m) m = m.
Proof. destruct m; reflexivity. Qed.

(* ---------- J: the module under construction is what a replay of its components gives ---------- *)
Definition J (m : module) (rest : list comp) : Prop :=
  forall ext, firstn (Z.to_nat (m_unamb m)) ext = firstn (Z.to_nat (m_unamb m)) rest ->
    replay_ext (empty_module (m_first m)) (m_comps m) ext = Ok m.

Lemma J_empty f rest : J (empty_module f) rest.
Proof. intros ext _. reflexivity. Qed.

Lemma J_step m c rest m' :
  inv12 m (c :: rest) -> J m (c :: rest) ->
  add_component m c (firstn 2 rest) = Ok m' -> J m' rest.
Proof.
  intros [I1 I2] HJ Hadd ext Hext.
  pose proof (add_comps _ _ _ _ Hadd) as Hc. pose proof (add_first _ _ _ _ Hadd) as Hf.
  destruct (c_ignored c) eqn:Hi.
  - apply add_ignored in Hadd; [|exact Hi]. subst m'.
    assert (H0 : m_unamb m = 0).
    { apply (pending_is_zero_if _ _ _ I2). destruct (plain_mod_label (lab c)) eqn:E; [|reflexivity].
      apply plain_comp in E. destruct E as [_ [E _]]. congruence. }
    apply HJ. rewrite H0. reflexivity.
  - rewrite Hc, Hf, replay_ext_snoc.
    destruct (Z_lt_le_dec 0 (m_unamb m)) as [Hu|Hu].
    + pose proof (pending_head _ _ _ I2 Hu) as Hpl.
      rewrite (add_pending _ _ _ Hu Hpl) in Hadd. inversion Hadd; subst m'; clear Hadd.
      cbn [pend_result m_unamb] in Hext.
      rewrite (HJ (c :: ext)).
      * cbn [bind]. apply add_pending; assumption.
      * replace (Z.to_nat (m_unamb m)) with (S (Z.to_nat (m_unamb m - 1))) by lia.
        cbn [firstn]. rewrite Hext. reflexivity.
    + assert (H0 : m_unamb m = 0) by (pose proof (pending_nonneg _ _ I2); lia).
      rewrite (HJ (c :: ext)) by (rewrite H0; reflexivity). cbn [bind].
      destruct (add_la_cases _ _ _ _ Hu Hadd) as [H|[Hpos Hun]]; [apply H|].
      rewrite <- Hadd. apply add_la_eq.
      rewrite double_len_firstn2 in Hpos, Hun. rewrite (double_len_firstn2 rest).
      rewrite (double_len_val _ Hpos) in Hun. rewrite Hun in Hext.
      change (Z.to_nat 2) with 2%nat in Hext.
      rewrite <- (double_len_firstn2 ext), Hext. apply double_len_firstn2.
Qed.

Lemma add_empty_la f c la1 la2 :
  add_component (empty_module f) c la1 = add_component (empty_module f) c la2.
Proof.
  unfold add_component. rewrite !ensure_empty. reflexivity.
Qed.

(* ---------- a generic invariant rule for build ---------- *)
Lemma build_inv_gen (Q : module -> list comp -> Prop) (P : module -> Prop) :
  (forall f rest, Q (empty_module f) rest) ->
  (forall m c rest m', inv m (c :: rest) -> Q m (c :: rest) ->
      add_component m c (firstn 2 rest) = Ok m' -> Q m' rest) ->
  (forall m rest, inv m rest -> Q m rest -> m_unamb m = 0 -> P m) ->
  forall cs, Forall (fun c => c_classified c = true) cs ->
  forall done cur ms, inv cur cs -> Q cur cs -> Forall P done ->
    build done cur cs = Ok ms -> Forall P ms.
Proof.
  intros Hempty Hstep Hclose. induction 1 as [|c rest Hc Hrest IH]; intros done cur ms Hinv HQ Hdone Hb.
  - cbn [build] in Hb. inversion Hb; subst ms. apply Forall_app. split; [assumption|].
    destruct (nonempty (m_comps cur)); constructor; [|constructor].
    apply (Hclose cur [] Hinv HQ). apply pending_nil. exact (proj2 (proj1 Hinv)).
  - cbn [build] in Hb.
    destruct (c_starter c && negb (c_loader c) && nonempty (m_comps cur)) eqn:Hs.
    + assert (Hcur : P cur).
      { apply (Hclose cur (c :: rest) Hinv HQ).
        apply (pending_is_zero_if _ _ _ (proj2 (proj1 Hinv))).
        destruct (plain_mod_label (lab c)) eqn:E; [|reflexivity].
        apply plain_comp in E. destruct E as [_ [_ [E _]]]. rewrite E in Hs. discriminate. }
      destruct (add_component (empty_module false) c (firstn 2 rest)) as [cur2|k] eqn:Ha.
      * apply (IH (done ++ [cur]) cur2 ms); [| | |exact Hb].
        -- eapply add_inv; [apply inv_empty|apply firstn_firstn_self|exact Ha].
        -- eapply Hstep; [apply inv_empty|apply Hempty|exact Ha].
        -- apply Forall_app. split; [assumption|]. constructor; [assumption|constructor].
      * destruct (add_empty_total false c (firstn 2 rest) Hc) as [mm Hmm]. congruence.
    + destruct (add_component cur c (firstn 2 rest)) as [cur2|k] eqn:Ha.
      * apply (IH done cur2 ms); [| |assumption|exact Hb].
        -- eapply add_inv; [exact Hinv|apply firstn_firstn_self|exact Ha].
        -- eapply Hstep; [exact Hinv|exact HQ|exact Ha].
      * assert (Hk : k = E_Incompatible) by (eapply add_no_assert; [exact (proj1 Hinv)|exact Hc|exact Ha]). subst k.
        cbn [Z.eqb E_Incompatible Pos.eqb] in Hb.
        assert (Hcur : P cur).
        { apply (Hclose cur (c :: rest) Hinv HQ).
          destruct (Z_lt_le_dec 0 (m_unamb cur)) as [Hu|Hu].
          - pose proof (pending_head _ _ _ (proj2 (proj1 Hinv)) Hu) as E.
            rewrite (add_pending _ _ _ Hu E) in Ha. discriminate.
          - pose proof (pending_nonneg _ _ (proj2 (proj1 Hinv))). lia. }
        assert (Hne : nonempty (m_comps cur) = true).
        { destruct (m_comps cur) eqn:Ecomps; [|reflexivity]. exfalso.
          destruct Hinv as [_ H3]. rewrite (H3 Ecomps) in Ha.
          destruct (add_empty_total (m_first cur) c (firstn 2 rest) Hc) as [mm Hmm]. congruence. }
        destruct (add_component (empty_module false) c []) as [cur2|k] eqn:Ha2; cbn [bind] in Hb; [|discriminate].
        apply (IH (done ++ [cur]) cur2 ms); [| | |exact Hb].
        -- eapply add_inv; [apply inv_empty| |exact Ha2]. reflexivity.
        -- rewrite (add_empty_la false c [] (firstn 2 rest)) in Ha2.
           eapply Hstep; [apply inv_empty|apply Hempty|exact Ha2].
        -- apply Forall_app. split; [assumption|]. constructor; [assumption|constructor].
Qed.

(* ---------- closed modules: what build_modules_for_cds hands out ---------- *)
Definition good_comp (c : comp) : Prop := c_classified c = true /\ c_ignored c = false.

Definition closedA (m : module) : Prop :=
  m_unamb m = 0 /\
  (forall ext, replay_ext (empty_module (m_first m)) (m_comps m) ext = Ok m) /\
  Forall good_comp (m_comps m) /\
  (m_starter m = None -> m_loader m = None).

Definition QA (m : module) (rest : list comp) : Prop := J m rest /\ Forall good_comp (m_comps m).

Lemma QA_empty f rest : QA (empty_module f) rest.
Proof. split; [apply J_empty|constructor]. Qed.

Lemma good_comps_step m c la m' : Forall good_comp (m_comps m) ->
  add_component m c la = Ok m' -> Forall good_comp (m_comps m').
Proof.
  intros HF Ha. rewrite (add_comps _ _ _ _ Ha). destruct (c_ignored c) eqn:Hi; [assumption|].
  apply Forall_app. split; [assumption|]. constructor; [|constructor].
  split; [eapply add_classified; exact Ha|exact Hi].
Qed.

Lemma QA_step m c rest m' : inv m (c :: rest) -> QA m (c :: rest) ->
  add_component m c (firstn 2 rest) = Ok m' -> QA m' rest.
Proof.
  intros [H12 _] [HJ HF] Ha. split; [eapply J_step; eassumption|eapply good_comps_step; eassumption].
Qed.

Lemma QA_close m rest : inv m rest -> QA m rest -> m_unamb m = 0 -> closedA m.
Proof.
  intros [[I1 _] _] [HJ HF] H0. split; [exact H0|]. split; [|split; assumption].
  intros ext. apply HJ. rewrite H0. reflexivity.
Qed.

Lemma build_closedA domains ms :
  Forall (fun c => c_classified c = true) domains ->
  build_modules_for_cds domains = Ok ms -> Forall closedA ms.
Proof.
  intros Hc Hb. unfold build_modules_for_cds in Hb.
  destruct (build [] (empty_module true) (sort_comps domains)) as [ms0|k] eqn:E; cbn [bind] in Hb; [|discriminate].
  destruct (forallb (fun m => nonempty (m_comps m)) ms0); [|discriminate]. inversion Hb; subst ms0.
  eapply (build_inv_gen QA closedA QA_empty QA_step QA_close); [| | | |exact E].
  - apply sort_by_Forall. exact Hc.
  - apply inv_empty.
  - apply QA_empty.
  - constructor.
Qed.

Lemma closedA_reload m : closedA m -> reload m = Ok m.
Proof. intros [_ [H _]]. unfold reload. rewrite <- replay_ext_nil. apply H. Qed.

Lemma build_reload domains ms :
  Forall (fun c => c_classified c = true) domains ->
  build_modules_for_cds domains = Ok ms -> Forall (fun m => reload m = Ok m) ms.
Proof.
  intros Hc Hb. eapply Forall_impl; [|eapply build_closedA; eassumption].
  intros m. apply closedA_reload.
Qed.

(* ---------- replay: only IncompatibleComponentError can come out ---------- *)
Lemma replay_inv12 cs : forall m, inv12 m cs -> Forall good_comp cs ->
  (forall k, replay m cs = Err k -> k = E_Incompatible) /\
  (forall m', replay m cs = Ok m' -> inv12 m' []).
Proof.
  induction cs as [|c r IH]; intros m Hinv HF; cbn [replay].
  - split; [discriminate|]. intros m' H. inversion H; subst. exact Hinv.
  - inversion HF as [|? ? [Hc _] HF']; subst.
    destruct (add_component m c r) as [m1|k] eqn:Ha; cbn [bind].
    + apply IH; [|assumption]. eapply add_inv12; [exact Hinv| |exact Ha]. symmetry. apply firstn_all.
    + split; [|discriminate]. intros k' H. inversion H; subst k'.
      eapply add_no_assert; [exact Hinv|exact Hc|exact Ha].
Qed.

Lemma replay_first cs : forall m m', replay m cs = Ok m' -> m_first m' = m_first m.
Proof.
  induction cs as [|c r IH]; intros m m' H; cbn in H; [inversion H; reflexivity|].
  destruct (add_component m c r) as [m1|k] eqn:Ha; cbn [bind] in H; [|discriminate].
  rewrite (IH _ _ H). eapply add_first. exact Ha.
Qed.

Lemma good_keep cs : Forall good_comp cs -> keep cs = cs.
Proof. intros H. apply keep_idem_comps. eapply Forall_impl; [|exact H]. intros c [_ Hi]. exact Hi. Qed.

Lemma last_opt_in {A} (l : list A) x : last_opt l = Some x -> In x l.
Proof.
  unfold last_opt. intros H. apply in_rev. destruct (rev l); [discriminate|]. inversion H. left. reflexivity.
Qed.

Lemma double_len_pos_length r : 0 < double_len r -> (2 <= length r)%nat.
Proof.
  intros H. unfold double_len in H.
  destruct (double_len_case r c14_double_transporter_cases 0) as [H0|[case [Hin [Hm _]]]]; cbn zeta in *; [lia|].
  apply case_matches_firstn in Hm. rewrite (case_len2 _ Hin) in Hm.
  assert (length (firstn 2 (map lab r)) = 2%nat) by (rewrite Hm; apply case_len2; assumption).
  rewrite firstn_length, map_length in H0. lia.
Qed.

(* the head of a merge, replayed into a fresh non-first module *)
Lemma closedA_replay_head head ext : closedA head ->
  replay_ext (empty_module false) (m_comps head) ext = Ok (set_first false head).
Proof.
  intros [_ [H _]]. rewrite <- (set_first_empty false (m_first head)), replay_ext_set_first, H. reflexivity.
Qed.

Lemma closedA_head_inv12 head rest : closedA head -> inv12 (set_first false head) rest.
Proof. intros [H0 [_ [_ I1]]]. split; [exact I1|left; exact H0]. Qed.

Lemma inv12_nil_any m rest : inv12 m [] -> inv12 m rest.
Proof. intros [I1 I2]. split; [exact I1|left; apply pending_nil; exact I2]. Qed.

(* merging two closed modules gives a closed module *)
Lemma merge_closed head tail m2 :
  closedA head -> closedA tail ->
  replay (set_first false head) (m_comps tail) = Ok m2 -> closedA m2.
Proof.
  intros Hh Ht H2.
  pose proof (closedA_head_inv12 head (m_comps tail) Hh) as Hinv1.
  destruct Hh as [Hh0 [HhJ [HhF HhI]]]. destruct Ht as [Ht0 [HtJ [HtF HtI]]].
  destruct (replay_inv12 _ _ Hinv1 HtF) as [_ Hok]. specialize (Hok _ H2).
  assert (Hc : m_comps m2 = m_comps head ++ m_comps tail).
  { rewrite (replay_comps _ _ _ H2), (good_keep _ HtF). reflexivity. }
  assert (Hf : m_first m2 = false) by (rewrite (replay_first _ _ _ H2); reflexivity).
  split; [apply pending_nil; exact (proj2 Hok)|]. split; [|split; [|exact (proj1 Hok)]].
  - intros ext. rewrite Hc, Hf, replay_ext_app.
    rewrite <- (set_first_empty false (m_first head)), replay_ext_set_first, HhJ. cbn [res_map bind].
    apply replay_to_ext; assumption.
  - rewrite Hc. apply Forall_app. split; assumption.
Qed.

Lemma snoc_closed m2 kr m3 : closedA m2 -> add_component m2 kr [] = Ok m3 -> closedA m3.
Proof.
  intros [H0 [HJ [HF HI]]] Ha.
  assert (Hinv : inv12 m2 [kr]) by (split; [exact HI|left; exact H0]).
  assert (Hinv3 : inv12 m3 []) by (eapply add_inv12; [exact Hinv| |exact Ha]; reflexivity).
  split; [apply pending_nil; exact (proj2 Hinv3)|]. split; [|split; [eapply good_comps_step; eassumption|exact (proj1 Hinv3)]].
  intros ext. rewrite (add_first _ _ _ _ Ha), (add_comps _ _ _ _ Ha).
  destruct (c_ignored kr) eqn:Hi.
  - apply add_ignored in Ha; [|exact Hi]. subst m3. apply HJ.
  - rewrite replay_ext_snoc, HJ. cbn [bind].
    destruct (add_la_cases m2 kr [] m3 ltac:(lia) Ha) as [H|[Hpos _]]; [apply H|].
    apply double_len_pos_length in Hpos. cbn in Hpos. lia.
Qed.

(* combine_modules never raises on closed modules, and keeps the lists closed *)
Lemma combine_total_closed same current previous :
  Forall closedA previous -> Forall closedA current ->
  exists om p' c', combine_modules same current previous = Ok (om, p', c') /\
    match om with Some m => closedA m | None => True end.
Proof.
  intros Hp Hc. unfold combine_modules.
  destruct (negb same); [do 3 eexists; split; [reflexivity|exact I]|].
  destruct (last_opt previous) as [head|] eqn:Eh; [|do 3 eexists; split; [reflexivity|exact I]].
  destruct current as [|tail crest]; [do 3 eexists; split; [reflexivity|exact I]|].
  match goal with |- context [if ?b then _ else _] => destruct b end; [do 3 eexists; split; [reflexivity|exact I]|].
  match goal with |- context [if ?b then _ else _] => destruct b end; [do 3 eexists; split; [reflexivity|exact I]|].
  assert (Hhead : closedA head).
  { rewrite Forall_forall in Hp. apply Hp. apply last_opt_in. exact Eh. }
  inversion Hc as [|? ? Htail Hcrest]; subst.
  rewrite <- replay_ext_nil, (closedA_replay_head head [] Hhead). cbn [bind].
  pose proof (closedA_head_inv12 head (m_comps tail) Hhead) as Hinv1.
  destruct (replay_inv12 _ _ Hinv1 (proj1 (proj2 (proj2 Htail)))) as [Herr Hok].
  destruct (replay (set_first false head) (m_comps tail)) as [m2|k] eqn:E2.
  2:{ rewrite (Herr k eq_refl). do 3 eexists; split; [reflexivity|exact I]. }
  pose proof (merge_closed _ _ _ Hhead Htail E2) as Hm2.
  destruct (negb (is_complete m2)); [do 3 eexists; split; [reflexivity|exact I]|].
  destruct crest as [|next rest']; [do 3 eexists; split; [reflexivity|exact Hm2]|].
  destruct (m_comps next) as [|kr [|x xs]] eqn:En; try (do 3 eexists; split; [reflexivity|exact Hm2]).
  destruct (is_trans_at m2 && (lab kr =? c14_L_PKS_KR)); [|do 3 eexists; split; [reflexivity|exact Hm2]].
  destruct (add_component m2 kr []) as [m3|k] eqn:E3.
  - do 3 eexists; split; [reflexivity|]. eapply snoc_closed; eassumption.
  - assert (Hk : k = E_Incompatible).
    { apply (add_no_assert m2 kr [] [] k); [| |exact E3].
      - apply inv12_nil_any. exact (Hok _ eq_refl).
      - inversion Hcrest as [|? ? Hnext _]; subst. destruct Hnext as [_ [_ [HF _]]].
        rewrite En in HF. inversion HF as [|? ? [Hcl _] _]. exact Hcl. }
    subst k. do 3 eexists; split; [reflexivity|exact Hm2].
Qed.

