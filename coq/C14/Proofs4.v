(* C14, continued: the result of build_modules_for_cds does not depend on the order in which the hits are
   supplied.  build_modules_for_cds sorts the hits (stably) by query_start and takes everything - components,
   the two-component look-ahead - from the sorted list, so the modules are a function of the sorted list. *)
From ASV.C14 Require Import Model Proofs Proofs2 Proofs3.
From ASV.Gen Require Import Tables_gen.
From Coq Require Import Sorting.Permutation Sorting.Sorted.

(* ---------- the stable insertion sort by an integer key ---------- *)
Section KeySort.
  Context {A : Type} (key : A -> Z).
  Definition klt (a b : A) : bool := key a <? key b.
  Definition kle (a b : A) : Prop := key a <= key b.

  Lemma insert_perm x l : Permutation (x :: l) (insert_by klt x l).
  Proof.
    induction l as [|y l IH]; cbn; [apply Permutation_refl|].
    destruct (klt x y); [apply Permutation_refl|].
    eapply perm_trans; [apply perm_swap|]. apply perm_skip. exact IH.
  Qed.

  Lemma sort_perm_acc l : forall acc,
    Permutation (acc ++ l) (fold_left (fun acc x => insert_by klt x acc) l acc).
  Proof.
    induction l as [|x l IH]; intros acc; cbn; [rewrite app_nil_r; apply Permutation_refl|].
    eapply perm_trans; [|apply IH].
    eapply perm_trans; [apply Permutation_sym; apply Permutation_middle|].
    apply (Permutation_app_tail l (insert_perm x acc)).
  Qed.

  Lemma sort_by_perm l : Permutation l (sort_by klt l).
  Proof. unfold sort_by. exact (sort_perm_acc l []). Qed.

  Lemma insert_sorted x l : StronglySorted kle l -> StronglySorted kle (insert_by klt x l).
  Proof.
    induction 1 as [|y l Hs IH Hy]; cbn; [constructor; [constructor|constructor]|].
    unfold klt at 1. destruct (key x <? key y) eqn:E.
    - apply Z.ltb_lt in E. constructor; [constructor; assumption|].
      constructor; [unfold kle; lia|]. eapply Forall_impl; [|exact Hy]. unfold kle. intros a Ha. lia.
    - apply Z.ltb_ge in E. constructor; [exact IH|].
      eapply Permutation_Forall; [apply insert_perm|]. constructor; [exact E|exact Hy].
  Qed.

  Lemma sort_sorted_acc l : forall acc, StronglySorted kle acc ->
    StronglySorted kle (fold_left (fun acc x => insert_by klt x acc) l acc).
  Proof.
    induction l as [|x l IH]; intros acc Ha; cbn; [exact Ha|]. apply IH. apply insert_sorted. exact Ha.
  Qed.

  Lemma sort_by_sorted l : StronglySorted kle (sort_by klt l).
  Proof. unfold sort_by. apply sort_sorted_acc. constructor. Qed.

  (* an element not smaller than everything before it goes to the end: a sorted list is left alone
     (stability: equal keys keep their order) *)
  Lemma insert_last x l : Forall (fun y => key y <= key x) l -> insert_by klt x l = l ++ [x].
  Proof.
    induction 1 as [|y l Hy Hl IH]; cbn; [reflexivity|].
    unfold klt at 1. destruct (key x <? key y) eqn:E; [apply Z.ltb_lt in E; lia|]. rewrite IH. reflexivity.
  Qed.

  Lemma sort_sorted_id_acc l : forall acc, StronglySorted kle (acc ++ l) ->
    fold_left (fun acc x => insert_by klt x acc) l acc = acc ++ l.
  Proof.
    induction l as [|x l IH]; intros acc Hs; cbn; [rewrite app_nil_r; reflexivity|].
    assert (Hle : Forall (fun y => key y <= key x) acc).
    { clear IH. induction acc as [|a acc IHa]; [constructor|].
      cbn in Hs. inversion Hs as [|? ? Hs' Ha]; subst. constructor.
      - rewrite Forall_forall in Ha. apply Ha. apply in_or_app. right. left. reflexivity.
      - apply IHa. exact Hs'. }
    rewrite (insert_last x acc Hle). rewrite IH; rewrite <- app_assoc; [reflexivity|exact Hs].
  Qed.

  Lemma sort_by_sorted_id l : StronglySorted kle l -> sort_by klt l = l.
  Proof. intros H. unfold sort_by. apply (sort_sorted_id_acc l []). exact H. Qed.

  Lemma sort_by_idem l : sort_by klt (sort_by klt l) = sort_by klt l.
  Proof. apply sort_by_sorted_id. apply sort_by_sorted. Qed.

  (* two sorted arrangements of the same elements with pairwise different keys are the same list *)
  Lemma sorted_unique : forall l1 l2,
    StronglySorted kle l1 -> StronglySorted kle l2 -> Permutation l1 l2 -> NoDup (map key l1) -> l1 = l2.
  Proof.
    induction l1 as [|x l1 IH]; intros l2 H1 H2 Hp Hn.
    - apply Permutation_nil in Hp. subst. reflexivity.
    - destruct l2 as [|y l2]; [apply Permutation_sym, Permutation_nil in Hp; discriminate|].
      inversion H1 as [|? ? H1' Hx]; subst. inversion H2 as [|? ? H2' Hy]; subst.
      cbn in Hn. inversion Hn as [|? ? Hnx Hn']; subst.
      assert (Exy : x = y).
      { assert (Hyin : In y (x :: l1)) by (eapply Permutation_in; [apply Permutation_sym; exact Hp|left; reflexivity]).
        assert (Hxin : In x (y :: l2)) by (eapply Permutation_in; [exact Hp|left; reflexivity]).
        destruct Hyin as [E|Hyin]; [exact E|]. destruct Hxin as [E|Hxin]; [symmetry; exact E|].
        rewrite Forall_forall in Hx, Hy. pose proof (Hx y Hyin) as Ha. pose proof (Hy x Hxin) as Hb.
        unfold kle in Ha, Hb. exfalso. apply Hnx. assert (Ek : key x = key y) by lia. rewrite Ek.
        apply in_map. exact Hyin. }
      subst y. f_equal. apply IH; try assumption. eapply Permutation_cons_inv. exact Hp.
  Qed.

  Lemma sort_by_perm_eq l l' : Permutation l l' -> NoDup (map key l) -> sort_by klt l = sort_by klt l'.
  Proof.
    intros Hp Hn. apply sorted_unique; try apply sort_by_sorted.
    - eapply perm_trans; [apply Permutation_sym; apply sort_by_perm|].
      eapply perm_trans; [exact Hp|apply sort_by_perm].
    - eapply Permutation_NoDup; [|exact Hn]. apply Permutation_map. apply sort_by_perm.
  Qed.
End KeySort.

(* ---------- build_modules_for_cds ---------- *)
Lemma sort_comps_idem l : sort_comps (sort_comps l) = sort_comps l.
Proof. exact (sort_by_idem qstart l). Qed.
Lemma sort_comps_perm_eq l l' : Permutation l l' -> NoDup (map qstart l) -> sort_comps l = sort_comps l'.
Proof. exact (sort_by_perm_eq qstart l l'). Qed.

(* the hits in protein order (stable) give the same modules as the hits as supplied - ties included *)
Lemma build_sorted_input domains :
  build_modules_for_cds (sort_comps domains) = build_modules_for_cds domains.
Proof. unfold build_modules_for_cds. rewrite sort_comps_idem. reflexivity. Qed.

(* hits that are already in protein order are taken as they are *)
Lemma sort_comps_sorted_id domains :
  StronglySorted (fun a b => qstart a <= qstart b) domains -> sort_comps domains = domains.
Proof. exact (sort_by_sorted_id qstart domains). Qed.

Lemma position_order_canonical domains :
  build_modules_for_cds (sort_comps domains) = build_modules_for_cds domains /\
  (StronglySorted (fun a b => qstart a <= qstart b) domains -> sort_comps domains = domains).
Proof. split; [apply build_sorted_input|apply sort_comps_sorted_id]. Qed.

(* the modules do not depend on the order in which hits with pairwise different positions are supplied *)
Lemma build_order_independent domains domains' :
  Permutation domains domains' -> NoDup (map qstart domains) ->
  build_modules_for_cds domains = build_modules_for_cds domains'.
Proof.
  intros Hp Hn. unfold build_modules_for_cds. rewrite (sort_comps_perm_eq _ _ Hp Hn). reflexivity.
Qed.

(* with ties: the modules depend on the supply order only through the stably sorted list *)
Lemma build_depends_on_sorted domains domains' :
  sort_comps domains = sort_comps domains' -> build_modules_for_cds domains = build_modules_for_cds domains'.
Proof. intros H. unfold build_modules_for_cds. rewrite H. reflexivity. Qed.

(* everything the run-time specification spec_fn4 looks at, for the model: construction from the hits as
   supplied succeeds, every module obeys the rules and reloads identically, and the hits handed over in
   protein order give the same modules *)
Lemma single_gene_all domains :
  Forall (fun c => c_classified c = true) domains ->
  exists ms, build_modules_for_cds domains = Ok ms /\
             flat ms = keep (sort_comps domains) /\
             Forall (fun m => m_comps m <> [] /\ rules_ok m /\ reload m = Ok m) ms /\
             mapM reload ms = Ok ms /\
             build_modules_for_cds (sort_comps domains) = Ok ms.
Proof.
  intros Hc. destruct (build_modules_total_partition domains Hc) as [ms [Hb [Hf Hn]]].
  pose proof (build_layout domains ms Hc Hb) as Hl. pose proof (build_reload domains ms Hc Hb) as Hr.
  exists ms. split; [exact Hb|]. split; [exact Hf|]. split; [|split].
  - rewrite Forall_forall in *. intros m Hm. split; [apply Hn|split; [apply Hl|apply Hr]]; exact Hm.
  - clear - Hr. induction Hr as [|m ms Hm Hms IH]; cbn; [reflexivity|]. rewrite Hm. cbn. rewrite IH. reflexivity.
  - rewrite build_sorted_input. exact Hb.
Qed.

(* ---------- the carrier protein clauses of layout_spec, read out explicitly ---------- *)
Lemma walk_app xs : forall pre ys, walk pre (xs ++ ys) = walk pre xs && walk (pre ++ xs) ys.
Proof.
  induction xs as [|x xs IH]; intros pre ys; cbn [walk app].
  - rewrite app_nil_r. reflexivity.
  - rewrite IH, <- app_assoc, !andb_assoc. reflexivity.
Qed.

Lemma cnt_app f (a b : list comp) : cnt f (a ++ b) = (cnt f a + cnt f b)%nat.
Proof. unfold cnt. rewrite filter_app, app_length. reflexivity. Qed.

Lemma cnt_zero_existsb f (l : list comp) : cnt f l = 0%nat -> existsb f l = false.
Proof.
  induction l as [|x l IH]; cbn; [reflexivity|]. unfold cnt in *. cbn. destruct (f x); cbn; [discriminate|exact IH].
Qed.

Lemma cnt_succ_split f : forall (cs : list comp) n, cnt f cs = S n ->
  exists pre x post, cs = pre ++ x :: post /\ f x = true /\ existsb f pre = false /\ cnt f post = n.
Proof.
  induction cs as [|c cs IH]; intros n H; [discriminate|].
  unfold cnt in H. cbn in H. destruct (f c) eqn:E.
  - exists [], c, cs. cbn in H. injection H as H. repeat split; assumption.
  - destruct (IH n H) as [pre [x [post [E1 [E2 [E3 E4]]]]]]. exists (c :: pre), x, post. subst cs.
    repeat split; try assumption. cbn. rewrite E. exact E3.
Qed.

Lemma case_prefix_full a b : case_prefix [lab a; lab b] = true -> In [lab a; lab b] c14_double_transporter_cases.
Proof.
  unfold case_prefix. intros H. apply existsb_exists in H. destruct H as [case [Hin H]].
  pose proof (case_len2 case Hin) as Hlen.
  destruct case as [|x [|y [|z case]]]; try discriminate. cbn in H.
  apply andb_prop in H. destruct H as [H1 H]. apply andb_prop in H. destruct H as [H2 _].
  apply Z.eqb_eq in H1, H2. rewrite H1, H2. exact Hin.
Qed.

(* one carrier protein - or exactly two, and then the second one is directly followed by the two members of a
   registered DOUBLE_TRANSPORTER_CASES entry, in the registered order *)
Lemma tandem_exact cs : layout_spec cs = true ->
  (cnt c_cp cs <= 1)%nat \/
  exists pre cp1 mid cp2 a b post,
    cs = pre ++ cp1 :: mid ++ cp2 :: a :: b :: post /\ c_cp cp1 = true /\ c_cp cp2 = true /\
    existsb c_cp pre = false /\ existsb c_cp mid = false /\ existsb c_cp (a :: b :: post) = false /\
    In [lab a; lab b] c14_double_transporter_cases.
Proof.
  intros H. unfold layout_spec, layout_weak, L_pairs, L_cp_strict in H.
  apply andb_prop in H. destruct H as [H Hle]. apply Nat.leb_le in Hle.
  apply andb_prop in H. destruct H as [_ H]. apply andb_prop in H. destruct H as [Hw Hopen].
  apply negb_true_iff in Hopen.
  destruct (Nat.le_gt_cases (cnt c_cp cs) 1) as [H1|H2]; [left; exact H1|right].
  assert (E2 : cnt c_cp cs = 2%nat) by lia. clear Hle H2.
  destruct (cnt_succ_split c_cp cs 1 E2) as [pre [x [r1 [Ecs [Hx [Hpre Hr1]]]]]].
  destruct (cnt_succ_split c_cp r1 0 Hr1) as [mid [y [post [Er1 [Hy [Hmid Hpost]]]]]].
  apply cnt_zero_existsb in Hpost. subst r1.
  set (P := (pre ++ x :: mid) ++ [y]).
  assert (EP : cs = P ++ post).
  { subst cs. unfold P. repeat (rewrite <- app_assoc; cbn [app]). reflexivity. }
  assert (HcP : cnt c_cp P = 2%nat).
  { unfold P. rewrite cnt_snoc, cnt_app, Hy. unfold cnt at 2. cbn [filter]. rewrite Hx. cbn [length].
    fold (cnt c_cp mid). rewrite (existsb_false_cnt _ _ Hpre), (existsb_false_cnt _ _ Hmid). reflexivity. }
  assert (HsP : since_last c_cp P = []).
  { unfold P. rewrite since_last_snoc, Hy. reflexivity. }
  assert (HoP : pair_open P = true).
  { unfold pair_open. rewrite HcP, HsP, max_case_len_val. reflexivity. }
  rewrite EP in Hw, Hopen. rewrite walk_app in Hw. apply andb_prop in Hw. destruct Hw as [_ Hw].
  change ([] ++ P) with P in Hw.
  destruct post as [|a post]; [rewrite app_nil_r in Hopen; congruence|].
  cbn [walk] in Hw. apply andb_prop in Hw. destruct Hw as [Hw Hw2]. apply andb_prop in Hw. destruct Hw as [Hsa _].
  unfold pair_step in Hsa. rewrite HoP, HsP in Hsa. cbn [negb orb app] in Hsa.
  pose proof Hpost as Hpost'. cbn [existsb] in Hpost'. apply orb_false_elim in Hpost'. destruct Hpost' as [Hna Hpost1].
  assert (HoP1 : pair_open (P ++ [a]) = true).
  { unfold pair_open. rewrite cnt_snoc, since_last_snoc, Hna, HcP, HsP, max_case_len_val. reflexivity. }
  destruct post as [|b post].
  { exfalso. rewrite HoP1 in Hopen. discriminate. }
  cbn [walk] in Hw2. apply andb_prop in Hw2. destruct Hw2 as [Hw2 _]. apply andb_prop in Hw2. destruct Hw2 as [Hsb _].
  unfold pair_step in Hsb. rewrite HoP1, since_last_snoc, Hna, HsP in Hsb. cbn [negb orb app map] in Hsb.
  exists pre, x, mid, y, a, b, post. split.
  { exact Ecs. }
  repeat split; try assumption. apply case_prefix_full. exact Hsb.
Qed.

(* a modification domain behind a carrier protein is a KR in a trans-AT module, or one of the two domains
   directly behind the second carrier protein (a member of the registered pair, by tandem_exact) *)
Lemma mod_after_cp cs pre c post : layout_spec cs = true -> cs = pre ++ c :: post ->
  c_mod c = true -> existsb c_cp pre = true ->
  (c_kr c = true /\ spec_trans_at pre = true) \/ pair_open pre = true.
Proof.
  intros H E Hm Hcp. unfold layout_spec, layout_weak, L_pairs in H.
  apply andb_prop in H. destruct H as [H _]. apply andb_prop in H. destruct H as [_ H].
  apply andb_prop in H. destruct H as [Hw _]. rewrite E, walk_app in Hw.
  apply andb_prop in Hw. destruct Hw as [_ Hw]. cbn [walk app] in Hw.
  apply andb_prop in Hw. destruct Hw as [Hw _]. apply andb_prop in Hw. destruct Hw as [_ Hmod].
  unfold mod_ok in Hmod. rewrite Hm, Hcp in Hmod. cbn [negb orb] in Hmod.
  apply orb_prop in Hmod. destruct Hmod as [Hk|Ho]; [left; apply andb_prop in Hk; exact Hk|right; exact Ho].
Qed.

(* both, for every module build_modules_for_cds returns *)
Lemma build_carrier_clauses domains ms :
  Forall (fun c => c_classified c = true) domains -> build_modules_for_cds domains = Ok ms ->
  Forall (fun m =>
    ((cnt c_cp (m_comps m) <= 1)%nat \/
     exists pre cp1 mid cp2 a b post,
       m_comps m = pre ++ cp1 :: mid ++ cp2 :: a :: b :: post /\ c_cp cp1 = true /\ c_cp cp2 = true /\
       existsb c_cp pre = false /\ existsb c_cp mid = false /\ existsb c_cp (a :: b :: post) = false /\
       In [lab a; lab b] c14_double_transporter_cases) /\
    (forall pre c post, m_comps m = pre ++ c :: post -> c_mod c = true -> existsb c_cp pre = true ->
       (c_kr c = true /\ spec_trans_at pre = true) \/ pair_open pre = true)) ms.
Proof.
  intros Hc Hb. eapply Forall_impl; [|eapply build_layout; eassumption].
  intros m [Hl _]. split; [apply tandem_exact; exact Hl|].
  intros pre c post E. apply (mod_after_cp _ pre c post Hl E).
Qed.

(* ---------- examples ---------- *)
Lemma supply_order_example :
  let by_position := [mkComp 41 [Hit 1 []] 0 10; mkComp 1 [] 1 20; mkComp 1 [] 2 30; mkComp 28 [] 3 40; mkComp 11 [] 4 50] in
  let by_profile := [mkComp 1 [] 1 20; mkComp 1 [] 2 30; mkComp 11 [] 4 50; mkComp 28 [] 3 40; mkComp 41 [Hit 1 []] 0 10] in
  Permutation by_position by_profile /\ NoDup (map qstart by_position) /\
  exists m, build_modules_for_cds by_profile = Ok [m] /\ build_modules_for_cds by_position = Ok [m] /\
            map cid (m_comps m) = [0; 1; 2; 3; 4] /\ cnt c_cp (m_comps m) = 2%nat.
Proof.
  cbv zeta. split; [|split].
  - match goal with |- Permutation ?a ?b => assert (E : sort_comps b = a) by (vm_compute; reflexivity) end.
    rewrite <- E. apply Permutation_sym. exact (sort_by_perm qstart _).
  - cbn. repeat constructor; cbn; intuition discriminate.
  - eexists. split; [vm_compute; reflexivity|]. split; [vm_compute; reflexivity|]. split; reflexivity.
Qed.

Lemma reversed_pair_refused :
  exists m1 m2 m3,
    build_modules_for_cds
      [mkComp 41 [Hit 1 []] 0 10; mkComp 1 [] 1 20; mkComp 1 [] 2 30; mkComp 11 [] 3 40; mkComp 28 [] 4 50] = Ok [m1; m2; m3] /\
    map cid (m_comps m1) = [0; 1] /\ map cid (m_comps m2) = [2] /\ map cid (m_comps m3) = [3; 4].
Proof. do 3 eexists. split; [vm_compute; reflexivity|]. repeat split. Qed.
