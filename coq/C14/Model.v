(* C14: faithful model of detection/nrps_pks_domains/module_identification.py
   (Component predicates, Module.add_component / ensure_suitable, build_modules_for_cds,
   combine_modules, Module.from_json o to_json).  Domain classes come from Gen/Tables_gen.v,
   regenerated from the source on every run. *)
From ASV Require Export Base.
From ASV.Gen Require Import Tables_gen.

(* a subtype hit: an HMMResult stored inside another one (HMMResult._internal_hits), as
   domain_identification.find_subtypes attaches them: code of its hit_id and its own internal hits.
   Codes of the profile names: 1 Trans-AT-KS, 2 Iterative-KS, every other name its own code > 2
   (harness/c14.py SUBNAMES); the state machine compares with the first two only *)
Inductive hit : Type := Hit (hid : Z) (inner : list hit).
Definition S_Trans_AT_KS := 1.
Definition S_Iterative_KS := 2.

(* a component: label (index into c14_labels), the subtype hits of its domain (domain.internal_hits, in
   the order in which they were attached), identity (index of the domain in the input), query_start *)
Record comp := mkComp { lab : Z; sub : list hit; cid : Z; qstart : Z }.

(* HMMResult.detailed_names without its first element (the hit's own name):
     hits = self._internal_hits
     while len(hits) == 1: names.append(hits[0].hit_id); hits = hits[0]._internal_hits
   one name per depth, stopping at the first depth with no hit or with SEVERAL hits *)
Fixpoint names_from (h : hit) : list Z :=
  match h with
  | Hit i hs => i :: match hs with [x] => names_from x | _ => [] end
  end.
Definition detailed_tail (hs : list hit) : list Z := match hs with [x] => names_from x | _ => [] end.
(* Component.subtypes: domain.detailed_names[1:] *)
Definition subtypes (c : comp) : list Z := detailed_tail (sub c).
(* Component.subtype: None if len(detailed_names) < 2 else detailed_names[1] *)
Definition subtype (c : comp) : option Z :=
  match subtypes c with [] => None | s :: _ => Some s end.
(* subtype == "<name>" *)
Definition subtype_is (c : comp) (k : Z) : bool :=
  match subtype c with Some s => s =? k | None => false end.

Definition zmem (x : Z) (l : list Z) : bool := existsb (Z.eqb x) l.

Definition c_adenylation c := zmem (lab c) c14_adenylations.
Definition c_acyltransferase c := zmem (lab c) c14_acyltransferases.
Definition c_coa_ligase c := lab c =? c14_L_CAL_domain.
Definition c_condensation c := zmem (lab c) c14_condensations.
Definition c_starter c :=
  zmem (lab c) c14_condensations || zmem (lab c) c14_ketosynthases || zmem (lab c) c14_adenylations
  || zmem (lab c) c14_acyltransferases || zmem (lab c) c14_alternate_starters.
Definition c_loader c := c_acyltransferase c || c_adenylation c || c_coa_ligase c.
Definition c_mod c := zmem (lab c) c14_modifiers.
Definition c_cp c := zmem (lab c) c14_carrier_proteins.
Definition c_end c := zmem (lab c) c14_ends.
Definition c_ignored c := zmem (lab c) c14_non_module.
Definition c_special c := zmem (lab c) c14_special.
Definition c_fused_starter c := zmem (lab c) c14_fused_starters.
Definition c_pks c :=
  zmem (lab c) c14_pks_prefixed || zmem (lab c) c14_acyltransferases || zmem (lab c) c14_ketosynthases.
Definition c_nrps c := zmem (lab c) c14_adenylations || zmem (lab c) c14_condensations.
Definition c_kr c := lab c =? c14_L_PKS_KR.
(* classify(): some class contains the label *)
Definition c_classified c := existsb (zmem (lab c)) c14_classification_order.

Record module := mkModule {
  m_comps : list comp; m_starter : option comp; m_loader : option comp; m_mods : list comp;
  m_cp : option comp; m_end : option comp; m_others : list comp; m_first : bool; m_unamb : Z }.

Definition empty_module (first : bool) : module :=
  mkModule [] None None [] None None [] first 0.

Definition isSome {A} (o : option A) : bool := match o with Some _ => true | None => false end.
Definition nonempty {A} (l : list A) : bool := match l with [] => false | _ => true end.

Definition is_pks (m : module) : bool := existsb c_pks (m_comps m).
Definition is_nrps (m : module) : bool :=
  match m_starter m with Some s => c_nrps s | None => false end
  || match m_loader m with Some l => c_nrps l | None => false end.
Definition is_trans_at (m : module) : bool :=
  match m_starter m with
  | Some s =>
    if is_pks m && negb (isSome (m_loader m)) then
      subtype_is s S_Trans_AT_KS || existsb (fun c => lab c =? c14_L_Trans_AT_docking) (m_others m)
    else false
  | None => false
  end.
Definition is_iterative (m : module) : bool :=
  match m_starter m with Some s => subtype_is s S_Iterative_KS | None => false end.

(* "list(case) == upcoming[:len(case)]" for some registered case; returns the longest such length *)
Fixpoint zlist_eqb (a b : list Z) : bool :=
  match a, b with
  | [], [] => true
  | x :: xs, y :: ys => (x =? y) && zlist_eqb xs ys
  | _, _ => false
  end.
Definition case_matches (upcoming : list Z) (case : list Z) : bool :=
  zlist_eqb case (firstn (length case) upcoming).
Definition double_case (la : list comp) : bool :=
  existsb (case_matches (map lab la)) c14_double_transporter_cases.
(* add_component: "longest = len(case)" for the LAST matching case in iteration order; the table
   is a set of tuples - with more than one registered case the iteration order of that set would
   matter; the generated table is checked to have pairwise different matches in Proofs. *)
Definition double_len (la : list comp) : Z :=
  fold_left (fun acc case => if case_matches (map lab la) case then zlen case else acc)
            c14_double_transporter_cases 0.

(* ensure_suitable: Ok tt, or the IncompatibleComponentError / AssertionError *)
Definition ensure_suitable (m : module) (c : comp) (la : list comp) : res unit :=
  if c_ignored c || c_special c then Ok tt
  else if isSome (m_end m) then Err E_Incompatible
  else if c_starter c && negb (c_loader c) then
    (if nonempty (m_comps m) then Err E_Incompatible else Ok tt)
  else if c_loader c then
    if isSome (m_loader m) then Err E_Incompatible
    else if match m_starter m with
            | Some s => (c_pks s && c_nrps c) || (c_nrps s && c_pks c)
            | None => false end then Err E_Incompatible
    else if isSome (m_end m) || isSome (m_cp m) || nonempty (m_mods m) then Err E_Incompatible
    else Ok tt
  else if c_mod c then
    if isSome (m_end m) then Err E_Incompatible
    else if isSome (m_cp m) && negb (is_trans_at m && c_kr c) then Err E_Incompatible
    else Ok tt
  else if c_cp c then
    (if isSome (m_cp m) then
       (* the documented exception is a DOUBLE transporter: never a third carrier protein *)
       (if existsb c_cp (m_others m) then Err E_Incompatible
        else if double_case la then Ok tt else Err E_Incompatible)
     else Ok tt)
  else if c_end c then (if isSome (m_end m) then Err E_Assert else Ok tt)
  else Ok tt.

Definition with_comp (m : module) (c : comp) (u : Z) : module :=
  mkModule (m_comps m ++ [c]) (m_starter m) (m_loader m) (m_mods m) (m_cp m) (m_end m)
           (m_others m) (m_first m) u.

Definition add_component (m : module) (c : comp) (la : list comp) : res module :=
  if negb (c_classified c) then Err E_Assert else
  if c_ignored c then Ok m else
  do _ <- (if 0 <? m_unamb m then Ok tt else ensure_suitable m c la);
  let u := if 0 <? m_unamb m then m_unamb m - 1 else m_unamb m in
  let m0 := with_comp m c u in
  if c_starter c && negb (isSome (m_starter m)) then
    if c_loader c then
      (if isSome (m_loader m) then Err E_Assert
       else Ok (mkModule (m_comps m0) (Some c) (Some c) (m_mods m0) (m_cp m0) (m_end m0)
                         (m_others m0) (m_first m0) u))
    else Ok (mkModule (m_comps m0) (Some c) (m_loader m0) (m_mods m0) (m_cp m0) (m_end m0)
                      (m_others m0) (m_first m0) u)
  else if c_loader c then
    (if isSome (m_loader m) then Err E_Assert
     else Ok (mkModule (m_comps m0) (m_starter m0) (Some c) (m_mods m0) (m_cp m0) (m_end m0)
                       (m_others m0) (m_first m0) u))
  else if c_mod c then
    Ok (mkModule (m_comps m0) (m_starter m0) (m_loader m0) (m_mods m ++ [c]) (m_cp m0) (m_end m0)
                 (m_others m0) (m_first m0) u)
  else if c_cp c then
    if negb (isSome (m_cp m)) then
      Ok (mkModule (m_comps m0) (m_starter m0) (m_loader m0) (m_mods m0) (Some c) (m_end m0)
                   (m_others m0) (m_first m0) u)
    else if 0 <? double_len la then
      Ok (mkModule (m_comps m0) (m_starter m0) (m_loader m0) (m_mods m0) (m_cp m0) (m_end m0)
                   (m_others m ++ [c]) (m_first m0) (double_len la))
    else Ok m0
  else if c_end c then
    (if isSome (m_end m) then Err E_Assert
     else Ok (mkModule (m_comps m0) (m_starter m0) (m_loader m0) (m_mods m0) (m_cp m0) (Some c)
                       (m_others m0) (m_first m0) u))
  else
    Ok (mkModule (m_comps m0) (m_starter m0) (m_loader m0) (m_mods m0) (m_cp m0) (m_end m0)
                 (m_others m ++ [c]) (m_first m0) u).

Definition same_comp (a b : option comp) : bool :=
  match a, b with Some x, Some y => cid x =? cid y | _, _ => false end.

Definition is_complete (m : module) : bool :=
  if isSome (m_starter m) && same_comp (m_starter m) (m_loader m) && negb (m_first m) then false
  else if isSome (m_starter m) && isSome (m_loader m) && isSome (m_cp m) then true
  else is_trans_at m && isSome (m_cp m).

Definition is_termination_module (m : module) : bool :=
  match m_end m with
  | Some e => (lab e =? c14_L_Thioesterase) || (lab e =? c14_L_TD)
  | None => false
  end.
Definition is_starter_module (m : module) : bool :=
  match m_starter m with
  | Some s => (lab s =? c14_L_Condensation_Starter) || zmem (lab s) c14_alternate_starters
              || (same_comp (m_starter m) (m_loader m) && m_first m)
  | None => false
  end.

(* ---------- build_modules_for_cds ---------- *)
(* modules are kept oldest first in [done]; [cur] is modules[-1] *)
Fixpoint build (done : list module) (cur : module) (cs : list comp) : res (list module) :=
  match cs with
  | [] => Ok (done ++ (if nonempty (m_comps cur) then [cur] else []))
  | c :: rest =>
    let la := firstn 2 rest in
    let '(done1, cur1) :=
      if c_starter c && negb (c_loader c) && nonempty (m_comps cur)
      then (done ++ [cur], empty_module false) else (done, cur) in
    match add_component cur1 c la with
    | Ok cur2 => build done1 cur2 rest
    | Err k =>
      if k =? E_Incompatible then
        do cur2 <- add_component (empty_module false) c [];
        build (done1 ++ [cur1]) cur2 rest
      else Err k
    end
  end.

Definition sort_comps (cs : list comp) : list comp :=
  sort_by (fun a b => qstart a <? qstart b) cs.

(* all but the last module must be non-empty (the final assertion of the function) *)
Definition build_modules_for_cds (domains : list comp) : res (list module) :=
  do ms <- build [] (empty_module true) (sort_comps domains);
  if forallb (fun m => nonempty (m_comps m)) ms then Ok ms else Err E_Assert.

(* ---------- Module.from_json (to_json m) ---------- *)
Fixpoint replay (m : module) (cs : list comp) : res module :=
  match cs with
  | [] => Ok m
  | c :: rest => do m' <- add_component m c rest; replay m' rest
  end.
Definition reload (m : module) : res module := replay (empty_module (m_first m)) (m_comps m).

(* ---------- combine_modules ---------- *)
(* returns the merged module (if any) and the two updated module lists (previous, current) *)
Definition combine_modules (same_strand : bool) (current previous : list module)
  : res (option module * list module * list module) :=
  let unchanged := Ok (None, previous, current) in
  if negb same_strand then unchanged else
  match last_opt previous, current with
  | Some head, tail :: current_rest =>
    let invalid_tail := is_complete tail &&
      negb (match m_comps tail with c :: _ => c_fused_starter c | [] => false end) in
    (* tail.components[0] on an empty module would be an IndexError; modules are never empty *)
    if is_complete head || invalid_tail then unchanged else
    if (is_pks head && is_nrps tail) || (is_nrps head && is_pks tail) then unchanged else
    do m1 <- replay (empty_module false) (m_comps head);
    match replay m1 (m_comps tail) with
    | Err k => if k =? E_Incompatible then unchanged else Err k
    | Ok m2 =>
      if negb (is_complete m2) then unchanged else
      let previous' := removelast previous ++ [m2] in
      match current_rest with
      | [] => Ok (Some m2, previous', [])
      | next :: rest' =>
        match m_comps next with
        | [kr] =>
          if is_trans_at m2 && (lab kr =? c14_L_PKS_KR) then
            match add_component m2 kr [] with
            | Ok m3 => Ok (Some m3, removelast previous ++ [m3], rest')
            | Err k => if k =? E_Incompatible then Ok (Some m2, previous', current_rest) else Err k
            end
          else Ok (Some m2, previous', current_rest)
        | _ => Ok (Some m2, previous', current_rest)
        end
      end
    end
  | _, _ => unchanged
  end.

(* ---------- the property as a decidable specification over a module's component list ---------- *)
(* independent of the slots and of the order in which add_component takes its decisions *)
Definition c_xstarter c := c_starter c && negb (c_loader c).       (* an explicit starter *)
Definition c_atd c := lab c =? c14_L_Trans_AT_docking.
Definition cnt (f : comp -> bool) (cs : list comp) : nat := length (filter f cs).
(* what follows the first component satisfying f *)
Fixpoint after_first (f : comp -> bool) (cs : list comp) : list comp :=
  match cs with [] => [] | c :: r => if f c then r else after_first f r end.

(* the subtype of a component as the property reads it, stated on the hits themselves (not through
   detailed_names): the name of its ONLY first-level subtype hit; a domain without subtype hits or with
   several of them (an ambiguous call, whatever their names and order) has no subtype *)
Definition spec_subtype (c : comp) : option Z :=
  match sub c with [Hit i _] => Some i | _ => None end.
(* an unambiguous Trans-AT-KS *)
Definition c_tat (c : comp) : bool :=
  match sub c with [Hit i _] => i =? S_Trans_AT_KS | _ => false end.
Definition c_iter (c : comp) : bool :=
  match sub c with [Hit i _] => i =? S_Iterative_KS | _ => false end.

(* trans-AT as far as the components say: PKS, a starter but no loader, and the starter is an
   unambiguous Trans-AT-KS or a Trans-AT docking domain is present *)
Definition spec_trans_at (cs : list comp) : bool :=
  existsb c_pks cs && negb (existsb c_loader cs) &&
  match find c_starter cs with Some s => c_tat s || existsb c_atd cs | None => false end.

(* an explicit starter only in front *)
Definition L_starter (cs : list comp) : bool := forallb (fun c => negb (c_xstarter c)) (tl cs).
Definition L_loader (cs : list comp) : bool := (cnt c_loader cs <=? 1)%nat.
(* no NRPS loader on a PKS starter or vice versa *)
Definition L_mix (cs : list comp) : bool :=
  match find c_starter cs, find c_loader cs with
  | Some s, Some l => negb ((c_pks s && c_nrps l) || (c_nrps s && c_pks l))
  | _, _ => true
  end.
(* one terminating domain, nothing but special domains after it *)
Definition L_end (cs : list comp) : bool :=
  (cnt c_end cs <=? 1)%nat && forallb c_special (after_first c_end cs).
(* carrier proteins: every carrier protein after the first must be directly followed by a registered
   pair (DOUBLE_TRANSPORTER_CASES), whose members are the only modification domains allowed after a
   carrier protein besides the trans-AT KR.  Read left to right: *)
(* the components since the last one satisfying f *)
Definition since_last (f : comp -> bool) (cs : list comp) : list comp :=
  fold_left (fun acc c => if f c then [] else acc ++ [c]) cs [].
Definition case_prefix (ls : list Z) : bool :=
  existsb (fun case => zlist_eqb ls (firstn (length ls) case)) c14_double_transporter_cases.
Definition max_case_len : nat := fold_right Nat.max 0%nat (map (@length Z) c14_double_transporter_cases).
(* after pre, the pair owed to an extra carrier protein is still incomplete *)
Definition pair_open (pre : list comp) : bool :=
  (2 <=? cnt c_cp pre)%nat && (length (since_last c_cp pre) <? max_case_len)%nat.
(* ... then the next component must continue a registered pair *)
Definition pair_step (pre : list comp) (c : comp) : bool :=
  negb (pair_open pre) || case_prefix (map lab (since_last c_cp pre ++ [c])).
(* a modification with a carrier protein before it is a KR in a trans-AT module or part of such a pair *)
Definition mod_ok (pre : list comp) (c : comp) : bool :=
  negb (c_mod c) || negb (existsb c_cp pre) || (c_kr c && spec_trans_at pre) || pair_open pre.
Fixpoint walk (pre cs : list comp) : bool :=
  match cs with [] => true | c :: r => pair_step pre c && mod_ok pre c && walk (pre ++ [c]) r end.
Definition L_pairs (cs : list comp) : bool := walk [] cs && negb (pair_open cs).
(* the documented exception is a DOUBLE transporter: no more than two carrier proteins *)
Definition L_cp_strict (cs : list comp) : bool := (cnt c_cp cs <=? 2)%nat.

(* the loader stands in front of every modification, carrier protein and terminating domain
   ("bad ordering, loader after other non-starter components") *)
Fixpoint before_first (f : comp -> bool) (cs : list comp) : list comp :=
  match cs with [] => [] | c :: r => if f c then [] else c :: before_first f r end.
Definition L_order (cs : list comp) : bool :=
  negb (existsb c_loader cs) || forallb (fun c => negb (c_mod c || c_cp c || c_end c)) (before_first c_loader cs).

(* the rules without the bound on the carrier proteins (kept to tell which clause a violation breaks) ... *)
Definition layout_weak (cs : list comp) : bool :=
  L_starter cs && L_loader cs && L_mix cs && L_end cs && L_pairs cs.
(* ... and the property: in addition at most one carrier protein, two in the double-transporter case
   (C14_layout_inv, C14_layout_cp_at_most_two: guaranteed by the code since the repair of finding F52) *)
Definition layout_spec (cs : list comp) : bool := layout_weak cs && L_cp_strict cs.

(* the slots and flags are functions of the component list *)
Definition opt_ideqb (a b : option comp) : bool :=
  match a, b with
  | Some x, Some y => cid x =? cid y
  | None, None => true
  | _, _ => false
  end.
Definition ids_eqb (a b : list comp) : bool := list_eqb Z.eqb (map cid a) (map cid b).
Definition others_spec (cs : list comp) : list comp :=
  filter (fun c => negb (c_starter c || c_mod c || c_end c) && negb (same_comp (Some c) (find c_cp cs))) cs.
Definition complete_spec (m : module) : bool :=
  (isSome (m_starter m) && isSome (m_loader m) && isSome (m_cp m)
   && negb (same_comp (m_starter m) (m_loader m) && negb (m_first m)))
  || (spec_trans_at (m_comps m) && isSome (m_cp m)).

(* what is observed of a module besides its slots: the seven flags, then for every component the code of
   Component.subtype (0 for None) and len(Component.subtypes) *)
Definition opt_code (o : option Z) : Z := match o with Some k => k | None => 0 end.
Definition sub_entry (c : comp) : list Z := [opt_code (subtype c); zlen (subtypes c)].
Definition flags_of (m : module) : list Z :=
  eBool (is_complete m) ++ eBool (is_trans_at m) ++ eBool (is_pks m)
  ++ eBool (is_nrps m) ++ eBool (is_starter_module m) ++ eBool (is_termination_module m)
  ++ eBool (is_iterative m) ++ eList sub_entry (m_comps m).
(* the reported subtype of every component is the name of its only first-level subtype hit *)
Fixpoint subs_reported_ok (cs : list comp) (l : list Z) : bool :=
  match cs, l with
  | [], [] => true
  | c :: r, k :: _ :: l' => (k =? opt_code (spec_subtype c)) && subs_reported_ok r l'
  | _, _ => false
  end.
Definition iterative_spec (cs : list comp) : bool :=
  match find c_starter cs with Some s => c_iter s | None => false end.

(* a module as decoded from the implementation's output, with its reported flags *)
Definition spec_module_gen (strict : bool) (mf : module * list Z) : bool :=
  let (m, fl) := mf in
  let cs := m_comps m in
  nonempty cs && forallb (fun c => negb (c_ignored c)) cs
  && (if strict then layout_spec cs else layout_weak cs) && L_order cs
  && opt_ideqb (m_starter m) (find c_starter cs) && opt_ideqb (m_loader m) (find c_loader cs)
  && opt_ideqb (m_cp m) (find c_cp cs) && opt_ideqb (m_end m) (find c_end cs)
  && ids_eqb (m_mods m) (filter c_mod cs) && ids_eqb (m_others m) (others_spec cs)
  && list_eqb Z.eqb fl (flags_of m)
  && match fl with
     | complete :: trans_at :: _ =>
       (complete =? (if complete_spec m then 1 else 0)) && (trans_at =? (if spec_trans_at cs then 1 else 0))
     | _ => false
     end
  && match fl with
     | _ :: _ :: _ :: _ :: _ :: _ :: iter :: _ :: subs =>
       (iter =? (if iterative_spec cs then 1 else 0)) && subs_reported_ok cs subs
     | _ => false
     end.

Definition spec_module_ok := spec_module_gen true.

Definition flat_ids (ms : list (module * list Z)) : list Z :=
  map cid (concat (map (fun mf => m_comps (fst mf)) ms)).
Definition kept_ids (ds : list comp) : list Z :=
  map cid (filter (fun c => negb (c_ignored c)) (sort_comps ds)).
Definition firsts_ok (ms : list (module * list Z)) : bool :=
  match ms with [] => true | mf :: r => m_first (fst mf) && forallb (fun x => negb (m_first (fst x))) r end.

(* build_modules_for_cds: the modules partition the sorted non-docking domains, each obeys the rules *)
Definition spec_build_gen (strict : bool) (ds : list comp) (ms : list (module * list Z)) : bool :=
  list_eqb Z.eqb (flat_ids ms) (kept_ids ds) && forallb (spec_module_gen strict) ms && firsts_ok ms.
Definition spec_build := spec_build_gen true.

(* ---------- encoding ---------- *)
(* a component: label, identity, query_start, then its subtype hits as a forest: count, and per hit
   its code followed by the forest of its own internal hits *)
Fixpoint dHit (fuel : nat) : dec hit := fun l =>
  match fuel with
  | O => None
  | S f => match l with
           | i :: r => match dList (dHit f) r with
                       | Some (hs, r') => Some (Hit i hs, r')
                       | None => None
                       end
           | [] => None
           end
  end.
Definition dComp : dec comp := fun l =>
  match l with
  | a :: c :: d :: r => match dList (dHit (length r)) r with
                        | Some (hs, r') => Some (mkComp a hs c d, r')
                        | None => None
                        end
  | _ => None
  end.

Definition eOptComp (o : option comp) : list Z := match o with Some c => [cid c] | None => [-1] end.
Definition eIds (l : list comp) : list Z := eList (fun c => [cid c]) l.
Definition eModule (m : module) : list Z :=
  eIds (m_comps m) ++ eOptComp (m_starter m) ++ eOptComp (m_loader m) ++ eOptComp (m_cp m)
  ++ eOptComp (m_end m) ++ eIds (m_mods m) ++ eIds (m_others m)
  ++ eBool (m_first m) ++ flags_of m.
Definition eModules (ms : list module) : list Z := eList eModule ms.

(* decoding of the implementation's modules (component ids refer to the input domains) *)
Definition lookup (ds : list comp) (i : Z) : option comp := find (fun c => cid c =? i) ds.
Fixpoint lookups (ds : list comp) (ids : list Z) : option (list comp) :=
  match ids with
  | [] => Some []
  | i :: r => match lookup ds i, lookups ds r with Some c, Some cs => Some (c :: cs) | _, _ => None end
  end.
Definition dIds (ds : list comp) : dec (list comp) := fun l =>
  match dList dZ l with
  | Some (ids, r) => match lookups ds ids with Some cs => Some (cs, r) | None => None end
  | None => None
  end.
Definition dSlot (ds : list comp) : dec (option comp) := fun l =>
  match l with
  | i :: r => if i =? -1 then Some (None, r)
              else match lookup ds i with Some c => Some (Some c, r) | None => None end
  | [] => None
  end.
Definition dModule (ds : list comp) : dec (module * list Z) := fun l =>
  match dIds ds l with Some (cs, l1) =>
  match dSlot ds l1 with Some (st, l2) =>
  match dSlot ds l2 with Some (lo, l3) =>
  match dSlot ds l3 with Some (cp, l4) =>
  match dSlot ds l4 with Some (en, l5) =>
  match dIds ds l5 with Some (mods, l6) =>
  match dIds ds l6 with Some (oth, l7) =>
  match l7 with
  | f :: a :: b :: c :: d :: e :: g :: h :: l8 =>
    match dList (dPair dZ dZ) l8 with
    | Some (subs, r) =>
      Some ((mkModule cs st lo mods cp en oth (negb (f =? 0)) 0,
             [a; b; c; d; e; g; h] ++ eList (fun p : Z * Z => [fst p; snd p]) subs), r)
    | None => None
    end
  | _ => None
  end
  | None => None end | None => None end | None => None end | None => None end
  | None => None end | None => None end | None => None end.
Definition eDM (mf : module * list Z) : list Z :=
  let (m, fl) := mf in
  eIds (m_comps m) ++ eOptComp (m_starter m) ++ eOptComp (m_loader m) ++ eOptComp (m_cp m)
  ++ eOptComp (m_end m) ++ eIds (m_mods m) ++ eIds (m_others m) ++ eBool (m_first m) ++ fl.
Definition eDMs (ms : list (module * list Z)) : list Z := eList eDM ms.

(* spec verdicts on an implementation output: [1] satisfied, [0] violated, [-1] output undecodable *)
(* [2]: only the clause "no more than two carrier proteins" fails (the repaired finding F52: a violation
   like [0], the harness suppresses nothing; the separate code only names the clause) *)
Definition verdict (b : bool) : list Z := [if b then 1 else 0].
Definition verdict2 (f : bool -> bool) : list Z := [if f true then 1 else if f false then 2 else 0].
Definition undecodable : list Z := [-1].

Definition spec_fn1 (ds : list comp) (out : list Z) : list Z :=
  match out with
  | 0 :: r => match dList (dModule ds) r with
              | Some (ms, []) => verdict2 (fun strict => spec_build_gen strict ds ms)
              | _ => undecodable end
  | _ => verdict false          (* module construction must not fail *)
  end.
(* output = original modules followed by the reloaded ones *)
Definition spec_fn2 (ds : list comp) (out : list Z) : list Z :=
  match out with
  | 0 :: r => match dList (dModule ds) r with
              | Some (ms, r2) =>
                match dList (dModule ds) r2 with
                | Some (ms2, []) => verdict2 (fun strict => spec_build_gen strict ds ms && list_eqb Z.eqb (eDMs ms) (eDMs ms2))
                | _ => undecodable end
              | _ => undecodable end
  | _ => verdict false
  end.
(* output = modules from the hits as supplied, the same modules reloaded, modules from the hits handed over
   in protein order (stable).  Verdicts: [0] failure / partition or layout violated, [2] only the bound on the
   carrier proteins, [3] a module rebuilt from its saved form differs, [4] the modules depend on the order in
   which the hits were supplied (build l <> build (hits of l in position order)) *)
Definition spec_fn4 (ds : list comp) (out : list Z) : list Z :=
  match out with
  | 0 :: r =>
    match dList (dModule ds) r with
    | Some (ms, r2) =>
      match dList (dModule ds) r2 with
      | Some (ms2, r3) =>
        match dList (dModule ds) r3 with
        | Some (ms3, []) =>
          if negb (spec_build_gen false ds ms) then [0]
          else if negb (spec_build_gen true ds ms) then [2]
          else if negb (list_eqb Z.eqb (eDMs ms) (eDMs ms2)) then [3]
          else if negb (list_eqb Z.eqb (eDMs ms) (eDMs ms3)) then [4]
          else [1]
        | _ => undecodable end
      | _ => undecodable end
    | _ => undecodable end
  | _ => verdict false          (* neither construction nor reload may fail *)
  end.
(* diagnosis of a violated specification (run id 15, used only to word the report): is the partition
   clause met, is the first-in-gene flag right, index of the first module that breaks a rule and the verdict
   of every clause of spec_module_gen on it, in the order of harness/c14.py CLAUSES *)
Definition diag_module (mf : module * list Z) : list Z :=
  let (m, fl) := mf in
  let cs := m_comps m in
  map (fun b : bool => if b then 1 else 0)
    [nonempty cs; forallb (fun c => negb (c_ignored c)) cs; L_starter cs; L_loader cs; L_mix cs; L_end cs;
     L_pairs cs; L_cp_strict cs; L_order cs;
     opt_ideqb (m_starter m) (find c_starter cs); opt_ideqb (m_loader m) (find c_loader cs);
     opt_ideqb (m_cp m) (find c_cp cs); opt_ideqb (m_end m) (find c_end cs);
     ids_eqb (m_mods m) (filter c_mod cs); ids_eqb (m_others m) (others_spec cs);
     list_eqb Z.eqb fl (flags_of m);
     match fl with
     | complete :: trans_at :: _ =>
       (complete =? (if complete_spec m then 1 else 0)) && (trans_at =? (if spec_trans_at cs then 1 else 0))
     | _ => false
     end;
     match fl with
     | _ :: _ :: _ :: _ :: _ :: _ :: iter :: _ :: subs =>
       (iter =? (if iterative_spec cs then 1 else 0)) && subs_reported_ok cs subs
     | _ => false
     end].
Fixpoint first_bad (i : Z) (ms : list (module * list Z)) : list Z :=
  match ms with
  | [] => [-1]
  | mf :: r => if spec_module_gen true mf then first_bad (i + 1) r else i :: diag_module mf
  end.
Definition diag_fn (ds : list comp) (out : list Z) : list Z :=
  match out with
  | 0 :: r => match dList (dModule ds) r with
              | Some (ms, _) =>
                (if list_eqb Z.eqb (flat_ids ms) (kept_ids ds) then 1 else 0)
                :: (if firsts_ok ms then 1 else 0) :: first_bad 0 ms
              | None => undecodable end
  | _ => undecodable
  end.
(* output = merged?, previous', current', reload of previous' *)
Definition spec_fn3 (prev cur : list comp) (same : bool) (out : list Z) : list Z :=
  let ds := prev ++ cur in
  match out with
  | 0 :: r =>
    match dOpt (dModule ds) r with
    | Some (om, r1) =>
      match dList (dModule ds) r1 with
      | Some (p, r2) =>
        match dList (dModule ds) r2 with
        | Some (c, r3) =>
          let common strict := forallb (spec_module_gen strict) p && forallb (spec_module_gen strict) c
                        && list_eqb Z.eqb (flat_ids p ++ flat_ids c) (kept_ids prev ++ kept_ids cur) in
          let reload_ok :=
            match r3 with
            | 0 :: r4 => match dList (dModule ds) r4 with
                         | Some (p2, []) => list_eqb Z.eqb (eDMs p) (eDMs p2)
                         | _ => false end
            | _ => false
            end in
          match om with
          | None => verdict2 (fun strict => common strict && reload_ok && spec_build_gen strict prev p && spec_build_gen strict cur c)
          | Some mf =>
            verdict2 (fun strict => common strict && reload_ok && same
                     && (length (kept_ids prev) <=? length (flat_ids p))%nat
                     && match last_opt p with Some l => list_eqb Z.eqb (eDM l) (eDM mf) | None => false end
                     && match snd mf with complete :: _ => complete =? 1 | [] => false end)
          end
        | None => undecodable end
      | None => undecodable end
    | None => undecodable end
  | _ => verdict false          (* combine_modules must not fail *)
  end.

(* ---------- domain_identification.generate_domains: the loop over the genes of every region ----------
     prev = None
     for region in record.get_regions():
         for cds in region.cds_children:
             if not (domains or motifs): prev = None; continue
             modules = build_modules_for_cds(domains, name); results[cds] = CDSResult(domains, motifs, modules)
             info = CDSModuleInfo(cds, modules)
             if prev and prev.modules and info.modules and prev.cds.region == cds.region:
                 combine_modules(prev, info) if cds.strand == -1 else combine_modules(info, prev)
             prev = info
     ... cds_result.modules = [mod for mod in modules if len(mod.components) > 1]
   A gene: its domain hits, whether it has a/b motifs, its strand, its region.  combine_modules rewrites the module lists
   of both genes in place, so the state is the list of module lists of the genes met so far (a gene without hits has
   none and breaks the chain).  `stale_prev` = true is a seeded variant of round 6: a gene whose hits form no module
   is skipped WITHOUT becoming `prev`, so its predecessor is merged with its successor *)
Record ginfo := mkGI { g_doms : list comp; g_motifs : bool; g_strand : Z; g_region : Z }.
Definition set_nth {A} (i : nat) (x : A) (l : list A) : list A := firstn i l ++ x :: skipn (S i) l.
Definition gd_step (stale_prev : bool) (st : res (list (option (list module)) * option (nat * Z * Z))) (g : ginfo)
  : res (list (option (list module)) * option (nat * Z * Z)) :=
  do s <- st;
  let '(acc, prev) := s in
  if negb (nonempty (g_doms g) || g_motifs g) then Ok (acc ++ [None], None) else
  do ms <- build_modules_for_cds (g_doms g);
  let here := length acc in
  if stale_prev && negb (nonempty ms) then Ok (acc ++ [Some ms], prev) else
  match prev with
  | Some (i, pstrand, pregion) =>
    match nth_error acc i with
    | Some (Some pms) =>
      if nonempty pms && nonempty ms && (pregion =? g_region g) then
        (* reverse strand: the gene met earlier is downstream, it plays `current` *)
        let same := pstrand =? g_strand g in
        if g_strand g =? -1 then
          do r <- combine_modules same pms ms;
          let '(_, previous', current') := r in
          Ok (set_nth i (Some current') acc ++ [Some previous'], Some (here, g_strand g, g_region g))
        else
          do r <- combine_modules same ms pms;
          let '(_, previous', current') := r in
          Ok (set_nth i (Some previous') acc ++ [Some current'], Some (here, g_strand g, g_region g))
      else Ok (acc ++ [Some ms], Some (here, g_strand g, g_region g))
    | _ => Ok (acc ++ [Some ms], Some (here, g_strand g, g_region g))
    end
  | None => Ok (acc ++ [Some ms], Some (here, g_strand g, g_region g))
  end.
Definition generate_modules_gen (stale_prev : bool) (genes : list ginfo) : res (list (option (list module))) :=
  do s <- fold_left (gd_step stale_prev) genes (Ok ([], None));
  Ok (map (fun o => match o with
                    | Some ms => Some (filter (fun m => 1 <? zlen (m_comps m)) ms)
                    | None => None end) (fst s)).
Definition generate_modules := generate_modules_gen false.

Definition dGInfo : dec ginfo := fun l =>
  match dList dComp l with
  | Some (cs, m :: st :: rg :: r) => Some (mkGI cs (negb (m =? 0)) st rg, r)
  | _ => None
  end.

Definition run_C14 (fn : Z) (l : list Z) : list Z :=
  match fn with
  | 1 => match dList dComp l with
         | Some (cs, []) => eRes eModules (build_modules_for_cds cs)
         | _ => bad_input end
  | 2 => (* build then reload every module *)
         match dList dComp l with
         | Some (cs, []) =>
           eRes (fun r => eModules (fst r) ++ eModules (snd r))
                (do ms <- build_modules_for_cds cs; do ms2 <- mapM reload ms; Ok (ms, ms2))
         | _ => bad_input end
  | 3 => (* two genes: previous, current, same strand flag *)
         match dPair (dPair (dList dComp) (dList dComp)) dBool l with
         | Some ((prev, cur, same), []) =>
           eRes (fun r => let '(om, p, c) := r in
                          eOpt eModule om ++ eModules p ++ eModules c
                          ++ eRes eModules (mapM reload p))
                (do p <- build_modules_for_cds prev;
                 do c <- build_modules_for_cds cur;
                 combine_modules same c p)
         | _ => bad_input end
  | 5 => (* generate_domains: the genes of the regions in order -> per gene: no entry (0) or its modules *)
         match dList dGInfo l with
         | Some (genes, []) =>
           eRes (eList (fun o => match o with Some ms => 1 :: eModules ms | None => [0] end)) (generate_modules genes)
         | _ => bad_input end
  | 4 => (* build from the hits as supplied, reload every module, build from the hits in position order *)
         match dList dComp l with
         | Some (cs, []) =>
           eRes (fun r => let '(ms, ms2, ms3) := r in eModules ms ++ eModules ms2 ++ eModules ms3)
                (do ms <- build_modules_for_cds cs; do ms2 <- mapM reload ms;
                 do ms3 <- build_modules_for_cds (sort_comps cs); Ok (ms, ms2, ms3))
         | _ => bad_input end
  | 14 => match dList dComp l with
          | Some (cs, out) => spec_fn4 cs out
          | _ => bad_input end
  | 15 => match dList dComp l with
          | Some (cs, out) => diag_fn cs out
          | _ => bad_input end
  (* 11-14: the specification evaluated on the implementation's output (payload ++ output) *)
  | 11 | 12 => match dList dComp l with
               | Some (cs, out) => if fn =? 11 then spec_fn1 cs out else spec_fn2 cs out
               | _ => bad_input end
  | 13 => match dPair (dPair (dList dComp) (dList dComp)) dBool l with
          | Some ((prev, cur, same), out) => spec_fn3 prev cur same out
          | _ => bad_input end
  | _ => bad_input
  end.
