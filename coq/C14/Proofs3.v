(* C14, continued: the layout rules as an invariant of add_component; final statements. *)
From ASV.C14 Require Import Model Proofs Proofs2.
From ASV.Gen Require Import Tables_gen.
From Coq Require Import ZifyBool.

(* lia over the arithmetic hypotheses only: with ZifyBool loaded, the large boolean hypotheses of these
   proofs (class facts, unfolded add_component) make plain lia blow up *)
Ltac slia :=
  repeat match goal with
         | H : ?T |- _ =>
           lazymatch T with
           | @eq Z _ _ => fail
           | @eq nat _ _ => fail
           | @eq bool (Z.ltb _ _) _ => fail
           | Z.lt _ _ => fail
           | Z.le _ _ => fail
           | lt _ _ => fail
           | le _ _ => fail
           | _ => clear H
           end
         end; lia.

(* ================= part B: the layout rules as an invariant of add_component ================= *)
Arguments c_xstarter : simpl never.
Arguments c_atd : simpl never.
Arguments spec_trans_at : simpl never.

(* ---------- lists growing at the end ---------- *)
Lemma existsb_snoc {A} (f : A -> bool) l c : existsb f (l ++ [c]) = existsb f l || f c.
Proof. rewrite existsb_app. cbn. rewrite orb_false_r. reflexivity. Qed.
Lemma forallb_snoc {A} (f : A -> bool) l c : forallb f (l ++ [c]) = forallb f l && f c.
Proof. rewrite forallb_app. cbn. rewrite andb_true_r. reflexivity. Qed.
Lemma find_snoc {A} (f : A -> bool) l c :
  find f (l ++ [c]) = match find f l with Some x => Some x | None => if f c then Some c else None end.
Proof. induction l as [|x l IH]; cbn; [reflexivity|]. destruct (f x); [reflexivity|exact IH]. Qed.
Lemma cnt_snoc f l c : cnt f (l ++ [c]) = (cnt f l + (if f c then 1 else 0))%nat.
Proof. unfold cnt. rewrite filter_app, app_length. cbn. destruct (f c); reflexivity. Qed.
Lemma after_first_snoc f l c :
  after_first f (l ++ [c]) = if existsb f l then after_first f l ++ [c] else [].
Proof.
  induction l as [|x l IH]; cbn; [destruct (f c); reflexivity|].
  destruct (f x); cbn; [reflexivity|exact IH].
Qed.
Lemma tl_snoc {A} (l : list A) c : tl (l ++ [c]) = if nonempty l then tl l ++ [c] else [].
Proof. destruct l; reflexivity. Qed.
Lemma walk_snoc cs : forall pre c,
  walk pre (cs ++ [c]) = walk pre cs && (pair_step (pre ++ cs) c && mod_ok (pre ++ cs) c).
Proof.
  induction cs as [|x cs IH]; intros pre c; cbn [walk app].
  - rewrite app_nil_r, andb_true_r. reflexivity.
  - rewrite IH, <- app_assoc, !andb_assoc. reflexivity.
Qed.
Lemma since_last_snoc f l c : since_last f (l ++ [c]) = if f c then [] else since_last f l ++ [c].
Proof. unfold since_last. rewrite fold_left_app. reflexivity. Qed.
Lemma find_existsb {A} (f : A -> bool) l : isSome (find f l) = existsb f l.
Proof. induction l as [|x l IH]; cbn; [reflexivity|]. destruct (f x); [reflexivity|exact IH]. Qed.
Lemma find_sat {A} (f : A -> bool) l x : find f l = Some x -> f x = true.
Proof. intros H. apply find_some in H. apply H. Qed.

(* ---------- add_component in two halves ---------- *)
Definition assign (m : module) (c : comp) (la : list comp) : res module :=
  let u := if 0 <? m_unamb m then m_unamb m - 1 else m_unamb m in
  let m0 := with_comp m c u in
  if c_starter c && negb (isSome (m_starter m)) then
    if c_loader c then
      (if isSome (m_loader m) then Err E_Assert
       else Ok (mkModule (m_comps m0) (Some c) (Some c) (m_mods m0) (m_cp m0) (m_end m0)
                         (m_others m0) (m_first m0) u))
    else Ok (mkModule (m_comps m0) (Some c) (m_loader m0) (m_mods m0) (m_cp m0) (m_end m0)
                      (m_others m0) (m_first m0) u)
  else if c_loader c then
    (if isSome (m_loader m) then Err E_Assert
     else Ok (mkModule (m_comps m0) (m_starter m0) (Some c) (m_mods m0) (m_cp m0) (m_end m0)
                       (m_others m0) (m_first m0) u))
  else if c_mod c then
    Ok (mkModule (m_comps m0) (m_starter m0) (m_loader m0) (m_mods m ++ [c]) (m_cp m0) (m_end m0)
                 (m_others m0) (m_first m0) u)
  else if c_cp c then
    if negb (isSome (m_cp m)) then
      Ok (mkModule (m_comps m0) (m_starter m0) (m_loader m0) (m_mods m0) (Some c) (m_end m0)
                   (m_others m0) (m_first m0) u)
    else if 0 <? double_len la then
      Ok (mkModule (m_comps m0) (m_starter m0) (m_loader m0) (m_mods m0) (m_cp m0) (m_end m0)
                   (m_others m ++ [c]) (m_first m0) (double_len la))
    else Ok m0
  else if c_end c then
    (if isSome (m_end m) then Err E_Assert
     else Ok (mkModule (m_comps m0) (m_starter m0) (m_loader m0) (m_mods m0) (m_cp m0) (Some c)
                       (m_others m0) (m_first m0) u))
  else
    Ok (mkModule (m_comps m0) (m_starter m0) (m_loader m0) (m_mods m0) (m_cp m0) (m_end m0)
                 (m_others m ++ [c]) (m_first m0) u).

Lemma add_split m c la m' : add_component m c la = Ok m' -> c_ignored c = false ->
  (if 0 <? m_unamb m then Ok tt else ensure_suitable m c la) = Ok tt /\ assign m c la = Ok m'.
Proof.
  intros H Hi. unfold add_component in H. destruct (negb (c_classified c)); [discriminate|].
  rewrite Hi in H.
  destruct (if 0 <? m_unamb m then Ok tt else ensure_suitable m c la) as [[]|k]; cbn [bind] in H; [|discriminate].
  split; [reflexivity|exact H].
Qed.

Ltac leaves H :=
  unfold assign in H; cbn [with_comp m_comps m_starter m_loader m_mods m_cp m_end m_others m_first m_unamb] in H;
  repeat match type of H with
         | context [if ?b then _ else _] => destruct b eqn:?
         end;
  try discriminate; inversion H; subst; clear H;
  cbn [with_comp m_comps m_starter m_loader m_mods m_cp m_end m_others m_first m_unamb].

Ltac bools :=
  repeat match goal with
         | H : andb _ _ = true |- _ => apply andb_prop in H; destruct H
         | H : negb _ = true |- _ => apply negb_true_iff in H
         | H : negb _ = false |- _ => apply negb_false_iff in H
         end.

(* class facts, unpacked *)
Lemma class_facts c : class_ok c = true ->
  (c_loader c = true -> c_starter c = true) /\
  (c_mod c = true -> c_starter c = false /\ c_cp c = false /\ c_end c = false /\ c_special c = false) /\
  (c_cp c = true -> c_starter c = false /\ c_end c = false /\ c_special c = false) /\
  (c_end c = true -> c_starter c = false /\ c_special c = false) /\
  (c_special c = true -> c_starter c = false) /\
  (c_atd c = true -> c_special c = true) /\
  (c_kr c = true -> c_mod c = true) /\
  (c_pks c = true -> c_nrps c = false).
Proof.
  unfold class_ok, c_atd.
  destruct (c_loader c), (c_starter c), (c_mod c), (c_cp c), (c_end c), (c_special c), (c_ignored c),
    (lab c =? c14_L_Trans_AT_docking), (c_kr c), (c_pks c), (c_nrps c); cbn; intros H; try discriminate;
    repeat split; intros; try discriminate; reflexivity.
Qed.

Lemma loader_starter c : class_ok c = true -> c_starter c = false -> c_loader c = false.
Proof. intros H Hs. destruct (c_loader c) eqn:E; [|reflexivity]. apply class_facts in H. destruct H as [H _]. rewrite (H E) in Hs. discriminate. Qed.

(* ---------- the slots are functions of the component list ---------- *)
Ltac rw :=
  repeat match goal with
         | H : ?b = true |- context [if ?b then _ else _] => rewrite H
         | H : ?b = false |- context [if ?b then _ else _] => rewrite H
         | H : ?b = true |- context [?b || _] => rewrite H
         | H : ?b = false |- context [?b || _] => rewrite H
         | H : ?b = true |- context [_ || ?b] => rewrite H
         | H : ?b = false |- context [_ || ?b] => rewrite H
         | H : ?b = true |- context [_ && ?b] => rewrite H
         | H : ?b = false |- context [_ && ?b] => rewrite H
         | H : ?b = true |- context [?b && _] => rewrite H
         | H : ?b = false |- context [?b && _] => rewrite H
         | H : ?b = true |- context [negb ?b] => rewrite H
         | H : ?b = false |- context [negb ?b] => rewrite H
         end.
Ltac fin := rw; cbn in *; bools; try reflexivity; try discriminate; try congruence; try (intuition congruence).

Lemma step_st m c la m' : class_ok c = true -> m_starter m = find c_starter (m_comps m) ->
  assign m c la = Ok m' -> m_starter m' = find c_starter (m_comps m').
Proof.
  intros Hk H Ha. pose proof (class_facts c Hk) as Hf.
  leaves Ha; rewrite find_snoc, <- H; destruct (m_starter m); destruct (c_starter c) eqn:Es; fin.
Qed.

Lemma step_lo m c la m' : class_ok c = true -> m_loader m = find c_loader (m_comps m) ->
  assign m c la = Ok m' -> m_loader m' = find c_loader (m_comps m').
Proof.
  intros Hk H Ha. pose proof (class_facts c Hk) as Hf.
  leaves Ha; rewrite find_snoc, <- H; destruct (m_loader m); destruct (c_starter c) eqn:Es; fin.
Qed.

Lemma step_cp m c la m' : class_ok c = true -> m_cp m = find c_cp (m_comps m) ->
  assign m c la = Ok m' -> m_cp m' = find c_cp (m_comps m').
Proof.
  intros Hk H Ha. pose proof (class_facts c Hk) as Hf.
  leaves Ha; rewrite find_snoc, <- H; destruct (m_cp m); destruct (c_cp c) eqn:Es; fin.
Qed.

Lemma step_en m c la m' : class_ok c = true -> m_end m = find c_end (m_comps m) ->
  assign m c la = Ok m' -> m_end m' = find c_end (m_comps m').
Proof.
  intros Hk H Ha. pose proof (class_facts c Hk) as Hf.
  leaves Ha; rewrite find_snoc, <- H; destruct (m_end m); destruct (c_end c) eqn:Es; fin.
Qed.

Lemma step_atd m c la m' : class_ok c = true ->
  existsb c_atd (m_others m) = existsb c_atd (m_comps m) ->
  assign m c la = Ok m' -> existsb c_atd (m_others m') = existsb c_atd (m_comps m').
Proof.
  intros Hk H Ha. pose proof (class_facts c Hk) as Hf.
  leaves Ha; rewrite ?existsb_snoc, H; try reflexivity;
    destruct (c_atd c) eqn:Ea; rewrite ?orb_false_r; try reflexivity; exfalso; fin.
Qed.

Lemma step_nlo m c la m' :
  cnt c_loader (m_comps m) = (if isSome (m_loader m) then 1 else 0)%nat ->
  assign m c la = Ok m' -> cnt c_loader (m_comps m') = (if isSome (m_loader m') then 1 else 0)%nat.
Proof.
  intros H Ha.
  leaves Ha; rewrite cnt_snoc, H; fin; try (rewrite ?Heqb0, ?Heqb1, ?Heqb2; cbn; slia).
Qed.

Lemma step_nen m c la m' :
  cnt c_end (m_comps m) = (if isSome (m_end m) then 1 else 0)%nat ->
  class_ok c = true ->
  assign m c la = Ok m' -> cnt c_end (m_comps m') = (if isSome (m_end m') then 1 else 0)%nat.
Proof.
  intros H Hk Ha. pose proof (class_facts c Hk) as Hf.
  leaves Ha; rewrite cnt_snoc, H; destruct (c_end c) eqn:Ee; fin; try apply Nat.add_0_r; exfalso; fin.
Qed.

(* what a passed suitability test says *)
Lemma ens_facts m c la : class_ok c = true -> c_ignored c = false ->
  ensure_suitable m c la = Ok tt ->
  (c_special c = false -> isSome (m_end m) = false) /\
  (c_xstarter c = true -> nonempty (m_comps m) = false) /\
  (c_loader c = true -> isSome (m_loader m) = false /\ isSome (m_cp m) = false /\
     match m_starter m with Some s => (c_pks s && c_nrps c) || (c_nrps s && c_pks c) = false | None => True end) /\
  (c_mod c = true -> isSome (m_cp m) = true -> is_trans_at m = true /\ c_kr c = true) /\
  (c_cp c = true -> isSome (m_cp m) = true ->
     double_case la = true /\ existsb c_cp (m_others m) = false).
Proof.
  intros Hk Hi. pose proof (class_facts c Hk) as Hf. unfold ensure_suitable, c_xstarter. rewrite Hi. cbn [orb].
  destruct (c_special c) eqn:Esp.
  { intros _. destruct (c_starter c) eqn:Es, (c_loader c) eqn:El, (c_mod c) eqn:Em, (c_cp c) eqn:Ec;
      cbn; repeat split; intros; try discriminate; exfalso; fin. }
  destruct (isSome (m_end m)); [discriminate|].
  destruct (c_starter c) eqn:Es, (c_loader c) eqn:El; cbn [andb negb].
  - (* loader *)
    destruct (isSome (m_loader m)); [discriminate|].
    destruct (m_starter m) as [s|].
    + destruct ((c_pks s && c_nrps c) || (c_nrps s && c_pks c)); [discriminate|].
      destruct (isSome (m_cp m)); cbn [orb]; [discriminate|]. intros _.
      repeat split; intros; try discriminate; exfalso; fin.
    + destruct (isSome (m_cp m)); cbn [orb]; [discriminate|]. intros _.
      repeat split; intros; try discriminate; exfalso; fin.
  - destruct (nonempty (m_comps m)); [discriminate|]. intros _.
    repeat split; intros; try discriminate; try reflexivity; exfalso; fin.
  - exfalso. fin.
  - destruct (c_mod c) eqn:Em.
    + destruct (isSome (m_cp m)) eqn:Ecp; cbn [andb].
      * destruct (is_trans_at m), (c_kr c); cbn; try discriminate. intros _.
        repeat split; intros; try discriminate; exfalso; fin.
      * intros _. repeat split; intros; try discriminate; exfalso; fin.
    + destruct (c_cp c) eqn:Ec.
      * destruct (isSome (m_cp m)).
        -- destruct (existsb c_cp (m_others m)); [discriminate|].
           destruct (double_case la); [|discriminate]. intros _. repeat split; intros; try discriminate; reflexivity.
        -- intros _. repeat split; intros; discriminate.
      * intros _. repeat split; intros; discriminate.
Qed.

Lemma trans_at_tie m :
  m_starter m = find c_starter (m_comps m) -> m_loader m = find c_loader (m_comps m) ->
  existsb c_atd (m_others m) = existsb c_atd (m_comps m) ->
  is_trans_at m = spec_trans_at (m_comps m).
Proof.
  intros Hs Hl Ha. unfold is_trans_at, spec_trans_at, is_pks. rewrite <- Hs.
  rewrite <- (find_existsb c_loader), <- Hl. change (fun c : comp => lab c =? c14_L_Trans_AT_docking) with c_atd.
  rewrite Ha. destruct (m_starter m) as [s|]; [|rewrite andb_false_r; reflexivity].
  rewrite (subtype_is_tat s).
  destruct (existsb c_pks (m_comps m) && negb (isSome (m_loader m))); reflexivity.
Qed.

(* ---------- pure list steps ---------- *)
Lemma step_xs cs c : L_starter cs = true -> (c_xstarter c = true -> nonempty cs = false) ->
  L_starter (cs ++ [c]) = true.
Proof.
  unfold L_starter. intros H F. rewrite tl_snoc. destruct (nonempty cs) eqn:E; [|reflexivity].
  rewrite forallb_snoc, H. destruct (c_xstarter c); [discriminate (F eq_refl)|reflexivity].
Qed.

Lemma step_endafter cs c : forallb c_special (after_first c_end cs) = true ->
  (c_special c = false -> existsb c_end cs = false) ->
  forallb c_special (after_first c_end (cs ++ [c])) = true.
Proof.
  intros H F. rewrite after_first_snoc. destruct (existsb c_end cs) eqn:E; [|reflexivity].
  rewrite forallb_snoc, H. destruct (c_special c); [reflexivity|discriminate (F eq_refl)].
Qed.

Lemma step_mix cs c : class_ok c = true -> L_mix cs = true ->
  (find c_starter cs = None -> find c_loader cs = None) ->
  (c_loader c = true -> match find c_starter cs with
                        | Some s => (c_pks s && c_nrps c) || (c_nrps s && c_pks c) = false
                        | None => True end) ->
  L_mix (cs ++ [c]) = true.
Proof.
  intros Hk H I1 F. pose proof (class_facts c Hk) as Hf. unfold L_mix in *. rewrite !find_snoc.
  destruct (find c_starter cs) as [s|].
  - destruct (find c_loader cs) as [l|]; [exact H|].
    destruct (c_loader c) eqn:El; [|reflexivity]. rewrite (F eq_refl). reflexivity.
  - rewrite (I1 eq_refl). destruct (c_starter c) eqn:Es; [|reflexivity].
    destruct (c_loader c); [|reflexivity].
    destruct (c_pks c) eqn:Ep, (c_nrps c) eqn:En; try reflexivity. exfalso. fin.
Qed.

(* ---------- the invariant ---------- *)
Definition kk (m : module) : nat := Z.to_nat (m_unamb m).

Definition cpQ (m : module) (rest : list comp) : Prop :=
  let B := since_last c_cp (m_comps m) in
  ((2 <= cnt c_cp (m_comps m))%nat ->
     exists case, In case c14_double_transporter_cases /\
        map lab (firstn (length case) (B ++ firstn (kk m) rest)) = case /\
        (0 < m_unamb m -> (length B + kk m = length case)%nat)) /\
  (0 < m_unamb m -> m_end m = None /\ (2 <= cnt c_cp (m_comps m))%nat).

(* the carrier proteins of a module are its carrier-protein slot plus those among the others, and the
   others hold at most one (the second transporter of the documented exception) *)
Definition cp_count (m : module) : Prop :=
  cnt c_cp (m_comps m) = (cnt c_cp (m_others m) + (if isSome (m_cp m) then 1 else 0))%nat /\
  (cnt c_cp (m_others m) <= (if isSome (m_cp m) then 1 else 0))%nat.

Lemma cp_count_two m : cp_count m -> (cnt c_cp (m_comps m) <= 2)%nat.
Proof. intros [H1 H2]. destruct (isSome (m_cp m)); slia. Qed.

Lemma existsb_false_cnt f (l : list comp) : existsb f l = false -> cnt f l = 0%nat.
Proof.
  unfold cnt. induction l as [|x l IH]; cbn; [reflexivity|]. destruct (f x); cbn; [discriminate|exact IH].
Qed.

Lemma step_ncp m c la m' : class_ok c = true -> cp_count m ->
  (c_cp c = true -> isSome (m_cp m) = true ->
     (0 <? double_len la) = true /\ existsb c_cp (m_others m) = false) ->
  assign m c la = Ok m' -> cp_count m'.
Proof.
  intros Hk [H1 H2] F Ha. pose proof (class_facts c Hk) as Hf. unfold cp_count.
  leaves Ha; rewrite ?cnt_snoc, H1.
  all: destruct (c_cp c) eqn:Ec.
  all: try (exfalso; fin; fail).
  all: cbn [isSome]; rewrite ?Nat.add_0_r.
  all: try (split; [reflexivity|exact H2]).
  all: destruct (isSome (m_cp m)) eqn:Es; cbn [negb] in *; try discriminate.
  all: try (destruct (F eq_refl eq_refl) as [Fa Fb]; apply existsb_false_cnt in Fb; rewrite Fb in *).
  all: split; slia.
Qed.

Record LQ (m : module) (rest : list comp) : Prop := mkLQ {
  lq_st : m_starter m = find c_starter (m_comps m);
  lq_lo : m_loader m = find c_loader (m_comps m);
  lq_cp : m_cp m = find c_cp (m_comps m);
  lq_en : m_end m = find c_end (m_comps m);
  lq_atd : existsb c_atd (m_others m) = existsb c_atd (m_comps m);
  lq_nlo : cnt c_loader (m_comps m) = (if isSome (m_loader m) then 1 else 0)%nat;
  lq_nen : cnt c_end (m_comps m) = (if isSome (m_end m) then 1 else 0)%nat;
  lq_xs : L_starter (m_comps m) = true;
  lq_mix : L_mix (m_comps m) = true;
  lq_end : forallb c_special (after_first c_end (m_comps m)) = true;
  lq_cpq : cpQ m rest;
  lq_mod : walk [] (m_comps m) = true;
  lq_ncp : cp_count m
}.

Lemma LQ_empty f rest : LQ (empty_module f) rest.
Proof.
  constructor; try reflexivity.
  - split; [cbn; slia|]. cbn. slia.
  - split; cbn; slia.
Qed.

(* the rest of the input matters only while a look-ahead acceptance is pending *)
Lemma LQ_rest m rest rest' : m_unamb m = 0 -> LQ m rest -> LQ m rest'.
Proof.
  intros H0 [? ? ? ? ? ? ? ? ? ? [Hc Hp] ? ?]. constructor; try assumption.
  split; [|intros; slia]. intros HA. destruct (Hc HA) as [case [Hin [Hmap Hlen]]].
  exists case. split; [exact Hin|]. split; [|intros; slia].
  unfold kk in *. rewrite H0 in *. cbn [Z.to_nat firstn] in *. exact Hmap.
Qed.

(* ---------- carrier proteins and the pairs that follow them ---------- *)
Lemma max_case_len_val : max_case_len = 2%nat.
Proof. vm_compute. reflexivity. Qed.
Lemma case_len_max case : In case c14_double_transporter_cases -> length case = max_case_len.
Proof. intros H. rewrite max_case_len_val. apply case_len2. exact H. Qed.

Lemma zlist_eqb_refl l : zlist_eqb l l = true.
Proof. induction l as [|x l IH]; cbn; [reflexivity|]. rewrite Z.eqb_refl, IH. reflexivity. Qed.

Lemma firstn_exact {A} (Y X : list A) : firstn (length Y) (Y ++ X) = Y.
Proof. rewrite firstn_app, Nat.sub_diag, firstn_all. cbn. apply app_nil_r. Qed.

Lemma prefix_of_case (Y X : list comp) case :
  (length Y <= length case)%nat ->
  map lab (firstn (length case) (Y ++ X)) = case ->
  firstn (length Y) case = map lab Y.
Proof.
  intros Hl Hm. rewrite <- Hm at 1. rewrite firstn_map, firstn_firstn, Nat.min_l by exact Hl.
  rewrite firstn_exact. reflexivity.
Qed.

Lemma find_none_cnt f (l : list comp) : find f l = None -> cnt f l = 0%nat.
Proof.
  unfold cnt. induction l as [|x l IH]; cbn; [reflexivity|]. destruct (f x); [discriminate|exact IH].
Qed.
Lemma find_some_cnt f (l : list comp) x : find f l = Some x -> (1 <= cnt f l)%nat.
Proof.
  unfold cnt. induction l as [|y l IH]; cbn; [discriminate|]. destruct (f y); cbn; [slia|exact IH].
Qed.

(* the step condition of the specification holds for the component being added *)
Lemma step_walk m c rest :
  LQ m (c :: rest) -> 0 <= m_unamb m ->
  (c_mod c = true -> isSome (m_cp m) = true ->
     (is_trans_at m = true /\ c_kr c = true) \/ 0 < m_unamb m) ->
  pair_step (m_comps m) c && mod_ok (m_comps m) c = true.
Proof.
  intros HQ Hnn F4. destruct HQ as [Hst Hlo Hcp _ Hatd _ _ _ _ _ [P1 P2] _ _].
  assert (Hopen : 0 < m_unamb m -> pair_open (m_comps m) = true /\
                  case_prefix (map lab (since_last c_cp (m_comps m) ++ [c])) = true).
  { intros Hu. destruct (P2 Hu) as [_ Hn]. destruct (P1 Hn) as [case [Hin [Hmap Hlen]]].
    specialize (Hlen Hu). unfold kk in *.
    destruct (Z.to_nat (m_unamb m)) as [|k0] eqn:Ek; [slia|]. cbn [firstn] in Hmap.
    split.
    - unfold pair_open. rewrite <- (case_len_max _ Hin).
      apply andb_true_intro. split; [apply Nat.leb_le; exact Hn|apply Nat.ltb_lt; slia].
    - unfold case_prefix. apply existsb_exists. exists case. split; [exact Hin|].
      rewrite map_length.
      replace (since_last c_cp (m_comps m) ++ c :: firstn k0 rest)
        with ((since_last c_cp (m_comps m) ++ [c]) ++ firstn k0 rest) in Hmap by (rewrite <- app_assoc; reflexivity).
      assert (X : (length (since_last c_cp (m_comps m) ++ [c]) <= length case)%nat)
        by (rewrite app_length; cbn; slia).
      rewrite (prefix_of_case _ _ _ X Hmap). apply zlist_eqb_refl. }
  apply andb_true_intro. split.
  - unfold pair_step. destruct (pair_open (m_comps m)) eqn:Eo; [|reflexivity]. cbn [negb orb].
    destruct (Z_lt_le_dec 0 (m_unamb m)) as [Hu|Hu]; [exact (proj2 (Hopen Hu))|].
    exfalso. unfold pair_open in Eo. apply andb_prop in Eo. destruct Eo as [En El].
    apply Nat.leb_le in En. apply Nat.ltb_lt in El.
    destruct (P1 En) as [case [Hin [Hmap _]]]. unfold kk in Hmap.
    replace (Z.to_nat (m_unamb m)) with 0%nat in Hmap by slia. cbn [firstn] in Hmap. rewrite app_nil_r in Hmap.
    rewrite <- (case_len_max _ Hin) in El.
    assert (length (map lab (firstn (length case) (since_last c_cp (m_comps m)))) = length case) by (rewrite Hmap; reflexivity).
    rewrite map_length, firstn_length in H. slia.
  - unfold mod_ok. destruct (c_mod c) eqn:Em; [|reflexivity]. cbn [negb orb].
    rewrite <- (find_existsb c_cp), <- Hcp.
    destruct (isSome (m_cp m)) eqn:Ecp; [|reflexivity]. cbn [negb orb].
    destruct (F4 eq_refl eq_refl) as [[Hta Hkr]|Hu].
    + rewrite Hkr, <- (trans_at_tie m Hst Hlo Hatd), Hta. reflexivity.
    + rewrite (proj1 (Hopen Hu)). apply orb_true_r.
Qed.

Lemma cpq_noncp m c rest m' :
  c_cp c = false -> m_unamb m = 0 -> m_unamb m' = 0 -> m_comps m' = m_comps m ++ [c] ->
  cpQ m (c :: rest) -> cpQ m' rest.
Proof.
  intros Ec H0 H0' Hc [P1 _]. unfold cpQ, kk in *. rewrite Hc, H0', cnt_snoc, since_last_snoc, Ec in *.
  rewrite H0 in P1. cbn [Z.to_nat firstn] in *.
  split; [|intros; slia]. intros Hn. rewrite Nat.add_0_r in Hn.
  destruct (P1 Hn) as [case [Hin [Hmap _]]]. exists case. split; [exact Hin|]. split; [|intros; slia].
  rewrite app_nil_r in *.
  assert (Hl : (length case <= length (since_last c_cp (m_comps m)))%nat).
  { assert (length (map lab (firstn (length case) (since_last c_cp (m_comps m)))) = length case) by (rewrite Hmap; reflexivity).
    rewrite map_length, firstn_length in H. slia. }
  rewrite firstn_app. replace (length case - length (since_last c_cp (m_comps m)))%nat with 0%nat by slia.
  cbn [firstn]. rewrite app_nil_r. exact Hmap.
Qed.

Lemma step_cpq m c la rest m' :
  inv12 m (c :: rest) -> LQ m (c :: rest) -> class_ok c = true ->
  la = firstn (length la) rest ->
  (if 0 <? m_unamb m then Ok tt else ensure_suitable m c la) = Ok tt ->
  c_ignored c = false ->
  assign m c la = Ok m' -> cpQ m' rest.
Proof.
  intros [I1 I2] HQ Hk Hla Hens Hi Ha. pose proof (class_facts c Hk) as Hf.
  pose proof (pending_nonneg _ _ I2) as Hnn.
  destruct (Z_lt_le_dec 0 (m_unamb m)) as [Hu|Hu].
  - (* a pending acceptance: c is a plain modification *)
    pose proof (pending_head _ _ _ I2 Hu) as Hpl. apply plain_comp in Hpl.
    destruct Hpl as [Hm [_ [Hs [Hl _]]]].
    assert (Ecp : c_cp c = false) by (destruct Hf as [_ [Hf _]]; apply Hf; exact Hm).
    destruct HQ as [_ _ _ _ _ _ _ _ _ _ [P1 P2] _ _]. destruct (P2 Hu) as [Hend Hn].
    unfold assign in Ha. rewrite Hs, Hl, Hm in Ha. cbn [andb] in Ha.
    replace (0 <? m_unamb m) with true in Ha by (clear - Hu; lia). inversion Ha; subst m'; clear Ha.
    unfold cpQ, kk in *. cbn [with_comp m_comps m_unamb m_end].
    rewrite cnt_snoc, since_last_snoc, Ecp, Nat.add_0_r.
    destruct (P1 Hn) as [case [Hin [Hmap Hlen]]]. specialize (Hlen Hu).
    destruct (Z.to_nat (m_unamb m)) as [|k0] eqn:Ek; [slia|].
    replace (Z.to_nat (m_unamb m - 1)) with k0 by slia. cbn [firstn] in Hmap.
    split; [|intros; split; assumption].
    intros _. exists case. split; [exact Hin|]. split.
    + rewrite <- app_assoc. exact Hmap.
    + intros _. rewrite app_length. cbn. slia.
  - assert (H0 : m_unamb m = 0) by slia.
    replace (0 <? m_unamb m) with false in Hens by (clear - Hu; lia).
    destruct (ens_facts m c la Hk Hi Hens) as [F2 [F1 [F3 [F4 F5]]]].
    destruct (c_cp c) eqn:Ecp.
    + (* a carrier protein *)
      destruct Hf as [_ [Hfm [Hfc _]]]. destruct (Hfc eq_refl) as [Hs [_ Hsp]].
      assert (Hl : c_loader c = false) by (apply (loader_starter c Hk Hs)).
      assert (Hm : c_mod c = false) by (destruct (c_mod c); [destruct (Hfm eq_refl) as [_ [X _]]; discriminate|reflexivity]).
      unfold assign in Ha. rewrite Hs, Hl, Hm, Ecp in Ha. cbn [andb] in Ha.
      replace (0 <? m_unamb m) with false in Ha by (clear - Hu; lia).
      destruct HQ as [_ _ Hcp _ _ _ _ _ _ _ [P1 P2] _ _].
      destruct (isSome (m_cp m)) eqn:Es; cbn [negb] in Ha.
      * specialize (F5 eq_refl eq_refl). destruct F5 as [F5 _]. rewrite double_case_len in F5. rewrite F5 in Ha.
        inversion Ha; subst m'; clear Ha.
        unfold cpQ, kk. cbn [with_comp m_comps m_unamb m_end].
        rewrite cnt_snoc, since_last_snoc, Ecp.
        assert (Hn1 : (1 <= cnt c_cp (m_comps m))%nat).
        { destruct (m_cp m) as [x|] eqn:Ex; [|discriminate]. eapply find_some_cnt. symmetry. exact Hcp. }
        assert (Hend : m_end m = None).
        { specialize (F2 Hsp). destruct (m_end m); [discriminate|reflexivity]. }
        split; [|intros; split; [exact Hend|slia]].
        intros _. unfold double_len in *.
        destruct (double_len_case la c14_double_transporter_cases 0) as [Hz|[case [Hin [Hmt Hr]]]]; cbn zeta in *; [clear - Hz F5; lia|].
        exists case. split; [exact Hin|]. rewrite Hr, zlen_nat. cbn [app length].
        split; [|intros; reflexivity].
        rewrite firstn_firstn, Nat.min_id.
        apply case_matches_firstn in Hmt.
        assert (Hlen_la : (length case <= length la)%nat).
        { assert (length (firstn (length case) (map lab la)) = length case) by (rewrite Hmt; reflexivity).
          rewrite firstn_length, map_length in H. slia. }
        rewrite Hla in Hmt. rewrite <- firstn_map. rewrite <- Hmt at 2.
        rewrite !firstn_map. f_equal. rewrite firstn_firstn. f_equal. slia.
      * inversion Ha; subst m'; clear Ha.
        unfold cpQ, kk. cbn [with_comp m_comps m_unamb m_end].
        rewrite cnt_snoc, Ecp. destruct (m_cp m) eqn:Ex; [discriminate|].
        rewrite (find_none_cnt c_cp _ (eq_sym Hcp)). split; [cbn; slia|intros; slia].
    + (* anything else: the state of the pairs is unchanged *)
      pose proof (lq_cpq _ _ HQ) as Hq.
      leaves Ha; try congruence;
        (eapply cpq_noncp; [first [exact Ecp|eassumption]|exact H0| |reflexivity|exact Hq]);
        cbn [m_unamb]; slia.
Qed.

(* ---------- one step of add_component preserves the layout invariant ---------- *)
Lemma LQ_step m c la rest m' :
  inv12 m (c :: rest) -> LQ m (c :: rest) -> la = firstn (length la) rest ->
  add_component m c la = Ok m' -> LQ m' rest.
Proof.
  intros Hinv HQ Hla Hadd. pose proof Hinv as [I1 I2].
  pose proof (classified_class_ok _ (add_classified _ _ _ _ Hadd)) as Hk.
  pose proof (class_facts c Hk) as Hf.
  pose proof (pending_nonneg _ _ I2) as Hnn.
  destruct (c_ignored c) eqn:Hi.
  { apply add_ignored in Hadd; [|exact Hi]. subst m'. apply (LQ_rest m (c :: rest)); [|exact HQ].
    apply (pending_is_zero_if _ _ _ I2). destruct (plain_mod_label (lab c)) eqn:E; [|reflexivity].
    apply plain_comp in E. destruct E as [_ [E _]]. congruence. }
  pose proof (add_comps _ _ _ _ Hadd) as Hc. rewrite Hi in Hc.
  destruct (add_split _ _ _ _ Hadd Hi) as [Hens Ha].
  (* what the suitability test, or the pending acceptance, guarantees *)
  assert (F : (c_special c = false -> isSome (m_end m) = false) /\
              (c_xstarter c = true -> nonempty (m_comps m) = false) /\
              (c_loader c = true ->
                 match m_starter m with Some s => (c_pks s && c_nrps c) || (c_nrps s && c_pks c) = false | None => True end) /\
              (c_mod c = true -> isSome (m_cp m) = true -> (is_trans_at m = true /\ c_kr c = true) \/ 0 < m_unamb m) /\
              (c_cp c = true -> isSome (m_cp m) = true ->
                 (0 <? double_len la) = true /\ existsb c_cp (m_others m) = false)).
  { destruct (Z_lt_le_dec 0 (m_unamb m)) as [Hu|Hu].
    - pose proof (pending_head _ _ _ I2 Hu) as Hpl. apply plain_comp in Hpl.
      destruct Hpl as [Hm [_ [Hs [Hl _]]]].
      destruct (proj2 (lq_cpq _ _ HQ) Hu) as [Hend _].
      split; [|split; [|split; [|split]]].
      + intros _. rewrite Hend. reflexivity.
      + unfold c_xstarter. rewrite Hs. discriminate.
      + rewrite Hl. discriminate.
      + intros _ _. right. exact Hu.
      + intros Hcp'. destruct Hf as [_ [Hf _]]. destruct (Hf Hm) as [_ [X _]]. congruence.
    - replace (0 <? m_unamb m) with false in Hens by (clear - Hu; lia).
      destruct (ens_facts m c la Hk Hi Hens) as [F2 [F1 [F3 [F4 F5]]]].
      split; [exact F2|]. split; [exact F1|]. split; [|split].
      + intros Hl. apply (proj2 (proj2 (F3 Hl))).
      + intros Hm Hcp. left. apply F4; assumption.
      + intros Hc' Hcp. destruct (F5 Hc' Hcp) as [Fa Fb]. rewrite double_case_len in Fa. split; assumption. }
  destruct F as [F2 [F1 [F3 [F4 F5]]]].
  destruct HQ as [Hst Hlo Hcp Hen Hatd Hnlo Hnen Hxs Hmix Hend Hcpq Hmod Hncp] eqn:EQ.
  constructor.
  - eapply step_st; eassumption.
  - eapply step_lo; eassumption.
  - eapply step_cp; eassumption.
  - eapply step_en; eassumption.
  - eapply step_atd; eassumption.
  - eapply step_nlo; eassumption.
  - eapply step_nen; eassumption.
  - rewrite Hc. apply step_xs; assumption.
  - rewrite Hc. apply step_mix; try assumption.
    + rewrite <- Hst, <- Hlo. exact I1.
    + rewrite <- Hst. exact F3.
  - rewrite Hc. apply step_endafter; [assumption|].
    intros Hsp. rewrite <- (find_existsb c_end), <- Hen. apply F2. exact Hsp.
  - eapply step_cpq; try eassumption.
  - rewrite Hc, walk_snoc, Hmod. cbn [app andb]. apply (step_walk m c rest); assumption.
  - eapply step_ncp; eassumption.
Qed.

(* ---------- at closure: the specification of the layout ---------- *)
Lemma LQ_layout m rest : LQ m rest -> m_unamb m = 0 -> layout_spec (m_comps m) = true.
Proof.
  intros [Hst Hlo Hcp Hen Hatd Hnlo Hnen Hxs Hmix Hend [P1 _] Hmod Hncp] H0.
  unfold layout_spec, L_cp_strict. rewrite (proj2 (Nat.leb_le _ _) (cp_count_two m Hncp)), andb_true_r.
  unfold layout_weak, L_loader, L_end, L_pairs. rewrite Hxs, Hmix, Hend, Hmod, Hnlo, Hnen. cbn [andb].
  assert (Ho : pair_open (m_comps m) = false).
  { unfold pair_open. destruct (2 <=? cnt c_cp (m_comps m))%nat eqn:En; [|reflexivity]. cbn [andb].
    apply Nat.leb_le in En. destruct (P1 En) as [case [Hin [Hmap _]]].
    unfold kk in Hmap. rewrite H0 in Hmap. cbn [Z.to_nat firstn] in Hmap. rewrite app_nil_r in Hmap.
    rewrite <- (case_len_max _ Hin). apply Nat.ltb_ge.
    assert (length (map lab (firstn (length case) (since_last c_cp (m_comps m)))) = length case) by (rewrite Hmap; reflexivity).
    rewrite map_length, firstn_length in H. slia. }
  rewrite Ho. destruct (isSome (m_loader m)), (isSome (m_end m)); reflexivity.
Qed.

(* ================= part C: the statements about build_modules_for_cds and combine_modules ================= *)
Lemma LQ_set_first b m rest : LQ m rest -> LQ (set_first b m) rest.
Proof. intros [? ? ? ? ? ? ? ? ? ? ? ? ?]. constructor; assumption. Qed.

Definition closedB (m : module) : Prop := closedA m /\ LQ m [].
Definition QB (m : module) (rest : list comp) : Prop := QA m rest /\ LQ m rest.

Lemma QB_empty f rest : QB (empty_module f) rest.
Proof. split; [apply QA_empty|apply LQ_empty]. Qed.
Lemma QB_step m c rest m' : inv m (c :: rest) -> QB m (c :: rest) ->
  add_component m c (firstn 2 rest) = Ok m' -> QB m' rest.
Proof.
  intros Hinv [HA HL] Ha. split; [eapply QA_step; eassumption|].
  eapply LQ_step; [exact (proj1 Hinv)|exact HL|apply firstn_firstn_self|exact Ha].
Qed.
Lemma QB_close m rest : inv m rest -> QB m rest -> m_unamb m = 0 -> closedB m.
Proof.
  intros Hinv [HA HL] H0. split; [eapply QA_close; eassumption|]. eapply LQ_rest; eassumption.
Qed.

Lemma build_closedB domains ms :
  Forall (fun c => c_classified c = true) domains ->
  build_modules_for_cds domains = Ok ms -> Forall closedB ms.
Proof.
  intros Hc Hb. unfold build_modules_for_cds in Hb.
  destruct (build [] (empty_module true) (sort_comps domains)) as [ms0|k] eqn:E; cbn [bind] in Hb; [|discriminate].
  destruct (forallb (fun m => nonempty (m_comps m)) ms0); [|discriminate]. inversion Hb; subst ms0.
  eapply (build_inv_gen QB closedB QB_empty QB_step QB_close); [| | | |exact E].
  - apply sort_by_Forall. exact Hc.
  - apply inv_empty.
  - apply QB_empty.
  - constructor.
Qed.

(* the module rules, and the slots as functions of the components *)
Definition rules_ok (m : module) : Prop :=
  layout_spec (m_comps m) = true /\
  m_starter m = find c_starter (m_comps m) /\ m_loader m = find c_loader (m_comps m) /\
  m_cp m = find c_cp (m_comps m) /\ m_end m = find c_end (m_comps m) /\
  is_trans_at m = spec_trans_at (m_comps m) /\
  Forall (fun c => c_ignored c = false) (m_comps m).

Lemma closedB_rules m : closedB m -> rules_ok m.
Proof.
  intros [[H0 [_ [HF _]]] HL]. split; [eapply LQ_layout; eassumption|].
  pose proof HL as [Hst Hlo Hcp Hen Hatd _ _ _ _ _ _ _ _].
  repeat split; try assumption.
  - apply trans_at_tie; assumption.
  - eapply Forall_impl; [|exact HF]. intros c [_ Hi]. exact Hi.
Qed.

Lemma build_layout domains ms :
  Forall (fun c => c_classified c = true) domains ->
  build_modules_for_cds domains = Ok ms -> Forall rules_ok ms.
Proof.
  intros Hc Hb. eapply Forall_impl; [|eapply build_closedB; eassumption]. apply closedB_rules.
Qed.

(* the documented exception is a double transporter: one carrier protein, or two *)
Lemma rules_cp_two m : rules_ok m -> (cnt c_cp (m_comps m) <= 2)%nat.
Proof.
  intros [H _]. unfold layout_spec, L_cp_strict in H. apply andb_prop in H. apply Nat.leb_le. exact (proj2 H).
Qed.

Lemma build_cp_at_most_two domains ms :
  Forall (fun c => c_classified c = true) domains ->
  build_modules_for_cds domains = Ok ms -> Forall (fun m => (cnt c_cp (m_comps m) <= 2)%nat) ms.
Proof.
  intros Hc Hb. eapply Forall_impl; [|eapply build_layout; eassumption]. apply rules_cp_two.
Qed.

(* ---------- replay keeps the layout invariant ---------- *)
Lemma replay_LQ cs : forall m m', inv12 m cs -> LQ m cs -> replay m cs = Ok m' -> LQ m' [].
Proof.
  induction cs as [|c r IH]; intros m m' Hinv HL H; cbn [replay] in H.
  - inversion H; subst. exact HL.
  - destruct (add_component m c r) as [m1|k] eqn:Ha; cbn [bind] in H; [|discriminate].
    apply (IH m1 m'); [| |exact H].
    + eapply add_inv12; [exact Hinv| |exact Ha]. symmetry. apply firstn_all.
    + eapply LQ_step; [exact Hinv|exact HL| |exact Ha]. symmetry. apply firstn_all.
Qed.

Lemma merge_closedB head tail m2 : closedB head -> closedB tail ->
  replay (set_first false head) (m_comps tail) = Ok m2 -> closedB m2.
Proof.
  intros [HhA HhL] [HtA HtL] H2. split; [exact (merge_closed head tail m2 HhA HtA H2)|].
  apply (replay_LQ (m_comps tail) (set_first false head) m2); [apply closedA_head_inv12; exact HhA| |exact H2].
  apply LQ_set_first. eapply LQ_rest; [exact (proj1 HhA)|exact HhL].
Qed.

Lemma snoc_closedB m2 kr m3 : closedB m2 -> add_component m2 kr [] = Ok m3 -> closedB m3.
Proof.
  intros [HA HL] Ha. split; [exact (snoc_closed m2 kr m3 HA Ha)|].
  destruct HA as [H0 [_ [_ HI]]].
  eapply (LQ_step m2 kr [] [] m3); [split; [exact HI|left; exact H0]| |reflexivity|exact Ha].
  eapply LQ_rest; [exact H0|exact HL].
Qed.

Lemma Forall_removelast {A} (P : A -> Prop) l : Forall P l -> Forall P (removelast l).
Proof.
  induction 1 as [|x l Hx Hl IH]; cbn; [constructor|]. destruct l; [constructor|]. constructor; assumption.
Qed.

(* combine_modules on closed lists: never raises; the result lists are closed again; a merge result is
   closed (hence obeys the rules and reloads identically); without a merge nothing changes *)
Ltac none_case :=
  do 3 eexists; split; [reflexivity|]; split; [assumption|]; split; [assumption|]; split; reflexivity.

Lemma combine_closedB same current previous :
  Forall closedB previous -> Forall closedB current ->
  exists om p' c', combine_modules same current previous = Ok (om, p', c') /\
    Forall closedB p' /\ Forall closedB c' /\
    match om with
    | Some m => closedB m /\ is_complete m = true /\ same = true
    | None => p' = previous /\ c' = current
    end.
Proof.
  intros Hp Hc. unfold combine_modules.
  pose proof I as Hdummy.
  destruct same; cbn [negb]; [|none_case].
  destruct (last_opt previous) as [head|] eqn:Eh; [|none_case].
  destruct current as [|tail crest]; [none_case|].
  match goal with |- context [if ?b then _ else _] => destruct b end;
    [none_case|].
  match goal with |- context [if ?b then _ else _] => destruct b end;
    [none_case|].
  assert (Hhead : closedB head).
  { rewrite Forall_forall in Hp. apply Hp. apply last_opt_in. exact Eh. }
  inversion Hc as [|? ? Htail Hcrest]; subst.
  rewrite <- replay_ext_nil, (closedA_replay_head head [] (proj1 Hhead)). cbn [bind].
  pose proof (closedA_head_inv12 head (m_comps tail) (proj1 Hhead)) as Hinv1.
  destruct (replay_inv12 _ _ Hinv1 (proj1 (proj2 (proj2 (proj1 Htail))))) as [Herr Hok].
  destruct (replay (set_first false head) (m_comps tail)) as [m2|k] eqn:E2.
  2:{ rewrite (Herr k eq_refl). none_case. }
  pose proof (merge_closedB _ _ _ Hhead Htail E2) as Hm2.
  destruct (is_complete m2) eqn:Ecomp; cbn [negb]; [|none_case].
  assert (Hp2 : Forall closedB (removelast previous ++ [m2])).
  { apply Forall_app. split; [apply Forall_removelast; exact Hp|constructor; [exact Hm2|constructor]]. }
  destruct crest as [|next rest'].
  { do 3 eexists. split; [reflexivity|]. split; [exact Hp2|]. split; [constructor|].
    split; [exact Hm2|]. split; [exact Ecomp|reflexivity]. }
  assert (Hdefault : exists om p' c',
             Ok (Some m2, removelast previous ++ [m2], next :: rest') = Ok (om, p', c') /\
             Forall closedB p' /\ Forall closedB c' /\
             match om with Some m => closedB m /\ is_complete m = true /\ true = true
                         | None => p' = previous /\ c' = tail :: next :: rest' end).
  { do 3 eexists. split; [reflexivity|]. split; [exact Hp2|]. split; [exact Hcrest|].
    split; [exact Hm2|]. split; [exact Ecomp|reflexivity]. }
  destruct (m_comps next) as [|kr [|x xs]] eqn:En; try exact Hdefault.
  destruct (is_trans_at m2 && (lab kr =? c14_L_PKS_KR)) eqn:Eta; [|exact Hdefault].
  destruct (add_component m2 kr []) as [m3|k] eqn:E3.
  - pose proof (snoc_closedB _ _ _ Hm2 E3) as Hm3.
    do 3 eexists. split; [reflexivity|]. split; [|split; [|split; [exact Hm3|split; [|reflexivity]]]].
    + apply Forall_app. split; [apply Forall_removelast; exact Hp|constructor; [exact Hm3|constructor]].
    + inversion Hcrest; assumption.
    + (* a KR added to a complete trans-AT module keeps it complete *)
      apply andb_prop in Eta. destruct Eta as [Eta Ekr].
      assert (Hk : class_ok kr = true) by (apply classified_class_ok; eapply add_classified; exact E3).
      pose proof (class_facts kr Hk) as Hf.
      assert (Hmod : c_mod kr = true) by (destruct Hf as [_ [_ [_ [_ [_ [_ [Hf _]]]]]]]; apply Hf; exact Ekr).
      destruct Hf as [_ [Hf _]]. destruct (Hf Hmod) as [Hs [_ _]].
      assert (Hl : c_loader kr = false) by (apply (loader_starter kr Hk Hs)).
      assert (Hi : c_ignored kr = false).
      { inversion Hcrest as [|? ? Hnext _]; subst. destruct Hnext as [[_ [_ [HF _]]] _].
        rewrite En in HF. inversion HF as [|? ? [_ Hig] _]. exact Hig. }
      destruct (add_split _ _ _ _ E3 Hi) as [_ Ha]. unfold assign in Ha.
      rewrite Hs, Hl, Hmod in Ha. cbn [andb] in Ha. inversion Ha; subst m3.
      unfold is_complete, is_trans_at, is_pks in *.
      cbn [with_comp m_comps m_starter m_loader m_cp m_first m_others] in *.
      rewrite existsb_snoc.
      destruct (m_starter m2) as [s|]; [|discriminate].
      destruct (existsb c_pks (m_comps m2)); cbn [orb andb] in *; [|discriminate]. exact Ecomp.
  - assert (Hk : k = E_Incompatible).
    { apply (add_no_assert m2 kr [] [] k); [| |exact E3].
      - apply inv12_nil_any. exact (Hok _ eq_refl).
      - inversion Hcrest as [|? ? Hnext _]; subst. destruct Hnext as [[_ [_ [HF _]]] _].
        rewrite En in HF. inversion HF as [|? ? [Hcl _] _]. exact Hcl. }
    subst k. exact Hdefault.
Qed.

(* for every pair of genes *)
Lemma combine_total prev cur same :
  Forall (fun c => c_classified c = true) prev -> Forall (fun c => c_classified c = true) cur ->
  exists p c om p' c',
    build_modules_for_cds prev = Ok p /\ build_modules_for_cds cur = Ok c /\
    combine_modules same c p = Ok (om, p', c') /\
    Forall (fun m => rules_ok m /\ reload m = Ok m) p' /\
    Forall (fun m => rules_ok m /\ reload m = Ok m) c' /\
    match om with
    | Some m => rules_ok m /\ reload m = Ok m /\ is_complete m = true /\ same = true
    | None => p' = p /\ c' = c
    end.
Proof.
  intros Hp Hc.
  destruct (build_modules_total_partition prev Hp) as [p [Ep _]].
  destruct (build_modules_total_partition cur Hc) as [c [Ec _]].
  pose proof (build_closedB _ _ Hp Ep) as Hcp. pose proof (build_closedB _ _ Hc Ec) as Hcc.
  destruct (combine_closedB same c p Hcp Hcc) as [om [p' [c' [E [Hp' [Hc' Hom]]]]]].
  exists p, c, om, p', c'.
  assert (HR : forall m, closedB m -> rules_ok m /\ reload m = Ok m).
  { intros m Hm. split; [apply closedB_rules; exact Hm|apply closedA_reload; exact (proj1 Hm)]. }
  split; [exact Ep|]. split; [exact Ec|]. split; [exact E|].
  split; [eapply Forall_impl; [exact HR|exact Hp']|].
  split; [eapply Forall_impl; [exact HR|exact Hc']|].
  destruct om as [m|]; [|exact Hom]. destruct Hom as [Hm [Hcomp Hs]].
  destruct (HR m Hm) as [H1 H2]. split; [exact H1|]. split; [exact H2|]. split; assumption.
Qed.

(* regression (repaired finding F52): a third carrier protein is refused even when the registered pair
   follows it again - KS ACP ACP LPG Beta ACP LPG Beta is no longer one module with three carrier proteins,
   the module is closed in front of the third one: [KS,CP,CP,+,+] [CP] [+,+] *)
Lemma third_cp_refused :
  exists m1 m2 m3,
    build_modules_for_cds
      [mkComp 41 [] 0 10; mkComp 1 [] 1 20; mkComp 1 [] 2 30; mkComp 28 [] 3 40; mkComp 11 [] 4 50;
       mkComp 1 [] 5 60; mkComp 28 [] 6 70; mkComp 11 [] 7 80] = Ok [m1; m2; m3] /\
    map cid (m_comps m1) = [0; 1; 2; 3; 4] /\ map cid (m_comps m2) = [5] /\ map cid (m_comps m3) = [6; 7] /\
    cnt c_cp (m_comps m1) = 2%nat /\ layout_spec (m_comps m1) = true.
Proof. do 3 eexists. split; [vm_compute; reflexivity|]. repeat split. Qed.
