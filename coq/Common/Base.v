(* Shared basics: result monad, list helpers, decoders over the flat integer encoding. *)
From Coq Require Export ZArith List Bool Lia.
Export ListNotations.
Open Scope Z_scope.

(* exception kinds (DESIGN appendix A) *)
Definition E_Value := 1.
Definition E_Assert := 2.
Definition E_Index := 3.
Definition E_Key := 4.
Definition E_Type := 5.
Definition E_RuleSyntax := 6.
Definition E_SecmetInvalid := 7.
Definition E_Incompatible := 8.
Definition E_Runtime := 9.
Definition E_Attribute := 10.
Definition E_Fuel := 11.

Inductive res (A : Type) : Type := Ok (a : A) | Err (k : Z).
Arguments Ok {A} a.
Arguments Err {A} k.

Definition bind {A B} (r : res A) (f : A -> res B) : res B :=
  match r with Ok a => f a | Err k => Err k end.
Notation "'do' x <- e ; f" := (bind e (fun x => f)) (at level 200, x pattern, e at level 100, f at level 200).

Fixpoint mapM {A B} (f : A -> res B) (l : list A) : res (list B) :=
  match l with
  | [] => Ok []
  | x :: xs => do y <- f x; do ys <- mapM f xs; Ok (y :: ys)
  end.

Definition zlen {A} (l : list A) : Z := Z.of_nat (length l).

Fixpoint minl (d : Z) (l : list Z) : Z :=
  match l with [] => d | x :: xs => Z.min x (minl x xs) end.
Fixpoint maxl (d : Z) (l : list Z) : Z :=
  match l with [] => d | x :: xs => Z.max x (maxl x xs) end.
(* min/max of a non-empty list; 0 for the empty list (never used on one) *)
Definition lmin (l : list Z) : Z := match l with [] => 0 | x :: xs => fold_left Z.min xs x end.
Definition lmax (l : list Z) : Z := match l with [] => 0 | x :: xs => fold_left Z.max xs x end.

Fixpoint sorted_le (l : list Z) : bool :=
  match l with
  | x :: ((y :: _) as t) => (x <=? y) && sorted_le t
  | _ => true
  end.
Fixpoint sorted_ge (l : list Z) : bool :=
  match l with
  | x :: ((y :: _) as t) => (y <=? x) && sorted_ge t
  | _ => true
  end.

Fixpoint list_eqb {A} (eqb : A -> A -> bool) (a b : list A) : bool :=
  match a, b with
  | [], [] => true
  | x :: xs, y :: ys => eqb x y && list_eqb eqb xs ys
  | _, _ => false
  end.

Definition last_opt {A} (l : list A) : option A :=
  match rev l with [] => None | x :: _ => Some x end.

(* stable insertion sort by a "less than" test (Python's sorted is stable and calls only __lt__):
   insert x after every element y with not (x < y) *)
Fixpoint insert_by {A} (lt : A -> A -> bool) (x : A) (l : list A) : list A :=
  match l with
  | [] => [x]
  | y :: ys => if lt x y then x :: l else y :: insert_by lt x ys
  end.
Definition sort_by {A} (lt : A -> A -> bool) (l : list A) : list A :=
  fold_left (fun acc x => insert_by lt x acc) l [].

(* ---------- decoding of the flat encoding ---------- *)
Definition dec (A : Type) := list Z -> option (A * list Z).

Definition dZ : dec Z := fun l => match l with x :: r => Some (x, r) | [] => None end.
Definition dBool : dec bool := fun l => match l with x :: r => Some (negb (x =? 0), r) | [] => None end.

Fixpoint dRep {A} (d : dec A) (n : nat) : dec (list A) := fun l =>
  match n with
  | O => Some ([], l)
  | S m => match d l with
           | Some (x, r) => match dRep d m r with Some (xs, r') => Some (x :: xs, r') | None => None end
           | None => None
           end
  end.
Definition dList {A} (d : dec A) : dec (list A) := fun l =>
  match l with
  | n :: r => if n <? 0 then None else dRep d (Z.to_nat n) r
  | [] => None
  end.
Definition dOpt {A} (d : dec A) : dec (option A) := fun l =>
  match l with
  | 0 :: r => Some (None, r)
  | _ :: r => match d r with Some (x, r') => Some (Some x, r') | None => None end
  | [] => None
  end.
Definition dPair {A B} (da : dec A) (db : dec B) : dec (A * B) := fun l =>
  match da l with
  | Some (a, r) => match db r with Some (b, r') => Some ((a, b), r') | None => None end
  | None => None
  end.

Definition eList {A} (e : A -> list Z) (l : list A) : list Z := zlen l :: flat_map e l.
Definition eOpt {A} (e : A -> list Z) (o : option A) : list Z :=
  match o with None => [0] | Some x => 1 :: e x end.
Definition eBool (b : bool) : list Z := [if b then 1 else 0].
Definition eRes {A} (e : A -> list Z) (r : res A) : list Z :=
  match r with Ok a => 0 :: e a | Err k => [1; k] end.

(* result of a run when the input does not decode *)
Definition bad_input : list Z := [-999].
