(* Faithful executable model of antismash/common/secmet/locations.py and the Record location
   helpers.  A location is a non-empty list of parts; one part = FeatureLocation, two or more =
   CompoundLocation (Biopython refuses a CompoundLocation with fewer than two parts).
   Strand: 1, -1, 0 ("?"), 2 (None). *)
From ASV Require Export Base.

Record part := mkPart { ps : Z; pe : Z; pst : Z }.
Definition loc := list part.

Definition S_None := 2.

Definition part_eqb (a b : part) : bool :=
  (ps a =? ps b) && (pe a =? pe b) && (pst a =? pst b).
Definition loc_eqb (a b : loc) : bool := list_eqb part_eqb a b.

Definition lstart (l : loc) : Z := lmin (map ps l).
Definition lend (l : loc) : Z := lmax (map pe l).
Definition llen (l : loc) : Z := fold_right (fun p acc => (pe p - ps p) + acc) 0 l.
Definition lstrand (l : loc) : Z :=
  match l with
  | [] => S_None
  | p :: r => if forallb (fun q => pst q =? pst p) r then pst p else S_None
  end.
Definition is_compound (l : loc) : bool := match l with _ :: _ :: _ => true | _ => false end.

(* int in SimpleLocation *)
Definition in_part (x : Z) (p : part) : bool := (ps p <=? x) && (x <? pe p).
(* int in CompoundLocation / SimpleLocation *)
Definition in_loc (x : Z) (l : loc) : bool := existsb (in_part x) l.

(* ---------- locations_overlap / location_contains_other ---------- *)
Definition part_overlap (a b : part) : bool :=
  in_part (ps a) b || in_part (pe a - 1) b || in_part (ps b) a || in_part (pe b - 1) a.
Definition overlap (a b : loc) : bool :=
  existsb (fun p => existsb (fun q => part_overlap p q) b) a.

Definition part_contains (o i : part) : bool :=
  (ps o <=? ps i) && (ps i <=? pe i) && (pe i <=? pe o).
Definition contains (o i : loc) : bool :=
  forallb (fun ip => existsb (fun op => part_contains op ip) o) i.

(* ---------- get_distance_between_locations ---------- *)
Definition pdist_line (a b : part) : Z :=
  if part_overlap a b then 0 else
  lmin [Z.abs (ps a - pe b); Z.abs (pe a - ps b); Z.abs (ps b - pe a); Z.abs (pe b - ps a)].

(* wrap_point is tested by truthiness: None and 0 both mean "no wrap" *)
Definition pdist (a b : part) (wrap : option Z) : Z :=
  if part_overlap a b then 0 else
  match wrap with
  | Some w =>
    if w =? 0 then pdist_line a b else
    let d := lmin [Z.abs (ps a - pe b + w); Z.abs (pe a - ps b + w);
                   Z.abs (ps b - pe a + w); Z.abs (pe b - ps a + w)] in
    Z.min (d mod w) (pdist_line a b)
  | None => pdist_line a b
  end.

(* with several parts: the minimum over all pairs of parts (each pair goes through the
   single-part formula, including its own overlap test) *)
Definition dist (a b : loc) (wrap : option Z) : Z :=
  if overlap a b then 0 else
  match a, b with
  | [p], [q] => pdist p q wrap
  | _, _ => lmin (flat_map (fun p => map (fun q => pdist p q wrap) b) a)
  end.

(* ---------- location_bridges_origin (allow_reversing = False) ---------- *)
Fixpoint check_order (st : Z) (l : list part) : bool :=
  match l with
  | p :: ((q :: _) as t) =>
      (if st =? 1 then ps q <? ps p else ps p <? ps q) || check_order st t
  | _ => false
  end.
Definition bridges (l : loc) : bool :=
  if is_compound l then
    let st := lstrand l in
    if (st =? 1) || (st =? -1) then check_order st l
    else negb (sorted_le (map ps l))
  else false.

(* ---------- split_origin_bridging_location ---------- *)
(* forward / strandless: leading run of strictly increasing starts is "upper", the rest "lower" *)
Fixpoint split_fwd (upper_rev : list part) (l : list part) : list part * list part :=
  match l with
  | [] => (rev upper_rev, [])
  | p :: r =>
    match upper_rev with
    | [] => split_fwd [p] r
    | u :: _ => if ps u <? ps p then split_fwd (p :: upper_rev) r else (rev upper_rev, l)
    end
  end.
(* reverse strand: leading run of strictly decreasing starts is "lower", the rest "upper" *)
Fixpoint split_rev (lower_rev : list part) (l : list part) : list part * list part :=
  match l with
  | [] => (rev lower_rev, [])
  | p :: r =>
    match lower_rev with
    | [] => split_rev [p] r
    | u :: _ => if ps p <? ps u then split_rev (p :: lower_rev) r else (rev lower_rev, l)
    end
  end.

Definition hull_part (l : list part) (st : Z) : part :=
  mkPart (lmin (map ps l)) (lmax (map pe l)) st.

Definition nonempty {A} (l : list A) : bool := match l with [] => false | _ => true end.

Definition all_same_strand (l : list part) : bool :=
  match l with [] => true | p :: r => forallb (fun q => pst q =? pst p) r end.

Definition valid_split (lower upper : list part) (strand : Z) : bool :=
  nonempty lower && nonempty upper &&
  negb (part_overlap (hull_part lower 0) (hull_part upper 0)) &&
  (if strand =? -1 then sorted_ge (map ps upper) && sorted_ge (map ps lower)
   else sorted_le (map ps upper) && sorted_le (map ps lower)).

(* returns (lower, upper) *)
Definition split_bridging (l : loc) : res (list part * list part) :=
  if negb (is_compound l) then Ok (l, []) else
  if negb (all_same_strand l) then Err E_Value else
  let '(lower, upper) :=
    if lstrand l =? -1 then split_rev [] l
    else let '(u, lo) := split_fwd [] l in (lo, u) in
  if negb (nonempty lower && nonempty upper) then Err E_Value else
  if negb (valid_split lower upper (lstrand l)) then Err E_Value else
  Ok (lower, upper).

(* ---------- _reduce_parts_to_location ---------- *)
(* FeatureLocation(start, end) raises ValueError when end < start *)
Definition mkFL (s e st : Z) : res part :=
  if e <? s then Err E_Value else Ok (mkPart s e st).

Definition reduce_parts (parts : list part) (wrap : option Z) : res loc :=
  match parts with
  | [p] => Ok [p]
  | _ =>
    if bridges parts then
      match wrap with
      | None => Err E_Value
      | Some w =>
        if w <=? 0 then Err E_Assert else
        do lu <- split_bridging parts;
        let '(lower, upper) := lu in
        do a <- mkFL (lmin (map ps upper)) w 1;
        do b <- mkFL 0 (lmax (map pe lower)) 1;
        Ok [a; b]
      end
    else Ok [mkPart (lstart parts) (lend parts) (lstrand parts)]
  end.

(* ---------- _is_wrapping_shorter / _split_sections_around_origin ---------- *)
Definition key_lt (a b : loc) : bool :=
  (lstart a <? lstart b) || ((lstart a =? lstart b) && (lend a <? lend b)).

Definition wrapping_shorter (locs : list loc) (w : Z) : bool :=
  if existsb bridges locs then true else
  match sort_by key_lt locs with
  | [] => false
  | first :: rest => existsb (fun second => w / 2 <? lstart second - lend first) rest
  end.

Fixpoint split_sections_go (locs : list loc) (w : Z) : res (list loc * list loc) :=
  match locs with
  | [] => Ok ([], [])
  | l :: r =>
    do pp <- split_sections_go r w;
    let '(pre, post) := pp in
    if bridges l then
      do lu <- split_bridging l;
      let '(lower, upper) := lu in
      do a <- reduce_parts upper (Some w);
      do b <- reduce_parts lower (Some w);
      Ok (a :: pre, b :: post)
    else
      do p <- mkFL (lstart l) (lend l) 1;
      if lstart l <? w - lend l then Ok (pre, [p] :: post) else Ok ([p] :: pre, post)
  end.
Definition split_sections (locs : list loc) (w : Z) : res (list loc * list loc) :=
  if negb (wrapping_shorter locs w) then Ok (locs, []) else split_sections_go locs w.

(* linear connect_locations on already reduced locations *)
Definition common_strand (locs : list loc) : Z :=
  match locs with
  | [] => S_None
  | l :: r => if forallb (fun q => lstrand q =? lstrand l) r then lstrand l else S_None
  end.
Definition hull (locs : list loc) : res loc :=
  do p <- mkFL (lmin (map lstart locs)) (lmax (map lend locs)) (common_strand locs);
  Ok [p].

(* connect_locations(locs) without wrap point, as called from inside the module *)
Definition connect_line (locs : list loc) : res loc :=
  match locs with
  | [] => Err E_Value
  | _ =>
    if existsb bridges locs then Err E_Value else
    do red <- mapM (fun l => reduce_parts l None) locs;
    hull red
  end.

(* ---------- _merge_over_origin ---------- *)
Definition merge_over_origin (locs : list loc) (w : Z) : res (list loc) :=
  do pp <- split_sections locs w;
  let '(upper, lower) := pp in
  do locs1 <-
    (match lower, upper with
     | _ :: _, _ :: _ => do u <- connect_line upper; do l <- connect_line lower; Ok [u; l]
     | _ :: _, [] => do l <- connect_line lower; Ok [l]
     | [], _ :: _ => do u <- connect_line upper; Ok [u]
     | [], [] => Ok locs
     end);
  match locs1 with
  | [location; other] =>
    if is_compound location || is_compound other then Err E_Assert else
    if dist location other (Some w) <? dist location other None then
      do up <- (if lstart other <? lstart location then mkFL (lstart location) w 1
                else mkFL (lstart other) w 1);
      do lo <- (if lstart other <? lstart location then mkFL 0 (lend other) 1
                else mkFL 0 (lend location) 1);
      Ok [[up; lo]]
    else Ok locs1
  | [location] => if is_compound location then Ok locs1 else Ok locs1
  | _ => Ok locs1
  end.

(* ---------- connect_locations ---------- *)
Definition list_loc_eqb (a b : list loc) : bool := list_eqb loc_eqb a b.

Fixpoint connect (fuel : nat) (locs : list loc) (wrap : option Z) : res loc :=
  match fuel with
  | O => Err E_Fuel
  | S f =>
    match locs with
    | [] => Err E_Value
    | _ =>
      let any_cross := existsb bridges locs in
      match wrap with
      | None =>
        if any_cross then Err E_Value else
        do red <- mapM (fun l => reduce_parts l None) locs;
        hull red
      | Some w =>
        do red <- mapM (fun l => reduce_parts l wrap) locs;
        if w <=? 0 then Err E_Assert else
        do locs2 <- (if any_cross then Ok red else merge_over_origin red w);
        match locs2 with
        | [single] => Ok single
        | _ =>
          do pp <- split_sections locs2 w;
          let '(pre_chunks, post_chunks) := pp in
          match pre_chunks, post_chunks with
          | [], _ => connect f post_chunks None
          | _, [] => connect f pre_chunks None
          | _, _ =>
            do pre <- connect f pre_chunks wrap;
            do post <- connect f post_chunks wrap;
            match pre, post with
            | [prep], [postp] =>
              if contains pre post || contains post pre then
                Ok (if llen post <? llen pre then pre else post)
              else if overlap pre post then
                do r <- connect f [pre; post] None;
                if lstrand r =? 1 then Ok r else Err E_Assert
              else Ok [mkPart (ps prep) (pe prep) 1; mkPart (ps postp) (pe postp) 1]
            | _, _ => Err E_Assert
            end
          end
        end
      end
    end
  end.

Definition connect_fuel (locs : list loc) : nat := (2 * length locs + 8)%nat.
Definition connect_locations (locs : list loc) (wrap : option Z) : res loc :=
  connect (connect_fuel locs) locs wrap.

(* ---------- offset_location ---------- *)
(* shifted_location(): every part moved by the offset; asserts start < end and, when no wrap
   point was given at all, that the result is not negative *)
Definition shifted (l : loc) (offset : Z) (wrap_given : bool) : res loc :=
  if offset =? 0 then Ok l else
  mapM (fun p =>
          let s := ps p + offset in
          let e := pe p + offset in
          if negb (s <? e) then Err E_Assert else
          if wrap_given || ((0 <=? s) && (0 <? e)) then Ok (mkPart s e (pst p)) else Err E_Assert) l.

(* the final merge loop (after the repair of findings C04-K2 offset_merge_drops_part and C04-K3
   offset_reverse_wrap_order): `previous` is the last raw part, acc_rev the list `merged` reversed.
   Two consecutive reverse-strand parts run downwards: they are merged when previous.start == part.end
   (merged[-1] = FeatureLocation(part.start, merged[-1].end)), never in the listed (ascending) direction;
   otherwise a part starting at previous.end extends the last MERGED part
   (merged[-1] = FeatureLocation(merged[-1].start, part.end)) *)
Fixpoint merge_adjacent (prev : part) (acc_rev : list part) (l : list part) : res (list part) :=
  match l with
  | [] => Ok (rev acc_rev)
  | p :: r =>
    if (pst prev =? -1) && (pst p =? -1) then
      if ps prev =? pe p then
        match acc_rev with
        | [] => Err E_Assert
        | last :: acc' => merge_adjacent p (mkPart (ps p) (pe last) (pst p) :: acc') r
        end
      else merge_adjacent p (p :: acc_rev) r
    else if pe prev =? ps p then
      if negb (pst prev =? pst p) then Err E_Assert else
      match acc_rev with
      | [] => Err E_Assert
      | last :: acc' => merge_adjacent p (mkPart (ps last) (pe p) (pst p) :: acc') r
      end
    else merge_adjacent p (p :: acc_rev) r
  end.

(* a shifted part that crosses the wrap point is split; on the reverse strand the half after the
   origin is listed first (halves.reverse()) *)
Definition offset_location (l : loc) (offset : Z) (wrap : option Z) : res loc :=
  match wrap with
  | None => shifted l offset false
  | Some w =>
    if (w =? 0) || (offset =? 0) then shifted l offset true
    else if w <? 1 then Err E_Value
    else if llen l =? w then Ok l
    else if (0 <=? lstart l + offset) && (lstart l + offset <? lend l + offset)
            && (lend l + offset <=? w) then shifted l offset true
    else
      do parts <- shifted l offset true;
      let new_parts := flat_map (fun p =>
          let s := (ps p + w) mod w in
          let e := (pe p - 1 + w) mod w + 1 in
          if (0 <=? s) && (s <? e) && (e <=? w) then [mkPart s e (pst p)]
          else if pst p =? -1 then [mkPart 0 e (pst p); mkPart s w (pst p)]
          else [mkPart s w (pst p); mkPart 0 e (pst p)]) parts in
      if negb (forallb (fun p => (0 <=? ps p) && (ps p <? pe p) && (pe p <=? w)) new_parts)
      then Err E_Assert else
      match new_parts with
      | [] => Err E_Index
      | p0 :: rest => merge_adjacent p0 [p0] rest
      end
  end.

(* ---------- make_forwards / remove_redundant_exons / build_location_from_others ---------- *)
Definition make_forwards (l : loc) : loc :=
  let parts := map (fun p => mkPart (ps p) (pe p) 1) l in
  if lstrand l =? -1 then rev parts else parts.

(* sorted(parts, key=size, reverse=True): Python's reverse sort keeps the original order of
   equal elements (it reverses, sorts stably, reverses) *)
Definition size_gt (a b : part) : bool := (pe b - ps b) <? (pe a - ps a).
Definition remove_redundant_exons (l : loc) : loc :=
  if negb (is_compound l) then l else
  let by_size := sort_by size_gt l in
  let kept := fold_left (fun parts p =>
                if existsb (fun ex => part_contains ex p) parts then parts else parts ++ [p])
              by_size [] in
  match kept with
  | [p] => [p]
  | _ => filter (fun p => existsb (part_eqb p) kept) l
  end.

(* ---------- frameshift ---------- *)
Definition adjust_by_offset (l : loc) (offset : Z) : res loc :=
  if offset =? 0 then Ok l else
  if negb ((-2 <=? offset) && (offset <=? 2)) then Err E_Assert else
  let adj (p : part) : res part :=
    if pst p =? -1 then mkFL (ps p) (pe p + offset) (pst p)
    else mkFL (ps p + offset) (pe p) (pst p) in
  match l with
  | [] => Err E_Index
  | [p] => do q <- adj p; Ok [q]
  | p :: r =>
    (* "if not location_bridges_origin(location): assert ..." - the first listed exon has to be the
       outermost one only when the location does not cross the origin *)
    if bridges l || (if lstrand l =? -1 then pe p =? lend l else ps p =? lstart l)
    then do q <- adj p; Ok (q :: r) else Err E_Assert
  end.

(* raw_start given as an integer *)
Definition frameshift (l : loc) (raw_start : Z) (undo : bool) : res loc :=
  let cs := raw_start - 1 in
  if negb ((0 <=? cs) && (cs <=? 2)) then Err E_SecmetInvalid else
  let cs := if lstrand l =? -1 then - cs else cs in
  let cs := if undo then - cs else cs in
  adjust_by_offset l cs.

(* ---------- Record.extend_location ---------- *)
Definition strand_merge (a b : part) : Z := if pst a =? pst b then pst a else 0.

(* while len(parts) > 1 and overlap(parts[0], parts[-1]): merge last into first *)
Fixpoint merge_ends (fuel : nat) (parts : list part) : list part :=
  match fuel with
  | O => parts
  | S f =>
    match parts, last_opt parts with
    | first :: (_ :: _), Some second =>
      if part_overlap first second then
        merge_ends f (mkPart (Z.min (ps first) (ps second)) (Z.max (pe first) (pe second))
                             (strand_merge first second) :: removelast (tl parts))
      else parts
    | _, _ => parts
    end
  end.

Definition set_first (p : part) (l : list part) : list part :=
  match l with [] => [] | _ :: r => p :: r end.
Definition set_last (p : part) (l : list part) : list part :=
  match l with [] => [] | _ => removelast l ++ [p] end.

(* while parts and overlap(parts[-1], upper): upper = FL(min(..), maximum); parts.pop() *)
Fixpoint absorb_upper (rparts : list part) (upper : part) (merged : bool)
  : list part * part * bool :=
  match rparts with
  | [] => ([], upper, merged)
  | p :: r =>
    if part_overlap p upper
    then absorb_upper r (mkPart (Z.min (ps p) (ps upper)) (pe upper) (pst upper)) true
    else (rparts, upper, merged)
  end.
Fixpoint absorb_lower (parts : list part) (lower : part) (merged : bool)
  : list part * part * bool :=
  match parts with
  | [] => ([], lower, merged)
  | p :: r =>
    if part_overlap p lower
    then absorb_lower r (mkPart 0 (Z.max (pe p) (pe lower)) (pst lower)) true
    else (parts, lower, merged)
  end.

Definition extend_location (l : loc) (distance : Z) (maximum : Z) (circular : bool) : res loc :=
  let st := lstrand l in
  let parts := if st =? -1 then rev l else l in
  match parts, last_opt parts with
  | p0 :: _, Some pn =>
    let ns := ps p0 - distance in
    let ne := pe pn + distance in
    if circular && (ns <? 0) && (ns + maximum <=? ne) then
      do a <- mkFL 0 (pe p0) st;
      let parts := set_first a parts in
      do pl <- match last_opt parts with Some q => Ok q | None => Err E_Index end;
      do b <- mkFL (ps pl) maximum st;
      let parts := set_last b parts in
      (* ns < 0 always holds here *)
      do upper <- mkFL (ns + maximum) maximum st;
      let '(rrest, upper', merged) := absorb_upper (rev parts) upper false in
      let parts := if merged then upper' :: rev rrest else parts in
      do parts <-
        (if maximum <? ne then
           do lower <- mkFL 0 (ne mod maximum) st;
           (* first = 1 if merged and len(parts) > 1 else 0: the part starting at the origin
              follows the merged upper part; the loop pops parts[first], the merged lower part
              is inserted at index first (repair of finding F09b extend_lower_lost) *)
           let first := merged && (1 <? Z.of_nat (length parts)) in
           let '(rest, lower', merged2) :=
             absorb_lower (if first then tl parts else parts) lower false in
           if negb merged2 then Ok parts else
           match (if first then parts else []) with
           | up :: _ =>
             (* the lower extension has reached the upper one: everything is covered *)
             if ps up <=? pe lower' then do w <- mkFL 0 maximum st; Ok [w]
             else Ok (up :: lower' :: rest)
           | [] => Ok (lower' :: rest)
           end
         else Ok parts);
      match parts with
      | [p] => if part_eqb p (mkPart 0 maximum st) then Ok [p] else Err E_Assert
      | [] => Err E_Value
      | _ => Ok (if st =? -1 then rev parts else parts)
      end
    else
      let parts := merge_ends (length parts) parts in
      do parts <-
        (match parts with
         | [] => Err E_Index
         | sp :: rest =>
           if (ps sp - distance <? 0) && circular then
             do a <- mkFL 0 (pe sp) (pst sp);
             do b <- mkFL (Z.min (maximum + (ps sp - distance)) maximum) maximum (pst sp);
             Ok (b :: a :: rest)
           else
             do a <- mkFL (Z.max 0 (ps sp - distance)) (pe sp) (pst sp);
             Ok (a :: rest)
         end);
      do parts <-
        (match last_opt parts with
         | None => Err E_Index
         | Some ep =>
           if (maximum <? pe ep + distance) && circular then
             do a <- mkFL (ps ep) maximum (pst ep);
             do b <- mkFL 0 (Z.min (pe ep + distance - maximum) maximum) (pst ep);
             Ok (removelast parts ++ [a; b])
           else
             do a <- mkFL (ps ep) (Z.min (pe ep + distance) maximum) (pst ep);
             Ok (removelast parts ++ [a])
         end);
      let parts := merge_ends (length parts) parts in
      match parts with
      | [p] => Ok [p]
      | _ => Ok (if st =? -1 then rev parts else parts)
      end
  | _, _ => Err E_Index
  end.

(* ---------- encoding ---------- *)
Definition dPart : dec part := fun l =>
  match l with a :: b :: c :: r => Some (mkPart a b c, r) | _ => None end.
Definition dLoc : dec loc := dList dPart.
Definition ePart (p : part) : list Z := [ps p; pe p; pst p].
Definition eLoc (l : loc) : list Z := eList ePart l.
