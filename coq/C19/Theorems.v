(* C19 - property theorems. *)
From ASV Require Import Base Loc.
From ASV.C19 Require Import Model Proofs.
From Coq Require Import Sorting.Permutation.

(* no two areas packed into one row overlap: for every list of well-formed areas (one part, or the two
   forward parts [s,m)+[0,e) of an origin-crossing collection), in ANY input order and for any
   length argument, every row returned by pack holds pairwise non-overlapping areas
   (locations_overlap is false both ways round) *)
Theorem C19_pack_no_overlap : forall areas len rows,
  Forall wf_feat areas -> pack areas len = Ok rows ->
  Forall (fun r => ForallOrdPairs (fun x y => overlap (floc x) (floc y) = false /\
                                               overlap (floc y) (floc x) = false) (r_contents r)) rows.
Proof. exact pack_no_overlap. Qed.
Print Assumptions C19_pack_no_overlap.

(* the same in terms of positions: two occupants of a row share no base *)
Theorem C19_pack_no_common_base : forall areas len rows,
  Forall wf_feat areas -> pack areas len = Ok rows ->
  Forall (fun r => ForallOrdPairs (fun x y => forall z, ~ (in_loc z (floc x) = true /\ in_loc z (floc y) = true))
                                  (r_contents r)) rows.
Proof. exact pack_no_common_base. Qed.
Print Assumptions C19_pack_no_common_base.

Example C19_pack_no_overlap_nonvacuous :
  let a := mkFeat 0 K_Sub [mkPart 10 20 1] None false 1 in
  let b := mkFeat 1 K_Sub [mkPart 80 90 1] None false 1 in
  let c := mkFeat 2 K_Sub [mkPart 85 100 1; mkPart 0 5 1] None false 1 in
  Forall wf_feat [a; b; c] /\
  exists r1 r2, pack [a; b; c] (-1) = Ok [r1; r2] /\ map fid (r_contents r1) = [0; 1] /\ map fid (r_contents r2) = [2].
Proof.
  cbv zeta. split.
  - repeat constructor; cbn; lia.
  - eexists; eexists. split; [vm_compute; reflexivity|]. split; reflexivity.
Qed.

(* every area is placed exactly once: the rows, concatenated, are a permutation of the input *)
Theorem C19_pack_complete : forall areas len rows,
  pack areas len = Ok rows -> Permutation (contents_of rows) areas.
Proof. exact pack_complete. Qed.
Print Assumptions C19_pack_complete.

(* pack raises only for an area with a negative start *)
Theorem C19_pack_total : forall areas len,
  Forall (fun a => 0 <= fstart a) areas -> exists rows, pack areas len = Ok rows.
Proof. exact pack_total. Qed.
Print Assumptions C19_pack_total.

(* an area that has to be split at the origin yields two areas with the same non-zero group id, the
   kind and height of the original, and extents [start, L) and [0, end) that partition the extent of
   the feature; the split happens exactly when the region itself does not cross the origin, otherwise
   the single area keeps its start and has its end moved past the origin by the record length *)
Theorem C19_split_links : forall f h rc L g a' oe,
  g <> 0 ->
  adjust_cross_origin_area (from_feature f h) f rc L g = Ok (a', oe) ->
  (rc = true -> oe = None /\ a_group a' = 0 /\ a_ns a' = fstart f /\ a_ne a' = fend f + L) /\
  (rc = false -> exists e, oe = Some e /\
     a_group a' = g /\ a_group e = g /\ a_group a' <> 0 /\
     a_kind a' = fkind f /\ a_kind e = fkind f /\ a_height a' = h /\ a_height e = h /\
     a_ns a' = fstart f /\ a_ne a' = L /\ a_ns e = 0 /\ a_ne e = fend f).
Proof. exact split_links. Qed.
Print Assumptions C19_split_links.

Example C19_split_links_nonvacuous :
  exists a' e, adjust_cross_origin_area (from_feature witness_proto 2) witness_proto false 1000 7 = Ok (a', Some e)
               /\ a_group a' = 7 /\ a_group e = 7 /\ a_ne a' = 1000 /\ a_ns e = 0.
Proof. eexists; eexists. split; [vm_compute; reflexivity|]. repeat split. Qed.

(* the extent of every area emitted for a feature lies inside the range announced for the region
   (0-based; for an origin-crossing region [start, N + end of the post-origin part)), with
   neighbouring_start <= neighbouring_end, at the height of its row and with the feature's kind -
   for every kind of feature, every core, all five branches of adjust_cross_origin_area and both
   region shapes; one area is emitted, or two exactly when an origin-crossing area lies in a region
   that does not cross the origin.  Hypotheses: region and area well-formed on a record of length N,
   the area contained in the region, origin-crossing shapes only on circular records.
   Partial: stated per feature (add_area_from_feature); that build_area_rows visits exactly the packed
   features is C19_pack_complete plus the correspondence run. *)
Theorem C19_in_range_extent_partial : forall N circ rloc f h conv grp st',
  wf_region N rloc -> wf_feat_ring N f -> contains rloc (floc f) = true ->
  (bridges rloc = true \/ fcrosses f = true -> circ = true) ->
  add_area_from_feature rloc N (extend_over_origin rloc N circ) h (conv, grp) f = Ok st' ->
  exists added, fst st' = conv ++ added /\ Forall (area_ok rloc N h f) added /\
                (length added = 1%nat \/ (length added = 2%nat /\ bridges rloc = false /\ fcrosses f = true)).
Proof. exact area_extent_in_range. Qed.
Print Assumptions C19_in_range_extent_partial.

(* start/end inside the extent and ordered: a protocluster's core inside its own extent, on whichever
   side of the origin it lies; start/end equal to the extent for sub-regions and candidate clusters.
   core_wf is well-formedness only (a protocluster has a core and the core lies inside the protocluster);
   the former guard "core on the side the length - core_start < core_end test assumes" is gone with the
   repair of finding core_side_heuristic, and candidate clusters are covered since the repair of
   candidate_end_unshifted. *)
Theorem C19_in_range_core : forall N circ rloc f h conv grp st',
  wf_region N rloc -> wf_feat_ring N f -> contains rloc (floc f) = true ->
  (bridges rloc = true \/ fcrosses f = true -> circ = true) ->
  core_wf N f ->
  add_area_from_feature rloc N (extend_over_origin rloc N circ) h (conv, grp) f = Ok st' ->
  exists added, fst st' = conv ++ added /\ Forall (fun a => chain_ok a = true) added.
Proof. exact area_chain_in_extent. Qed.
Print Assumptions C19_in_range_core.

Example C19_in_range_nonvacuous :
  let f := mkFeat 0 K_Proto [mkPart 900 1000 1; mkPart 0 100 1] (Some [mkPart 950 1000 1; mkPart 0 30 1]) false 1 in
  let rloc := [mkPart 800 1000 1; mkPart 0 300 1] in
  wf_region 1000 rloc /\ wf_feat_ring 1000 f /\ contains rloc (floc f) = true /\ core_wf 1000 f /\
  add_area_from_feature rloc 1000 (extend_over_origin rloc 1000 true) 2 ([], 0) f
  = Ok ([mkArea K_Proto 950 1030 900 1100 2 0 1], 0).
Proof.
  cbv zeta. split.
  - right. exists (mkPart 800 1000 1), (mkPart 0 300 1). cbn. repeat split; lia.
  - split.
    + right. exists (mkPart 900 1000 1), (mkPart 0 100 1). cbn. repeat split; lia.
    + split; [vm_compute; reflexivity|]. split; [|vm_compute; reflexivity].
      intros _. eexists. split; [reflexivity|]. split; [vm_compute; reflexivity|]. right.
      exists (mkPart 950 1000 1), (mkPart 0 30 1). cbn. repeat split; lia.
Qed.

(* formerly C19_in_range_core_refuted (finding core_side_heuristic, repaired): for EVERY protocluster
   whose core is well-formed and inside its extent - before or after the origin, whatever
   core_start + core_end is - the emitted start/end lie inside the emitted extent *)
Theorem C19_in_range_core_protocluster : forall N circ rloc f core h conv grp st',
  wf_region N rloc -> wf_feat_ring N f -> contains rloc (floc f) = true ->
  (bridges rloc = true \/ fcrosses f = true -> circ = true) ->
  fkind f = K_Proto -> fcore f = Some core -> wf_core_in N f core ->
  add_area_from_feature rloc N (extend_over_origin rloc N circ) h (conv, grp) f = Ok st' ->
  exists added, fst st' = conv ++ added /\ Forall (fun a => chain_ok a = true) added.
Proof. exact proto_chain_in_extent. Qed.
Print Assumptions C19_in_range_core_protocluster.

(* the recorded witnesses of core_side_heuristic now give the right coordinates: protocluster
   [100,1000)+[0,50) with core [200,300) on a ring of 1000 (was start 1200, end 1300), and its mirror
   [900,1000)+[0,800) with core [600,700) (was start 600, end 700 with extent 900..1800); in a
   whole-record region the core stays on its own half *)
Example C19_core_side_witness_repaired :
  add_area_from_feature witness_region 1000 (extend_over_origin witness_region 1000 true) 0 ([], 0) witness_proto
  = Ok ([mkArea K_Proto 200 300 100 1050 0 0 1], 0) /\
  add_area_from_feature (floc witness_proto_mirror) 1000 (extend_over_origin (floc witness_proto_mirror) 1000 true)
                        0 ([], 0) witness_proto_mirror
  = Ok ([mkArea K_Proto 1600 1700 900 1800 0 0 1], 0) /\
  add_area_from_feature [mkPart 0 1000 1] 1000 (extend_over_origin [mkPart 0 1000 1] 1000 true) 0 ([], 0) witness_proto
  = Ok ([mkArea K_Proto 200 300 100 1000 0 1 1; mkArea K_Proto 0 0 0 50 0 1 0], 1).
Proof. repeat split; vm_compute; reflexivity. Qed.

(* formerly C19_in_range_candidate_refuted (finding candidate_end_unshifted, repaired): for EVERY
   candidate cluster, whatever its core, start/end lie inside (in fact equal) the emitted extent *)
Theorem C19_in_range_candidate : forall N circ rloc f h conv grp st',
  wf_region N rloc -> wf_feat_ring N f -> contains rloc (floc f) = true ->
  (bridges rloc = true \/ fcrosses f = true -> circ = true) ->
  fkind f = K_Cand ->
  add_area_from_feature rloc N (extend_over_origin rloc N circ) h (conv, grp) f = Ok st' ->
  exists added, fst st' = conv ++ added /\ Forall (fun a => chain_ok a = true) added.
Proof. exact cand_chain_in_extent. Qed.
Print Assumptions C19_in_range_candidate.

(* the witness of candidate_end_unshifted: candidate [100,1000)+[0,50) with core [400,700)
   (was start 100, end 50 with neighbouring_end 1050; split: a half with start = end = 0) *)
Example C19_candidate_witness_repaired :
  add_area_from_feature witness_region 1000 (extend_over_origin witness_region 1000 true) 0 ([], 0) witness_cand
  = Ok ([mkArea K_Cand 100 1050 100 1050 0 0 1], 0) /\
  add_area_from_feature [mkPart 0 1000 1] 1000 (extend_over_origin [mkPart 0 1000 1] 1000 true) 0 ([], 0) witness_cand
  = Ok ([mkArea K_Cand 100 1000 100 1000 0 1 1; mkArea K_Cand 0 50 0 50 0 1 1], 1).
Proof. repeat split; vm_compute; reflexivity. Qed.

(* at the observation point: every area returned by build_area_rows has its extent inside the announced
   range, neighbouring_start <= neighbouring_end - for every region whose sub-regions, candidate clusters
   and protoclusters (any number, nesting, order, set iteration order) are well-formed areas contained in
   the region, origin-crossing shapes only on circular records *)
Theorem C19_build_extents_in_range : forall N circ rloc subs cands protos out,
  wf_region N rloc ->
  Forall (feat_ok N circ rloc) subs -> Forall (feat_ok N circ rloc) cands -> Forall (feat_ok N circ rloc) protos ->
  build_area_rows rloc N circ subs cands protos = Ok out ->
  Forall (fun a => extent_ok (range0 rloc N) a = true) out.
Proof. exact build_extents_in_range. Qed.
Print Assumptions C19_build_extents_in_range.

(* at the observation point, the whole chain of the property: for every area returned by build_area_rows,
   range start <= neighbouring_start <= start <= end <= neighbouring_end <= range end - for every region
   whose features are well-formed areas contained in the region and whose protoclusters have their core
   inside their extent (provable without a guard since the two repairs) *)
Theorem C19_build_chain_in_range : forall N circ rloc subs cands protos out,
  wf_region N rloc ->
  Forall (feat_ok_core N circ rloc) subs -> Forall (feat_ok_core N circ rloc) cands ->
  Forall (feat_ok_core N circ rloc) protos ->
  build_area_rows rloc N circ subs cands protos = Ok out ->
  Forall (fun a => fst (range0 rloc N) <= a_ns a /\ a_ns a <= a_start a /\ a_start a <= a_end a /\
                   a_end a <= a_ne a /\ a_ne a <= snd (range0 rloc N)) out.
Proof. exact build_full_chain. Qed.
Print Assumptions C19_build_chain_in_range.

(* non-vacuity, on the two repaired witnesses together: an origin-crossing region holding the candidate
   cluster and the protocluster whose core lies before the origin *)
Example C19_build_chain_nonvacuous :
  Forall (feat_ok_core 1000 true witness_region) [witness_cand] /\
  Forall (feat_ok_core 1000 true witness_region) [witness_proto] /\
  build_area_rows witness_region 1000 true [] [witness_cand] [witness_proto]
  = Ok [mkArea K_Cand 100 1050 100 1050 0 0 1; mkArea K_Proto 200 300 100 1050 2 0 1].
Proof.
  split; [|split; [|vm_compute; reflexivity]].
  - constructor; [|constructor]. split; [split; [apply witness_feat_wf; reflexivity|split; [vm_compute; reflexivity|auto]]|].
    intros Hk. discriminate Hk.
  - constructor; [|constructor]. split; [split; [apply witness_feat_wf; reflexivity|split; [vm_compute; reflexivity|auto]]|].
    intros _. exists [mkPart 200 300 1]. split; [reflexivity|]. split; [vm_compute; reflexivity|].
    left. exists (mkPart 200 300 1). cbn. repeat split; lia.
Qed.
