(* C19 - property theorems. *)
From ASV Require Import Base Loc.
From ASV.C19 Require Import Model Proofs.
From Coq Require Import Sorting.Permutation.

(* no two areas packed into one row overlap: for every list of well-formed areas (one part, or the two
   forward parts [s,m)+[0,e) of an origin-crossing collection), in ANY input order and for any
   length argument, every row returned by pack holds pairwise non-overlapping areas
   (locations_overlap is false both ways round) *)
Theorem C19_pack_no_overlap : forall areas len rows,
  Forall wf_feat areas -> pack areas len = Ok rows ->
  Forall (fun r => ForallOrdPairs (fun x y => overlap (floc x) (floc y) = false /\
                                               overlap (floc y) (floc x) = false) (r_contents r)) rows.
Proof. exact pack_no_overlap. Qed.
Print Assumptions C19_pack_no_overlap.

(* the same in terms of positions: two occupants of a row share no base *)
Theorem C19_pack_no_common_base : forall areas len rows,
  Forall wf_feat areas -> pack areas len = Ok rows ->
  Forall (fun r => ForallOrdPairs (fun x y => forall z, ~ (in_loc z (floc x) = true /\ in_loc z (floc y) = true))
                                  (r_contents r)) rows.
Proof. exact pack_no_common_base. Qed.
Print Assumptions C19_pack_no_common_base.

Example C19_pack_no_overlap_nonvacuous :
  let a := mkFeat 0 K_Sub [mkPart 10 20 1] None false 1 in
  let b := mkFeat 1 K_Sub [mkPart 80 90 1] None false 1 in
  let c := mkFeat 2 K_Sub [mkPart 85 100 1; mkPart 0 5 1] None false 1 in
  Forall wf_feat [a; b; c] /\
  exists r1 r2, pack [a; b; c] (-1) = Ok [r1; r2] /\ map fid (r_contents r1) = [0; 1] /\ map fid (r_contents r2) = [2].
Proof.
  cbv zeta. split.
  - repeat constructor; cbn; lia.
  - eexists; eexists. split; [vm_compute; reflexivity|]. split; reflexivity.
Qed.

(* every area is placed exactly once: the rows, concatenated, are a permutation of the input *)
Theorem C19_pack_complete : forall areas len rows,
  pack areas len = Ok rows -> Permutation (contents_of rows) areas.
Proof. exact pack_complete. Qed.
Print Assumptions C19_pack_complete.

(* pack raises only for an area with a negative start *)
Theorem C19_pack_total : forall areas len,
  Forall (fun a => 0 <= fstart a) areas -> exists rows, pack areas len = Ok rows.
Proof. exact pack_total. Qed.
Print Assumptions C19_pack_total.

(* an area that has to be split at the origin yields two areas with the same non-zero group id, the
   kind and height of the original, and extents [start, L) and [0, end) that partition the extent of
   the feature; the split happens exactly when the region itself does not cross the origin, otherwise
   the single area keeps its start and has its end moved past the origin by the record length *)
Theorem C19_split_links : forall f h rc L g a' oe,
  g <> 0 ->
  adjust_cross_origin_area (from_feature f h) f rc L g = Ok (a', oe) ->
  (rc = true -> oe = None /\ a_group a' = 0 /\ a_ns a' = fstart f /\ a_ne a' = fend f + L) /\
  (rc = false -> exists e, oe = Some e /\
     a_group a' = g /\ a_group e = g /\ a_group a' <> 0 /\
     a_kind a' = fkind f /\ a_kind e = fkind f /\ a_height a' = h /\ a_height e = h /\
     a_ns a' = fstart f /\ a_ne a' = L /\ a_ns e = 0 /\ a_ne e = fend f).
Proof. exact split_links. Qed.
Print Assumptions C19_split_links.

Example C19_split_links_nonvacuous :
  exists a' e, adjust_cross_origin_area (from_feature witness_proto 2) witness_proto false 1000 7 = Ok (a', Some e)
               /\ a_group a' = 7 /\ a_group e = 7 /\ a_ne a' = 1000 /\ a_ns e = 0.
Proof. eexists; eexists. split; [vm_compute; reflexivity|]. repeat split. Qed.

(* the extent of every area emitted for a feature lies inside the range announced for the region
   (0-based; for an origin-crossing region [start, N + end of the post-origin part)), with
   neighbouring_start <= neighbouring_end, at the height of its row and with the feature's kind -
   for every kind of feature, every core, all five branches of adjust_cross_origin_area and both
   region shapes; one area is emitted, or two exactly when an origin-crossing area lies in a region
   that does not cross the origin.  Hypotheses: region and area well-formed on a record of length N,
   the area contained in the region, origin-crossing shapes only on circular records.
   Partial: stated per feature (add_area_from_feature); that build_area_rows visits exactly the packed
   features is C19_pack_complete plus the correspondence run. *)
Theorem C19_in_range_extent_partial : forall N circ rloc f h conv grp st',
  wf_region N rloc -> wf_feat_ring N f -> contains rloc (floc f) = true ->
  (bridges rloc = true \/ fcrosses f = true -> circ = true) ->
  add_area_from_feature rloc N (extend_over_origin rloc N circ) h (conv, grp) f = Ok st' ->
  exists added, fst st' = conv ++ added /\ Forall (area_ok rloc N h f) added /\
                (length added = 1%nat \/ (length added = 2%nat /\ bridges rloc = false /\ fcrosses f = true)).
Proof. exact area_extent_in_range. Qed.
Print Assumptions C19_in_range_extent_partial.

(* start/end inside the extent and ordered: a protocluster's core inside its own extent, on whichever
   side of the origin it lies; start/end equal to the extent for sub-regions and candidate clusters.
   core_wf is well-formedness only (a protocluster has a core and the core lies inside the protocluster);
   the former guard "core on the side the length - core_start < core_end test assumes" is gone with the
   repair of finding core_side_heuristic, and candidate clusters are covered since the repair of
   candidate_end_unshifted. *)
Theorem C19_in_range_core : forall N circ rloc f h conv grp st',
  wf_region N rloc -> wf_feat_ring N f -> contains rloc (floc f) = true ->
  (bridges rloc = true \/ fcrosses f = true -> circ = true) ->
  core_wf N f ->
  add_area_from_feature rloc N (extend_over_origin rloc N circ) h (conv, grp) f = Ok st' ->
  exists added, fst st' = conv ++ added /\ Forall (fun a => chain_ok a = true) added.
Proof. exact area_chain_in_extent. Qed.
Print Assumptions C19_in_range_core.

Example C19_in_range_nonvacuous :
  let f := mkFeat 0 K_Proto [mkPart 900 1000 1; mkPart 0 100 1] (Some [mkPart 950 1000 1; mkPart 0 30 1]) false 1 in
  let rloc := [mkPart 800 1000 1; mkPart 0 300 1] in
  wf_region 1000 rloc /\ wf_feat_ring 1000 f /\ contains rloc (floc f) = true /\ core_wf 1000 f /\
  add_area_from_feature rloc 1000 (extend_over_origin rloc 1000 true) 2 ([], 0) f
  = Ok ([mkArea K_Proto 950 1030 900 1100 2 0 1 0], 0).
Proof.
  cbv zeta. split.
  - right. exists (mkPart 800 1000 1), (mkPart 0 300 1). cbn. repeat split; lia.
  - split.
    + right. exists (mkPart 900 1000 1), (mkPart 0 100 1). cbn. repeat split; lia.
    + split; [vm_compute; reflexivity|]. split; [|vm_compute; reflexivity].
      intros _. eexists. split; [reflexivity|]. split; [vm_compute; reflexivity|]. right.
      exists (mkPart 950 1000 1), (mkPart 0 30 1). cbn. repeat split; lia.
Qed.

(* formerly C19_in_range_core_refuted (finding core_side_heuristic, repaired): for EVERY protocluster
   whose core is well-formed and inside its extent - before or after the origin, whatever
   core_start + core_end is - the emitted start/end lie inside the emitted extent *)
Theorem C19_in_range_core_protocluster : forall N circ rloc f core h conv grp st',
  wf_region N rloc -> wf_feat_ring N f -> contains rloc (floc f) = true ->
  (bridges rloc = true \/ fcrosses f = true -> circ = true) ->
  fkind f = K_Proto -> fcore f = Some core -> wf_core_in N f core ->
  add_area_from_feature rloc N (extend_over_origin rloc N circ) h (conv, grp) f = Ok st' ->
  exists added, fst st' = conv ++ added /\ Forall (fun a => chain_ok a = true) added.
Proof. exact proto_chain_in_extent. Qed.
Print Assumptions C19_in_range_core_protocluster.

(* the recorded witnesses of core_side_heuristic now give the right coordinates: protocluster
   [100,1000)+[0,50) with core [200,300) on a ring of 1000 (was start 1200, end 1300), and its mirror
   [900,1000)+[0,800) with core [600,700) (was start 600, end 700 with extent 900..1800); in a
   whole-record region the core stays on its own half *)
Example C19_core_side_witness_repaired :
  add_area_from_feature witness_region 1000 (extend_over_origin witness_region 1000 true) 0 ([], 0) witness_proto
  = Ok ([mkArea K_Proto 200 300 100 1050 0 0 1 0], 0) /\
  add_area_from_feature (floc witness_proto_mirror) 1000 (extend_over_origin (floc witness_proto_mirror) 1000 true)
                        0 ([], 0) witness_proto_mirror
  = Ok ([mkArea K_Proto 1600 1700 900 1800 0 0 1 0], 0) /\
  add_area_from_feature [mkPart 0 1000 1] 1000 (extend_over_origin [mkPart 0 1000 1] 1000 true) 0 ([], 0) witness_proto
  = Ok ([mkArea K_Proto 200 300 100 1000 0 1 1 0; mkArea K_Proto 0 0 0 50 0 1 0 0], 1).
Proof. repeat split; vm_compute; reflexivity. Qed.

(* formerly C19_in_range_candidate_refuted (finding candidate_end_unshifted, repaired): for EVERY
   candidate cluster, whatever its core, start/end lie inside (in fact equal) the emitted extent *)
Theorem C19_in_range_candidate : forall N circ rloc f h conv grp st',
  wf_region N rloc -> wf_feat_ring N f -> contains rloc (floc f) = true ->
  (bridges rloc = true \/ fcrosses f = true -> circ = true) ->
  fkind f = K_Cand ->
  add_area_from_feature rloc N (extend_over_origin rloc N circ) h (conv, grp) f = Ok st' ->
  exists added, fst st' = conv ++ added /\ Forall (fun a => chain_ok a = true) added.
Proof. exact cand_chain_in_extent. Qed.
Print Assumptions C19_in_range_candidate.

(* the witness of candidate_end_unshifted: candidate [100,1000)+[0,50) with core [400,700)
   (was start 100, end 50 with neighbouring_end 1050; split: a half with start = end = 0) *)
Example C19_candidate_witness_repaired :
  add_area_from_feature witness_region 1000 (extend_over_origin witness_region 1000 true) 0 ([], 0) witness_cand
  = Ok ([mkArea K_Cand 100 1050 100 1050 0 0 1 0], 0) /\
  add_area_from_feature [mkPart 0 1000 1] 1000 (extend_over_origin [mkPart 0 1000 1] 1000 true) 0 ([], 0) witness_cand
  = Ok ([mkArea K_Cand 100 1000 100 1000 0 1 1 0; mkArea K_Cand 0 50 0 50 0 1 1 0], 1).
Proof. repeat split; vm_compute; reflexivity. Qed.

(* at the observation point: every area returned by build_area_rows has its extent inside the announced
   range, neighbouring_start <= neighbouring_end - for every region whose sub-regions, candidate clusters
   and protoclusters (any number, nesting, order, set iteration order) are well-formed areas contained in
   the region, origin-crossing shapes only on circular records *)
Theorem C19_build_extents_in_range : forall N circ rloc subs cands protos out,
  wf_region N rloc ->
  Forall (feat_ok N circ rloc) subs -> Forall (feat_ok N circ rloc) cands -> Forall (feat_ok N circ rloc) protos ->
  build_area_rows rloc N circ subs cands protos = Ok out ->
  Forall (fun a => extent_ok (range0 rloc N) a = true) out.
Proof. exact build_extents_in_range. Qed.
Print Assumptions C19_build_extents_in_range.

(* at the observation point, the whole chain of the property: for every area returned by build_area_rows,
   range start <= neighbouring_start <= start <= end <= neighbouring_end <= range end - for every region
   whose features are well-formed areas contained in the region and whose protoclusters have their core
   inside their extent (provable without a guard since the two repairs) *)
Theorem C19_build_chain_in_range : forall N circ rloc subs cands protos out,
  wf_region N rloc ->
  Forall (feat_ok_core N circ rloc) subs -> Forall (feat_ok_core N circ rloc) cands ->
  Forall (feat_ok_core N circ rloc) protos ->
  build_area_rows rloc N circ subs cands protos = Ok out ->
  Forall (fun a => fst (range0 rloc N) <= a_ns a /\ a_ns a <= a_start a /\ a_start a <= a_end a /\
                   a_end a <= a_ne a /\ a_ne a <= snd (range0 rloc N)) out.
Proof. exact build_full_chain. Qed.
Print Assumptions C19_build_chain_in_range.

(* non-vacuity, on the two repaired witnesses together: an origin-crossing region holding the candidate
   cluster and the protocluster whose core lies before the origin *)
Example C19_build_chain_nonvacuous :
  Forall (feat_ok_core 1000 true witness_region) [witness_cand] /\
  Forall (feat_ok_core 1000 true witness_region) [witness_proto] /\
  build_area_rows witness_region 1000 true [] [witness_cand] [witness_proto]
  = Ok [mkArea K_Cand 100 1050 100 1050 0 0 1 0; mkArea K_Proto 200 300 100 1050 2 0 1 0].
Proof.
  split; [|split; [|vm_compute; reflexivity]].
  - constructor; [|constructor]. split; [split; [apply witness_feat_wf; reflexivity|split; [vm_compute; reflexivity|auto]]|].
    intros Hk. discriminate Hk.
  - constructor; [|constructor]. split; [split; [apply witness_feat_wf; reflexivity|split; [vm_compute; reflexivity|auto]]|].
    intros _. exists [mkPart 200 300 1]. split; [reflexivity|]. split; [vm_compute; reflexivity|].
    left. exists (mkPart 200 300 1). cbn. repeat split; lia.
Qed.

(* ---------- second deepening pass: the remaining clauses at the observation points ---------- *)

(* "every protocluster, candidate cluster and sub-region of the region is drawn exactly once, or as two linked
   halves": the list returned by build_area_rows is, feature by feature, the concatenation of either ONE area
   without group id, or TWO CONSECUTIVE areas with the same fresh non-zero group id, the kind of the feature,
   the same height, the first ending at the record length and the second starting at 0 (relation drawn); the
   features drawn, fs, are a permutation of: the candidate clusters that are drawn (all of them when the region
   has sub-regions, otherwise those that are not of kind SINGLE), the sub-regions, and the protoclusters of
   the region (the set returned by get_unique_protoclusters).  No hypothesis: any region, any input order. *)
Theorem C19_build_complete : forall rloc N circ subs cands protos out,
  build_area_rows rloc N circ subs cands protos = Ok out ->
  exists fs g', Permutation fs (drawn_candidates subs cands ++ subs ++ protos) /\ drawn N 0 fs out g'.
Proof. exact build_complete. Qed.
Print Assumptions C19_build_complete.

(* soundness of the decidable completeness test that the harness evaluates on every implementation output
   (count_drawn): an output of the shape `drawn` is accepted and the count per kind is the number of features
   of that kind *)
Theorem C19_build_complete_decidable : forall N k g fs out g',
  drawn N g fs out g' -> 0 <= g -> count_drawn N k out = Some (count_kind k fs).
Proof. exact drawn_count. Qed.
Print Assumptions C19_build_complete_decidable.

(* "no two areas placed on the same row overlap in their full extents", at the observation point: any two
   areas returned by build_area_rows with the same height have disjoint extents [neighbouring_start,
   neighbouring_end) - C19_pack_no_overlap composed with the unrolling / splitting of origin-crossing areas and
   with the numbering of the rows (every packed row gets its own height).  Hypotheses as in
   C19_build_extents_in_range. *)
Theorem C19_build_rows_disjoint : forall N circ rloc subs cands protos out,
  wf_region N rloc ->
  Forall (feat_ok N circ rloc) subs -> Forall (feat_ok N circ rloc) cands -> Forall (feat_ok N circ rloc) protos ->
  build_area_rows rloc N circ subs cands protos = Ok out ->
  ForallOrdPairs (fun a b => a_height a = a_height b -> a_ne a <= a_ns b \/ a_ne b <= a_ns a) out.
Proof. exact build_rows_disjoint. Qed.
Print Assumptions C19_build_rows_disjoint.

(* the same as the boolean that the harness computes on the implementation's output *)
Theorem C19_build_rows_disjoint_decidable : forall N circ rloc subs cands protos out,
  wf_region N rloc ->
  Forall (feat_ok N circ rloc) subs -> Forall (feat_ok N circ rloc) cands -> Forall (feat_ok N circ rloc) protos ->
  build_area_rows rloc N circ subs cands protos = Ok out ->
  pairwise extents_disjoint out = true.
Proof. exact build_rows_disjoint_bool. Qed.
Print Assumptions C19_build_rows_disjoint_decidable.

(* what is drawn for one feature: its extent(s) in the coordinates of the region *)
Theorem C19_build_feature_extents : forall N circ rloc f h conv grp st',
  wf_region N rloc -> wf_feat_ring N f -> contains rloc (floc f) = true ->
  (bridges rloc = true \/ fcrosses f = true -> circ = true) ->
  add_area_from_feature rloc N (extend_over_origin rloc N circ) h (conv, grp) f = Ok st' ->
  exists added, fst st' = conv ++ added /\ map ext added = emitted_extents rloc N f.
Proof. exact area_emitted. Qed.
Print Assumptions C19_build_feature_extents.

(* non-vacuity (the layout of seed C19-seed3): a whole-record region whose sub-regions come in plain start
   order, the last one crossing the origin and overlapping the first; plus an origin-crossing protocluster.
   Three sub-region rows, the origin-crossing areas drawn as linked halves (groups 1 and 2). *)

Example C19_build_complete_nonvacuous :
  wf_region 1000 ex_whole /\
  Forall (feat_ok 1000 true ex_whole) [ex_s0; ex_s1; ex_s2; ex_s3] /\ Forall (feat_ok 1000 true ex_whole) [ex_p0] /\
  build_area_rows ex_whole 1000 true [ex_s0; ex_s1; ex_s2; ex_s3] [] [ex_p0]
  = Ok [mkArea K_Sub 0 100 0 100 0 0 1 0; mkArea K_Sub 300 600 300 600 0 0 3 2; mkArea K_Sub 40 960 40 960 2 0 2 1;
        mkArea K_Sub 900 1000 900 1000 4 1 4 3; mkArea K_Sub 0 50 0 50 4 1 4 3;
        mkArea K_Proto 1000 1000 950 1000 6 2 0 0; mkArea K_Proto 10 30 0 80 6 2 7 0] /\
  drawn 1000 0 [ex_s0; ex_s2; ex_s1; ex_s3; ex_p0]
        [mkArea K_Sub 0 100 0 100 0 0 1 0; mkArea K_Sub 300 600 300 600 0 0 3 2; mkArea K_Sub 40 960 40 960 2 0 2 1;
         mkArea K_Sub 900 1000 900 1000 4 1 4 3; mkArea K_Sub 0 50 0 50 4 1 4 3;
         mkArea K_Proto 1000 1000 950 1000 6 2 0 0; mkArea K_Proto 10 30 0 80 6 2 7 0] 2.
Proof.
  assert (Hs : forall f p, floc f = [p] -> 0 <= ps p -> ps p < pe p -> pe p <= 1000 -> feat_ok 1000 true ex_whole f).
  { intros f p E H0 H1 H2. split; [left; exists p; auto|]. split; [|auto].
    rewrite E. unfold contains, ex_whole, part_contains. cbn [forallb existsb ps pe]. lia. }
  assert (Hd : forall f a b, floc f = [mkPart a 1000 1; mkPart 0 b 1] -> 0 < a -> a < 1000 -> 0 < b -> b < a ->
               feat_ok 1000 true ex_whole f).
  { intros f a b E H0 H1 H2 H3. split; [right; exists (mkPart a 1000 1), (mkPart 0 b 1); cbn; repeat split; auto; lia|].
    split; [|auto]. rewrite E. unfold contains, ex_whole, part_contains. cbn [forallb existsb ps pe]. lia. }
  split; [left; exists (mkPart 0 1000 1); cbn; repeat split; lia|].
  split.
  { apply Forall_cons; [eapply Hs; [reflexivity|cbn; lia..]|].
    apply Forall_cons; [eapply Hs; [reflexivity|cbn; lia..]|].
    apply Forall_cons; [eapply Hs; [reflexivity|cbn; lia..]|].
    apply Forall_cons; [eapply Hd; [reflexivity|lia..]|]. apply Forall_nil. }
  split; [apply Forall_cons; [eapply Hd; [reflexivity|lia..]|apply Forall_nil]|].
  split; [vm_compute; reflexivity|].
  apply drawn_one; [reflexivity..|]. apply drawn_one; [reflexivity..|]. apply drawn_one; [reflexivity..|].
  apply drawn_two; [reflexivity..|]. apply drawn_two; [reflexivity..|]. constructor.
Qed.

(* an origin-crossing region with children in plain start order: the origin-crossing sub-region is tested
   against every occupant of the first row (it overlaps the first one, drawn at 1010..1050) and opens a row *)
Example C19_build_rows_disjoint_nonvacuous :
  let rloc := [mkPart 800 1000 1; mkPart 0 50 1] in
  let t0 := mkFeat 0 K_Sub [mkPart 10 50 1] None false 1 in
  let t1 := mkFeat 1 K_Sub [mkPart 800 900 1] None false 2 in
  let t2 := mkFeat 2 K_Sub [mkPart 950 1000 1; mkPart 0 30 1] None false 3 in
  wf_region 1000 rloc /\ Forall (feat_ok 1000 true rloc) [t0; t1; t2] /\
  build_area_rows rloc 1000 true [t0; t1; t2] [] []
  = Ok [mkArea K_Sub 1010 1050 1010 1050 0 0 1 0; mkArea K_Sub 800 900 800 900 0 0 2 1;
        mkArea K_Sub 950 1030 950 1030 2 0 3 2].
Proof.
  cbv zeta. split; [right; exists (mkPart 800 1000 1), (mkPart 0 50 1); cbn; repeat split; lia|].
  split; [|vm_compute; reflexivity].
  constructor; [|constructor; [|constructor; [|constructor]]].
  - split; [left; exists (mkPart 10 50 1); cbn; repeat split; lia|]. split; [vm_compute; reflexivity|auto].
  - split; [left; exists (mkPart 800 900 1); cbn; repeat split; lia|]. split; [vm_compute; reflexivity|auto].
  - split; [right; exists (mkPart 950 1000 1), (mkPart 0 30 1); cbn; repeat split; lia|].
    split; [vm_compute; reflexivity|auto].
Qed.

(* "every gene lies within the coordinate range announced for the region": for every region and every list of
   genes (any number of exons IN ANY ORDER, either strand, origin-crossing or not, also with an intron over the
   gap that an origin-crossing region leaves on the ring, also running the long way round the ring) that are
   well-formed and inside the region, the coordinates emitted by convert_cds_features pass the in-range test
   against the start/end that convert_regions announces (start <= gene start, gene start <= gene end + 1,
   gene end <= end; both halves of a split gene included).  No guard: the finding classes
   gene_across_region_gap (F45) and gene_long_way_round (C19-K3) were repaired in the code, and wf_gene no longer
   asks an origin-crossing gene to touch the origin. *)
Theorem C19_genes_in_range : forall N rloc genes se,
  wf_region N rloc -> Forall (wf_gene N rloc) genes ->
  region_range rloc N = Ok se ->
  forall grp, spec_orfs se (bridges rloc) (convert_cds_features rloc N grp genes) = true.
Proof. exact genes_in_range. Qed.
Print Assumptions C19_genes_in_range.

(* "positions after the origin being shifted by the record length so that order along the drawing equals order
   along the genome": in an origin-crossing region [s, N) + [0, e) the 1-based start and the inclusive end of
   every gene are the unrolled positions a, b of its first and last base, where unroll shifts a position x by N
   exactly when x < s, i.e. exactly when it lies after the origin.  If a <= b the gene is emitted once, from a
   to b; otherwise (the gene leaves the region at one end and returns at the other: an intron covers the gap of
   the region) as two consecutive halves with one fresh non-zero group id, from a to the end of the region and
   from the start of the region to b.  No guard. *)
Theorem C19_genes_shifted : forall N rloc g grp more,
  wf_region N rloc -> bridges rloc = true -> wf_gene N rloc g ->
  let a := unroll (loc_fstart rloc) N (loc_fstart g) + 1 in
  let b := unroll (loc_fstart rloc) N (loc_fend g - 1) + 1 in
  convert_cds_features rloc N grp (g :: more) =
    (if b <? a then
       mkOrf a (loc_fend rloc + N) (if lstrand g =? -1 then strand_or_1 (lstrand g) else 0) (grp + 1)
       :: mkOrf (loc_fstart rloc + 1) b (if lstrand g =? -1 then 0 else strand_or_1 (lstrand g)) (grp + 1)
       :: convert_cds_features rloc N (grp + 1) more
     else mkOrf a b (strand_or_1 (lstrand g)) 0 :: convert_cds_features rloc N grp more) /\
  (0 <= grp -> grp + 1 <> 0).
Proof. exact genes_shifted. Qed.
Print Assumptions C19_genes_shifted.

(* the genes of the ordinary kind (gene_ordinary: inside one part of the region, or crossing the origin with the
   first exon before and the last exon after it, an origin-crossing gene touching the origin) are emitted exactly
   as before the repairs: every gene once, between the unrolled positions of its first and last base *)
Theorem C19_genes_ordinary_once : forall N rloc genes grp,
  wf_region N rloc -> Forall (wf_gene N rloc) genes ->
  Forall (fun g => bridges g = true -> touches_origin N g) genes ->
  Forall (fun g => gene_ordinary rloc g = true) genes ->
  bridges rloc = true ->
  convert_cds_features rloc N grp genes =
    map (fun g => mkOrf (unroll (loc_fstart rloc) N (loc_fstart g) + 1)
                        (unroll (loc_fstart rloc) N (loc_fend g - 1) + 1)
                        (strand_or_1 (lstrand g)) 0) genes.
Proof. exact genes_unrolled. Qed.
Print Assumptions C19_genes_ordinary_once.

(* in a region [ps r, pe r) that does not cross the origin nothing is shifted; a gene that crosses the origin
   (by the order of its exons) is emitted as two consecutive halves with the same non-zero group id, each
   reaching an end of the region: (start, pe r) and (ps r + 1, end).  If such a gene touches the origin, the
   region is the whole record and the halves are (start, N) and (1, end) *)
Theorem C19_genes_unwrapped_region : forall N r g grp more,
  0 <= ps r -> ps r < pe r -> pe r <= N -> wf_gene N [r] g ->
  (bridges g = false ->
     convert_cds_features [r] N grp (g :: more) =
       mkOrf (loc_fstart g + 1) (loc_fend g) (strand_or_1 (lstrand g)) 0 :: convert_cds_features [r] N grp more) /\
  (bridges g = true ->
     convert_cds_features [r] N grp (g :: more) =
       mkOrf (loc_fstart g + 1) (pe r) (if lstrand g =? -1 then strand_or_1 (lstrand g) else 0) (grp + 1)
       :: mkOrf (ps r + 1) (loc_fend g) (if lstrand g =? -1 then 0 else strand_or_1 (lstrand g)) (grp + 1)
       :: convert_cds_features [r] N (grp + 1) more /\
     (0 <= grp -> grp + 1 <> 0) /\
     (touches_origin N g -> ps r = 0 /\ pe r = N)).
Proof. exact genes_unwrapped_region. Qed.
Print Assumptions C19_genes_unwrapped_region.

(* non-vacuity of the gene theorems *)

Example C19_genes_ex_wf_region : wf_region ex_N ex_rloc.
Proof. right. exists (mkPart 800 1000 1), (mkPart 0 300 1). cbn. repeat split; try reflexivity; lia. Qed.

Example C19_genes_ex_wf_genes : Forall (wf_gene ex_N ex_rloc) ex_genes.
Proof.
  unfold ex_genes.
  apply Forall_cons; [wf_gene_tac|]. apply Forall_cons; [wf_gene_tac|].
  apply Forall_cons; [wf_gene_tac|]. apply Forall_cons; [wf_gene_tac|]. apply Forall_nil.
Qed.

Example C19_genes_ex_touch : Forall (fun g => bridges g = true -> touches_origin ex_N g) ex_genes.
Proof.
  unfold ex_genes, ex_N.
  repeat (apply Forall_cons; [intros Hb; first [ vm_compute in Hb; discriminate Hb
                                              | split; eauto 8 using in_eq, in_cons ]|]).
  apply Forall_nil.
Qed.

Example C19_genes_ex_ordinary : Forall (fun g => gene_ordinary ex_rloc g = true) ex_genes.
Proof. repeat constructor. Qed.

Example C19_genes_ex_range : region_range ex_rloc ex_N = Ok (800, 1300).
Proof. reflexivity. Qed.

Example C19_genes_ex_bridges : bridges ex_rloc = true /\ map bridges ex_genes = [false; false; true; true].
Proof. split; reflexivity. Qed.

Example C19_genes_ex_output :
  convert_cds_features ex_rloc ex_N 0 ex_genes =
    [mkOrf 851 900 1 0; mkOrf 1011 1040 (-1) 0; mkOrf 991 1020 1 0; mkOrf 981 1015 (-1) 0].
Proof. vm_compute. reflexivity. Qed.

(* the theorems instantiated on the example: hypotheses hold, conclusions are the computed values *)
Example C19_genes_ex_in_range : spec_orfs (800, 1300) (bridges ex_rloc) (convert_cds_features ex_rloc ex_N 0 ex_genes) = true.
Proof. exact (genes_in_range ex_N ex_rloc ex_genes (800, 1300) C19_genes_ex_wf_region C19_genes_ex_wf_genes C19_genes_ex_range 0). Qed.

Example C19_genes_ex_unrolled :
  map (fun g => mkOrf (unroll (loc_fstart ex_rloc) ex_N (loc_fstart g) + 1)
                      (unroll (loc_fstart ex_rloc) ex_N (loc_fend g - 1) + 1)
                      (strand_or_1 (lstrand g)) 0) ex_genes =
    [mkOrf 851 900 1 0; mkOrf 1011 1040 (-1) 0; mkOrf 991 1020 1 0; mkOrf 981 1015 (-1) 0].
Proof.
  rewrite <- (genes_unrolled ex_N ex_rloc ex_genes 0 C19_genes_ex_wf_region C19_genes_ex_wf_genes C19_genes_ex_touch
                             C19_genes_ex_ordinary (proj1 C19_genes_ex_bridges)).
  exact C19_genes_ex_output.
Qed.

(* an ordinary whole-record region with a gene that crosses the origin: two halves, same group *)
Example C19_genes_ex_unwrapped :
  let r := mkPart 0 1000 1 in
  let g := [mkPart 990 1000 1; mkPart 0 20 1] in
  wf_region 1000 [r] /\ wf_gene 1000 [r] g /\ wf_gene 1000 [r] [mkPart 5 9 1] /\ bridges g = true /\
  touches_origin 1000 g /\
  convert_cds_features [r] 1000 0 [g; [mkPart 5 9 1]] = [mkOrf 991 1000 0 1; mkOrf 1 20 1 1; mkOrf 6 9 1 0] /\
  spec_orfs (1, 1000) false [mkOrf 991 1000 0 1; mkOrf 1 20 1 1; mkOrf 6 9 1 0] = true.
Proof.
  cbv zeta. split; [left; eexists; split; [reflexivity|cbn; lia]|].
  split; [|split]; [| |repeat split].
  - split; [discriminate|]. split; [repeat (apply Forall_cons; [cbn; lia|]); apply Forall_nil|reflexivity].
  - split; [discriminate|]. split; [repeat (apply Forall_cons; [cbn; lia|]); apply Forall_nil|reflexivity].
  - eauto 8 using in_eq, in_cons.
  - eauto 8 using in_eq, in_cons.
Qed.

(* regression witness of the repaired finding gene_across_region_gap (F45): ring of 30, region [10,30)+[0,9), gene
   join{[7:9], [10:11]} - neither crossing the origin nor inside one part of the region, its intron covers the
   gap of the region.  Emitted before the repair: one orf 8..11 against the announced 10..39; now two linked
   halves, 38..39 at the end of the region (no strand: drawn as a block) and 11..11 at its start *)
Example C19_gene_gap_witness_repaired :
  let N := 30 in
  let rloc := [mkPart 10 30 1; mkPart 0 9 1] in
  let g := [mkPart 7 9 1; mkPart 10 11 1] in
  wf_region N rloc /\ wf_gene N rloc g /\ gene_ordinary rloc g = false /\ bridges g = false /\
  region_range rloc N = Ok (10, 39) /\
  convert_cds_features rloc N 0 [g] = [mkOrf 38 39 0 1; mkOrf 11 11 1 1] /\
  spec_orfs (10, 39) (bridges rloc) (convert_cds_features rloc N 0 [g]) = true /\
  spec_orfs (10, 39) (bridges rloc) [mkOrf 8 11 1 0] = false.
Proof.
  cbv zeta. split.
  { right. exists (mkPart 10 30 1), (mkPart 0 9 1). cbn. repeat split; try reflexivity; lia. }
  split.
  { split; [discriminate|]. split; [repeat (apply Forall_cons; [cbn; lia|]); apply Forall_nil|reflexivity]. }
  repeat split.
Qed.

(* the second shape of that class: an origin-crossing gene with a further exon on the far side of the gap (ring of
   1000, region [900,1000)+[0,30), gene join{[10:20], [950:1000], [0:5]}; before the repair 11..1005 against
   900..1030) *)
Example C19_gene_gap_witness2_repaired :
  let N := 1000 in
  let rloc := [mkPart 900 1000 1; mkPart 0 30 1] in
  let g := [mkPart 10 20 1; mkPart 950 1000 1; mkPart 0 5 1] in
  wf_region N rloc /\ wf_gene N rloc g /\ gene_ordinary rloc g = false /\ bridges g = true /\
  convert_cds_features rloc N 0 [g] = [mkOrf 1011 1030 0 1; mkOrf 901 1005 1 1] /\
  spec_orfs (900, 1030) (bridges rloc) (convert_cds_features rloc N 0 [g]) = true /\
  spec_orfs (900, 1030) (bridges rloc) [mkOrf 11 1005 1 0] = false.
Proof.
  cbv zeta. split.
  { right. exists (mkPart 900 1000 1), (mkPart 0 30 1). cbn. repeat split; try reflexivity; lia. }
  split.
  { split; [discriminate|]. split; [repeat (apply Forall_cons; [cbn; lia|]); apply Forall_nil|reflexivity]. }
  repeat split.
Qed.

(* regression witness of the repaired finding gene_long_way_round (C19-K3): ring of 100, ordinary region [69,75),
   gene join{[72:73], [69:71]} listed against its strand - it "crosses the origin" by the order of its exons and
   touches the origin nowhere.  Emitted before the repair: 73..100 and 1..71 against the announced 70..75; now
   the halves reach the ends of the region, 73..75 and 70..71 *)
Example C19_gene_long_way_witness_repaired :
  let N := 100 in
  let r := mkPart 69 75 1 in
  let g := [mkPart 72 73 1; mkPart 69 71 1] in
  wf_region N [r] /\ wf_gene N [r] g /\ bridges g = true /\ ~ touches_origin N g /\
  region_range [r] N = Ok (70, 75) /\
  convert_cds_features [r] N 0 [g] = [mkOrf 73 75 0 1; mkOrf 70 71 1 1] /\
  spec_orfs (70, 75) false (convert_cds_features [r] N 0 [g]) = true /\
  spec_orfs (70, 75) false [mkOrf 73 100 0 1; mkOrf 1 71 1 1] = false.
Proof.
  cbv zeta. split; [left; eexists; split; [reflexivity|cbn; lia]|].
  split.
  { split; [discriminate|]. split; [repeat (apply Forall_cons; [cbn; lia|]); apply Forall_nil|reflexivity]. }
  split; [reflexivity|]. split.
  { intros ((p & Hp & HpN) & _). cbn in Hp. destruct Hp as [<-|[<-|[]]]; cbn in HpN; discriminate. }
  repeat split.
Qed.

(* regression witness of the repaired finding area_assert_cross_origin (F34b): a sub-region covering the whole ring
   at an offset, [40,100)+[0,40) on a ring of 100 (start == end).  Before the repair Area.crosses_origin() was
   False for it and build_area_rows stopped with AssertionError (the model returned Err E_Assert); now it is one
   area 40..140 in the origin-crossing region and two linked halves 40..100 / 0..40 in the whole-record region.
   The same for a protocluster over the whole ring: core [50,60) before the origin, and a core that is itself the
   whole ring (core_start == core_end: drawn 40..140, was 40..40) *)
Example C19_whole_ring_witness_repaired :
  let ring := [mkPart 40 100 1; mkPart 0 40 1] in
  let s := mkFeat 1 K_Sub ring None false 1 in
  let p1 := mkFeat 2 K_Proto ring (Some [mkPart 50 60 1]) false 5 in
  let p2 := mkFeat 3 K_Proto ring (Some ring) false 6 in
  wf_region 100 ring /\ feat_ok_core 100 true ring s /\ feat_ok_core 100 true ring p1 /\ feat_ok_core 100 true ring p2 /\
  build_area_rows ring 100 true [s] [] [] = Ok [mkArea K_Sub 40 140 40 140 0 0 1 1] /\
  build_area_rows [mkPart 0 100 1] 100 true [s] [] []
  = Ok [mkArea K_Sub 40 100 40 100 0 1 1 1; mkArea K_Sub 0 40 0 40 0 1 1 1] /\
  build_area_rows ring 100 true [] [] [p1; p2]
  = Ok [mkArea K_Proto 50 60 40 140 1 0 5 2; mkArea K_Proto 40 140 40 140 3 0 6 3].
Proof.
  cbv zeta.
  assert (Hr : wf_feat_ring 100 (mkFeat 1 K_Sub [mkPart 40 100 1; mkPart 0 40 1] None false 1) /\
               forall f, floc f = [mkPart 40 100 1; mkPart 0 40 1] -> wf_feat_ring 100 f).
  { split; [|intros f E]; right; exists (mkPart 40 100 1), (mkPart 0 40 1); cbn; repeat split; try reflexivity; try lia; exact E. }
  destruct Hr as (_ & Hr).
  split; [right; exists (mkPart 40 100 1), (mkPart 0 40 1); cbn; repeat split; try reflexivity; lia|].
  split; [|split; [|split]].
  - split; [split; [apply Hr; reflexivity|split; [vm_compute; reflexivity|auto]]|]. intros Hk. discriminate Hk.
  - split; [split; [apply Hr; reflexivity|split; [vm_compute; reflexivity|auto]]|].
    intros _. eexists. split; [reflexivity|]. split; [vm_compute; reflexivity|].
    left. exists (mkPart 50 60 1). cbn. repeat split; lia.
  - split; [split; [apply Hr; reflexivity|split; [vm_compute; reflexivity|auto]]|].
    intros _. eexists. split; [reflexivity|]. split; [vm_compute; reflexivity|].
    right. exists (mkPart 40 100 1), (mkPart 0 40 1). cbn. repeat split; try reflexivity; lia.
  - repeat split; vm_compute; reflexivity.
Qed.


(* ---------- third deepening pass: the protoclusters of a region are a set of OBJECTS; drawn exactly once by
   identity; halves linked pairwise ---------- *)

(* Region.get_unique_protoclusters (set built from candidate.protoclusters of every candidate cluster, then the
   sort): the result holds every protocluster object of every candidate cluster exactly once - no identity
   twice, nothing that is not a member, every member's identity present - whatever the order of the set and
   whatever else the protoclusters have in common (extent, product, core).  members = the protoclusters of the
   candidate clusters concatenated, a shared one occurring several times; fid = object identity. *)
Theorem C19_unique_protoclusters_by_identity : forall rloc order members,
  let u := get_unique_protoclusters rloc order members in
  NoDup (map fid u) /\ (forall x, In x u -> In x members) /\ (forall x, In x members -> In (fid x) (map fid u)).
Proof. exact get_unique_by_identity. Qed.
Print Assumptions C19_unique_protoclusters_by_identity.

(* distinct objects are never collapsed: when no object is shared the result is a permutation of the members,
   also when two of them have the same extent and product (seed C19-seed5), or agree in everything *)
Theorem C19_unique_protoclusters_keeps_distinct : forall rloc order members,
  NoDup (map fid members) -> Permutation (get_unique_protoclusters rloc order members) members.
Proof. exact get_unique_keeps_distinct. Qed.
Print Assumptions C19_unique_protoclusters_keeps_distinct.

(* "every protocluster, candidate cluster and subregion of the region is drawn exactly once, or as two linked
   halves", from the Region object: the output of build_area_rows is, object by object (relation drawn_id: as
   drawn, and every area carries the identity of its object - kind and tool string, for a candidate cluster kind
   and number), the areas of a permutation of: the drawn candidate clusters, the sub-regions, and the
   protoclusters of the candidate clusters de-duplicated by identity.  No hypothesis. *)
Theorem C19_region_drawn_exactly_once : forall rloc N circ subs cands order members out,
  build_area_rows_region rloc N circ subs cands order members = Ok out ->
  exists fs g', Permutation fs (expected_features subs cands members) /\ drawn_id N 0 fs out g'.
Proof. exact region_complete. Qed.
Print Assumptions C19_region_drawn_exactly_once.

(* halves are linked PAIRWISE: a non-zero group value of the output occurs on exactly two areas (the two halves of
   one object, by the theorem above), never on the halves of two objects (seed C19-seed6).  No hypothesis. *)
Theorem C19_groups_linked_pairwise : forall rloc N circ subs cands order members out,
  build_area_rows_region rloc N circ subs cands order members = Ok out ->
  forall a, In a out -> a_group a <> 0 -> group_size (a_group a) out = 2.
Proof. exact region_groups_pairwise. Qed.
Print Assumptions C19_groups_linked_pairwise.

(* soundness link of the two tests the harness evaluates on every implementation output: on the model's output
   both are true.  identity_ok: for every expected object the areas with its kind and identity are exactly one
   area without group, or exactly two with one non-zero group, the same height, [.., N) and [0, ..), and no area
   belongs to anything else; groups_pairwise: every non-zero group value occurs exactly twice.  Hypothesis ids_wf:
   the kinds are what the lists say and the harness numbered sub-regions and candidate clusters distinctly. *)
Theorem C19_region_identity_decidable : forall rloc N circ subs cands order members out,
  ids_wf subs cands members ->
  build_area_rows_region rloc N circ subs cands order members = Ok out ->
  identity_ok N (expected_features subs cands members) out = true /\ groups_pairwise out = true.
Proof. exact region_identity_decidable. Qed.
Print Assumptions C19_region_identity_decidable.

(* non-vacuity, the layout of seed C19-seed5: two distinct protoclusters with the same extent and product and
   different cores, each reached through two candidate clusters.  Both are kept and drawn; the output the seeded
   code produces (the second one missing) is rejected by identity_ok and by the count per kind *)
Example C19_region_once_nonvacuous :
  ids_wf [] ex5_cands ex5_members /\
  map fid (get_unique_protoclusters ex5_whole [2; 1; 3] ex5_members) = [1; 2; 3] /\
  (exists out, build_area_rows_region ex5_whole 12000 false [] ex5_cands [2; 1; 3] ex5_members = Ok out /\
     map a_tool out = [0; 1; 2; 3] /\
     identity_ok 12000 (expected_features [] ex5_cands ex5_members) out = true /\
     identity_ok 12000 (expected_features [] ex5_cands ex5_members)
                 (filter (fun a => negb (a_tool a =? 2)) out) = false /\
     count_drawn 12000 K_Proto (filter (fun a => negb (a_tool a =? 2)) out) = Some 2).
Proof.
  split.
  { unfold ids_wf. repeat split; try (repeat constructor; fail).
    - repeat (constructor; [cbn; intuition discriminate|]). constructor. }
  split; [vm_compute; reflexivity|].
  eexists. split; [vm_compute; reflexivity|]. repeat split; vm_compute; reflexivity.
Qed.

(* non-vacuity, the layout of seed C19-seed6: a whole-record region, two origin-crossing protoclusters with the same
   extent: four halves under the groups 2, 2, 3, 3 (group 1: the candidate cluster).  With one group value on all
   four halves (what the seeded code emits) groups_pairwise is false, while the walk count_drawn still accepts *)
Example C19_groups_pairwise_nonvacuous :
  ids_wf [ex6_s1] [ex6_c1] [ex6_p1; ex6_p2] /\
  exists out, build_area_rows_region ex6_whole 1000 true [ex6_s1] [ex6_c1] [2; 1] [ex6_p1; ex6_p2] = Ok out /\
     map a_group out = [1; 1; 0; 2; 2; 3; 3] /\
     identity_ok 1000 (expected_features [ex6_s1] [ex6_c1] [ex6_p1; ex6_p2]) out = true /\
     groups_pairwise out = true /\
     let seeded := map (fun a => if a_kind a =? K_Proto then set_group a 2 else a) out in
     groups_pairwise seeded = false /\ count_drawn 1000 K_Proto seeded = Some 2.
Proof.
  split.
  { unfold ids_wf. repeat split; try (repeat constructor; fail).
    - repeat (constructor; [cbn; intuition discriminate|]). constructor.
    - repeat (constructor; [cbn; intuition discriminate|]). constructor. }
  eexists. split; [vm_compute; reflexivity|]. repeat split; vm_compute; reflexivity.
Qed.
