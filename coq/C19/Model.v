(* C19 - faithful executable model of antismash/outputs/html/area_packing.py (Area, Row, pack,
   adjust_cross_origin_area, build_area_rows), of Region.get_unique_protoclusters
   (secmet/features/region/structures.py, with CDSCollection.__lt__) and of the coordinate fields of
   js.convert_regions / js.convert_cds_features (outputs/html/js.py).
   No proofs in this file. *)
From ASV Require Import Base Loc.

(* ---------- features as seen by the layout code ---------- *)
(* fkind: 0 protocluster, 1 candidate cluster, 2 subregion.
   fcore: core location (protoclusters and candidate clusters both have one; only a protocluster's
   core is drawn separately from its extent).
   fsingle: candidate.kind == SINGLE.  fprod: the number standing for the product / label string
   (0 = empty string); for protoclusters the order of the numbers is the order of the strings. *)
Record feat := mkFeat { fid : Z; fkind : Z; floc : loc; fcore : option loc; fsingle : bool; fprod : Z }.

Definition K_Proto := 0.
Definition K_Cand := 1.
Definition K_Sub := 2.

Definition first_part (l : loc) : part := match l with p :: _ => p | [] => mkPart 0 0 S_None end.
Definition last_part (l : loc) : part := match last_opt l with Some p => p | None => mkPart 0 0 S_None end.

(* Feature.start / Feature.end (also core_start / core_end on the core location):
   parts[0].start if strand != -1 else parts[-1].start *)
Definition loc_fstart (l : loc) : Z := if lstrand l =? -1 then ps (last_part l) else ps (first_part l).
Definition loc_fend (l : loc) : Z := if lstrand l =? -1 then pe (first_part l) else pe (last_part l).

Definition fstart (f : feat) : Z := loc_fstart (floc f).
Definition fend (f : feat) : Z := loc_fend (floc f).
Definition fcrosses (f : feat) : bool := bridges (floc f).

(* ---------- Row ---------- *)
Record row := mkRow { r_start : Z; r_end : Z; r_contents : list feat }.

Definition can_fit (r : row) (a : feat) : bool :=
  match r_contents r with
  | [] => r_start r <=? fstart a
  | _ :: _ =>
    if fcrosses a then
      if negb (r_end r =? -1) then false
      else negb (existsb (fun ex => overlap (floc a) (floc ex)) (r_contents r))
    else (r_start r <? fstart a) && ((r_end r <? 0) || (fend a <? r_end r))
  end.

Definition row_add (r : row) (a : feat) : res row :=
  if negb (can_fit r a) then Err E_Value else
  if fcrosses a then Ok (mkRow (lend (floc a)) (fstart a - 1) (r_contents r ++ [a]))
  else Ok (mkRow (Z.max (r_start r) (fend a + 1)) (r_end r) (r_contents r ++ [a])).

(* the for/else of pack: first row that can fit, otherwise a fresh Row() at the end *)
Fixpoint place (rows : list row) (a : feat) : res (list row) :=
  match rows with
  | [] => do r <- row_add (mkRow 0 (-1) []) a; Ok [r]
  | r :: rest =>
    if can_fit r a then do r' <- row_add r a; Ok (r' :: rest)
    else do rest' <- place rest a; Ok (r :: rest')
  end.

Fixpoint pack_go (rows : list row) (areas : list feat) : res (list row) :=
  match areas with
  | [] => Ok rows
  | a :: more => do rows' <- place rows a; pack_go rows' more
  end.

Definition pack (areas : list feat) (length : Z) : res (list row) :=
  match areas with
  | [] => Ok []
  | _ => pack_go [mkRow 0 length []] areas
  end.

(* ---------- Region.get_unique_protoclusters ---------- *)
(* CDSCollection.__lt__ between two leaf collections *)
Definition comparator_start (l : loc) : Z :=
  if bridges l then
    match split_bridging l with
    | Ok (_, head) => lmin (map ps head) - lmax (map pe head)
    | Err _ => lstart l   (* raises ValueError in Python; outside the generated domain *)
    end
  else lstart l.

Definition coll_lt (a b : feat) : bool :=
  if contains (floc a) (floc b) && negb (contains (floc b) (floc a)) then true else
  if contains (floc b) (floc a) && negb (contains (floc a) (floc b)) then false else  (* mirrored shortcut: repair of finding F53 / C10-F46 *)
  let sa := comparator_start (floc a) in
  let sb := comparator_start (floc b) in
  (sa <? sb) || ((sa =? sb) && (- llen (floc a) <? - llen (floc b))).

(* pre-sort of the branch for regions that do not cross the origin:
   sorted(clusters, key=(product, core_start, core_end)) - identical coordinates are not separated by
   CDSCollection.__lt__, the stable second sort keeps this order for them *)
Definition core_se (f : feat) : Z * Z :=
  match fcore f with Some c => (loc_fstart c, loc_fend c) | None => (fstart f, fend f) end.
Definition pre_key_lt (a b : feat) : bool :=
  (fprod a <? fprod b) ||
  ((fprod a =? fprod b) && ((fst (core_se a) <? fst (core_se b)) ||
                            ((fst (core_se a) =? fst (core_se b)) && (snd (core_se a) <? snd (core_se b))))).

(* key of the wrapped-region branch: (start [+ L if start < L/2], -len, product, core_start, core_end)
   (the two core components: repair of finding C17-K7 unique_crossing_same_product_set_order) *)
Definition wrapped_key_lt (rl : Z) (a b : feat) : bool :=
  let k (f : feat) := if 2 * fstart f <? rl then fstart f + rl else fstart f in
  (k a <? k b) ||
  ((k a =? k b) && ((- llen (floc a) <? - llen (floc b)) ||
                    ((- llen (floc a) =? - llen (floc b)) && pre_key_lt a b))).

(* protos: the set of protoclusters in its iteration order *)
Definition unique_protoclusters (rloc : loc) (protos : list feat) : list feat :=
  if negb (bridges rloc) then sort_by coll_lt (sort_by pre_key_lt protos)
  else sort_by (wrapped_key_lt (pe (first_part rloc))) protos.

(* the set built by the first three lines of get_unique_protoclusters:
     clusters = set(); for candidate in candidates: clusters.update(candidate.protoclusters)
   members: the protoclusters of the candidate clusters of the region, concatenated in the order of the
   candidates, a protocluster shared by several candidates occurring several times.  A Protocluster has no
   __eq__/__hash__ of its own, so the set de-duplicates by object identity; fid IS that identity (one number per
   object, the harness numbers the objects).  The iteration order of the set (identity hashes) is an input:
   order lists the identities in the order in which the set yields them; an identity missing from order comes
   after the listed ones (the sort is stable), so that proto_set is total and always a permutation of the
   de-duplicated members *)
Fixpoint dedupe_fid (l : list feat) : list feat :=
  match l with
  | [] => []
  | f :: rest => f :: filter (fun x => negb (fid x =? fid f)) (dedupe_fid rest)
  end.

Fixpoint rank (order : list Z) (i : Z) : Z :=
  match order with
  | [] => 0
  | x :: rest => if x =? i then 0 else 1 + rank rest i
  end.

Definition proto_set (order : list Z) (members : list feat) : list feat :=
  sort_by (fun a b => rank order (fid a) <? rank order (fid b)) (dedupe_fid members).

(* Region.get_unique_protoclusters as a whole *)
Definition get_unique_protoclusters (rloc : loc) (order : list Z) (members : list feat) : list feat :=
  unique_protoclusters rloc (proto_set order members).

(* ---------- Area ---------- *)
(* a_tool: the number standing for Area.tool (0 = empty string).  The harness gives every protocluster and
   every sub-region its own tool string t<fid>, so a_tool carries the identity of the drawn object into the
   output; a candidate cluster has no tool, its identity is its number in a_prod ("CC <n>: kind") *)
Record area := mkArea { a_kind : Z; a_start : Z; a_end : Z; a_ns : Z; a_ne : Z;
                        a_height : Z; a_group : Z; a_prod : Z; a_tool : Z }.

(* feature.tool as a number: result.tool is set for protoclusters and (not sideloaded) sub-regions only *)
Definition ftool (f : feat) : Z := if fkind f =? K_Cand then 0 else fid f.

Definition from_feature (f : feat) (height : Z) : area :=
  match fcore f with
  | Some core =>
    if fkind f =? K_Proto
    then mkArea (fkind f) (loc_fstart core) (loc_fend core) (fstart f) (fend f) height 0 (fprod f) (ftool f)
    else mkArea (fkind f) (fstart f) (fend f) (fstart f) (fend f) height 0 (fprod f) (ftool f)
  | None => mkArea (fkind f) (fstart f) (fend f) (fstart f) (fend f) height 0 (fprod f) (ftool f)
  end.

(* Area.crosses_origin: neighbouring_start >= neighbouring_end (an area is never empty: equal coordinates are an
   area covering the whole ring; repair of finding area_assert_cross_origin, F34b) *)
Definition area_crosses (a : area) : bool := a_ne a <=? a_ns a.

Definition set_start (a : area) (v : Z) := mkArea (a_kind a) v (a_end a) (a_ns a) (a_ne a) (a_height a) (a_group a) (a_prod a) (a_tool a).
Definition set_end (a : area) (v : Z) := mkArea (a_kind a) (a_start a) v (a_ns a) (a_ne a) (a_height a) (a_group a) (a_prod a) (a_tool a).
Definition set_ns (a : area) (v : Z) := mkArea (a_kind a) (a_start a) (a_end a) v (a_ne a) (a_height a) (a_group a) (a_prod a) (a_tool a).
Definition set_ne (a : area) (v : Z) := mkArea (a_kind a) (a_start a) (a_end a) (a_ns a) v (a_height a) (a_group a) (a_prod a) (a_tool a).
Definition set_group (a : area) (v : Z) := mkArea (a_kind a) (a_start a) (a_end a) (a_ns a) (a_ne a) (a_height a) v (a_prod a) (a_tool a).
Definition set_prod (a : area) (v : Z) := mkArea (a_kind a) (a_start a) (a_end a) (a_ns a) (a_ne a) (a_height a) (a_group a) v (a_tool a).

Definition area_offset (a : area) (d : Z) : area :=
  mkArea (a_kind a) (a_start a + d) (a_end a + d) (a_ns a + d) (a_ne a + d) (a_height a) (a_group a) (a_prod a) (a_tool a).

(* clone(): both the original and the copy carry the group id (g = id(self), never 0) *)
Definition with_group (a : area) (g : Z) : area := if a_group a =? 0 then set_group a g else a.

(* the core that adjust_cross_origin_area looks at: `if not isinstance(feature, Protocluster)` takes
   the generic branch for sub-regions AND candidate clusters (a Protocluster always has a core) *)
Definition proto_core (f : feat) : option loc := if fkind f =? K_Proto then fcore f else None.

(* adjust_cross_origin_area: returns the modified area and the optional extra area *)
Definition adjust_cross_origin_area (a : area) (f : feat) (region_crosses : bool) (length g : Z)
  : res (area * option area) :=
  if negb (fcrosses f && area_crosses a) then Err E_Value else
  match proto_core f with
  | None =>
    if region_crosses then
      let a1 := set_end a (a_end a + length) in
      Ok (set_ne a1 (a_end a1), None)
    else
      let a0 := with_group a g in
      let extra := set_ne (set_end (set_ns (set_start a0 0) 0) (fend f)) (fend f) in
      let a1 := set_end a0 length in
      Ok (set_ne a1 (a_end a1), Some extra)
  | Some core =>
    let cs := loc_fstart core in
    let ce := loc_fend core in
    if ce <=? cs then   (* if feature.core_start >= feature.core_end *)
      if region_crosses then
        Ok (set_ne (set_end a (a_end a + length)) (a_ne a + length), None)
      else
        let a0 := with_group a g in
        Ok (set_ne (set_end a0 length) length, Some (set_ns (set_start a0 0) 0))
    else if fstart f <=? cs then   (* elif feature.core_start >= feature.start *)
      if region_crosses then Ok (set_ne a (a_ne a + length), None)
      else
        let a0 := with_group a g in
        Ok (set_ne a0 length, Some (set_prod (set_ns (set_end (set_start a0 0) 0) 0) 0))
    else
      if region_crosses then
        Ok (set_ne (set_end (set_start a (a_start a + length)) (a_end a + length)) (a_ne a + length), None)
      else
        let a0 := with_group a g in
        Ok (set_ne (set_prod (set_end (set_start a0 length) length) 0) length, Some (set_ns a0 0))
  end.

(* ---------- build_area_rows ---------- *)
(* state of the closure: converted areas (in order) and the number of groups handed out *)
Definition add_area_from_feature (rloc : loc) (record_length : Z) (extend : bool)
  (height : Z) (st : list area * Z) (f : feat) : res (list area * Z) :=
  let '(converted, groups) := st in
  let new := from_feature f height in
  if extend && fcrosses f then
    if negb (area_crosses new) then Err E_Assert else
    do r <- adjust_cross_origin_area new f (bridges rloc) record_length (groups + 1);
    let '(new', extra) := r in
    match extra with
    | Some e => Ok (converted ++ [new'; e], groups + 1)
    | None => Ok (converted ++ [new'], groups)
    end
  else if extend && contains [last_part rloc] (floc f) then
    if bridges rloc then Ok (converted ++ [area_offset new record_length], groups)
    else Ok (converted ++ [new], groups)
  else Ok (converted ++ [new], groups).

Fixpoint add_row_features (rloc : loc) (n : Z) (extend : bool) (height : Z)
  (st : list area * Z) (fs : list feat) : res (list area * Z) :=
  match fs with
  | [] => Ok st
  | f :: more => do st' <- add_area_from_feature rloc n extend height st f;
                 add_row_features rloc n extend height st' more
  end.

Fixpoint add_rows (rloc : loc) (n : Z) (extend : bool) (height : Z)
  (st : list area * Z) (rows : list row) : res (list area * Z * Z) :=
  match rows with
  | [] => Ok (st, height)
  | r :: more => do st' <- add_row_features rloc n extend height st (r_contents r);
                 add_rows rloc n extend (height + 2) st' more
  end.

Definition extend_over_origin (rloc : loc) (n : Z) (circular : bool) : bool :=
  circular && (bridges rloc || ((loc_fstart rloc =? 0) && (loc_fend rloc =? n))).
Definition build_area_rows (rloc : loc) (record_length : Z) (circular : bool)
  (subs cands protos : list feat) : res (list area) :=
  let extend := extend_over_origin rloc record_length circular in
  do sub_rows <- pack subs (-1);
  let include := filter (fun c => nonempty subs || negb (fsingle c)) cands in
  do cand_rows <- pack include (-1);
  do proto_rows <- pack (unique_protoclusters rloc protos) (-1);
  do r1 <- add_rows rloc record_length extend 0 ([], 0) (cand_rows ++ sub_rows);
  let '(st, height) := r1 in
  let height := match fst st with [] => height + 1 | _ => height end in
  do r2 <- add_rows rloc record_length extend height st proto_rows;
  Ok (fst (fst r2)).

(* build_area_rows on a Region object: the protoclusters come from region.get_unique_protoclusters(), i.e. from
   the candidate clusters (build_area_rows above takes the set in its iteration order and sorts it) *)
Definition build_area_rows_region (rloc : loc) (record_length : Z) (circular : bool)
  (subs cands : list feat) (order : list Z) (members : list feat) : res (list area) :=
  build_area_rows rloc record_length circular subs cands (proto_set order members).

(* ---------- js.convert_regions / convert_cds_features: coordinate fields ---------- *)
Record orf := mkOrf { o_start : Z; o_end : Z; o_strand : Z; o_group : Z }.

Definition strand_or_1 (st : Z) : Z := if (st =? S_None) || (st =? 0) then 1 else st.

(* convert_cds_features, coordinate fields.  start/end: Feature.start + 1 / Feature.end; in an origin-crossing
   region each of the two is shifted by the record length when it lies after the origin, i.e. before
   region.start (`feature.start < region.start`, `feature.end <= region.start`, the end being exclusive).
   region_start / region_end: the ends of the region as drawn (region.start + 1, region.end [+ len(record)]).
   The gene is emitted as two linked halves, each reaching an end of the region, when it crosses the origin in a
   region that does not, or when start > end (it leaves the region at one end and returns at the other)
   (repairs of the findings gene_across_region_gap, F45, and gene_long_way_round, C19-K3) *)
Fixpoint convert_cds_features (rloc : loc) (n : Z) (groups : Z) (genes : list loc) : list orf :=
  match genes with
  | [] => []
  | g :: more =>
    let start := loc_fstart g + 1 in
    let end_ := loc_fend g in
    let region_start := loc_fstart rloc + 1 in
    let region_end := if bridges rloc then loc_fend rloc + n else loc_fend rloc in
    let '(start, end_) :=
      if bridges rloc then
        (if loc_fstart g <? loc_fstart rloc then start + n else start,
         if loc_fend g <=? loc_fstart rloc then end_ + n else end_)
      else (start, end_) in
    let st := strand_or_1 (lstrand g) in
    if (bridges g && negb (bridges rloc)) || (end_ <? start) then
      let grp := groups + 1 in
      let original := mkOrf start region_end (if lstrand g =? -1 then st else 0) grp in
      let extra := mkOrf region_start end_ (if lstrand g =? -1 then 0 else st) grp in
      original :: extra :: convert_cds_features rloc n grp more
    else mkOrf start end_ st 0 :: convert_cds_features rloc n groups more
  end.

(* (start, end) announced for the region *)
Definition region_range (rloc : loc) (n : Z) : res (Z * Z) :=
  if bridges rloc then
    if negb (ps (last_part rloc) =? 0) then Err E_Assert
    else Ok (loc_fstart rloc, n + pe (last_part rloc))
  else Ok (lstart rloc + 1, lend rloc).

Definition convert_region (rloc : loc) (n : Z) (circular : bool)
  (subs cands protos : list feat) (genes : list loc) : res (Z * Z * list orf * list area) :=
  do se <- region_range rloc n;
  let orfs := convert_cds_features rloc n 0 genes in
  do areas <- build_area_rows rloc n circular subs cands protos;
  Ok (fst se, snd se, orfs, areas).

(* ---------- decidable specification, evaluated on the implementation's output ---------- *)
(* the announced range in 0-based half-open coordinates *)
Definition range0 (rloc : loc) (n : Z) : Z * Z :=
  if bridges rloc then (loc_fstart rloc, n + pe (last_part rloc)) else (lstart rloc, lend rloc).

(* extent of every area inside the range, neighbouring_start <= neighbouring_end *)
Definition extent_ok (rng : Z * Z) (a : area) : bool :=
  (fst rng <=? a_ns a) && (a_ns a <=? a_ne a) && (a_ne a <=? snd rng).
(* start/end inside the extent and ordered *)
Definition chain_ok (a : area) : bool :=
  (a_ns a <=? a_start a) && (a_start a <=? a_end a) && (a_end a <=? a_ne a).

(* areas of one row (same height) have pairwise disjoint extents *)
Definition extents_disjoint (a b : area) : bool :=
  negb (a_height a =? a_height b) || (a_ne a <=? a_ns b) || (a_ne b <=? a_ns a).
Fixpoint pairwise {A} (ok : A -> A -> bool) (l : list A) : bool :=
  match l with
  | [] => true
  | x :: xs => forallb (ok x) xs && pairwise ok xs
  end.

(* every feature drawn once or as two linked consecutive halves: walks the output *)
Fixpoint count_drawn (n : Z) (k : Z) (l : list area) : option Z :=
  match l with
  | [] => Some 0
  | a :: rest =>
    if a_group a =? 0 then
      match count_drawn n k rest with
      | Some c => Some (if a_kind a =? k then c + 1 else c)
      | None => None
      end
    else
      match rest with
      | b :: rest' =>
        if (a_group b =? a_group a) && (a_kind b =? a_kind a) && (a_ne a =? n) && (a_ns b =? 0)
        then match count_drawn n k rest' with
             | Some c => Some (if a_kind a =? k then c + 1 else c)
             | None => None
             end
        else None
      | [] => None
      end
  end.

Definition count_kind (k : Z) (fs : list feat) : Z := zlen (filter (fun f => fkind f =? k) fs).

(* ---- drawn exactly once, by identity ---- *)
(* the identity of a feature and the identity an area carries: candidate clusters by their number (the product
   string "CC <n>: kind"), protoclusters and sub-regions by their tool string *)
Definition feat_tag (f : feat) : Z := if fkind f =? K_Cand then fprod f else fid f.
Definition area_tag (a : area) : Z := if a_kind a =? K_Cand then a_prod a else a_tool a.
Definition same_key (f : feat) (a : area) : bool := (a_kind a =? fkind f) && (area_tag a =? feat_tag f).

(* the areas drawn for the feature, in the order of the output *)
Definition occurrences (f : feat) (out : list area) : list area := filter (same_key f) out.

(* exactly one area without a group, or exactly two halves: same non-zero group, same height, the first one
   ending at the record end, the second one starting at 0 *)
Definition drawn_once_ok (n : Z) (out : list area) (f : feat) : bool :=
  match occurrences f out with
  | [a] => a_group a =? 0
  | [a; b] => negb (a_group a =? 0) && (a_group b =? a_group a) && (a_height b =? a_height a)
              && (a_ne a =? n) && (a_ns b =? 0)
  | _ => false
  end.

(* every expected feature is drawn exactly once (or as two halves), and nothing else is drawn *)
Definition identity_ok (n : Z) (expected : list feat) (out : list area) : bool :=
  forallb (drawn_once_ok n out) expected &&
  forallb (fun a => existsb (fun f => same_key f a) expected) out.

(* halves are linked PAIRWISE: a non-zero group value occurs on exactly two areas of the output *)
Definition group_size (g : Z) (out : list area) : Z := zlen (filter (fun a => a_group a =? g) out).
Definition groups_pairwise (out : list area) : bool :=
  forallb (fun a => (a_group a =? 0) || (group_size (a_group a) out =? 2)) out.

(* what a region has to show: the candidate clusters that are drawn, the sub-regions, and every protocluster of
   every candidate cluster once (by identity) *)
Definition expected_features (subs cands members : list feat) : list feat :=
  filter (fun c => nonempty subs || negb (fsingle c)) cands ++ subs ++ dedupe_fid members.

(* verdict: [all_ok; extent_ok; disjoint_ok; complete_ok; chain_ok_protoclusters_and_subregions;
             chain_ok_candidates; identity_ok; groups_pairwise]
   (the finding classes core_side_heuristic and candidate_end_unshifted were repaired in the code: no
   class flag is computed any more, a failing chain is a violation) *)
Definition spec_areas (rloc : loc) (n : Z) (circ : bool) (subs cands members : list feat) (out : list area) : list Z :=
  let protos := dedupe_fid members in
  let rng := range0 rloc n in
  let include := filter (fun c => nonempty subs || negb (fsingle c)) cands in
  let e := forallb (extent_ok rng) out in
  let d := pairwise extents_disjoint out in
  let c := match count_drawn n K_Proto out, count_drawn n K_Cand out, count_drawn n K_Sub out with
           | Some p, Some c, Some s =>
             (p =? zlen protos) && (c =? zlen include) && (s =? zlen subs)
           | _, _, _ => false
           end in
  let ch := forallb (fun a => (a_kind a =? K_Cand) || chain_ok a) out in
  let chc := forallb (fun a => negb (a_kind a =? K_Cand) || chain_ok a) out in
  let idn := identity_ok n (expected_features subs cands members) out in
  let grp := groups_pairwise out in
  eBool (e && d && c && ch && chc && idn && grp) ++ eBool e ++ eBool d ++ eBool c ++ eBool ch ++ eBool chc
  ++ eBool idn ++ eBool grp.

(* rows returned by pack: pairwise non-overlapping contents, and all areas placed exactly once
   (ids of the rows, concatenated and sorted, are the ids of the input, sorted) *)
Definition z_lt (a b : Z) : bool := a <? b.
Definition spec_rows (areas : list feat) (rows : list (Z * Z * list Z)) : list Z :=
  let find (i : Z) := find (fun f => fid f =? i) areas in
  let row_ok (r : Z * Z * list Z) :=
    pairwise (fun i j => match find i, find j with
                         | Some a, Some b => negb (overlap (floc a) (floc b))
                         | _, _ => false end) (snd r) in
  let d := forallb row_ok rows in
  let c := list_eqb Z.eqb (sort_by z_lt (flat_map (fun r => snd r) rows))
                          (sort_by z_lt (map fid areas)) in
  eBool (d && c) ++ eBool d ++ eBool c.

(* genes inside the announced range (1-based start, inclusive end), halves linked *)
Definition spec_orfs (se : Z * Z) (wrapped : bool) (orfs : list orf) : bool :=
  forallb (fun o => ((if wrapped then fst se + 1 else fst se) <=? o_start o)
                    && (o_start o <=? o_end o + 1) && (o_end o <=? snd se)) orfs.

(* the parts that carry Feature.start / Feature.end *)
Definition start_part (l : loc) : part := if lstrand l =? -1 then last_part l else first_part l.
Definition end_part (l : loc) : part := if lstrand l =? -1 then first_part l else last_part l.

(* ---------- encoding ---------- *)
Definition dFeat : dec feat := fun l =>
  match l with
  | i :: k :: r =>
    match dLoc r with
    | Some (lo, r1) =>
      match dOpt dLoc r1 with
      | Some (co, s :: p :: r2) => Some (mkFeat i k lo co (negb (s =? 0)) p, r2)
      | _ => None
      end
    | None => None
    end
  | _ => None
  end.

Definition dArea : dec area := fun l =>
  match l with
  | k :: s :: e :: ns :: ne :: h :: g :: p :: t :: r => Some (mkArea k s e ns ne h g p t, r)
  | _ => None
  end.
Definition dOrf : dec orf := fun l =>
  match l with a :: b :: c :: d :: r => Some (mkOrf a b c d, r) | _ => None end.
Definition dRowOut : dec (Z * Z * list Z) := dPair (dPair dZ dZ) (dList dZ).

Definition eArea (a : area) : list Z :=
  [a_kind a; a_start a; a_end a; a_ns a; a_ne a; a_height a; a_group a; a_prod a; a_tool a].
Definition eAreas (l : list area) : list Z := eList eArea l.
Definition eOrf (o : orf) : list Z := [o_start o; o_end o; o_strand o; o_group o].
Definition eRow (r : row) : list Z := [r_start r; r_end r] ++ eList (fun f => [fid f]) (r_contents r).
Definition eRows (l : list row) : list Z := eList eRow l.

(* payload of build_area_rows: N circular region_loc subs cands members order
   (members: the protoclusters of the candidate clusters, concatenated; order: identities in set order) *)
Definition dRegion : dec (Z * bool * loc * list feat * list feat * list feat * list Z) :=
  dPair (dPair (dPair (dPair (dPair (dPair dZ dBool) dLoc) (dList dFeat)) (dList dFeat)) (dList dFeat)) (dList dZ).

(* result ::= 0 value | 1 kind *)
Definition dResHead (l : list Z) : option (option Z * list Z) :=
  match l with
  | 0 :: r => Some (None, r)
  | 1 :: k :: r => Some (Some k, r)
  | _ => None
  end.

Definition run_C19 (fn : Z) (l : list Z) : list Z :=
  match fn with
  | 1 => (* pack(areas, length) *)
    match dPair dZ (dList dFeat) l with
    | Some ((len, areas), []) => eRes eRows (pack areas len)
    | _ => bad_input end
  | 2 => (* build_area_rows *)
    match dRegion l with
    | Some ((n, circ, rloc, subs, cands, members, order), []) =>
      eRes eAreas (build_area_rows_region rloc n circ subs cands order members)
    | _ => bad_input end
  | 3 => (* convert_regions: start, end, orfs, clusters of one region *)
    match dPair dRegion (dList dLoc) l with
    | Some ((n, circ, rloc, subs, cands, members, order, genes), []) =>
      eRes (fun r => let '(s, e, orfs, areas) := r in [s; e] ++ eList eOrf orfs ++ eAreas areas)
           (convert_region rloc n circ subs cands (proto_set order members) genes)
    | _ => bad_input end
  | 11 => (* spec of pack on the implementation's output *)
    match dPair dZ (dList dFeat) l with
    | Some ((len, areas), out) =>
      match dResHead out with
      | Some (Some _, []) => [1; 1; 1]      (* an exception: nothing to check *)
      | Some (None, r) =>
        match dList dRowOut r with
        | Some (rows, []) => spec_rows areas rows
        | _ => bad_input end
      | _ => bad_input end
    | _ => bad_input end
  | 12 => (* spec of build_area_rows on the implementation's output *)
    match dRegion l with
    | Some ((n, circ, rloc, subs, cands, members, order), out) =>
      match dResHead out with
      | Some (Some _, []) => [1; 1; 1; 1; 1; 1; 1; 1]
      | Some (None, r) =>
        match dList dArea r with
        | Some (areas, []) => spec_areas rloc n circ subs cands members areas
        | _ => bad_input end
      | _ => bad_input end
    | _ => bad_input end
  | 13 => (* spec of convert_regions on the implementation's output *)
    match dPair dRegion (dList dLoc) l with
    | Some ((n, circ, rloc, subs, cands, members, order, genes), out) =>
      match dResHead out with
      | Some (Some _, []) => [1; 1; 1; 1; 1; 1; 1; 1; 1]
      | Some (None, s :: e :: r) =>
        match dPair (dList dOrf) (dList dArea) r with
        | Some ((orfs, areas), []) =>
          spec_areas rloc n circ subs cands members areas
          ++ eBool (spec_orfs (s, e) (bridges rloc) orfs)
        | _ => bad_input end
      | _ => bad_input end
    | _ => bad_input end
  | _ => bad_input
  end.
